#!/bin/sh
# regenerate _CoqProject (every .v under theories/) and the Makefile when the file list changed
cd "$(dirname "$0")"
mkdir -p ../driver/gen
{
  echo "-Q theories Batchie"
  echo "-arg -w -arg -notation-overridden,-deprecated-hint-without-locality,-extraction-opaque-accessed"
  find theories -name '*.v' | LC_ALL=C sort
} > _CoqProject.new
if ! cmp -s _CoqProject.new _CoqProject || [ ! -f Makefile ]; then
  mv _CoqProject.new _CoqProject
  coq_makefile -f _CoqProject -o Makefile >/dev/null
else
  rm -f _CoqProject.new
fi
