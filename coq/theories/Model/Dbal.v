(* C05 model: batchie.scoring.gaussian_dbal over exact rationals Qc, ln/exp as oracles.
   No proofs here.

   Transcribed:
     pad_ragged_arrays_to_dense_array (57-75)        -> pad_ragged  (pad_means: 0, pad_vars: NaN = None); its dtype -> pad_dtype
     dbal_fast_gauss_scoring_vectorized (166-258)    -> kernel (pure) / kernel_checked (with the ValueErrors)
     dbal_fast_gaussian_scoring_heteroscedastic      -> hetero / hetero_checked
     dbal_fast_gaussian_scoring_homoscedastic        -> homo / homo_checked
     GaussianDBALScorer.score (261-339)              -> scorer / scorer_checked
     scipy.special.logsumexp (installed 1.17.1)      -> logsumexp
     np.array_split                                  -> array_split
   and [direct]: the documented estimator as a plain double loop (triples, experiments) for ONE
   plate, unpadded, with no reference to any other plate.

   Arrays are lists of lists; every numpy expression of the kernel is defined pointwise
   (array element by array element) through [get2]/[get3], one definition per named array of
   the Python code, the reduced axes are [seq 0 <axis length>].  NaN exists only as the padding
   value of the variance array ([None]); -inf exists only as log(0) of a zero summed triple
   distance ([None] of [ext]); every other float is a finite rational.

   Abstracted: rng.choice + unranking produce the list of triples [ts] (the harness records the
   draw; [triples_of_draw] applies the modelled unranking of Model/Unrank.v to it);
   distance_factor [df] is assumed > 0 (so that df * -inf = -inf); floating-point rounding of
   + - * / (the model computes the real-number value); tqdm; dict insertion order is the list
   order.  Padding keeps every plate's values exactly (one element type for all arrays): true of
   the code since the dense array is allocated with np.result_type over ALL the arrays and the pad
   value ([pad_dtype], end of this file; before that repair the dense array took the dtype of the
   FIRST plate and rounded the others: [pad_dtype_of true], kept only to be refuted).  predict_mean_all / predict_variance_all are the identity on the prescribed rows
   (exercised through the real functions by the harness).
   Error tags: 20 variances.shape != predictions.shape, 21 D not square, 22 D size != n_thetas,
   23 fewer than 3 thetas, 24 plate mean/variance shape mismatch, 25 homoscedastic n_plates
   mismatch, 26 homoscedastic n_thetas mismatch, 9/8 unranking failure (Model/Unrank.v). *)
From Coq Require Import ZArith List QArith Qcanon Arith.
From Batchie Require Import Lib.Sexp Lib.Num Model.Unrank.
Import ListNotations.
Open Scope Qc_scope.

Definition triple := (nat * nat * nat)%type.
Definition ext := option Qc.                                   (* None = -inf *)
Definition plate := (list (list Qc) * list (list Qc))%type.    (* means, variances : n_thetas x n_exp *)

Definition get2 {A} (d : A) (a : list (list A)) (i j : nat) : A := nth j (nth i a []) d.
Definition get3 {A} (d : A) (a : list (list (list A))) (p i j : nat) : A := get2 d (nth p a []) i j.
Definition shape2 {A} (a : list (list A)) : nat * nat := (length a, length (hd [] a)).
Definition shape3 {A} (a : list (list (list A))) : nat * nat * nat :=
  (length a, length (hd [] a), length (hd [] (hd [] a))).
Definition shape2_eqb (s t : nat * nat) : bool := Nat.eqb (fst s) (fst t) && Nat.eqb (snd s) (snd t).

(* ---- pad_ragged_arrays_to_dense_array ----
   max_sizes = np.max([shape ...], axis=0); result = pad * ones((len, *max_sizes));
   result[i, :shape0, :shape1] = array *)
Definition max_list (l : list nat) : nat := fold_right Nat.max 0%nat l.
Definition pad_row {A} (pad : A) (w : nat) (r : list A) : list A := r ++ repeat pad (w - length r).
Definition pad2 {A} (pad : A) (h w : nat) (a : list (list A)) : list (list A) :=
  map (pad_row pad w) a ++ repeat (repeat pad w) (h - length a).
Definition pad_ragged {A} (pad : A) (arrays : list (list (list A))) : list (list (list A)) :=
  let h := max_list (map (fun a => fst (shape2 a)) arrays) in
  let w := max_list (map (fun a => snd (shape2 a)) arrays) in
  map (pad2 pad h w) arrays.

Definition pad_means (ms : list (list (list Qc))) : list (list (list Qc)) := pad_ragged 0 ms.
Definition pad_vars (vs : list (list (list Qc))) : list (list (list (option Qc))) :=
  pad_ragged None (map (map (map Some)) vs).

(* ---- np.array_split(l, k): divmod(n, k) -> [q+1]*r ++ [q]*(k-r) ---- *)
Fixpoint take_sizes {A} (l : list A) (sizes : list nat) : list (list A) :=
  match sizes with
  | [] => []
  | s :: r => firstn s l :: take_sizes (skipn s l) r
  end.
Definition array_split {A} (l : list A) (k : nat) : list (list A) :=
  let n := length l in
  let q := (n / k)%nat in
  let r := (n mod k)%nat in
  take_sizes l (repeat (S q) r ++ repeat q (k - r)).
(* np.ceil(n / m), m >= 1 *)
Definition ceil_div (n m : nat) : nat := ((n + m - 1) / m)%nat.

(* ---- rng.choice result -> triples through the modelled unranking ---- *)
Definition triple_of_index (T : nat) (ix : Z) : result triple :=
  dor l <- unrank ix (Z.of_nat T) 3;
  match l with
  | [a; b; c] => Ok (Z.to_nat a, Z.to_nat b, Z.to_nat c)
  | _ => Err 9%Z
  end.
Definition triples_of_draw (T : nat) (idxs : list Z) : result (list triple) :=
  res_map_all (triple_of_index T) idxs.

Definition qmax (a b : Qc) : Qc := if qltb a b then b else a.
Definition half : Qc := Q2Qc (1 # 2).

Section Dbal.
Variable orc : oracle.
Definition ln : Qc -> Qc := orc ORC_LN.
Definition exp : Qc -> Qc := orc ORC_EXP.

(* ---- scipy.special.logsumexp (1.17.1, _logsumexp) along the triple axis ----
   a_max = max(a); the elements equal to a_max are set to -inf and counted (m);
   s = sum(exp(a - a_max)) (exp(-inf) = 0 exactly); s = s/m unless s == 0;
   out = log1p(s) + log(m) + a_max.  If a_max = -inf the result is not finite and is replaced
   by log(sum(exp(a))) = log(0) = -inf.  log1p(s) is rendered as ln(1 + s).
   In real arithmetic this is log(sum(exp(a_i - a_max))) + a_max. *)
Definition ext_max (l : list ext) : ext :=
  fold_right (fun a m => match a, m with
                         | None, _ => m
                         | Some x, None => Some x
                         | Some x, Some y => Some (qmax x y)
                         end) None l.
Definition lse_shifted (amax : Qc) (a : ext) : Qc :=
  match a with
  | None => 0
  | Some x => if qeqb x amax then 0 else exp (x - amax)
  end.
Definition lse_ismax (amax : Qc) (a : ext) : bool :=
  match a with None => false | Some x => qeqb x amax end.
Definition logsumexp (l : list ext) : ext :=
  match ext_max l with
  | None => None
  | Some amax =>
      let m := qlen (filter (lse_ismax amax) l) in
      let s := qsum (map (lse_shifted amax) l) in
      let s := if qeqb s 0 then s else s / m in
      Some (ln (1 + s) + ln m + amax)
  end.

(* ---- dbal_fast_gauss_scoring_vectorized, one definition per array of the code ---- *)
Section Kernel.
Variable pred : list (list (list Qc)).            (* predictions (n_plates, n_thetas, E) *)
Variable vars : list (list (list (option Qc))).   (* variances, NaN-padded *)
Variable D : list (list Qc).                      (* distance_matrix *)
Variable df : Qc.                                 (* distance_factor *)

(* mask = ~np.isnan(variances) ; padded_variances = np.nan_to_num(variances, nan=1.0) *)
Definition k_mask (p i e : nat) : Qc := match get3 None vars p i e with Some _ => 1 | None => 0 end.
Definition k_pv (p i e : nat) : Qc := match get3 None vars p i e with Some v => v | None => 1 end.
Definition k_mu (p i e : nat) : Qc := get3 0 pred p i e.

(* log_triple_dists = distance_factor * np.log(D[idx1,idx2] + D[idx2,idx3] + D[idx1,idx3]) *)
Definition k_dsum (t : triple) : Qc :=
  let '(i1, i2, i3) := t in get2 0 D i1 i2 + get2 0 D i2 i3 + get2 0 D i1 i3.
Definition k_ltd (t : triple) : ext :=
  if qeqb (k_dsum t) 0 then None else Some (df * ln (k_dsum t)).

Definition k_alpha (p : nat) (t : triple) (e : nat) : Qc :=
  let '(i1, i2, i3) := t in
  k_pv p i1 e * k_pv p i2 e + k_pv p i2 e * k_pv p i3 e + k_pv p i1 e * k_pv p i3 e.
Definition k_exp_factor (p : nat) (t : triple) (e : nat) : Qc :=
  let '(i1, i2, i3) := t in
  half * (k_pv p i1 e * k_pv p i2 e * k_pv p i3 e) / qsq (k_alpha p t e).
(* log_norm_factor = np.sum(mask[:, idx1, :] * 0.5 * np.log(1.0 / alpha), axis=-1) *)
Definition k_log_norm (E p : nat) (t : triple) : Qc :=
  let '(i1, _, _) := t in
  qsum (map (fun e => k_mask p i1 e * half * ln (1 / k_alpha p t e)) (seq 0 E)).
Definition k_d12 (p : nat) (t : triple) (e : nat) : Qc :=
  let '(i1, i2, i3) := t in k_pv p i3 e * qsq (k_mu p i1 e - k_mu p i2 e).
Definition k_d13 (p : nat) (t : triple) (e : nat) : Qc :=
  let '(i1, i2, i3) := t in k_pv p i2 e * qsq (k_mu p i1 e - k_mu p i3 e).
Definition k_d23 (p : nat) (t : triple) (e : nat) : Qc :=
  let '(i1, i2, i3) := t in k_pv p i1 e * qsq (k_mu p i2 e - k_mu p i3 e).
(* ll = np.sum(-exp_factor * (d12 + d13 + d23), axis=-1) *)
Definition k_ll (E p : nat) (t : triple) : Qc :=
  qsum (map (fun e => - k_exp_factor p t e * (k_d12 p t e + k_d13 p t e + k_d23 p t e)) (seq 0 E)).
(* log_norm_factor + ll + log_triple_dists[np.newaxis, :] ; x + -inf = -inf *)
Definition k_summand (E p : nat) (t : triple) : ext :=
  match k_ltd t with
  | None => None
  | Some l => Some (k_log_norm E p t + k_ll E p t + l)
  end.
(* scores = logsumexp(..., axis=1) *)
Definition kernel (ts : list triple) : list ext :=
  let '(n_plates, _, E) := shape3 pred in
  map (fun p => logsumexp (map (k_summand E p) ts)) (seq 0 n_plates).
End Kernel.

(* the ValueErrors of the kernel; idxs = recorded rng.choice(comb(n,3), size=min(.., max_combos)) *)
Definition kernel_checked pred vars (D : list (list Qc)) df (idxs : list Z) : result (list ext) :=
  let '(n_plates, T, E) := shape3 pred in
  let '(n_plates', T', E') := shape3 vars in
  if negb (Nat.eqb n_plates n_plates' && Nat.eqb T T' && Nat.eqb E E') then Err 20%Z
  else if negb (Nat.eqb (fst (shape2 D)) (snd (shape2 D))) then Err 21%Z
  else if negb (Nat.eqb (fst (shape2 D)) T) then Err 22%Z
  else if Nat.ltb T 3 then Err 23%Z
  else dor ts <- triples_of_draw T idxs; Ok (kernel pred vars D df ts).

(* ---- wrappers ---- *)
Definition hetero (plates : list plate) D df ts : list ext :=
  kernel (pad_means (map fst plates)) (pad_vars (map snd plates)) D df ts.
Definition hetero_checked (plates : list plate) D df idxs : result (list ext) :=
  if negb (forallb (fun pl => shape2_eqb (shape2 (fst pl)) (shape2 (snd pl))) plates) then Err 24%Z
  else kernel_checked (pad_means (map fst plates)) (pad_vars (map snd plates)) D df idxs.

(* plate_variances[:, None] * np.ones((n_thetas, n_experiments)) *)
Definition homo_expand (mu : list (list Qc)) (v : list Qc) : list (list Qc) :=
  map (fun x => repeat (x * 1) (snd (shape2 mu))) v.
Definition homo (preds : list (list (list Qc))) (variances : list (list Qc)) D df ts : list ext :=
  kernel (pad_means preds)
         (pad_vars (map (fun pv => homo_expand (fst pv) (snd pv)) (combine preds variances))) D df ts.
Definition homo_checked (preds : list (list (list Qc))) (variances : list (list Qc)) D df idxs
  : result (list ext) :=
  if negb (Nat.eqb (length preds) (fst (shape2 variances))) then Err 25%Z
  else if negb (forallb (fun mu => Nat.eqb (fst (shape2 mu)) (snd (shape2 variances))) preds) then Err 26%Z
  else kernel_checked (pad_means preds)
         (pad_vars (map (fun pv => homo_expand (fst pv) (snd pv)) (combine preds variances))) D df idxs.

(* ---- GaussianDBALScorer.score ----
   n_subs = ceil(len(plates)/max_chunk); groups = array_split(keys, n_subs); per group: pad,
   kernel (its own rng.choice draw), result.update(zip(group keys, vals)).  distance_factor = 1. *)
Definition scorer (max_chunk : nat) (plates : list (Z * plate)) D (draws : list (list triple))
  : list (Z * ext) :=
  let groups := array_split plates (ceil_div (length plates) max_chunk) in
  flat_map (fun gd => combine (map fst (fst gd)) (hetero (map snd (fst gd)) D 1 (snd gd)))
           (combine groups draws).
Definition scorer_checked (max_chunk : nat) (plates : list (Z * plate)) D (draws : list (list Z))
  : result (list (Z * ext)) :=
  match plates with
  | [] => Ok []
  | _ =>
      let groups := array_split plates (ceil_div (length plates) max_chunk) in
      dor rs <- res_map_all (fun gd => dor v <- hetero_checked (map snd (fst gd)) D 1 (snd gd);
                                        Ok (combine (map fst (fst gd)) v))
                            (combine groups draws);
      Ok (concat rs)
  end.

(* ---- the documented estimator, directly, for one plate ----
   score(P) = log sum_{triples (i1,i2,i3)} (d12+d23+d13)^df * prod_{e in P} N-triple-term(e)
   evaluated in log space: for every triple, sum over the plate's experiments of
   (1/2) ln(1/alpha) and of -(1/2) v1 v2 v3 / alpha^2 * (v3 (m1-m2)^2 + v2 (m1-m3)^2 + v1 (m2-m3)^2),
   plus df * ln(summed distance); log-sum-exp over the triples. *)
Definition triple_term (v1 v2 v3 m1 m2 m3 : Qc) : Qc * Qc :=
  let a := v1 * v2 + v2 * v3 + v1 * v3 in
  (half * ln (1 / a),
   - (half * (v1 * v2 * v3) / qsq a) * (v3 * qsq (m1 - m2) + v2 * qsq (m1 - m3) + v1 * qsq (m2 - m3))).
Definition direct_exp_term (pl : plate) (t : triple) (e : nat) : Qc * Qc :=
  let '(i1, i2, i3) := t in
  let m i := get2 0 (fst pl) i e in
  let v i := get2 0 (snd pl) i e in
  triple_term (v i1) (v i2) (v i3) (m i1) (m i2) (m i3).
Definition direct_summand (D : list (list Qc)) (df : Qc) (pl : plate) (t : triple) : ext :=
  let '(i1, i2, i3) := t in
  let dsum := get2 0 D i1 i2 + get2 0 D i2 i3 + get2 0 D i1 i3 in
  if qeqb dsum 0 then None
  else
    let n_exp := snd (shape2 (fst pl)) in
    let terms := map (direct_exp_term pl t) (seq 0 n_exp) in
    Some (qsum (map fst terms) + qsum (map snd terms) + df * ln dsum).
Definition direct (D : list (list Qc)) (df : Qc) (ts : list triple) (pl : plate) : ext :=
  logsumexp (map (direct_summand D df pl) ts).
End Dbal.

(* ==== vocabulary of the source-translation links (harness/src_functions.py, C05_*; no proofs) ====
   What the Gallina translations of GaussianDBALScorer.score, dbal_fast_gaussian_scoring_heteroscedastic /
   _homoscedastic, pad_ragged_arrays_to_dense_array and the index-to-triple run of
   dbal_fast_gauss_scoring_vectorized are written in.  One definition per attribute / numpy / library call.
   Further error tags: 27 np.max of an empty list (pad of no arrays), 28 "Expected {} plates to be scored",
   30 ZeroDivisionError (len / max_chunk), 31 np.array_split "number sections must be larger than 0",
   32 `|` of arrays of different lengths, 33 unpacking an empty zip into three names, 34 rng.choice with a negative size,
   97 no recorded answer left / recorded answer outside numpy's contract (not a Python behaviour). *)
Definition arr2 := list (list Qc).                       (* a 2-d float array (n_thetas x n_experiments) *)
Definition arr3 := list (list (list Qc)).                (* a dense 3-d float array without NaN *)
Definition arr3n := list (list (list (option Qc))).      (* a dense 3-d float array, None = NaN *)
Definition qc := Qc.
Definition one_q : Qc := 1.                              (* distance_factor's default 1.0 *)
Definition tqdm_t := unit.                               (* a tqdm progress bar: nothing is read from it *)

(* A ScreenSubset as GaussianDBALScorer.score sees it: its selection_vector and what predict_mean_all /
   predict_variance_all return for it with the `samples` of the call *)
Definition pyplate := (list bool * plate)%type.
Definition pp_sel (p : pyplate) : list bool := fst p.
Definition pp_means (p : pyplate) : arr2 := fst (snd p).
Definition pp_vars (p : pyplate) : arr2 := snd (snd p).

(* np.ceil(a / b), a b Python ints: ZeroDivisionError for b = 0, else the ceiling of the quotient = -floor(-a / b) *)
Definition np_ceil_div (a b : Z) : result Z :=
  if (b =? 0)%Z then Err 30%Z else Ok (- ((- a) / b))%Z.
(* np.array_split(l, n) with n a number: int(n) sections, ValueError unless positive *)
Definition np_array_split {A} (l : list A) (n : Z) : result (list (list A)) :=
  if (n <=? 0)%Z then Err 31%Z else Ok (array_split l (Z.to_nat n)).
(* a | b on 1-d bool arrays of one length (broadcasting of a length-1 operand is not represented) *)
Definition np_or_vec (a b : list bool) : result (list bool) :=
  if Nat.eqb (length a) (length b) then Ok (map (fun ab => orb (fst ab) (snd ab)) (combine a b)) else Err 32%Z.
(* a.shape != b.shape on 2-d arrays *)
Definition shape_ne {A B} (a : list (list A)) (b : list (list B)) : bool := negb (shape2_eqb (shape2 a) (shape2 b)).
(* pad_ragged_arrays_to_dense_array(arrays, pad_value=0.0 / np.nan): np.max([...]) of no arrays is a ValueError *)
Definition pad_means_py (ms : list arr2) : result arr3 :=
  match ms with [] => Err 27%Z | _ => Ok (pad_means ms) end.
Definition pad_vars_py (vs : list arr2) : result arr3n :=
  match vs with [] => Err 27%Z | _ => Ok (pad_vars vs) end.
(* one call of dbal_fast_gauss_scoring_vectorized: it consumes the next recorded rng.choice answer *)
Definition kernel_call (orc : oracle) (pred : arr3) (vars : arr3n) (D : arr2) (df : Qc) (draws : list (list Z))
  : result (list ext * list (list Z)) :=
  match draws with
  | [] => Err 97%Z
  | idxs :: rest => dor v <- kernel_checked orc pred vars D df idxs; Ok (v, rest)
  end.

(* GaussianDBALScorer.score for ANY integer max_chunk: len(plates) / 0 is a ZeroDivisionError, a negative max_chunk
   makes n_subs <= 0 and np.array_split raise; otherwise the model scorer.  [forget_sel]: the model's plates are the
   (means, variances) of the ScreenSubsets (their selection vectors only feed an unused mask). *)
Definition scorer_py (orc : oracle) (max_chunk : Z) (plates : list (Z * plate)) (D : arr2) (draws : list (list Z))
  : result (list (Z * ext)) :=
  match plates with
  | [] => Ok []
  | _ => if (max_chunk =? 0)%Z then Err 30%Z
         else if (max_chunk <? 0)%Z then Err 31%Z
         else scorer_checked orc (Z.to_nat max_chunk) plates D draws
  end.
Definition forget_sel (plates : list (Z * pyplate)) : list (Z * plate) :=
  map (fun kp => (fst kp, snd (snd kp))) plates.

(* ---- vocabulary of the translations of the dbal_fast_* wrappers and of pad_ragged_arrays_to_dense_array ---- *)
(* np.array(a.shape) of a 2-d array *)
Definition shape2z {A} (a : list (list A)) : Z * Z := (Z.of_nat (fst (shape2 a)), Z.of_nat (snd (shape2 a))).
Definition dim0 {A} (a : list (list A)) : Z := Z.of_nat (fst (shape2 a)).       (* a.shape[0], a 2-d *)
Definition dim1 {A} (a : list (list A)) : Z := Z.of_nat (snd (shape2 a)).       (* a.shape[1], a 2-d *)
(* np.max(l, axis=0) of a list of pairs: the pair of the column maxima; ValueError (tag 27) on no rows *)
Definition np_max_axis0 (l : list (Z * Z)) : result (Z * Z) :=
  match l with
  | [] => Err 27%Z
  | x :: r => Ok (fold_left Z.max (map fst r) (fst x), fold_left Z.max (map snd r) (snd x))
  end.
(* pad_value * np.ones((n, h, w)): the constant array *)
Definition np_full3 {A} (v : A) (n : nat) (hw : Z * Z) : list (list (list A)) :=
  repeat (repeat (repeat v (Z.to_nat (snd hw))) (Z.to_nat (fst hw))) n.
(* result[i, :a.shape[0], :a.shape[1]] = a : the cells (i, r, c) with r, c inside a take a's values *)
Definition overlay_row {A} (src dst : list A) : list A := src ++ skipn (length src) dst.
Fixpoint overlay2 {A} (src dst : list (list A)) : list (list A) :=
  match src, dst with
  | [], _ => dst
  | r :: src', d :: dst' => overlay_row r d :: overlay2 src' dst'
  | _ :: _, [] => []
  end.
Definition set_block {A} (res : list (list (list A))) (i : Z) (a : list (list A)) : list (list (list A)) :=
  let j := Z.to_nat i in
  firstn j res ++ match skipn j res with [] => [] | d :: r => overlay2 a d :: r end.
(* v[:, None] * np.ones((n, e)) for a 1-d v with n = len(v) (broadcasting against another row count is not
   represented: tag 35 is then not a Python behaviour; the translated function always passes n = v.shape[0]) *)
Definition np_col_times_ones (v : list Qc) (n e : Z) : result arr2 :=
  if (Z.of_nat (length v) =? n)%Z then Ok (map (fun x => repeat (x * 1) (Z.to_nat e)) v) else Err 35%Z.

(* ---- vocabulary of the translations of the two non-numeric statement runs of dbal_fast_gauss_scoring_vectorized:
   the three shape checks, and the run from `n_plates, n_thetas, ... = predictions.shape` to `idx3 = np.array(idx3)` ---- *)
Definition shape3_ne {A B} (a : list (list (list A))) (b : list (list (list B))) : bool :=     (* a.shape != b.shape, 3-d *)
  let '(p, t, e) := shape3 a in let '(p', t', e') := shape3 b in
  negb (Nat.eqb p p' && Nat.eqb t t' && Nat.eqb e e').
Definition shape3z {A} (a : list (list (list A))) : Z * Z * Z :=                               (* a.shape, 3-d *)
  let '(p, t, e) := shape3 a in (Z.of_nat p, Z.of_nat t, Z.of_nat e).
Definition dim3_1 {A} (a : list (list (list A))) : Z := Z.of_nat (snd (fst (shape3 a))).       (* a.shape[1], 3-d *)
(* scipy.special.comb(n, 3, exact=True) *)
Definition comb3 (n : Z) : Z := if (n <? 3)%Z then 0%Z else (n * (n - 1) * (n - 2) / 6)%Z.
(* numpy's contract for rng.choice(n, size=k, replace=False): k distinct values of range(n) *)
Fixpoint zdistinct (l : list Z) : bool :=
  match l with [] => true | x :: r => negb (existsb (Z.eqb x) r) && zdistinct r end.
Definition choice_ok (n k : Z) (d : list Z) : bool :=
  (Z.of_nat (length d) =? k)%Z && forallb (fun x => (0 <=? x)%Z && (x <? n)%Z) d && zdistinct d.
(* rng.choice(n, size=k, replace=False): ValueError for a negative size (34) or a sample larger than the population (36);
   otherwise the next recorded answer, refused (97) unless it obeys the contract *)
Definition rng_choice (n k : Z) (draws : list (list Z)) : result (list Z * list (list Z)) :=
  if (k <? 0)%Z then Err 34%Z
  else if (n <? k)%Z then Err 36%Z
  else match draws with
       | [] => Err 97%Z
       | d :: rest => if choice_ok n k d then Ok (d, rest) else Err 97%Z
       end.
(* get_combination_at_sorted_index(i, n, 3) = tuple(generate_combination_at_sorted_index(i, n, 3)): Model/Unrank.v *)
Definition unrank3 (i n : Z) : result (Z * Z * Z) :=
  dor l <- unrank i n 3;
  match l with [a; b; c] => Ok (a, b, c) | _ => Err 9%Z end.
(* idx1, idx2, idx3 = zip( *rows ): the three columns; unpacking an empty zip is a ValueError *)
Definition unzip3 (l : list (Z * Z * Z)) : result (list Z * list Z * list Z) :=
  match l with
  | [] => Err 33%Z
  | _ => Ok (map (fun t => fst (fst t)) l, map (fun t => snd (fst t)) l, map (fun t => snd t) l)
  end.
(* the (idx1, idx2, idx3) index arrays as the model's list of triples *)
Fixpoint zip3_nat (a b c : list Z) : list triple :=
  match a, b, c with
  | x :: a', y :: b', z :: c' => (Z.to_nat x, Z.to_nat y, Z.to_nat z) :: zip3_nat a' b' c'
  | _, _, _ => []
  end.
Definition nat_triples (idx : list Z * list Z * list Z) : list triple :=
  zip3_nat (fst (fst idx)) (snd (fst idx)) (snd idx).

(* ---- the dtype of the dense array pad_ragged_arrays_to_dense_array allocates (repair fx2) ----
   Everything above takes array elements as exact values of one type A: storing a plate into the dense array keeps its
   values.  numpy does that only if the dense array's dtype holds the plate's dtype (`result[i, :h, :w] = array` rounds
   to the dtype of `result`).  This is the dtype-level reading of the allocation
       pad_value * np.ones((len(arrays), *max_sizes), dtype=<E>)
   for floating-point arrays, ordered by precision.  pad_value is a Python float: in np.result_type (and in the product
   with the ones) it is a value-cast / weak scalar and never changes the dtype of a floating-point array.
     <E> = np.result_type( *arrays, pad_value)   [first_only = false]  the repaired code: the join of ALL the dtypes
     <E> = arrays[0].dtype                       [first_only = true]   the code before the repair
   No arrays: np.max([]) raises before the allocation (tag 27, as np_max_axis0). *)
Inductive fdtype := F16 | F32 | F64.
Definition dt_rank (d : fdtype) : nat := match d with F16 => 0 | F32 => 1 | F64 => 2 end.
Definition dt_le (a b : fdtype) : bool := Nat.leb (dt_rank a) (dt_rank b).     (* b holds every value of a exactly *)
Definition dt_join (a b : fdtype) : fdtype := if dt_le a b then b else a.        (* np.result_type(a, b) *)
Definition pad_dtype_of (first_only : bool) (ds : list fdtype) : result fdtype :=
  match ds with
  | [] => Err 27%Z
  | d :: r => Ok (if first_only then d else fold_left dt_join r d)
  end.
Definition pad_dtype : list fdtype -> result fdtype := pad_dtype_of false.       (* the code *)
(* plate number k of a call whose arrays have the dtypes ds is stored without rounding *)
Definition stored_exactly (dense : fdtype) (ds : list fdtype) (k : nat) : bool :=
  match nth_error ds k with Some d => dt_le d dense | None => true end.
(* wire codes: 16 / 32 / 64 = the item size in bits *)
Definition dt_of_code (z : Z) : option fdtype :=
  if (z =? 16)%Z then Some F16 else if (z =? 32)%Z then Some F32 else if (z =? 64)%Z then Some F64 else None.
Definition dt_code (d : fdtype) : Z := match d with F16 => 16 | F32 => 32 | F64 => 64 end%Z.
