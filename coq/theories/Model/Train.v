(* C04 model: what the shipped MCMC models are trained on.
   Transcribes
     batchie.core.BayesianModel.add_observations            -> [add_observations]  (guard: every row unmasked)
     batchie.data.Screen.subset_observed                    -> [train_input]       (None when nothing is observed)
     batchie.cli.train_model.main (lines 123-135)           -> [train_sdc], [train_int]
     batchie.models.sparse_combo.SparseDrugCombo._add_observations
       + LegacySparseDrugComboImpl._update                  -> [sdc_inner]
     batchie.data.create_single_treatment_effect_map        -> [single_effect_map]
     batchie.models.sparse_combo_interaction.SparseDrugComboInteraction._add_observations
       + LegacySparseDrugComboInteractionImpl._update       -> [int_inner]
   and the projection of a screen that the downstream steps (calculate_distance_matrix,
   calculate_scores, select_next_plate) can read              -> [downstream_input].

   Rows are at the level of ids (what Screen.sample_ids / treatment_ids / plate_ids hold; the
   names -> ids encoding is C01's model).  An observation is an exact rational or a special
   float value.  The float32 cast is an abstract function [r32] (it may overflow to +-inf, so
   its codomain is [oval]); logit on (0,1) is the oracle [orc ORC_LOGIT]; the behaviour of
   scipy.special.logit outside (0,1) (0 -> -inf, 1 -> +inf, otherwise NaN) is spelled out.
   The training arrays of the legacy implementations (y, cline, dd1, dd2) are one list of
   [trip]s; the index dictionaries cline_idxs / dd1_idxs / dd2_idxs are determined by it and
   not modelled.

   The interaction model is transcribed AS CODED when all three switches are false:
     fixed_mask = false : combo_mask = (number of control ids in the row == arity)
     fixed_mask = true  : combo_mask = (number of control ids in the row == 0)      [repair]
     guard_neg  = true  : `if not (data.observations >= 0.0).all(): raise`           [repair]
     guard_nan  = true  : `if np.isnan(transformed).any(): raise`                    [repair]
   Error tags: 1 masked row handed to add_observations, 2 negative (or NaN: NaN >= 0 is False)
   observation, 3 NaN after the transform, 4 arity (IndexError dd[1] / ValueError arity != 2).
   No proofs here. *)
From Coq Require Import ZArith List Bool QArith Qcanon.
From Batchie Require Import Lib.Sexp Lib.Num Generated.Consts Generated.ConstsClip Model.Encode.
Import ListNotations.
Open Scope Z_scope.

Inductive oval : Type :=
| OFin (q : Qc)
| ONaN
| OInf (neg : bool).

Record trow := {
  t_sample : Z;
  t_plate : Z;
  t_treats : list Z;
  t_obs : oval;
  t_mask : bool              (* observed? *)
}.

(* one call of LegacySparseDrugCombo(Interaction)Impl._update(y, cl, dd1, dd2) *)
Record trip := { tr_y : oval; tr_cl : Z; tr_d1 : Z; tr_d2 : Z }.

(* ---- float predicates / functions on [oval] ---- *)
Definition o_isnan (v : oval) : bool := match v with ONaN => true | _ => false end.
(* v >= 0.0 *)
Definition o_nonneg (v : oval) : bool :=
  match v with OFin q => qleb 0 q | ONaN => false | OInf neg => negb neg end.
(* v < 0.0 : "a negative observation" *)
Definition o_negative (v : oval) : bool :=
  match v with OFin q => qltb q 0 | ONaN => false | OInf neg => neg end.

Definition q_of_pair (p : Z * Z) : Qc := Q2Qc (Qmake (fst p) (Z.to_pos (snd p))).
Definition clip_lo : Qc := q_of_pair OBS_CLIP_LO.
Definition clip_hi : Qc := q_of_pair OBS_CLIP_HI.

(* np.clip(x, a_min, a_max): NaN propagates, infinities are clipped *)
Definition oclip (v : oval) : oval :=
  match v with
  | OFin q => OFin (qclip clip_lo clip_hi q)
  | ONaN => ONaN
  | OInf true => OFin clip_lo
  | OInf false => OFin clip_hi
  end.

(* np.mean of a non-empty float64 array *)
Definition is_pinf (v : oval) : bool := match v with OInf false => true | _ => false end.
Definition is_ninf (v : oval) : bool := match v with OInf true => true | _ => false end.
Definition fin_part (l : list oval) : list Qc :=
  flat_map (fun v => match v with OFin q => [q] | _ => [] end) l.
Definition omean (l : list oval) : oval :=
  if existsb o_isnan l then ONaN
  else if existsb is_pinf l && existsb is_ninf l then ONaN
  else if existsb is_pinf l then OInf false
  else if existsb is_ninf l then OInf true
  else OFin (qmean (fin_part l)).

(* ---- BayesianModel.add_observations ---- *)
Definition add_observations {S : Type} (inner : list trow -> result S) (rows : list trow) : result S :=
  if forallb t_mask rows then inner rows else Err 1.

(* ---- Screen.subset_observed ---- *)
Definition train_input (rows : list trow) : option (list trow) :=
  if existsb t_mask rows then Some (filter t_mask rows) else None.

(* ---- what downstream steps can read: everything but the observation value of masked rows ---- *)
Record drow := {
  d_sample : Z;
  d_plate : Z;
  d_treats : list Z;
  d_mask : bool;
  d_obs : option oval        (* Some only for observed rows *)
}.
Definition downstream_row (r : trow) : drow :=
  {| d_sample := t_sample r; d_plate := t_plate r; d_treats := t_treats r; d_mask := t_mask r;
     d_obs := if t_mask r then Some (t_obs r) else None |}.
Definition downstream_input (rows : list trow) : list drow := map downstream_row rows.

(* subset_observed computed from the projection alone *)
Definition view_train_input (v : list drow) : option (list trow) :=
  if existsb d_mask v then
    Some (flat_map (fun d => match d_mask d, d_obs d with
                             | true, Some o => [{| t_sample := d_sample d; t_plate := d_plate d;
                                                   t_treats := d_treats d; t_obs := o; t_mask := true |}]
                             | _, _ => []
                             end) v)
  else None.

(* ---- the relation "differ only in masked observation values" ---- *)
Definition row_agree (a b : trow) : Prop :=
  t_sample a = t_sample b /\ t_plate a = t_plate b /\ t_treats a = t_treats b /\
  t_mask a = t_mask b /\ (t_mask a = true -> t_obs a = t_obs b).
Definition same_except_masked (s1 s2 : list trow) : Prop := Forall2 row_agree s1 s2.

(* boolean counterpart of [same_except_masked] on the projections, for the wire *)
Definition oval_eqb (a b : oval) : bool :=
  match a, b with
  | OFin p, OFin q => qeqb p q
  | ONaN, ONaN => true
  | OInf x, OInf y => Bool.eqb x y
  | _, _ => false
  end.
Definition drow_eqb (a b : drow) : bool :=
  (d_sample a =? d_sample b) && (d_plate a =? d_plate b) && Zlist_eqb (d_treats a) (d_treats b)
  && Bool.eqb (d_mask a) (d_mask b)
  && match d_obs a, d_obs b with
     | None, None => true
     | Some x, Some y => oval_eqb x y
     | _, _ => false
     end.
Fixpoint drows_eqb (a b : list drow) : bool :=
  match a, b with
  | [], [] => true
  | x :: a', y :: b' => drow_eqb x y && drows_eqb a' b'
  | _, _ => false
  end.

(* ---- the interaction model's lookup table (a dict keyed by (sample id, treatment id)) ---- *)
Definition lkey := (Z * Z)%type.
Definition lookup := list (lkey * oval).       (* kept sorted by key, keys unique *)
Definition lkey_cmp (a b : lkey) : comparison :=
  match fst a ?= fst b with Eq => snd a ?= snd b | c => c end.
Fixpoint lk_set (k : lkey) (v : oval) (l : lookup) : lookup :=
  match l with
  | [] => [(k, v)]
  | (k', v') :: r =>
      match lkey_cmp k k' with
      | Lt => (k, v) :: l
      | Eq => (k, v) :: r
      | Gt => (k', v') :: lk_set k v r
      end
  end.
(* dict.update *)
Definition lk_update (old new : lookup) : lookup :=
  fold_left (fun acc kv => lk_set (fst kv) (snd kv) acc) new old.

Definition count_ctrl (tr : list Z) : nat := length (filter (Z.eqb CONTROL_SENTINEL_VALUE) tr).
(* np.sort(row)[-1] *)
Definition zmax_list (l : list Z) : Z := fold_right Z.max (hd 0 l) l.

(* create_single_treatment_effect_map(sample_ids, treatment_ids, observation); callers have
   checked arity >= 2.  The mask of the rows is NOT consulted (as coded). *)
Definition is_single (arity : nat) (r : trow) : bool := Nat.eqb (count_ctrl (t_treats r)) (arity - 1).
Definition single_matches (s t : Z) (r : trow) : bool :=
  (zmax_list (t_treats r) =? t) && (t_sample r =? s).
Definition single_effect_map (arity : nat) (rows : list trow) : lookup :=
  let singles := filter (is_single arity) rows in
  let us := sort_uniq Z.compare (map t_sample rows) in
  let ut := sort_uniq Z.compare (concat (map t_treats rows)) in
  flat_map (fun s =>
    flat_map (fun t =>
      if t =? CONTROL_SENTINEL_VALUE then [((s, t), OFin 1%Qc)]
      else match filter (single_matches s t) singles with
           | [] => []
           | m => [((s, t), omean (map t_obs m))]
           end) ut) us.

Record istate := { i_lookup : lookup; i_train : list trip }.
Definition istate0 : istate := {| i_lookup := []; i_train := [] |}.

Section Train.
Variable orc : oracle.
Variable r32 : Qc -> oval.          (* astype(np.float32) on a finite double *)

Definition cast32 (v : oval) : oval := match v with OFin q => r32 q | _ => v end.

(* scipy.special.logit on a float32 value *)
Definition ologit (v : oval) : oval :=
  match v with
  | OFin p =>
      if qltb p 0 then ONaN
      else if qeqb p 0 then OInf true
      else if qltb 1 p then ONaN
      else if qeqb p 1 then OInf false
      else OFin (orc ORC_LOGIT p)
  | _ => ONaN
  end.

(* ---- SparseDrugCombo ---- *)
Definition sdc_transform (v : oval) : oval := ologit (oclip (cast32 v)).

Definition sdc_trip (r : trow) : result trip :=
  match nth_error (t_treats r) 0, nth_error (t_treats r) 1 with
  | Some d1, Some d2 =>
      Ok {| tr_y := sdc_transform (t_obs r); tr_cl := t_sample r; tr_d1 := d1; tr_d2 := d2 |}
  | _, _ => Err 4
  end.

(* _add_observations on a model that already holds [st] *)
Definition sdc_inner (st : list trip) (rows : list trow) : result (list trip) :=
  if negb (forallb (fun r => o_nonneg (t_obs r)) rows) then Err 2
  else if existsb (fun r => o_isnan (sdc_transform (t_obs r))) rows then Err 3
  else dor new <- res_map_all sdc_trip (filter t_mask rows); Ok (st ++ new).

Definition sdc_add (st : list trip) (rows : list trow) : result (list trip) :=
  add_observations (sdc_inner st) rows.

(* train_model.main up to the sampler: a fresh model, trained on subset_observed() *)
Definition train_sdc (rows : list trow) : result (list trip) :=
  match train_input rows with
  | Some o => sdc_add [] o
  | None => Ok []
  end.

(* ---- SparseDrugComboInteraction ---- *)
Section Interaction.
Variables fixed_mask guard_neg guard_nan : bool.

(* arity = data.treatment_ids.shape[1] *)
Definition combo_sel (arity : nat) (r : trow) : bool :=
  Nat.eqb (count_ctrl (t_treats r)) (if fixed_mask then 0%nat else arity).

Definition int_transform (v : oval) : oval := ologit (cast32 v).

Definition int_trip (r : trow) : trip :=
  {| tr_y := int_transform (t_obs r); tr_cl := t_sample r;
     tr_d1 := nth 0 (t_treats r) 0; tr_d2 := nth 1 (t_treats r) 0 |}.

Definition int_inner (st : istate) (arity : nat) (rows : list trow) : result istate :=
  if negb (Nat.eqb arity 2) then Err 4
  else if guard_neg && negb (forallb (fun r => o_nonneg (t_obs r)) rows) then Err 2
  else
    let sel := filter (combo_sel arity) rows in
    if guard_nan && existsb (fun r => o_isnan (int_transform (t_obs r))) sel then Err 3
    else Ok {| i_lookup := lk_update (i_lookup st) (single_effect_map arity rows);
               i_train := i_train st ++ map int_trip (filter t_mask sel) |}.

Definition int_add (st : istate) (arity : nat) (rows : list trow) : result istate :=
  add_observations (int_inner st arity) rows.

Definition train_int (arity : nat) (rows : list trow) : result istate :=
  match train_input rows with
  | Some o => int_add istate0 arity o
  | None => Ok istate0
  end.
End Interaction.
End Train.

(* ======== vocabulary of the source translations (harness/src_functions.py, entries C04_*;
   Generated/SrcTrain.v).  No proofs here. ======== *)

(* the float32 cast as a parameter type *)
Definition cast_fn : Type := Qc -> oval.

(* a.all() / a.any() on a bool array *)
Definition all_true (l : list bool) : bool := forallb (fun b => b) l.
Definition any_true (l : list bool) : bool := existsb (fun b => b) l.

(* np.clip(x, a_min=lo, a_max=hi) elementwise: NaN propagates, infinities are clipped *)
Definition oclip_at (lo hi : Qc) (v : oval) : oval :=
  match v with
  | OFin q => OFin (qclip lo hi q)
  | ONaN => ONaN
  | OInf true => OFin lo
  | OInf false => OFin hi
  end.

(* zip(a, b, c, d) / zip(a, b, c, d, e): stops at the shortest *)
Fixpoint zip4 {A B C D : Type} (a : list A) (b : list B) (c : list C) (d : list D) : list (A * B * C * D) :=
  match a, b, c, d with
  | x :: a', y :: b', z :: c', w :: d' => (x, y, z, w) :: zip4 a' b' c' d'
  | _, _, _, _ => []
  end.
Fixpoint zip5 {A B C D E : Type} (a : list A) (b : list B) (c : list C) (d : list D) (e : list E)
  : list (A * B * C * D * E) :=
  match a, b, c, d, e with
  | x :: a', y :: b', z :: c', w :: d', u :: e' => (x, y, z, w, u) :: zip5 a' b' c' d' e'
  | _, _, _, _, _ => []
  end.

(* row[i] on one row of treatment ids (a 1-d integer array): a negative index counts from the end,
   out of range is an IndexError (tag 4) *)
Definition id_at (l : list Z) (i : Z) : result Z :=
  let j := if i <? 0 then i + Z.of_nat (length l) else i in
  if j <? 0 then Err 4
  else match nth_error l (Z.to_nat j) with Some a => Ok a | None => Err 4 end.

(* a[mask]: the entries where the boolean mask is True *)
Fixpoint select {A : Type} (mask : list bool) (l : list A) : list A :=
  match mask, l with
  | b :: m', x :: l' => if b then x :: select m' l' else select m' l'
  | _, _ => []
  end.
(* a[mask, i] for a 2-d id array: column i of the selected rows *)
Definition column (i : nat) (rows : list (list Z)) : list Z := map (fun t => nth i t 0) rows.
(* np.sum(a == CONTROL_SENTINEL_VALUE, axis=1): controls per row *)
Definition ctrl_counts (rows : list (list Z)) : list Z := map (fun t => Z.of_nat (count_ctrl t)) rows.
(* a == v elementwise on an integer array; a & b elementwise on bool arrays *)
Definition eq_vec (a : list Z) (v : Z) : list bool := map (fun x => x =? v) a.
Fixpoint and_vec (a b : list bool) : list bool :=
  match a, b with
  | x :: a', y :: b' => (x && y) :: and_vec a' b'
  | _, _ => []
  end.
(* np.sort(a, axis=1)[:, -1]: the largest id of each row *)
Definition row_maxima (rows : list (list Z)) : list Z := map zmax_list rows.
(* the value 1.0 *)
Definition oone : oval := OFin 1%Qc.

(* ---- LegacySparseDrugCombo(Interaction)Impl: the training arrays and the index dictionaries ----
   y / cline / dd1 / dd2 are Python lists, cline_idxs / dd1_idxs / dd2_idxs are defaultdict(list):
   insertion-ordered association lists id -> list of row numbers *)
Record legacy := {
  lg_y : list oval; lg_cline : list Z; lg_dd1 : list Z; lg_dd2 : list Z;
  lg_cline_idxs : list (Z * list Z); lg_dd1_idxs : list (Z * list Z); lg_dd2_idxs : list (Z * list Z)
}.
Definition set_lg_y (o : legacy) (v : list oval) : legacy :=
  {| lg_y := v; lg_cline := lg_cline o; lg_dd1 := lg_dd1 o; lg_dd2 := lg_dd2 o;
     lg_cline_idxs := lg_cline_idxs o; lg_dd1_idxs := lg_dd1_idxs o; lg_dd2_idxs := lg_dd2_idxs o |}.
Definition set_lg_cline (o : legacy) (v : list Z) : legacy :=
  {| lg_y := lg_y o; lg_cline := v; lg_dd1 := lg_dd1 o; lg_dd2 := lg_dd2 o;
     lg_cline_idxs := lg_cline_idxs o; lg_dd1_idxs := lg_dd1_idxs o; lg_dd2_idxs := lg_dd2_idxs o |}.
Definition set_lg_dd1 (o : legacy) (v : list Z) : legacy :=
  {| lg_y := lg_y o; lg_cline := lg_cline o; lg_dd1 := v; lg_dd2 := lg_dd2 o;
     lg_cline_idxs := lg_cline_idxs o; lg_dd1_idxs := lg_dd1_idxs o; lg_dd2_idxs := lg_dd2_idxs o |}.
Definition set_lg_dd2 (o : legacy) (v : list Z) : legacy :=
  {| lg_y := lg_y o; lg_cline := lg_cline o; lg_dd1 := lg_dd1 o; lg_dd2 := v;
     lg_cline_idxs := lg_cline_idxs o; lg_dd1_idxs := lg_dd1_idxs o; lg_dd2_idxs := lg_dd2_idxs o |}.
Definition set_lg_cline_idxs (o : legacy) (v : list (Z * list Z)) : legacy :=
  {| lg_y := lg_y o; lg_cline := lg_cline o; lg_dd1 := lg_dd1 o; lg_dd2 := lg_dd2 o;
     lg_cline_idxs := v; lg_dd1_idxs := lg_dd1_idxs o; lg_dd2_idxs := lg_dd2_idxs o |}.
Definition set_lg_dd1_idxs (o : legacy) (v : list (Z * list Z)) : legacy :=
  {| lg_y := lg_y o; lg_cline := lg_cline o; lg_dd1 := lg_dd1 o; lg_dd2 := lg_dd2 o;
     lg_cline_idxs := lg_cline_idxs o; lg_dd1_idxs := v; lg_dd2_idxs := lg_dd2_idxs o |}.
Definition set_lg_dd2_idxs (o : legacy) (v : list (Z * list Z)) : legacy :=
  {| lg_y := lg_y o; lg_cline := lg_cline o; lg_dd1 := lg_dd1 o; lg_dd2 := lg_dd2 o;
     lg_cline_idxs := lg_cline_idxs o; lg_dd1_idxs := lg_dd1_idxs o; lg_dd2_idxs := v |}.

(* what the index dictionaries must be: for every id of a column, in order of first occurrence,
   the ascending list of the positions (row numbers from 0) at which the column holds it *)
Fixpoint positions_from (i : Z) (k : Z) (col : list Z) : list Z :=
  match col with
  | [] => []
  | c :: r => if c =? k then i :: positions_from (i + 1) k r else positions_from (i + 1) k r
  end.
Definition positions (k : Z) (col : list Z) : list Z := positions_from 0 k col.
Definition first_occurrences (col : list Z) : list Z :=
  fold_left (fun acc c => if existsb (Z.eqb c) acc then acc else acc ++ [c]) col [].
Definition index_dict (col : list Z) : list (Z * list Z) :=
  map (fun k => (k, positions k col)) (first_occurrences col).

(* the legacy object that holds the training rows [st] (one [trip] per _update call, in order) *)
Definition legacy_of (st : list trip) : legacy :=
  {| lg_y := map tr_y st; lg_cline := map tr_cl st; lg_dd1 := map tr_d1 st; lg_dd2 := map tr_d2 st;
     lg_cline_idxs := index_dict (map tr_cl st); lg_dd1_idxs := index_dict (map tr_d1 st);
     lg_dd2_idxs := index_dict (map tr_d2 st) |}.

(* ======== ComboGridFactorModel._add_observations (models/grid_combo.py; the variational grid model - not an MCMC model, but a
   shipped BayesianModel subclass selectable with --model).  Vocabulary of its source translation (harness/src_functions.py
   C04_GRID_ADD -> Generated/SrcTrainGrid.v) and the hand model.  No proofs here.
   The object's six growing numpy arrays are six lists.  grid_helper.unpack_data(data, drugname2idx, use_mask=True) is a
   PRIMITIVE of the translation: it is row-wise over the rows selected by data.observation_mask and reads a row's sample id and
   treatment names / doses (= its treatment ids, C01) - so its meaning is [unpack_cols u data] for an arbitrary per-row
   function [u] (sample id, treatment ids) -> (sample id, drug id 1, drug id 2, log10 dose 1, log10 dose 2) over an arbitrary
   type C of log-concentrations.  The harness checks that reading on the implementation (row-wise, masked rows only, value-blind). *)
Definition urow (C : Type) : Type := (Z * Z * Z * C * C)%type.
Definition unpack_fn (C : Type) : Type := Z -> list Z -> urow C.
Definition unpack_cols {C : Type} (u : unpack_fn C) (data : list trow) : list Z * list Z * list Z * list C * list C :=
  let rs := map (fun r => u (t_sample r) (t_treats r)) (filter t_mask data) in
  (map (fun x => match x with (s, _, _, _, _) => s end) rs,
   map (fun x => match x with (_, a, _, _, _) => a end) rs,
   map (fun x => match x with (_, _, b, _, _) => b end) rs,
   map (fun x => match x with (_, _, _, c, _) => c end) rs,
   map (fun x => match x with (_, _, _, _, d) => d end) rs).

(* the state of the grid model's training arrays: one entry per trained row *)
Record gtrip (C : Type) := { gt_u : urow C; gt_y : oval }.
Arguments gt_u {C}. Arguments gt_y {C}.
Definition grid_cols {C : Type} (st : list (gtrip C)) : list Z * list C * list C * list Z * list Z * list oval :=
  (map (fun t => match gt_u t with (s, _, _, _, _) => s end) st,
   map (fun t => match gt_u t with (_, _, _, c, _) => c end) st,
   map (fun t => match gt_u t with (_, _, _, _, d) => d end) st,
   map (fun t => match gt_u t with (_, a, _, _, _) => a end) st,
   map (fun t => match gt_u t with (_, _, b, _, _) => b end) st,
   map gt_y st).

(* np.clip(y, 0.0, 1.0) *)
Definition oclip01 (v : oval) : oval := oclip_at 0%Qc 1%Qc v.

Definition grid_trip {C : Type} (u : unpack_fn C) (r : trow) : gtrip C :=
  {| gt_u := u (t_sample r) (t_treats r); gt_y := oclip01 (t_obs r) |}.

(* _add_observations on a model that already holds [st]: refuses a negative or NaN observation (NaN >= 0 is False), then one
   entry per row with mask, in order *)
Definition grid_inner {C : Type} (u : unpack_fn C) (st : list (gtrip C)) (rows : list trow) : result (list (gtrip C)) :=
  if negb (forallb (fun r => o_nonneg (t_obs r)) rows) then Err 2
  else Ok (st ++ map (grid_trip u) (filter t_mask rows)).
Definition grid_add {C : Type} (u : unpack_fn C) (st : list (gtrip C)) (rows : list trow) : result (list (gtrip C)) :=
  add_observations (grid_inner u st) rows.
Definition train_grid {C : Type} (u : unpack_fn C) (rows : list trow) : result (list (gtrip C)) :=
  match train_input rows with
  | Some o => grid_add u [] o
  | None => Ok []
  end.
