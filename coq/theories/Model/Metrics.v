(* C20 model, part 1: batchie.models.main.ModelEvaluation (constructor checks, mse, mse_variance,
   inter_chain_mse_variance, mean_predictions, save_h5 / load_h5) and
   batchie.retrospective.calculate_mse (through batchie.models.main.predict_viability_avg),
   the numpy expressions transcribed with their axes over exact rationals.  No proofs here.

   predictions is an (n_experiments x n_thetas) matrix = list of rows; observations has one
   entry per experiment (row); chain_ids one entry per theta (column).

   Abstracted: floating point rounding (the model computes the real-number value); dtype
   checks of the constructor (the wire only carries floats / ints / strings); h5py is the
   identity on arrays (shape included: a (0, m) matrix comes back as (0, m));
   batchie.data.encode_string_array / decode_string_array (UTF-8, shape-preserving also for an
   array without elements) is the identity on string arrays.

   Error tags: 1 ValueError, 6 the value is NaN (mean / variance of an empty
   array, 0/0). *)
From Coq Require Import ZArith List QArith Qcanon.
From Batchie Require Import Lib.Sexp Lib.Num.
Import ListNotations.
Open Scope Qc_scope.

Definition E_VALUE : Z := 1%Z.
Definition E_NAN : Z := 6%Z.

(* np.var(x) = mean(abs(x - x.mean()) ** 2): population variance, ddof = 0 *)
Definition qvar (l : list Qc) : Qc :=
  let m := qmean l in qmean (map (fun x => qsq (x - m)) l).

(* boolean-mask selection a[mask] *)
Definition select {A} (mask : list bool) (l : list A) : list A :=
  map snd (filter fst (combine mask l)).

(* np.unique on an integer array: sorted, duplicates removed *)
Fixpoint zinsert (x : Z) (l : list Z) : list Z :=
  match l with
  | [] => [x]
  | y :: r => if (x <? y)%Z then x :: l else if (x =? y)%Z then l else y :: zinsert x r
  end.
Definition sorted_unique (l : list Z) : list Z := fold_right zinsert [] l.

Record evaluation : Type := {
  ev_preds : list (list Qc);
  ev_obs : list Qc;
  ev_chains : list Z;
  ev_names : list (list Z)
}.

(* ModelEvaluation.__init__ : the shape checks.  [ncols] is predictions.shape[1] (defined also
   for a matrix with zero rows); the wire decoder only admits matrices whose rows have that length. *)
Definition mk_eval (ncols : nat) (preds : list (list Qc)) (obs : list Qc) (chains : list Z)
  (names : list (list Z)) : result evaluation :=
  if negb (Nat.eqb (length preds) (length obs)) then Err E_VALUE
  else if negb (Nat.eqb (length names) (length obs)) then Err E_VALUE
  else if negb (forallb (fun r => Nat.eqb (length r) ncols) preds) then Err E_VALUE
  else if negb (Nat.eqb (length chains) ncols) then Err E_VALUE
  else Ok {| ev_preds := preds; ev_obs := obs; ev_chains := chains; ev_names := names |}.

(* (predictions - observations[:, None]) ** 2 *)
Definition sqerr (preds : list (list Qc)) (obs : list Qc) : list (list Qc) :=
  map (fun ro => map (fun p => qsq (p - snd ro)) (fst ro)) (combine preds obs).

Definition n_exp (e : evaluation) : nat := length (ev_preds e).
Definition n_thetas (e : evaluation) : nat := length (ev_chains e).
Definition is_empty (e : evaluation) : bool := Nat.eqb (n_exp e) 0 || Nat.eqb (n_thetas e) 0.

(* ((P - o[:, None]) ** 2).mean() : mean of the flattened matrix *)
Definition ev_mse (e : evaluation) : result Qc :=
  if is_empty e then Err E_NAN
  else Ok (qmean (concat (sqerr (ev_preds e) (ev_obs e)))).

(* np.var(((P - o[:, None]) ** 2).mean(axis=1)) *)
Definition ev_mse_variance (e : evaluation) : result Qc :=
  if is_empty e then Err E_NAN
  else Ok (qvar (map qmean (sqerr (ev_preds e) (ev_obs e)))).

(* for chain_id in np.unique(chain_ids): ((P[:, chain_ids == chain_id] - o[:, None]) ** 2).mean() *)
Definition chain_mse (e : evaluation) (c : Z) : Qc :=
  let sel := map (Z.eqb c) (ev_chains e) in
  qmean (concat (sqerr (map (select sel) (ev_preds e)) (ev_obs e))).

Definition ev_inter_chain (e : evaluation) : result Qc :=
  if is_empty e then Err E_NAN
  else Ok (qvar (map (chain_mse e) (sorted_unique (ev_chains e)))).

(* predictions.mean(axis=1); an (n, 0) matrix gives n NaNs, a (0, m) matrix the empty array *)
Definition ev_mean_predictions (e : evaluation) : result (list Qc) :=
  if negb (Nat.eqb (n_exp e) 0) && Nat.eqb (n_thetas e) 0 then Err E_NAN
  else Ok (map qmean (ev_preds e)).

(* save_h5: four datasets; load_h5 reads them back and calls the constructor, whose
   predictions.shape[1] is the stored one (= the number of chain ids of a constructed evaluation) *)
Definition eval_file : Type :=
  (list (list Qc) * list Qc * list Z * list (list Z))%type.

Definition ev_save (e : evaluation) : eval_file :=
  (ev_preds e, ev_obs e, ev_chains e, ev_names e).

Definition ev_load (f : eval_file) : result evaluation :=
  let '(preds, obs, chains, names) := f in
  mk_eval (length chains) preds obs chains names.

(* predict_viability_avg: result = zeros(size); for theta: result = result + sub; result / n_thetas.
   [per_theta] has one row per theta (the transposed orientation of ModelEvaluation). *)
Definition vadd (a b : list Qc) : list Qc := map (fun p => fst p + snd p) (combine a b).
Definition predict_avg (size : nat) (per_theta : list (list Qc)) : list Qc :=
  map (fun x => x / qlen per_theta) (fold_left vadd per_theta (repeat 0 size)).

(* retrospective.calculate_mse: np.mean((preds - observations) ** 2) *)
Definition calculate_mse (per_theta : list (list Qc)) (obs : list Qc) : result Qc :=
  if negb (forallb (fun r => Nat.eqb (length r) (length obs)) per_theta) then Err E_VALUE
  else match per_theta, obs with
       | [], _ => Err E_NAN
       | _, [] => Err E_NAN
       | _, _ => Ok (qmean (map (fun po => qsq (fst po - snd po))
                               (combine (predict_avg (length obs) per_theta) obs)))
       end.

(* ---- vocabulary of the source translations (harness/src_functions.py C20_EV_*; Generated/SrcMetrics.v) ----
   The meaning of ONE numpy call each; NaN is Err E_NAN as everywhere in this model (a NaN operand makes every later
   mean / variance NaN, so raising at the first NaN denotes the same final value). *)
Definition colvec : Type := list Qc.                       (* an (n, 1) array: o[:, None] *)
(* P - c: an (n x m) matrix minus an (n, 1) column, broadcast along each row.  Another number of rows (numpy: broadcast of
   a single row, else ValueError) is refused - the links prove the two counts equal for every constructed evaluation *)
Definition np_sub_col (p : list (list Qc)) (c : colvec) : result (list (list Qc)) :=
  if Nat.eqb (length p) (length c)
  then Ok (map (fun ro => map (fun x => x - snd ro) (fst ro)) (combine p c)) else Err E_VALUE.
(* x ** 2, elementwise *)
Definition np_square2 (x : list (list Qc)) : list (list Qc) := map (map qsq) x.
(* x.mean() of a 2-d array: the mean of all entries, NaN when there is none *)
Definition np_mean_all (x : list (list Qc)) : result Qc :=
  match concat x with [] => Err E_NAN | l => Ok (qmean l) end.
(* x.mean(axis=1): the mean of each row; a row without entries gives NaN; no rows give the empty array *)
Definition np_mean1 (x : list Qc) : result Qc := match x with [] => Err E_NAN | _ => Ok (qmean x) end.
Definition np_mean_rows (x : list (list Qc)) : result (list Qc) := res_map_all np_mean1 x.
(* np.var(x) of a 1-d array: population variance, NaN when it is empty *)
Definition np_var (x : list Qc) : result Qc := match x with [] => Err E_NAN | _ => Ok (qvar x) end.
(* P[:, sel] with sel a boolean mask over the columns: IndexError (tag 4) unless it has shape[1] entries *)
Definition np_select_cols (ncols : nat) (sel : list bool) (p : list (list Qc)) : result (list (list Qc)) :=
  if Nat.eqb (length sel) ncols then Ok (map (select sel) p) else Err 4%Z.
(* chain_ids == c *)
Definition np_eq_scalar (a : list Z) (v : Z) : list bool := map (fun x => (x =? v)%Z) a.
(* the attribute stores of a ModelEvaluation object (the translated properties only read them) *)
Definition set_ev_preds (e : evaluation) (v : list (list Qc)) : evaluation :=
  {| ev_preds := v; ev_obs := ev_obs e; ev_chains := ev_chains e; ev_names := ev_names e |}.
Definition set_ev_obs (e : evaluation) (v : list Qc) : evaluation :=
  {| ev_preds := ev_preds e; ev_obs := v; ev_chains := ev_chains e; ev_names := ev_names e |}.
Definition set_ev_chains (e : evaluation) (v : list Z) : evaluation :=
  {| ev_preds := ev_preds e; ev_obs := ev_obs e; ev_chains := v; ev_names := ev_names e |}.

(* ---- vocabulary of the source translations of predict_viability_avg / retrospective.calculate_mse (C20_PREDICT_AVG,
   C20_CALC_MSE; Generated/SrcMetrics.v) ----
   A theta is seen through the prediction vector it gives on the screen at hand (theta_t; the thetas are [per_theta], one
   row per theta); a fully observed Screen through its observations (obs_screen; Screen.size = their number). *)
Definition theta_t : Type := list Qc.
Definition obs_screen : Type := list Qc.
Definition E_UNMODELLED : Z := 96%Z.                      (* a value the exact-rational model cannot hold (inf) *)
(* np.zeros((n,), dtype=float) *)
Definition np_zeros1 (n : Z) : list Qc := repeat 0 (Z.to_nat n).
(* np.isnan(x) on exact rationals: nowhere; m.any() *)
Definition np_isnan1 (x : list Qc) : list bool := map (fun _ => false) x.
Definition np_any1 (m : list bool) : bool := existsb (fun b => b) m.
(* a + b / a - b on 1-d float arrays of one length (other lengths: broadcast of a single entry, else ValueError - refused) *)
Definition np_add1 (a b : list Qc) : result (list Qc) :=
  if Nat.eqb (length a) (length b) then Ok (vadd a b) else Err E_VALUE.
Definition np_sub1 (a b : list Qc) : result (list Qc) :=
  if Nat.eqb (length a) (length b) then Ok (map (fun p => fst p - snd p) (combine a b)) else Err E_VALUE.
(* x ** 2 on a 1-d array *)
Definition np_square1 (x : list Qc) : list Qc := map qsq x.
(* v / n, n an int: entrywise; n = 0 gives NaN for a zero entry (0/0) and inf for any other - inf is not modelled *)
Definition np_div_int (v : list Qc) (n : Z) : result (list Qc) :=
  if (n =? 0)%Z then
    (if forallb (qeqb 0) v then match v with [] => Ok [] | _ => Err E_NAN end else Err E_UNMODELLED)
  else Ok (map (fun x => x / qofZ n) v).
(* ---- vocabulary of the translation of ModelEvaluation.__init__ (C20_EV_INIT) ---- *)
Definition set_ev_names (e : evaluation) (v : list (list Z)) : evaluation :=
  {| ev_preds := ev_preds e; ev_obs := ev_obs e; ev_chains := ev_chains e; ev_names := v |}.
(* len(predictions.shape) for predictions handed over as a list of rows and a claimed number of columns: it is a 2-d array
   with that many columns exactly when every row has that many entries (any other value only has to differ from 2) *)
Definition ndim_of (ncols : nat) (p : list (list Qc)) : Z :=
  if forallb (fun r => Nat.eqb (length r) ncols) p then 2%Z else 1%Z.

(* ==== vocabulary of the source translations of ModelEvaluation.save_h5 / load_h5 and of the string codec helpers they call
   (harness/src_functions.py C20_EVIO_*; Generated/SrcEvalIO.v; proofs Proofs/C20SourceIO.v) ====
   What an HDF5 file holds while batchie writes / reads it: [evraw] = its datasets BY NAME, in creation order.  The
   translated save_h5 builds it with one [evraw_create] per create_dataset call, the translated load_h5 reads it back with
   one [evraw_read_*] per f[NAME][:].  A dataset is one of four array kinds; the 2-d float array carries shape[1] (so that a
   matrix without rows still has its number of columns: the (0, m) predictions of an evaluation without experiments).
   Strings: [pyname] is a str element, [bstr] a UTF-8 ENCODED one (an element of a bytes array).  Both are the same Coq type
   (the codec is the identity on valid NUL-free strings, header), but the translator treats the two type NAMES as different,
   so a missing / doubled encode_string_array or decode_string_array is refused.
   Error tags: 30 KeyError (no dataset of that name), 31 create_dataset of an existing name, 32 the stored array is of
   another kind than the reader expects, 33 / 34 see the codec below. *)
From Coq Require String.
Import String.StringSyntax.
Local Delimit Scope string_scope with string.

Definition pyname : Type := list Z.
Definition bstr : Type := list Z.
Definition mat2 : Type := (nat * list (list Qc))%type.       (* (shape[1], rows) *)
Inductive evval : Type :=
| EV_F2 (a : mat2)              (* 2-d float *)
| EV_F1 (a : list Qc)           (* 1-d float *)
| EV_I1 (a : list Z)            (* 1-d int *)
| EV_S1 (a : list bstr).        (* 1-d bytes *)
Definition evraw : Type := list (String.string * evval).

(* the names batchie uses *)
Definition EK_predictions : String.string := "predictions"%string.
Definition EK_observations : String.string := "observations"%string.
Definition EK_chain_ids : String.string := "chain_ids"%string.
Definition EK_sample_names : String.string := "sample_names"%string.

(* h5py.File(fn, "w"): a new, empty file *)
Definition evraw_empty : evraw := [].
Fixpoint evraw_find (k : String.string) (l : evraw) : option evval :=
  match l with
  | [] => None
  | (k', v) :: r => if String.eqb k' k then Some v else evraw_find k r
  end.
(* f.create_dataset(k, data=v, compression="gzip"): a new dataset; a name that exists is refused *)
Definition evraw_create (w : evraw) (k : String.string) (v : evval) : result evraw :=
  match evraw_find k w with
  | Some _ => Err 31%Z
  | None => Ok (w ++ [(k, v)])
  end.
(* f[k][:], by the kind of array the caller goes on to use *)
Definition evraw_read_f2 (w : evraw) (k : String.string) : result mat2 :=
  match evraw_find k w with Some (EV_F2 a) => Ok a | Some _ => Err 32%Z | None => Err 30%Z end.
Definition evraw_read_f1 (w : evraw) (k : String.string) : result (list Qc) :=
  match evraw_find k w with Some (EV_F1 a) => Ok a | Some _ => Err 32%Z | None => Err 30%Z end.
Definition evraw_read_i1 (w : evraw) (k : String.string) : result (list Z) :=
  match evraw_find k w with Some (EV_I1 a) => Ok a | Some _ => Err 32%Z | None => Err 30%Z end.
Definition evraw_read_s1 (w : evraw) (k : String.string) : result (list bstr) :=
  match evraw_find k w with Some (EV_S1 a) => Ok a | Some _ => Err 32%Z | None => Err 30%Z end.

(* the representation map  raw file -> (predictions.shape[1], [eval_file]): every dataset of the model's file is there under
   its name, with its kind *)
Definition evraw_close (w : evraw) : result (nat * eval_file) :=
  dor p <- evraw_read_f2 w EK_predictions;
  dor o <- evraw_read_f1 w EK_observations;
  dor c <- evraw_read_i1 w EK_chain_ids;
  dor s <- evraw_read_s1 w EK_sample_names;
  Ok (fst p, (snd p, o, c, s)).

(* self.predictions as a 2-d array: the rows the object stores, with shape[1] = [ncols] *)
Definition as_mat2 (ncols : nat) (rows : list (list Qc)) : mat2 := (ncols, rows).
(* cls(...) in a classmethod of ModelEvaluation (no subclass in the tree): a fresh instance, initialised by the
   translated __init__ (which overwrites all four attributes) *)
Definition ev_blank : evaluation := {| ev_preds := []; ev_obs := []; ev_chains := []; ev_names := [] |}.

(* the string codec helpers batchie.data.encode_string_array / decode_string_array on 1-d arrays (translated too):
   np.char.encode(a) / np.char.decode(a, "utf-8") are the identity on the valid NUL-free strings of an array WITH elements;
   on an array WITHOUT elements numpy answers an empty float64 array, which cannot be stored / decoded as strings: tag 33
   (the defect repaired in /repo 6d95451; the helpers guard the call with `arr.size == 0`).
   np.empty(a.shape, dtype=...) where a has no element is THE array without elements of that shape, i.e. a itself as a
   value; elsewhere its content is unspecified, not modelled: tag 34. *)
Definition ev_arr_empty (a : list (list Z)) : bool := match a with [] => true | _ :: _ => false end.        (* a.size == 0 *)
Definition ev_char_codec (a : list (list Z)) : result (list (list Z)) := if ev_arr_empty a then Err 33%Z else Ok a.
Definition ev_empty_like (a : list (list Z)) : result (list (list Z)) := if ev_arr_empty a then Ok a else Err 34%Z.
