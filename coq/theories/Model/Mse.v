(* C07 model, part 3: batchie.distance.mse.MSEDistance.distance over exact rationals.
   np.mean of an empty array is NaN (tag 6); unequal lengths are outside the pipeline
   (tag 7). *)
From Coq Require Import ZArith List QArith Qcanon.
From Batchie Require Import Lib.Sexp Lib.Num.
Import ListNotations.
Open Scope Qc_scope.

Section Mse.
Variable orc : oracle.

Definition sqdiffs (a b : list Qc) : list Qc :=
  map (fun p => qsq (fst p - snd p)) (combine a b).

Definition mse_distance (sigmoid : bool) (a b : list Qc) : result Qc :=
  if negb (Nat.eqb (length a) (length b)) then Err 7%Z
  else match a with
       | [] => Err 6%Z
       | _ =>
           let a' := if sigmoid then map (orc ORC_EXPIT) a else a in
           let b' := if sigmoid then map (orc ORC_EXPIT) b else b in
           Ok (qmean (sqdiffs a' b'))
       end.
End Mse.
