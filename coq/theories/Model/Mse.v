(* C07 model, part 3: batchie.distance.mse.MSEDistance.distance over exact rationals.
   np.mean of an empty array is NaN (tag 6); unequal lengths are outside the pipeline
   (tag 7). *)
From Coq Require Import ZArith List QArith Qcanon.
From Batchie Require Import Lib.Sexp Lib.Num.
Import ListNotations.
Open Scope Qc_scope.

Section Mse.
Variable orc : oracle.

Definition sqdiffs (a b : list Qc) : list Qc :=
  map (fun p => qsq (fst p - snd p)) (combine a b).

Definition mse_distance (sigmoid : bool) (a b : list Qc) : result Qc :=
  if negb (Nat.eqb (length a) (length b)) then Err 7%Z
  else match a with
       | [] => Err 6%Z
       | _ =>
           let a' := if sigmoid then map (orc ORC_EXPIT) a else a in
           let b' := if sigmoid then map (orc ORC_EXPIT) b else b in
           Ok (qmean (sqdiffs a' b'))
       end.
End Mse.

(* ---- vocabulary of the translation of MSEDistance.distance (harness/src_functions.py, entry C07_MSE).  No proofs here. *)
(* np.mean(x) of a 1-d array: NaN for an empty one (tag 6, as in mse_distance) *)
Definition np_mean (x : list Qc) : result Qc :=
  match x with [] => Err 6%Z | _ => Ok (qmean x) end.
(* x - y on 1-d arrays: elementwise on equal lengths; an array of ONE item is broadcast against the other; any other
   pair of lengths is numpy's ValueError (tag 7) *)
Definition vec_sub (x y : list Qc) : result (list Qc) :=
  if Nat.eqb (length x) (length y) then Ok (map (fun p => fst p - snd p) (combine x y))
  else match x, y with
       | [u], _ => Ok (map (fun w => u - w) y)
       | _, [w] => Ok (map (fun u => u - w) x)
       | _, _ => Err 7%Z
       end.
