(* C11 / C13 model, part 1: retrospective plate generators and smoothers
     batchie.core.RetrospectivePlateGenerator.generate_plates      -> [wrap]
     batchie.core.RetrospectivePlateSmoother.smooth_plates         -> [wrap]
     batchie.retrospective.PlatePermutationPlateGenerator          -> [plate_perm]
     batchie.retrospective.SampleSegregatingPermutationPlateGenerator -> [sample_seg]
     batchie.retrospective.FixedSizeSmoother / OptimalSizeSmoother -> [size_smooth] / [optimal_smooth]
     batchie.retrospective.NPlatePerCellLineSmoother               -> [nplate]
     batchie.retrospective.MergeMinPlateSmoother                   -> [merge_min]
     batchie.retrospective.MergeTopBottomPlateSmoother             -> [merge_tb]
     batchie.retrospective.BatchieEnsemblePlateSmoother            -> [ensemble]
     batchie.data.Plate.merge                                      -> [merge]
   A screen is its list of experiments ([Model.Screen.row]: sample, plate label, treatments,
   observation bits, mask).  Ids are not stored: sample / plate ids are ranks in the sorted
   unique names ([sort_uniq name_cmp]), so "for id in unique_ids" is "for name in sorted unique
   names"; the one place where the code depends on ids beyond that (NPlatePerCellLine keeps using
   ids of a screen it has re-encoded) computes the rank explicitly ([sample_id]).
   The Screen constructor is reduced to the only check that can fail at these call sites
   (plate-uniform mask, [construct]).
   Oracle inputs ([draw] stream, in call order): every result of rng.permutation / rng.choice,
   and every heapq.heappop answer (index, in the list of plates currently in the heap, of the
   plate it returned; the model checks that it is a smallest one: heapq's contract, tie-break
   left to the library).
   Model parameter [fixed : bool]: false = the code as it is; true = the repaired logic proposed
   in the report (SampleSegregating: a sample with <= max experiments gets its own plate;
   NPlatePerCellLine: samples to drop are identified by name, not by a stale id).
   Error tags: 2 mixed plate (Screen constructor), 3 numpy ValueError / ZeroDivisionError on a
   parameter, 4 one-sample-per-plate ValueError, 90 oracle stream exhausted / wrong kind,
   91 oracle answer of the wrong length, 92 oracle index out of range, 93 heappop answer not minimal.
   No proofs here. *)
From Coq Require Import ZArith List Bool Arith.
From Batchie Require Import Lib.Sexp Model.Encode Model.Screen.
Import ListNotations.
Open Scope nat_scope.

Inductive draw : Type :=
| DInts (l : list nat)
| DNames (l : list name).

Definition set_plate (p : name) (r : row) : row :=
  {| r_sample := r_sample r; r_plate := p; r_treats := r_treats r; r_obs := r_obs r; r_mask := r_mask r |}.
Definition set_mask (b : bool) (r : row) : row :=
  {| r_sample := r_sample r; r_plate := r_plate r; r_treats := r_treats r; r_obs := r_obs r; r_mask := b |}.
(* an experiment minus its plate label *)
Definition strip (r : row) : name * list tkey * Z * bool := (r_sample r, r_treats r, r_obs r, r_mask r).

Definition unobserved (rows : list row) : list row := filter (fun r => negb (r_mask r)) rows.
Definition observed (rows : list row) : list row := filter r_mask rows.

(* Screen(...) *)
Definition construct (rows : list row) : result (list row) :=
  if plate_uniform rows then Ok rows else Err 2%Z.

Definition is_nil {A} (l : list A) : bool := match l with [] => true | _ => false end.

(* generate_plates / smooth_plates: split, to_screen, transform, combine *)
Definition wrap (f : list row -> list draw -> result (list row * list draw))
           (rows : list row) (ds : list draw) : result (list row * list draw) :=
  let u := unobserved rows in
  let o := observed rows in
  if is_nil u then Ok (rows, ds)
  else
    dor res <- f u ds;
    let '(nu, ds') := res in
    if is_nil o then Ok (nu, ds')
    else dor c <- construct (nu ++ o); Ok (c, ds').

(* ---- selection vectors ---- *)
Definition bvec := list bool.
Fixpoint vcount (v : bvec) : nat :=
  match v with [] => 0 | b :: r => (if b then 1 else 0) + vcount r end.
Fixpoint vor (a b : bvec) : bvec :=
  match a, b with x :: a', y :: b' => (x || y) :: vor a' b' | _, _ => [] end.
Fixpoint vselect {A} (v : bvec) (l : list A) : list A :=
  match v, l with
  | b :: v', x :: l' => if b then x :: vselect v' l' else vselect v' l'
  | _, _ => []
  end.
(* plate_names[v] = nm *)
Fixpoint vrelabel (v : bvec) (nm : name) (rows : list row) : list row :=
  match v, rows with
  | b :: v', r :: rs => (if b then set_plate nm r else r) :: vrelabel v' nm rs
  | _, _ => rows
  end.
Definition memb (i : nat) (l : list nat) : bool := existsb (Nat.eqb i) l.
(* np.isin(np.arange(n), idx) *)
Definition vof_idx (n : nat) (idx : list nat) : bvec := map (fun i => memb i idx) (seq 0 n).

Fixpoint enum_from {A} (k : nat) (l : list A) : list (nat * A) :=
  match l with [] => [] | a :: r => (k, a) :: enum_from (S k) r end.
(* np.arange(size)[f] *)
Definition idx_where (f : row -> bool) (rows : list row) : list nat :=
  map fst (filter (fun p => f (snd p)) (enum_from 0 rows)).

Definition name_mem (x : name) (l : list name) : bool := existsb (name_eqb x) l.
Definition sample_names (rows : list row) : list name := sort_uniq name_cmp (map r_sample rows).
Definition plate_names_of (rows : list row) : list name := sort_uniq name_cmp (map r_plate rows).
Definition in_plate (p : name) (r : row) : bool := name_eqb (r_plate r) p.
Definition in_sample (s : name) (r : row) : bool := name_eqb (r_sample r) s.
(* Plate.selection_vector of get_plate *)
Definition plate_vec (p : name) (rows : list row) : bvec := map (in_plate p) rows.

Definition take_ints (ds : list draw) : result (list nat * list draw) :=
  match ds with DInts l :: r => Ok (l, r) | _ => Err 90%Z end.
Definition take_names (ds : list draw) : result (list name * list draw) :=
  match ds with DNames l :: r => Ok (l, r) | _ => Err 90%Z end.

(* ---- f"generated_plate_{idx}" ---- *)
Fixpoint dec_fuel (fuel n : nat) (acc : list Z) : list Z :=
  match fuel with
  | O => acc
  | S f =>
      let acc' := (48 + Z.of_nat (n mod 10))%Z :: acc in
      if (n / 10 =? 0)%nat then acc' else dec_fuel f (n / 10) acc'
  end.
Definition decimal (n : nat) : list Z := dec_fuel (S n) n [].
Definition gen_prefix : name :=
  [103; 101; 110; 101; 114; 97; 116; 101; 100; 95; 112; 108; 97; 116; 101; 95]%Z.
Definition gen_name (k : nat) : name := gen_prefix ++ decimal k.

(* ---- np.array_split(l, n) for n >= 1 ---- *)
Definition split_start (q r j : nat) : nat := j * q + Nat.min j r.
Definition array_split {A} (l : list A) (n : nat) : list (list A) :=
  let q := length l / n in
  let r := length l mod n in
  map (fun j => firstn (split_start q r (S j) - split_start q r j) (skipn (split_start q r j) l)) (seq 0 n).

(* ---- PlatePermutationPlateGenerator._generate_plates ---- *)
Definition plate_perm (force : list name) (rows : list row) (ds : list draw)
  : result (list row * list draw) :=
  let keepf := fun r : row => if is_nil force then true else negb (name_mem (r_plate r) force) in
  let to_permute := filter keepf rows in
  let non_permuted := filter (fun r => negb (keepf r)) rows in
  dor d <- take_names ds;
  let '(names, ds') := d in
  if negb (length names =? length to_permute) then Err 91%Z
  else
    let permuted := map (fun x => set_mask false (set_plate (fst x) (snd x))) (combine names to_permute) in
    dor c <- construct (permuted ++ non_permuted);
    Ok (c, ds').

(* ---- SampleSegregatingPermutationPlateGenerator._generate_plates ---- *)
Definition cdiv (a b : Z) : Z := ((a + b - 1) / b)%Z.      (* math.ceil(a / float(b)), b > 0 *)

Fixpoint ss_plates (fixed : bool) (mx : Z) (rows : list row) (samples : list name) (ds : list draw)
  : result (list (list nat) * list draw) :=
  match samples with
  | [] => Ok ([], ds)
  | s :: rest =>
      let idx := idx_where (in_sample s) rows in
      if (Z.of_nat (length idx) >? mx)%Z then
        if (mx <=? 0)%Z then Err 3%Z
        else
          let n_plates := Z.to_nat (cdiv (Z.of_nat (length idx)) mx) in
          dor d <- take_ints ds;
          let '(perm, ds1) := d in
          dor r <- ss_plates fixed mx rows rest ds1;
          let '(ps, ds2) := r in
          Ok (array_split perm n_plates ++ ps, ds2)
      else
        dor r <- ss_plates fixed mx rows rest ds;
        let '(ps, ds2) := r in
        Ok ((if fixed then [idx] else []) ++ ps, ds2)
  end.

(* plate_names = [""]*n; for k, indices in enumerate(plate_indices): plate_names[indices] = name k *)
Definition label_of (pis : list (list nat)) (i : nat) : name :=
  fold_left (fun acc kp => if memb i (snd kp) then gen_name (fst kp) else acc) (enum_from 0 pis) [].

Definition sample_seg (fixed : bool) (mx : Z) (rows : list row) (ds : list draw)
  : result (list row * list draw) :=
  dor r <- ss_plates fixed mx rows (sample_names rows) ds;
  let '(pis, ds') := r in
  dor c <- construct (map (fun ir => set_plate (label_of pis (fst ir)) (snd ir)) (enum_from 0 rows));
  Ok (c, ds').

(* ---- FixedSizeSmoother / OptimalSizeSmoother ---- *)
Fixpoint size_results (t : Z) (n : nat) (rows : list row) (plates : list name) (ds : list draw)
  : result (list bvec * list draw) :=
  match plates with
  | [] => Ok ([], ds)
  | p :: rest =>
      let v := plate_vec p rows in
      let sz := Z.of_nat (vcount v) in
      if (sz <? t)%Z then size_results t n rows rest ds
      else if (sz =? t)%Z then
        dor r <- size_results t n rows rest ds;
        let '(vs, ds') := r in Ok (v :: vs, ds')
      else if (t <? 0)%Z then Err 3%Z
      else
        dor d <- take_ints ds;
        let '(idx, ds1) := d in
        dor r <- size_results t n rows rest ds1;
        let '(vs, ds') := r in Ok (vof_idx n idx :: vs, ds')
  end.

Definition size_smooth (t : Z) (rows : list row) (ds : list draw) : result (list row * list draw) :=
  let n := length rows in
  dor r <- size_results t n rows (plate_names_of rows) ds;
  let '(vs, ds') := r in
  let final := fold_left vor vs (repeat false n) in
  Ok (vselect final rows, ds').

Fixpoint insert_nat (x : nat) (l : list nat) : list nat :=
  match l with [] => [x] | y :: r => if x <=? y then x :: l else y :: insert_nat x r end.
Definition sort_nat (l : list nat) : list nat := fold_right insert_nat [] l.
(* np.argmax: first index of the maximum *)
Fixpoint argmax_go (l : list nat) (i best bi : nat) : nat :=
  match l with
  | [] => bi
  | y :: r => if best <? y then argmax_go r (S i) y i else argmax_go r (S i) best bi
  end.
Definition argmax (l : list nat) : nat :=
  match l with [] => 0 | x :: r => argmax_go r 1 x 0 end.
Definition size_products (s : list nat) : list nat :=
  map (fun kx => snd kx * (length s - fst kx)) (enum_from 0 s).
Definition optimal_size (sizes : list nat) : nat :=
  let s := sort_nat sizes in nth (argmax (size_products s)) s 0.
Definition plate_sizes (rows : list row) : list nat :=
  map (fun p => vcount (plate_vec p rows)) (plate_names_of rows).

Definition optimal_smooth (rows : list row) (ds : list draw) : result (list row * list draw) :=
  if is_nil rows then Err 3%Z
  else size_smooth (Z.of_nat (optimal_size (plate_sizes rows))) rows ds.

(* ---- _get_plate_sample_id ---- *)
Definition plate_samples (p : name) (rows : list row) : list name :=
  sort_uniq name_cmp (map r_sample (filter (in_plate p) rows)).
Definition plate_sample (p : name) (rows : list row) : result name :=
  match plate_samples p rows with
  | [s] => Ok s
  | [] => Err 92%Z
  | _ => Err 4%Z
  end.
(* [p for p in screen.plates if self._get_plate_sample_id(p) == sample_id] *)
Definition plates_of_sample (s : name) (rows : list row) : result (list name) :=
  let ps := plate_names_of rows in
  dor sps <- res_map_all (fun p => plate_sample p rows) ps;
  Ok (map fst (filter (fun x => name_eqb (snd x) s) (combine ps sps))).

(* ---- NPlatePerCellLineSmoother ---- *)
Fixpoint count_add (s : name) (counts : list (name * nat)) : list (name * nat) :=
  match counts with
  | [] => [(s, 1)]
  | (k, c) :: r => if name_eqb k s then (k, S c) :: r else (k, c) :: count_add s r
  end.
Definition plate_counts (rows : list row) : result (list (name * nat)) :=
  dor sps <- res_map_all (fun p => plate_sample p rows) (plate_names_of rows);
  Ok (fold_left (fun acc s => count_add s acc) sps []).

Fixpoint index_of (x : name) (l : list name) : nat :=
  match l with [] => 0 | y :: r => if name_eqb x y then 0 else S (index_of x r) end.
(* sample id of a row in the screen [rows] *)
Definition sample_id (rows : list row) (s : name) : nat := index_of s (sample_names rows).

Fixpoint np_drop_stale (m : Z) (todo : list (nat * nat)) (rows : list row) : list row :=
  match todo with
  | [] => rows
  | (sid, c) :: r =>
      if (Z.of_nat c <? m)%Z
      then np_drop_stale m r (filter (fun x => negb (sample_id rows (r_sample x) =? sid)) rows)
      else np_drop_stale m r rows
  end.

Definition nplate (fixed : bool) (m : Z) (rows : list row) : result (list row) :=
  dor counts <- plate_counts rows;
  if fixed then
    let drop := map fst (filter (fun kc => (Z.of_nat (snd kc) <? m)%Z) counts) in
    Ok (filter (fun r => negb (name_mem (r_sample r) drop)) rows)
  else
    Ok (np_drop_stale m (map (fun kc => (sample_id rows (fst kc), snd kc)) counts) rows).

(* ---- Plate.merge: self.merge(other) ---- *)
Definition merge (self other : bvec) (rows : list row) : bvec * list row :=
  let sel := vor self other in
  let nm := match vselect sel rows with r :: _ => r_plate r | [] => [] end in
  (sel, vrelabel sel nm rows).

(* ---- MergeMinPlateSmoother ---- *)
Fixpoint remove_nth {A} (i : nat) (l : list A) : list A :=
  match l, i with
  | [], _ => []
  | _ :: r, O => r
  | x :: r, S j => x :: remove_nth j r
  end.

Definition pop (heap : list bvec) (ds : list draw) : result (bvec * list bvec * list draw) :=
  match ds with
  | DInts [i] :: ds' =>
      match nth_error heap i with
      | Some v =>
          if forallb (fun w => vcount v <=? vcount w) heap then Ok (v, remove_nth i heap, ds')
          else Err 93%Z
      | None => Err 92%Z
      end
  | _ => Err 90%Z
  end.

Fixpoint mm_loop (fuel : nat) (min_size : Z) (heap : list bvec) (rows : list row) (ds : list draw)
  : result (list row * list draw) :=
  match fuel with
  | O => Ok (rows, ds)
  | S f =>
      if length heap <=? 1 then Ok (rows, ds)
      else
        dor p1 <- pop heap ds;
        let '(a, h1, ds1) := p1 in
        dor p2 <- pop h1 ds1;
        let '(b, h2, ds2) := p2 in
        if (Z.of_nat (vcount a + vcount b) >? min_size)%Z then Ok (rows, ds2)
        else
          let '(m, rows') := merge b a rows in
          mm_loop f min_size (h2 ++ [m]) rows' ds2
  end.

Fixpoint mm_samples (min_size : Z) (samples : list name) (rows : list row) (ds : list draw)
  : result (list row * list draw) :=
  match samples with
  | [] => Ok (rows, ds)
  | s :: rest =>
      dor ps <- plates_of_sample s rows;
      let heap := map (fun p => plate_vec p rows) ps in
      dor r <- mm_loop (length heap) min_size heap rows ds;
      let '(rows', ds') := r in
      mm_samples min_size rest rows' ds'
  end.
Definition merge_min (min_size : Z) (rows : list row) (ds : list draw) : result (list row * list draw) :=
  mm_samples min_size (sample_names rows) rows ds.

(* ---- MergeTopBottomPlateSmoother ---- *)
(* sorted(plates, key=size): stable *)
Fixpoint insert_sz (x : bvec) (l : list bvec) : list bvec :=
  match l with
  | [] => [x]
  | y :: r => if vcount x <=? vcount y then x :: l else y :: insert_sz x r
  end.
Definition sort_sz (l : list bvec) : list bvec := fold_right insert_sz [] l.

Fixpoint tb_merge_pairs (pairs : list (bvec * bvec)) (rows : list row) : list row :=
  match pairs with
  | [] => rows
  | (small, big) :: r => tb_merge_pairs r (snd (merge big small rows))
  end.

(* one iteration of the inner loop; None = break *)
Definition tb_iter (s : name) (rows : list row) : result (option (list row)) :=
  dor ps <- plates_of_sample s rows;
  if length ps <=? 1 then Ok None
  else
    let plates := sort_sz (map (fun p => plate_vec p rows) ps) in
    let halfway := length plates / 2 in
    Ok (Some (tb_merge_pairs (combine (firstn halfway plates) (firstn halfway (rev plates))) rows)).

Fixpoint tb_iters (n : nat) (s : name) (rows : list row) : result (list row) :=
  match n with
  | O => Ok rows
  | S k =>
      dor r <- tb_iter s rows;
      match r with
      | None => Ok rows
      | Some rows' => tb_iters k s rows'
      end
  end.
Fixpoint tb_samples (n : nat) (samples : list name) (rows : list row) : result (list row) :=
  match samples with
  | [] => Ok rows
  | s :: rest => dor rows' <- tb_iters n s rows; tb_samples n rest rows'
  end.
Definition merge_tb (n_iter : Z) (rows : list row) : result (list row) :=
  tb_samples (Z.to_nat n_iter) (sample_names rows) rows.

(* ---- shipped smoothers / generators as one dispatch ---- *)
Definition pure_sm (f : list row -> result (list row)) (rows : list row) (ds : list draw)
  : result (list row * list draw) :=
  dor r <- f rows; Ok (r, ds).

Definition ensemble (fixed : bool) (min_size n_iter m : Z) (rows : list row) (ds : list draw)
  : result (list row * list draw) :=
  dor r1 <- wrap (merge_min min_size) rows ds;
  let '(s1, d1) := r1 in
  dor r2 <- wrap (pure_sm (merge_tb n_iter)) s1 d1;
  let '(s2, d2) := r2 in
  dor r3 <- wrap optimal_smooth s2 d2;
  let '(s3, d3) := r3 in
  wrap (pure_sm (nplate fixed m)) s3 d3.

Inductive smoother : Type :=
| SMergeMin (min_size : Z)
| SMergeTB (n_iter : Z)
| SFixed (t : Z)
| SOptimal
| SNPlate (fixed : bool) (m : Z)
| SEnsemble (fixed : bool) (min_size n_iter m : Z).

Definition smooth_inner (sm : smoother) : list row -> list draw -> result (list row * list draw) :=
  match sm with
  | SMergeMin ms => merge_min ms
  | SMergeTB n => pure_sm (merge_tb n)
  | SFixed t => size_smooth t
  | SOptimal => optimal_smooth
  | SNPlate fx m => pure_sm (nplate fx m)
  | SEnsemble fx ms n m => ensemble fx ms n m
  end.
Definition smooth_plates (sm : smoother) := wrap (smooth_inner sm).

(* ---- vocabulary of the source translations (harness/src_functions.py -> Generated/SrcRetro.v) ----
   One definition per primitive the translated functions are configured with: the meaning given to one
   attribute / method / library call of batchie.data or heapq.  Everything else in Generated/SrcRetro.v
   (branches, None checks, loops, raises, arithmetic) comes from the translation of the source text. *)
Definition screen_t := list row.      (* a Screen: its experiments, in row order *)
Definition subset_t := list row.      (* a ScreenSubset: the selected experiments of its parent, in row order *)
(* self._generate_plates(screen, rng) / self._smooth_plates(screen, rng): any function of the screen and of the
   recorded answers still unread; returns the new screen and the answers left, or raises *)
Definition inner := screen_t -> list draw -> result (screen_t * list draw).
(* Screen.subset_unobserved(): `if np.any(~self.observation_mask): return self.subset(~self.observation_mask)` *)
Definition subset_unobserved (s : screen_t) : option subset_t :=
  if is_nil (unobserved s) then None else Some (unobserved s).
(* Screen.subset_observed(): `if np.any(self.observation_mask): return self.subset(self.observation_mask)` *)
Definition subset_observed (s : screen_t) : option subset_t :=
  if is_nil (observed s) then None else Some (observed s).
(* ScreenSubset.to_screen(): Screen(<every column>[self.selection_vector].copy()) - ids are re-encoded (not stored
   here) and the selected rows of a plate-uniform parent are plate-uniform, so the constructor accepts them *)
Definition to_screen (s : subset_t) : screen_t := s.
(* Screen.combine(other): Screen(<every column of self> ++ <every column of other>) *)
Definition combine_screens (a b : screen_t) : result screen_t := construct (a ++ b).
(* Screen.plates: [self.get_plate(x) for x in self.unique_plate_ids], get_plate(x) = Plate(self, self.plate_ids == x).
   A Plate object is its selection vector into its (mutable) parent screen; plate ids are ranks of sorted names. *)
Definition plates_of (s : screen_t) : list bvec := map (fun p => plate_vec p s) (plate_names_of s).
(* plate.unique_sample_ids of a plate [v] of the screen [s]: np.unique(s.sample_ids[v]) - as names, sorted *)
Definition plate_unique_samples (v : bvec) (s : screen_t) : list name := sort_uniq name_cmp (map r_sample (vselect v s)).
(* a[0] on a numpy array: IndexError when it is empty *)
Definition first_item {A} (l : list A) : result A := match l with x :: _ => Ok x | [] => Err 92%Z end.
(* plate.size = number of selected experiments *)
Definition plate_size (v : bvec) : Z := Z.of_nat (vcount v).
(* len(l) *)
Definition zlen {A} (l : list A) : Z := Z.of_nat (length l).

(* ---- vocabulary of the source translations of the shipped generators / smoothers (harness/src_functions.py, configurations
   C13_SAMPLE_SEG ... C13_PLATE_PERMUTATION -> Generated/SrcRetroGen.v).  One definition per primitive: the meaning given to
   one numpy / Generator / batchie.data call.  A `draw` answer is taken from the stream of recorded answers as it is: that it is a
   permutation / a duplicate-free sub-list of the offered array (numpy's contract) is a hypothesis of the shape theorems
   ([ss_contract], [size_contract]), not of the links. *)
(* math.ceil(a / float(b)) on ints: ZeroDivisionError (tag 3) for b = 0, else the ceiling of the quotient (of either sign) *)
Definition ceil_div_float (a b : Z) : result Z := if (b =? 0)%Z then Err 3%Z else Ok (- ((- a) / b))%Z.
(* rng.permutation(a), a an array of row numbers: the recorded answer *)
Definition permutation_ints (a : list nat) (ds : list draw) : result (list nat * list draw) := take_ints ds.
(* np.array_split(a, n): ValueError (tag 3) unless n >= 1 *)
Definition array_split_z {A} (a : list A) (n : Z) : result (list (list A)) :=
  if (n <=? 0)%Z then Err 3%Z else Ok (array_split a (Z.to_nat n)).
(* np.array([""] * n, dtype=object) *)
Definition blank_names (n : nat) : list name := repeat [] n.
(* a[idx] = v with idx an array of positions: IndexError (tag 92) if a position is outside the array *)
Definition set_at (a : list name) (idx : list nat) (v : name) : result (list name) :=
  if forallb (fun i => i <? length a) idx
  then Ok (map (fun ix => if memb (fst ix) idx then v else snd ix) (enum_from 0 a))
  else Err 92%Z.
(* Screen(<every column of s>.copy(), plate_names = l.astype(str), observation_mask = s.observation_mask.copy()):
   ValueError (tag 91) if l has not one entry per experiment *)
Definition screen_labelled (s : screen_t) (l : list name) : result screen_t :=
  if negb (length l =? length s) then Err 91%Z
  else construct (map (fun lr => set_plate (fst lr) (snd lr)) (combine l s)).
(* rng.choice(a, n, replace=False), a an array of row numbers: the recorded answer; ValueError (tag 3) for a negative n *)
Definition choice_ints (a : list nat) (n : Z) (ds : list draw) : result (list nat * list draw) :=
  if (n <? 0)%Z then Err 3%Z else take_ints ds.
(* np.arange(s.size)[v], v a selection vector of s *)
Definition vec_positions (v : bvec) : list nat := map fst (filter snd (enum_from 0 v)).
(* Screen.subset(v): the selected experiments, in row order *)
Definition subset_of (s : screen_t) (v : bvec) : subset_t := vselect v s.
(* np.sort(np.array(l)), l a list of ints *)
Fixpoint insert_z (x : Z) (l : list Z) : list Z :=
  match l with [] => [x] | y :: r => if (x <=? y)%Z then x :: l else y :: insert_z x r end.
Definition sort_z (l : list Z) : list Z := fold_right insert_z [] l.
(* a * b on int arrays of equal length *)
Definition vmul_z (a b : list Z) : list Z := map (fun p => (fst p * snd p)%Z) (combine a b).
(* n - v, n an int, v an int array *)
Definition rsub_z (n : Z) (v : list Z) : list Z := map (fun x => (n - x)%Z) v.
(* np.argmax(a): the first index of the maximum; ValueError (tag 3) on an empty array *)
Fixpoint argmax_z_go (l : list Z) (i best bi : Z) : Z :=
  match l with
  | [] => bi
  | y :: r => if (best <? y)%Z then argmax_z_go r (i + 1)%Z y i else argmax_z_go r (i + 1)%Z best bi
  end.
Definition argmax_z (l : list Z) : result Z :=
  match l with [] => Err 3%Z | x :: r => Ok (argmax_z_go r 1%Z x 0%Z) end.
(* the id of the sample named nm in the screen s: its rank among the sorted unique sample names *)
Definition sample_id_z (s : screen_t) (nm : name) : Z := Z.of_nat (sample_id s nm).
(* plate.unique_sample_ids of a plate [v] of the screen [s], as ids: np.unique(s.sample_ids[v]) (ranks are monotone in the names) *)
Definition plate_unique_sample_ids (v : bvec) (s : screen_t) : list Z := map (sample_id_z s) (plate_unique_samples v s).
(* s.sample_names != nm *)
Definition sample_name_ne (s : screen_t) (nm : name) : bvec := map (fun r => negb (name_eqb (r_sample r) nm)) s.
(* ~np.isin(s.plate_names, f) *)
Definition plate_not_in (s : screen_t) (f : list name) : bvec := map (fun r => negb (name_mem (r_plate r) f)) s.
(* rng.permutation(names), names an array of plate names: the recorded answer *)
Definition permutation_names (a : list name) (ds : list draw) : result (list name * list draw) := take_names ds.
(* Screen(<every column of s>, plate_names = l, observation_mask = np.zeros(s.size)): ValueError (tag 91) if l has not one entry
   per experiment *)
Definition screen_renamed (s : screen_t) (l : list name) : result screen_t :=
  if negb (length l =? length s) then Err 91%Z
  else construct (map (fun x => set_mask false (set_plate (fst x) (snd x))) (combine l s)).
