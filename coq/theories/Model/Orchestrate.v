(* C19 — model of nextflow/scripts/batchie.py (the orchestration script), of the
   directory tree it keeps its state in, of the pipeline it launches, of crashes and
   of the operator.  Executable; no proofs here.

   What each definition transcribes
   --------------------------------
   fs, pdir            outdir/iter_<i>/plate_<j>/<name>/{training.screen.h5, test.screen.h5,
                       thetas*.h5, distance_matrix_chunk*.h5, selected_plate,
                       advanced_screen.h5, screen_metadata.json}            (script 72-169)
   sort_dirs           sorted(..., key=dir_sort_key)  (numeric, not lexicographic)  (291-310)
   examine             examine_output_dir_to_determine_current_iteration       (295-348)
                         - marker check    validate_job_dir_and_return_meta is None
                         - contiguity      plate_idx != idx
                         - `current_plate_idx = 0` executed once per iteration directory,
                           BEFORE the loop over its plates, also when it has none
                         - current_iter_index / last_successful_run_meta only move inside
                           the plate loop
                         - `plate_dir` leaks out of both loops and is what
                           get_screen_from_job_output is applied to
                         - the next-step arithmetic as written
                       [fixed = true] is the script with the one-line repair
                       "an iteration directory without plate directories is skipped".
   screen_of           get_screen_from_job_output: advanced_screen.h5, else training.screen.h5
   selected_plates     get_selected_plates (evaluated BEFORE the rmtree, as in the script)
   plan                run_next_retrospective_step / run_next_prospective_step up to the
                       point where the command is started (351-478): the list of file-system
                       mutations in program order, then the launch (or the exception the
                       script raises instead: no test screen / no thetas / None in the command)
   outputs             what each of the three workflows (main.nf: RETROSPECTIVE with
                       --initialize true|false, PROSPECTIVE, NEXT_BATCH_PLATE --reveal true)
                       publishes under --outdir, computed from the CONTENT of its inputs at
                       launch time.  Content is abstract: a screen is the list of its
                       unobserved plate ids; selection = first unobserved plate not excluded;
                       reveal removes it; metadata = number of unobserved plates.  The fake
                       nextflow of the harness implements exactly this.
   dep_ok              data dependence between the published files (a file is published after
                       the files the process that made it consumed).  In PROSPECTIVE the
                       metadata is computed from the INPUT screen, so it depends on nothing.
   attempt             one call of run_next_*: execute the first k events (mutations, launch,
                       publications in the adversary's order); k < number of events = crash.
                       Because the script keeps no state between two calls of run_next_* (it
                       re-reads the output directory), "the while-loop of main() goes round"
                       and "crash + restart" are the same transition.
   operator            on an error that names a directory: remove it (then rerun).
   script_run          fold of attempts/operator actions over a crash schedule.
   ideal_step, crash_free   the execution that is never interrupted, in closed form.

   call_returns        the value one call of run_next_* hands back to main(): retrospective
                       `return False` when the last completed step's metadata says no plates
                       remain / `return True` after a launch; prospective
                       `return current_plate_idx < batch_size - 1`  (375, 429, 483); None =
                       the call did not return (interrupted, raised, pipeline exit != 0)
   invocation          main(): `while True: should_run_again = run_next(...); if not
                       should_run_again: break`  (495-504) - calls are repeated while the
                       previous one returned True; --screen is read ONCE per invocation
   op_screen           which screen the operator passes as --screen to an invocation, as a
                       function of the output directory at invocation start.  Retrospective:
                       always the same file (index 0).  Prospective: the operator prepares a
                       new screen file for every batch; he hands over screen q when q batches'
                       worth of steps are complete (on every reachable tree q is the iteration
                       index of the first step that is not complete: op_screen_canon).
   session             fold of invocations over a crash schedule (one entry per call, as in
                       script_run); each invocation record keeps the operator screen it was
                       given, so SInput inside the launches of a record means THAT screen.
   launches_of         every launch of a session stamped with the operator screen it read.

   Abstracted: the <name> directory level, the work directory, files the script never
   reads (score chunks, model evaluation, versions.yml), creation of outdir itself,
   nextflow's own resume cache and asynchronous publishing.  [f_by] is a ghost field
   (which command created the directory's contents); the harness reconstructs it from
   the fake's command log. *)
From Coq Require Import ZArith List Bool.
Import ListNotations.
Open Scope Z_scope.

Inductive mode := Retro | Prosp.
Definition step := (Z * Z)%type.                       (* iteration, plate *)
Inductive kind := KTraining | KTest | KThetas | KDist | KSelected | KAdvanced | KMeta.
Inductive spath := SInput | SFile (s : step) (k : kind).

Inductive launch :=
| LInit (screen : spath)                                (* run_initial_plate *)
| LFirst (training test : spath)                        (* run_first_batch_plate *)
| LProsp (screen : spath)                               (* run_first_prospective_batch_plate *)
| LNext (screen : spath) (thetas_from : step) (excludes : list Z).  (* run_subsequent_batch_plate *)

Record pdir := mkp {
  f_training : option (list Z);
  f_test : bool;
  f_thetas : bool;
  f_dist : bool;
  f_selected : option Z;
  f_advanced : option (list Z);
  f_meta : option Z;
  f_by : option launch }.

Definition empty_pdir : pdir := mkp None false false false None None None None.

Definition idir := list (Z * pdir).
Definition fs := list (Z * idir).

(* ---------- generic association-list helpers (keys are Z, first match wins) ---------- *)
Fixpoint lookup {A} (k : Z) (l : list (Z * A)) : option A :=
  match l with
  | [] => None
  | (k', a) :: r => if k' =? k then Some a else lookup k r
  end.

Fixpoint update {A} (k : Z) (f : A -> A) (l : list (Z * A)) : list (Z * A) :=
  match l with
  | [] => []
  | (k', a) :: r => if k' =? k then (k', f a) :: r else (k', a) :: update k f r
  end.

Definition remove_key {A} (k : Z) (l : list (Z * A)) : list (Z * A) :=
  filter (fun p => negb (fst p =? k)) l.

Definition ensure {A} (k : Z) (dflt : A) (l : list (Z * A)) : list (Z * A) :=
  match lookup k l with Some _ => l | None => l ++ [(k, dflt)] end.

Fixpoint insert_key {A} (p : Z * A) (l : list (Z * A)) : list (Z * A) :=
  match l with
  | [] => [p]
  | q :: r => if fst p <? fst q then p :: q :: r else q :: insert_key p r
  end.
Fixpoint sort_dirs {A} (l : list (Z * A)) : list (Z * A) :=
  match l with [] => [] | p :: r => insert_key p (sort_dirs r) end.

Definition get_plate (f : fs) (s : step) : option pdir :=
  match lookup (fst s) f with Some d => lookup (snd s) d | None => None end.

(* ---------- file-system mutations ---------- *)
Definition rmtree (s : step) (f : fs) : fs := update (fst s) (remove_key (snd s)) f.
Definition mk_iter (i : Z) (f : fs) : fs := ensure i [] f.
Definition mk_plate (s : step) (f : fs) : fs := update (fst s) (ensure (snd s) empty_pdir) f.
Definition upd_plate (s : step) (g : pdir -> pdir) (f : fs) : fs :=
  update (fst s) (update (snd s) g) f.

(* ---------- examine ---------- *)
Inductive xres (A : Type) := XOk (a : A) | XNamed (why : Z) (s : step).
Arguments XOk {A} a.
Arguments XNamed {A} why s.
(* why: 1 = "invalid structure" (no marker), 2 = "no apparent ancestor" (gap) *)
Definition xbind {A B} (r : xres A) (k : A -> xres B) : xres B :=
  match r with XOk a => k a | XNamed w s => XNamed w s end.

Record exst := mkx {
  x_meta : option Z;           (* last_successful_run_meta["n_unobserved_plates"] *)
  x_iter : Z;                  (* current_iter_index (None is unobservable: see examine) *)
  x_plate : Z;                 (* current_plate_idx *)
  x_leak : option (step * pdir) (* the loop variable plate_dir after the loops *) }.

Definition exst0 : exst := mkx None 0 0 None.

Fixpoint examine_plates (it : Z) (st : exst) (idx : Z) (pl : idir) : xres exst :=
  match pl with
  | [] => XOk st
  | (pidx, d) :: r =>
      match f_meta d with
      | None => XNamed 1 (it, pidx)
      | Some m =>
          if negb (pidx =? idx) then XNamed 2 (it, pidx)
          else examine_plates it (mkx (Some m) it pidx (Some ((it, pidx), d))) (idx + 1) r
      end
  end.

Definition is_nil {A} (l : list A) : bool := match l with [] => true | _ => false end.

Definition examine_iter (fixed : bool) (st : exst) (itd : Z * idir) : xres exst :=
  let pl := sort_dirs (snd itd) in
  let st0 := if fixed && is_nil pl then st
             else mkx (x_meta st) (x_iter st) 0 (x_leak st) in       (* current_plate_idx = 0 *)
  examine_plates (fst itd) st0 0 pl.

Fixpoint examine_iters (fixed : bool) (st : exst) (l : fs) : xres exst :=
  match l with
  | [] => XOk st
  | itd :: r => xbind (examine_iter fixed st itd) (fun st' => examine_iters fixed st' r)
  end.

Definition screen_of (leak : option (step * pdir)) : option spath :=
  match leak with
  | None => None
  | Some (s, d) =>
      match f_advanced d with
      | Some _ => Some (SFile s KAdvanced)
      | None => match f_training d with Some _ => Some (SFile s KTraining) | None => None end
      end
  end.

(* (next iteration, next plate, last meta, current screen) *)
Definition examine (fixed : bool) (bs : Z) (f : fs) : xres (Z * Z * option Z * option spath) :=
  xbind (examine_iters fixed exst0 (sort_dirs f)) (fun st =>
    match x_meta st with
    | None => XOk (0, 0, None, None)
    | Some m =>
        if x_plate st >=? bs - 1
        then XOk (x_iter st + 1, 0, Some m, screen_of (x_leak st))
        else XOk (x_iter st, x_plate st + 1, Some m, screen_of (x_leak st))
    end).

(* ---------- run_next_* up to the launch ---------- *)
Inductive action :=
| ARmTree (s : step)
| AMkIter (i : Z)
| AMkPlate (s : step)
| ALaunch (s : step) (l : launch)
| AFail (why : Z).   (* 1 no test screen (RuntimeError), 2 no thetas/dist (ValueError), 9 None in command (TypeError) *)

Inductive plan := PNamed (why : Z) (s : step) | PDone | PActs (l : list action).

Fixpoint selected_of (pl : idir) : list Z :=
  match pl with
  | [] => []
  | (_, d) :: r => match f_selected d with Some p => p :: selected_of r | None => selected_of r end
  end.
Definition selected_plates (f : fs) (i : Z) : list Z :=
  match lookup i f with Some pl => selected_of (sort_dirs pl) | None => [] end.

Definition has_thetas_dist (f : fs) (s : step) : bool :=
  match get_plate f s with Some d => f_thetas d && f_dist d | None => false end.
Definition has_training (f : fs) (s : step) : bool :=
  match get_plate f s with Some d => match f_training d with Some _ => true | None => false end | None => false end.

Definition next_action (f : fs) (i j : Z) (scr : option spath) : action :=
  if has_thetas_dist f (i, 0) then
    match scr with
    | Some sp => ALaunch (i, j) (LNext sp (i, 0) (selected_plates f i))
    | None => AFail 9
    end
  else AFail 2.

Definition plan_of (md : mode) (fixed : bool) (bs : Z) (f : fs) : plan :=
  match examine fixed bs f with
  | XNamed w s => PNamed w s
  | XOk (i, j, meta, scr) =>
      let pre := [ARmTree (i, j); AMkIter i; AMkPlate (i, j)] in
      match md with
      | Retro =>
          if match meta with Some m => m <=? 0 | None => false end then PDone
          else if (i =? 0) && (j =? 0) then PActs (pre ++ [ALaunch (i, j) (LInit SInput)])
          else if j =? 0 then
            if has_training f (0, 0) then
              match scr with
              | Some sp => PActs (pre ++ [ALaunch (i, j) (LFirst sp (SFile (0, 0) KTraining))])
              | None => PActs (pre ++ [AFail 9])
              end
            else PActs (pre ++ [AFail 1])
          else PActs (pre ++ [next_action f i j scr])
      | Prosp =>
          if j =? 0 then PActs (pre ++ [ALaunch (i, j) (LProsp SInput)])
          else PActs (pre ++ [next_action f i j (Some SInput)])
      end
  end.

(* ---------- the pipeline ---------- *)
Fixpoint seqZ (a : Z) (n : nat) : list Z :=
  match n with O => [] | S m => a :: seqZ (a + 1) m end.

Definition mem (p : Z) (l : list Z) : bool := existsb (Z.eqb p) l.
Definition select (unobs excl : list Z) : option Z := find (fun p => negb (mem p excl)) unobs.
Definition reveal (p : Z) (unobs : list Z) : list Z := filter (fun q => negb (q =? p)) unobs.
Definition zlen {A} (l : list A) : Z := Z.of_nat (length l).

Definition resolve (n : nat) (f : fs) (sp : spath) : option (list Z) :=
  match sp with
  | SInput => Some (seqZ 0 n)
  | SFile s KAdvanced => match get_plate f s with Some d => f_advanced d | None => None end
  | SFile s KTraining => match get_plate f s with Some d => f_training d | None => None end
  | SFile _ _ => None
  end.

(* select + reveal + metadata of the revealed screen *)
Definition sel_rev (u excl : list Z) (d : pdir) : pdir :=
  match select u excl with
  | None => d
  | Some p => let a := reveal p u in
      mkp (f_training d) (f_test d) (f_thetas d) (f_dist d) (Some p) (Some a) (Some (zlen a)) (f_by d)
  end.

Definition outputs (n : nat) (f : fs) (l : launch) : pdir :=
  match l with
  | LInit _ =>
      let u := seqZ 0 n in
      sel_rev u [] (mkp (Some u) true true true None None None (Some l))
  | LFirst tr _ =>
      match resolve n f tr with
      | None => mkp None false false false None None None (Some l)
      | Some u => sel_rev u [] (mkp None false true true None None None (Some l))
      end
  | LProsp sc =>
      match resolve n f sc with
      | None => mkp None false false false None None None (Some l)
      | Some u => mkp None false true true (select u []) None (Some (zlen u)) (Some l)
      end
  | LNext sc _ excl =>
      match resolve n f sc with
      | None => mkp None false false false None None None (Some l)
      | Some u => sel_rev u excl (mkp None false false false None None None (Some l))
      end
  end.

Definition produced (o : pdir) (k : kind) : bool :=
  match k with
  | KTraining => match f_training o with Some _ => true | None => false end
  | KTest => f_test o
  | KThetas => f_thetas o
  | KDist => f_dist o
  | KSelected => match f_selected o with Some _ => true | None => false end
  | KAdvanced => match f_advanced o with Some _ => true | None => false end
  | KMeta => match f_meta o with Some _ => true | None => false end
  end.

Definition publish (o : pdir) (k : kind) (d : pdir) : pdir :=
  match k with
  | KTraining => mkp (f_training o) (f_test d) (f_thetas d) (f_dist d) (f_selected d) (f_advanced d) (f_meta d) (f_by d)
  | KTest => mkp (f_training d) (f_test o) (f_thetas d) (f_dist d) (f_selected d) (f_advanced d) (f_meta d) (f_by d)
  | KThetas => mkp (f_training d) (f_test d) (f_thetas o) (f_dist d) (f_selected d) (f_advanced d) (f_meta d) (f_by d)
  | KDist => mkp (f_training d) (f_test d) (f_thetas d) (f_dist o) (f_selected d) (f_advanced d) (f_meta d) (f_by d)
  | KSelected => mkp (f_training d) (f_test d) (f_thetas d) (f_dist d) (f_selected o) (f_advanced d) (f_meta d) (f_by d)
  | KAdvanced => mkp (f_training d) (f_test d) (f_thetas d) (f_dist d) (f_selected d) (f_advanced o) (f_meta d) (f_by d)
  | KMeta => mkp (f_training d) (f_test d) (f_thetas d) (f_dist d) (f_selected d) (f_advanced d) (f_meta o) (f_by d)
  end.

Definition set_by (l : launch) (d : pdir) : pdir :=
  mkp (f_training d) (f_test d) (f_thetas d) (f_dist d) (f_selected d) (f_advanced d) (f_meta d) (Some l).

(* the files a run publishes, in the adversary's priority order *)
Definition pubs_of (o : pdir) (order : list kind) : list kind := filter (produced o) order.

Fixpoint publish_all (s : step) (o : pdir) (ks : list kind) (f : fs) : fs :=
  match ks with [] => f | k :: r => publish_all s o r (upd_plate s (publish o k) f) end.

(* data dependence: rank must not decrease along the publication order; the metadata of the
   PROSPECTIVE workflow is computed from the input screen and is unconstrained *)
Definition rank (k : kind) : Z :=
  match k with KTraining => 0 | KTest => 0 | KThetas => 1 | KDist => 2 | KSelected => 3 | KAdvanced => 4 | KMeta => 5 end.
Definition is_meta (k : kind) : bool := match k with KMeta => true | _ => false end.
Fixpoint nondecreasing (l : list Z) : bool :=
  match l with
  | a :: ((b :: _) as r) => (a <=? b) && nondecreasing r
  | _ => true
  end.
Definition meta_free (l : launch) : bool := match l with LProsp _ => true | _ => false end.
Definition dep_ok (l : launch) (ks : list kind) : bool :=
  nondecreasing (map rank (if meta_free l then filter (fun k => negb (is_meta k)) ks else ks)).

(* the completion marker is the last file published *)
Fixpoint marker_last (ks : list kind) : bool :=
  match ks with
  | [] => true
  | [_] => true
  | k :: r => negb (is_meta k) && marker_last r
  end.

(* ---------- attempts, crashes, operator ---------- *)
Inductive logitem :=
| GNamed (why : Z) (s : step)                 (* script named s; operator removed it *)
| GDone                                       (* script returned: nothing left to do *)
| GStopped (k : nat)                          (* crashed after k < 4 events, before the launch *)
| GFail (why : Z)                             (* script raised instead of launching *)
| GLaunch (s : step) (l : launch) (published : list kind) (ok : bool).

Record entry := mke { e_k : nat; e_order : list kind }.

Definition all_kinds : list kind := [KTraining; KTest; KThetas; KDist; KSelected; KAdvanced; KMeta].
Definition expected (md : mode) (l : launch) : list kind :=
  match l with
  | LInit _ => all_kinds
  | LFirst _ _ => [KThetas; KDist; KSelected; KAdvanced; KMeta]
  | LProsp _ => [KThetas; KDist; KSelected; KMeta]
  | LNext _ _ _ => [KSelected; KAdvanced; KMeta]
  end.
Definition complete_run (md : mode) (l : launch) (o : pdir) : bool :=
  forallb (produced o) (expected md l).

Definition apply_action (a : action) (f : fs) : fs :=
  match a with
  | ARmTree s => rmtree s f
  | AMkIter i => mk_iter i f
  | AMkPlate s => mk_plate s f
  | _ => f
  end.

Definition attempt (md : mode) (fixed : bool) (bs : Z) (n : nat) (f : fs) (e : entry) : fs * logitem :=
  match plan_of md fixed bs f with
  | PNamed w s => (rmtree s f, GNamed w s)
  | PDone => (f, GDone)
  | PActs acts =>
      let k := e_k e in
      let pre := firstn 3 acts in
      if (k <? 4)%nat then (fold_left (fun f a => apply_action a f) (firstn k pre) f, GStopped k)
      else
        let f3 := fold_left (fun f a => apply_action a f) pre f in
        match nth 3 acts (AFail 0) with
        | ALaunch s l =>
            let o := outputs n f3 l in
            let allp := pubs_of o (e_order e) in
            let ps := firstn (k - 4) allp in
            (publish_all s o ps (upd_plate s (set_by l) f3),
             GLaunch s l ps ((length allp <=? k - 4)%nat && complete_run md l o))
        | AFail w => (f3, GFail w)
        | _ => (f3, GFail 0)
        end
  end.

Fixpoint script_run (md : mode) (fixed : bool) (bs : Z) (n : nat) (f : fs) (sched : list entry)
  : fs * list logitem :=
  match sched with
  | [] => (f, [])
  | e :: r =>
      let '(f1, g) := attempt md fixed bs n f e in
      let '(f2, gs) := script_run md fixed bs n f1 r in
      (f2, g :: gs)
  end.

(* ---------- the uninterrupted execution, in closed form ---------- *)
Definition step_of (bs : nat) (c : nat) : step := (Z.of_nat (c / bs), Z.of_nat (c mod bs)).

Definition ideal_launch (md : mode) (bs : nat) (c : nat) : launch :=
  let i := (c / bs)%nat in let j := (c mod bs)%nat in
  match md with
  | Retro =>
      match c with
      | O => LInit SInput
      | S c' =>
          match j with
          | O => LFirst (SFile (step_of bs c') KAdvanced) (SFile (0, 0) KTraining)
          | S _ => LNext (SFile (step_of bs c') KAdvanced) (Z.of_nat i, 0) (seqZ (Z.of_nat (c - j)) j)
          end
      end
  | Prosp =>
      match j with
      | O => LProsp SInput
      | S _ => LNext SInput (Z.of_nat i, 0) (seqZ 0 j)
      end
  end.

(* contents of the directory of the c-th step once it is complete *)
Definition ideal_pdir (md : mode) (bs : nat) (n : nat) (c : nat) : pdir :=
  let j := (c mod bs)%nat in
  let lby := Some (ideal_launch md bs c) in
  match md with
  | Retro =>
      let adv := seqZ (Z.of_nat c + 1) (n - c - 1) in
      mkp (match c with O => Some (seqZ 0 n) | _ => None end)
          (match c with O => true | _ => false end)
          (match j with O => true | _ => false end)
          (match j with O => true | _ => false end)
          (Some (Z.of_nat c)) (Some adv) (Some (zlen adv)) lby
  | Prosp =>
      match j with
      | O => mkp None false true true (Some 0) None (Some (Z.of_nat n)) lby
      | S _ => let adv := reveal (Z.of_nat j) (seqZ 0 n) in
               mkp None false false false (Some (Z.of_nat j)) (Some adv) (Some (zlen adv)) lby
      end
  end.

Definition ideal_step (md : mode) (bs n c : nat) : step * pdir := (step_of bs c, ideal_pdir md bs n c).
Definition ideal (md : mode) (bs n k : nat) : list (step * pdir) := map (ideal_step md bs n) (seq 0 k).

(* retrospective: n steps (one plate revealed per step); prospective: one invocation = one batch *)
Definition crash_free (md : mode) (bs n : nat) : list (step * pdir) :=
  ideal md bs n (match md with Retro => n | Prosp => bs end).

(* completed steps of a tree, in (iteration, plate) order, with their contents (incl. the
   command that produced them) *)
Definition completed_of_iter (itd : Z * idir) : list (step * pdir) :=
  flat_map (fun p => match f_meta (snd p) with Some _ => [((fst itd, fst p), snd p)] | None => [] end)
           (sort_dirs (snd itd)).
Definition completed (f : fs) : list (step * pdir) := flat_map completed_of_iter (sort_dirs f).

(* ---------- the invocation level: the while-loop of main(), and the operator's screens ---------- *)
(* what one call of run_next_* hands back to main() *)
Definition call_returns (md : mode) (bs : Z) (g : logitem) : option bool :=
  match g with
  | GDone => Some false                                   (* retrospective: `return False` *)
  | GLaunch s _ _ true =>                                 (* check_call returned: the function runs to its return *)
      Some (match md with Retro => true | Prosp => snd s <? bs - 1 end)
  | _ => None                                             (* interrupted / raised / pipeline exit status != 0 *)
  end.

Inductive iend :=
| IReturned      (* the last call returned False: main() leaves its loop, exit status 0 *)
| IRaised        (* the last call did not return: interruption, exception (the operator acts on a named directory) *)
| IExhausted.    (* the schedule ran out while main() wanted to go on (end of the observation) *)

Record ires := mkr { r_fs : fs; r_calls : list logitem; r_end : iend; r_rest : list entry }.

(* one invocation of the script: consumes one schedule entry per call of run_next_* *)
Fixpoint invocation (md : mode) (fixed : bool) (bs : Z) (n : nat) (f : fs) (sched : list entry) : ires :=
  match sched with
  | [] => mkr f [] IExhausted []
  | e :: r =>
      let '(f1, g) := attempt md fixed bs n f e in
      match call_returns md bs g with
      | Some true => let r2 := invocation md fixed bs n f1 r in
                     mkr (r_fs r2) (g :: r_calls r2) (r_end r2) (r_rest r2)
      | Some false => mkr f1 [g] IReturned r
      | None => mkr f1 [g] IRaised r
      end
  end.

(* index of the screen file the operator passes to an invocation started on tree f *)
Definition op_screen (md : mode) (bs : Z) (f : fs) : Z :=
  match md with
  | Retro => 0
  | Prosp => zlen (completed f) / bs
  end.

(* an invocation as observed: the operator screen it was given, its calls, how it ended.
   Inside i_calls, SInput denotes operator screen i_screen. *)
Record irec := mki { i_screen : Z; i_calls : list logitem; i_end : iend }.

Fixpoint session (fuel : nat) (md : mode) (fixed : bool) (bs : Z) (n : nat) (f : fs) (sched : list entry)
  : fs * list irec :=
  match fuel, sched with
  | S m, _ :: _ =>
      let r := invocation md fixed bs n f sched in
      let '(f2, recs) := session m md fixed bs n (r_fs r) (r_rest r) in
      (f2, mki (op_screen md bs f) (r_calls r) (r_end r) :: recs)
  | _, _ => (f, [])
  end.

(* every invocation consumes at least one entry, so length sched invocations are enough *)
Definition script_session (md : mode) (fixed : bool) (bs : Z) (n : nat) (f : fs) (sched : list entry)
  : fs * list irec := session (length sched) md fixed bs n f sched.

(* the launches of a session, each with the operator screen its invocation was given *)
Definition launches_of_rec (r : irec) : list (step * Z * launch) :=
  flat_map (fun g => match g with GLaunch s l _ _ => [(s, i_screen r, l)] | _ => [] end) (i_calls r).
Definition launches_of (l : list irec) : list (step * Z * launch) := flat_map launches_of_rec l.

(* the c-th launch of the execution that is never interrupted: prospective iteration i runs
   entirely with operator screen i *)
Definition ideal_screen (md : mode) (bs : nat) (c : nat) : Z :=
  match md with Retro => 0 | Prosp => Z.of_nat (c / bs) end.
Definition ideal_stamped (md : mode) (bs : nat) (c : nat) : step * Z * launch :=
  (step_of bs c, ideal_screen md bs c, ideal_launch md bs c).

(* ---------- vocabulary of the source-translation link (harness/src_functions.py C19_*, Generated/SrcOrchestrate.v) ----------
   The translated functions of nextflow/scripts/batchie.py compute over these values:
     a path the script holds is the model value it denotes -
       outdir                         the tree (fs) that is there when the function reads it
       outdir/iter_<i>                iter_path  = (i, its plate directories)     (as globbed by examine)
       outdir/iter_<i>/plate_<j>      plate_path = ((i, j), its files)            (as globbed by examine)
       a path the script BUILDS with os.path.join(outdir, f"iter_{i}", f"plate_{j}") is the step (i, j); with one
       component the iteration index i; the directory need not exist
       a screen file                  spath
     the metadata object json.load returns is its n_unobserved_plates entry (the only one the script reads)
   Exceptions: sres.  SNamed = the two RuntimeErrors of examine that name a job directory; SRaised done why = any other
   exception, raised after the file-system actions [done] of this call (why: 1 no test screen, 2 no thetas / distance
   chunks, 9 None in a command line, 98 IndexError, 99 None where a value is needed). *)
Inductive sres (A : Type) :=
| SOk (a : A)
| SNamed (why : Z) (s : step)
| SRaised (done : list action) (why : Z).
Arguments SOk {A} a.
Arguments SNamed {A} why s.
Arguments SRaised {A} done why.
Definition sbind {A B} (r : sres A) (k : A -> sres B) : sres B :=
  match r with SOk a => k a | SNamed w s => SNamed w s | SRaised d w => SRaised d w end.
Notation "'dos' x <- e ; k" := (sbind e (fun x => k))
  (at level 200, x pattern, e at level 100, k at level 200, right associativity).
Fixpoint sfold {S A : Type} (f : S -> A -> sres S) (l : list A) (s : S) : sres S :=
  match l with
  | [] => SOk s
  | a :: r => dos s' <- f s a; sfold f r s'
  end.
Definition sunwrap {A : Type} (o : option A) : sres A :=
  match o with Some a => SOk a | None => SRaised [] 99 end.

Definition iter_path := (Z * idir)%type.
Definition plate_path := (step * pdir)%type.
Definition iter_index (d : iter_path) : Z := fst d.                 (* dir_sort_key of outdir/iter_<i> *)
Definition plate_index (p : plate_path) : Z := snd (fst p).         (* dir_sort_key of outdir/iter_<i>/plate_<j> *)
(* glob.glob(outdir + "/iter_*"): the entries of the tree, in the order the tree lists them *)
Definition glob_iters (f : fs) : list iter_path := f.
(* glob.glob(iter_dir + "/plate_*") *)
Definition glob_plates (d : iter_path) : list plate_path := map (fun p => ((fst d, fst p), snd p)) (snd d).
(* sorted(l, key=k), the algorithm of sort_dirs for an arbitrary key *)
Fixpoint insert_by {A} (key : A -> Z) (p : A) (l : list A) : list A :=
  match l with
  | [] => [p]
  | q :: r => if key p <? key q then p :: q :: r else q :: insert_by key p r
  end.
Fixpoint sort_by {A} (key : A -> Z) (l : list A) : list A :=
  match l with [] => [] | p :: r => insert_by key p (sort_by key r) end.
(* validate_job_dir_and_return_meta / get_screen_from_job_output of a globbed plate directory *)
Definition meta_of (p : plate_path) : option Z := f_meta (snd p).
Definition screen_of_path (p : plate_path) : option spath := screen_of (Some p).

(* the result of examine in the translation's monad *)
Definition sres_of_xres {A} (r : xres A) : sres A :=
  match r with XOk a => SOk a | XNamed w s => SNamed w s end.

(* -- run_next_retrospective_step / run_next_prospective_step: the file-system actions of a call are appended to a list
   (the translation's state variable `acts`); what the script reads from the output directory it reads from the tree as
   it is THEN: the tree at entry after the actions done so far *)
Definition ename := unit.                         (* the experiment name (basename of --screen): not modelled *)
Definition tree_after (f : fs) (done : list action) : fs := fold_left (fun f a => apply_action a f) done f.
(* get_selected_plates(outdir/iter_<i>): the recorded selections, None when there are none *)
Definition get_selected (f : fs) (i : Z) : option (list Z) :=
  match selected_plates f i with [] => None | l => Some l end.
(* get_test_screen_from_job_output(outdir/iter_<i>/plate_<j>): it globs for training.screen.h5 *)
Definition test_screen_of (f : fs) (s : step) : option spath :=
  if has_training f s then Some (SFile s KTraining) else None.
(* get_theta_and_dist_chunks(outdir/iter_<i>/plate_<j>): ValueError unless both globs match; the answer names that directory *)
Definition theta_chunks (f : fs) (done : list action) (s : step) : sres step :=
  if has_thetas_dist f s then SOk s else SRaised done 2.
(* run_*: the command line is built from the arguments; a None among them is a TypeError (' '.join) before anything is
   started; otherwise the pipeline is launched *)
Definition launch_cmd (done : list action) (s : step) (l : option launch) : sres (list action) :=
  match l with Some l => SOk (done ++ [ALaunch s l]) | None => SRaised done 9 end.
Definition first_cmd (training test : option spath) : option launch :=
  match training, test with Some tr, Some te => Some (LFirst tr te) | _, _ => None end.
Definition next_cmd (screen : option spath) (thetas_from : step) (excludes : option (list Z)) : option launch :=
  match screen with
  | Some sp => Some (LNext sp thetas_from (match excludes with Some l => l | None => [] end))   (* excludes=None: no --excludes *)
  | None => None
  end.

(* what a call of run_next_* does and hands back, as the translation expresses it: (return value, actions) *)
Definition result_of_plan (md : mode) (bs : Z) (p : plan) : sres (bool * list action) :=
  match p with
  | PNamed w s => SNamed w s
  | PDone => SOk (false, [])
  | PActs l =>
      match rev l with
      | ALaunch s _ :: _ => SOk (match md with Retro => true | Prosp => snd s <? bs - 1 end, l)
      | AFail w :: r => SRaised (rev r) w
      | _ => SRaised l 0
      end
  end.

(* -- the helper functions of the script themselves: what their globs return.  The <name> directory level is abstracted:
   a glob for one file name under a job directory has at most one match (thetas*.h5 / distance_matrix_chunk*.h5: only
   whether there is a match is used).  A screen_metadata.json / selected_plate file is the value the script reads from it. *)
Definition glob_in_plate (p : plate_path) (k : kind) : list spath :=       (* under a globbed plate directory *)
  if produced (snd p) k then [SFile (fst p) k] else [].
Definition glob_meta (p : plate_path) : list Z :=
  match f_meta (snd p) with Some m => [m] | None => [] end.
Definition job_path := (fs * step)%type.        (* a path BUILT by os.path.join, with the tree it is resolved in *)
Definition glob_in_job (p : job_path) (k : kind) : list spath :=
  match get_plate (fst p) (snd p) with
  | Some d => if produced d k then [SFile (snd p) k] else []
  | None => []
  end.
Definition iter_job_path := (fs * Z)%type.      (* outdir/iter_<i> built by os.path.join, with the tree *)
Definition glob_selected (p : iter_job_path) : list Z := selected_plates (fst p) (snd p).
(* l[0]: IndexError on an empty list *)
Definition shead {A} (l : list A) : sres A := match l with a :: _ => SOk a | [] => SRaised [] 98 end.

(* ---------- vocabulary of the source-translation link of main() (harness/src_functions.py C19_MAIN, Generated/SrcOrchMain.v) ----------
   main() runs in a WORLD: the output directory as it is now, the crash schedule that is left (one entry per call of
   run_next_*, as in script_run / invocation) and the log of the calls made so far.  The translated main() threads the
   world through its while-loop; an exception that leaves main() carries the world it leaves behind.
     args                         the argparse result: args.mode is a string (argparse's `choices` admits two), args.batch_size an
                                  int; os.path.abspath(args.outdir) denotes THE output directory of the world (OutDir),
                                  os.path.abspath(args.screen) the screen the operator gave this invocation (SInput)
     remaining_args               the operator's extra words (opaque)
     run_next                     a variable that holds one of the two translated functions (stepfn)
     world_call                   should_run_again = run_next(output_dir=.., input_screen=.., extra_args=.., batch_size=..): the
                                  function is applied to the tree as it is NOW; what it would do if nothing interfered (its
                                  result in sres: value + actions ending in the launch / exception after some actions / named
                                  directory) is played against the next schedule entry by exec_result - the rule of [attempt],
                                  stated on the function's result instead of on the model's plan - which also says whether the
                                  call hands its value back to main() (only if it ran to its return: not interrupted, no
                                  exception, pipeline exit status 0).  No entry left = the observation ends (IExhausted). *)
Inductive modename := NRetrospective | NProspective | NOther (which : Z).
Definition modename_eqb (a b : modename) : bool :=
  match a, b with
  | NRetrospective, NRetrospective => true
  | NProspective, NProspective => true
  | NOther x, NOther y => x =? y
  | _, _ => false
  end.
Definition modename_of (md : mode) : modename := match md with Retro => NRetrospective | Prosp => NProspective end.
Record margs := mka { a_mode : modename; a_batch_size : Z }.
Definition eargs := list Z.
Inductive opath := OutDir.
Definition stepfn := fs -> spath -> eargs -> Z -> sres (bool * list action).
Record world := mkw { w_fs : fs; w_sched : list entry; w_calls : list logitem }.

(* the exception monad of main(): MEnd how w = main() does not go on (how = IRaised: an exception propagates out of it;
   IExhausted: the observation ends), leaving world w.  MNoFuel: the explicit fuel of the while-loop ran out (not a Python
   behaviour; links are stated for sufficient fuel). *)
Inductive mres (A : Type) :=
| MOk (a : A)
| MEnd (how : iend) (w : world)
| MNoFuel.
Arguments MOk {A} a.
Arguments MEnd {A} how w.
Arguments MNoFuel {A}.
Definition mbind {A B} (r : mres A) (k : A -> mres B) : mres B :=
  match r with MOk a => k a | MEnd h w => MEnd h w | MNoFuel => MNoFuel end.
Notation "'dom' x <- e ; k" := (mbind e (fun x => k))
  (at level 200, x pattern, e at level 100, k at level 200, right associativity).
(* `while True:` left by `break`, on explicit fuel (as PyRt.res_while): the body answers (go on?, state) *)
Fixpoint mwhile {St : Type} (fuel : nat) (body : St -> mres (bool * St)) (s : St) : mres St :=
  match fuel with
  | O => MNoFuel
  | S k => dom r <- body s; if fst r then mwhile k body (snd r) else MOk (snd r)
  end.

(* the events of a call that would perform [acts] (three directory actions, then the launch or the exception AFail) and, if
   it gets to its return, hand back [ret]: the PActs branch of [attempt] *)
Definition run_events (n : nat) (f : fs) (e : entry) (acts : list action) (ret : option bool) : fs * logitem * option bool :=
  let k := e_k e in
  let pre := firstn 3 acts in
  if (k <? 4)%nat then (fold_left (fun f a => apply_action a f) (firstn k pre) f, GStopped k, None)
  else
    let f3 := fold_left (fun f a => apply_action a f) pre f in
    match nth 3 acts (AFail 0) with
    | ALaunch s l =>
        let o := outputs n f3 l in
        let allp := pubs_of o (e_order e) in
        let ps := firstn (k - 4) allp in
        let ok := ((length allp <=? k - 4)%nat && complete_run Retro l o) in      (* complete_run does not depend on the mode *)
        (publish_all s o ps (upd_plate s (set_by l) f3), GLaunch s l ps ok, if ok then ret else None)
    | AFail w => (f3, GFail w, None)
    | _ => (f3, GFail 0, None)
    end.
(* what the world makes of one call, given what the called function says it does on tree f *)
Definition exec_result (n : nat) (f : fs) (e : entry) (res : sres (bool * list action)) : fs * logitem * option bool :=
  match res with
  | SNamed w s => (rmtree s f, GNamed w s, None)             (* RuntimeError naming s; the operator removes s *)
  | SOk (b, []) => (f, GDone, Some b)                         (* returned without touching anything *)
  | SOk (b, acts) => run_events n f e acts (Some b)
  | SRaised done w => run_events n f e (done ++ [AFail w]) None
  end.
Definition world_call (n : nat) (run : stepfn) (w : world) (o : opath) (s : spath) (x : eargs) (b : Z) : mres (bool * world) :=
  match w_sched w with
  | [] => MEnd IExhausted w
  | e :: rest =>
      let '(f1, g, ret) := exec_result n (w_fs w) e (run (w_fs w) s x b) in
      let w1 := mkw f1 rest (w_calls w ++ [g]) in
      match ret with Some v => MOk (v, w1) | None => MEnd IRaised w1 end
  end.
(* an invocation of the model as a result of the translated main() started with call log [calls0] *)
Definition mres_of_ires (calls0 : list logitem) (r : ires) : mres world :=
  let w := mkw (r_fs r) (r_rest r) (calls0 ++ r_calls r) in
  match r_end r with IReturned => MOk w | how => MEnd how w end.

(* ---------- vocabulary of the source-translation link of the run_* command builders (harness/src_functions.py C19_RUN_*,
   Generated/SrcOrchCmd.v) ----------
   A command line is the list of its words; an item is None when the caller handed None where a string is needed.
     word                    WLit = a string literal of the source (its code points); the other constructors are the values
                             the builders put on the command line: get_main_nf_file(), a screen path, the job output directory,
                             its work directory, the experiment name, the two glob patterns get_theta_and_dist_chunks returns,
                             "--excludes=<ids joined by commas>", a word of the operator's extra arguments (opaque; the model
                             assumes it is none of the script's own options)
     join_words              ' '.join(cmd) inside the logged f-string: TypeError on a None item, before anything is started
     check_call              subprocess.check_call(cmd, cwd=<repository root>): TypeError on a None item; otherwise the process
                             is started.  What nextflow makes of the words (launch_of_words) is read off main.nf and the three
                             workflows: `nextflow run <main.nf>`, then options `--key value` (opt_value: the word after the first
                             occurrence of the key); params.mode selects the workflow; RETROSPECTIVE takes params.screen when
                             params.initialize is true and params.training_screen / params.test_screen otherwise;
                             NEXT_BATCH_PLATE takes screen, thetas, distance_matrix (globs under ONE job directory in the model)
                             and the excludes; the files are published under params.outdir.  Any other command line is no launch
                             of the model (nextflow exits with an error: CalledProcessError, why = 8).  -work-dir, --name and the
                             extra words are not interpreted (Abstracted, header). *)
Inductive tglob := TGlob (s : step).      (* os.path.join(<job dir>, "*", "thetas*.h5") *)
Inductive dglob := DGlob (s : step).      (* os.path.join(<job dir>, "*", "distance_matrix_chunk*.h5") *)
Inductive word :=
| WLit (s : list Z)
| WMainNf
| WScreen (p : spath)
| WJob (s : step)
| WWork (s : step)
| WName (e : ename)
| WThetas (s : step)
| WDist (s : step)
| WExcludes (l : list Z)
| WExtra (x : Z).
Definition word_of_tglob (g : tglob) : word := match g with TGlob s => WThetas s end.
Definition word_of_dglob (g : dglob) : word := match g with DGlob s => WDist s end.
Definition extra_word (x : Z) : option word := Some (WExtra x).

From Coq Require Strings.String Strings.Ascii.
Definition lit (s : String.string) : list Z :=
  map (fun a => Z.of_N (Ascii.N_of_ascii a)) (String.list_ascii_of_string s).
Section Literals.
Import Coq.Strings.String.
Definition L_nextflow : list Z := Eval compute in lit "nextflow".
Definition L_run : list Z := Eval compute in lit "run".
Definition L_mode : list Z := Eval compute in lit "--mode".
Definition L_retrospective : list Z := Eval compute in lit "retrospective".
Definition L_prospective : list Z := Eval compute in lit "prospective".
Definition L_next_plate : list Z := Eval compute in lit "next_plate".
Definition L_screen : list Z := Eval compute in lit "--screen".
Definition L_training_screen : list Z := Eval compute in lit "--training_screen".
Definition L_test_screen : list Z := Eval compute in lit "--test_screen".
Definition L_outdir : list Z := Eval compute in lit "--outdir".
Definition L_initialize : list Z := Eval compute in lit "--initialize".
Definition L_true : list Z := Eval compute in lit "true".
Definition L_reveal : list Z := Eval compute in lit "--reveal".
Definition L_thetas : list Z := Eval compute in lit "--thetas".
Definition L_distance_matrix : list Z := Eval compute in lit "--distance_matrix".
End Literals.

Fixpoint zlist_eqb (a b : list Z) : bool :=
  match a, b with
  | [], [] => true
  | x :: a', y :: b' => (x =? y) && zlist_eqb a' b'
  | _, _ => false
  end.
(* the value of option `key`: the word after the first occurrence of the literal `key` *)
Fixpoint opt_value (key : list Z) (ws : list word) : option word :=
  match ws with
  | [] => None
  | w :: r =>
      match w, r with
      | WLit s, v :: _ => if zlist_eqb s key then Some v else opt_value key r
      | _, _ => opt_value key r
      end
  end.
Definition is_lit (s : list Z) (w : option word) : bool :=
  match w with Some (WLit t) => zlist_eqb t s | _ => false end.
(* --excludes=<ids>: the first such word; none = nothing excluded *)
Fixpoint excludes_of (ws : list word) : list Z :=
  match ws with
  | [] => []
  | WExcludes l :: _ => l
  | _ :: r => excludes_of r
  end.
Definition step_eqb (a b : step) : bool := (fst a =? fst b) && (snd a =? snd b).

Definition launch_of_options (opts : list word) : option (step * launch) :=
  match opt_value L_outdir opts with
  | Some (WJob s) =>
      if is_lit L_retrospective (opt_value L_mode opts) then
        if is_lit L_true (opt_value L_initialize opts) then
          match opt_value L_screen opts with Some (WScreen p) => Some (s, LInit p) | _ => None end
        else
          match opt_value L_training_screen opts, opt_value L_test_screen opts with
          | Some (WScreen tr), Some (WScreen te) => Some (s, LFirst tr te)
          | _, _ => None
          end
      else if is_lit L_prospective (opt_value L_mode opts) then
        match opt_value L_screen opts with Some (WScreen p) => Some (s, LProsp p) | _ => None end
      else if is_lit L_next_plate (opt_value L_mode opts) && is_lit L_true (opt_value L_reveal opts) then
        match opt_value L_screen opts, opt_value L_thetas opts, opt_value L_distance_matrix opts with
        | Some (WScreen p), Some (WThetas t), Some (WDist d) =>
            if step_eqb t d then Some (s, LNext p t (excludes_of opts)) else None
        | _, _, _ => None
        end
      else None
  | _ => None
  end.
Definition launch_of_words (ws : list word) : option (step * launch) :=
  match ws with
  | WLit p :: WLit r :: WMainNf :: opts =>
      if zlist_eqb p L_nextflow && zlist_eqb r L_run then launch_of_options opts else None
  | _ => None
  end.

Fixpoint all_words (cmd : list (option word)) : option (list word) :=
  match cmd with
  | [] => Some []
  | Some w :: r => match all_words r with Some ws => Some (w :: ws) | None => None end
  | None :: _ => None
  end.
Definition join_words (done : list action) (cmd : list (option word)) : sres (list action) :=
  match all_words cmd with Some _ => SOk done | None => SRaised done 9 end.
Definition check_call (done : list action) (cmd : list (option word)) : sres (list action) :=
  match all_words cmd with
  | None => SRaised done 9
  | Some ws =>
      match launch_of_words ws with
      | Some (s, l) => SOk (done ++ [ALaunch s l])
      | None => SRaised done 8
      end
  end.

(* ---------- vocabulary of the source-translation link of dir_sort_key (harness/src_functions.py C19_DIR_SORT_KEY) ----------
   Here a path is its NAME: the list of its components, each a string (list of code points).  The directory names the
   script creates are "iter_<i>" / "plate_<j>" with <i> the decimal numeral of a natural number (f-string of an int).
     basename       os.path.basename: the last component
     split_on 95    s.split("_"): the maximal pieces between separators (always at least one piece)
     snth 1         l[1]: IndexError when there is no second piece
     int_of_str     int(s) for an ASCII decimal numeral without sign; anything else is why = 7: ValueError - or one of
                    the numeral forms Python accepts beyond that (sign, surrounding white space, non-ASCII digits), which the
                    model does not represent *)
Definition str := list Z.
Definition fspath := list str.
Definition basename (p : fspath) : str := last p [].
Fixpoint split_on (sep : Z) (s : str) : list str :=
  match s with
  | [] => [[]]
  | c :: r =>
      if c =? sep then [] :: split_on sep r
      else match split_on sep r with p :: ps => (c :: p) :: ps | [] => [[c]] end
  end.
Definition snth {A} (k : nat) (l : list A) : sres A :=
  match nth_error l k with Some a => SOk a | None => SRaised [] 98 end.
Fixpoint uint_chars (u : Decimal.uint) : str :=
  match u with
  | Decimal.Nil => []
  | Decimal.D0 r => 48 :: uint_chars r | Decimal.D1 r => 49 :: uint_chars r | Decimal.D2 r => 50 :: uint_chars r
  | Decimal.D3 r => 51 :: uint_chars r | Decimal.D4 r => 52 :: uint_chars r | Decimal.D5 r => 53 :: uint_chars r
  | Decimal.D6 r => 54 :: uint_chars r | Decimal.D7 r => 55 :: uint_chars r | Decimal.D8 r => 56 :: uint_chars r
  | Decimal.D9 r => 57 :: uint_chars r
  end.
Fixpoint uint_of_chars (s : str) : option Decimal.uint :=
  match s with
  | [] => Some Decimal.Nil
  | c :: r =>
      match uint_of_chars r with
      | None => None
      | Some u =>
          if c =? 48 then Some (Decimal.D0 u) else if c =? 49 then Some (Decimal.D1 u) else if c =? 50 then Some (Decimal.D2 u)
          else if c =? 51 then Some (Decimal.D3 u) else if c =? 52 then Some (Decimal.D4 u) else if c =? 53 then Some (Decimal.D5 u)
          else if c =? 54 then Some (Decimal.D6 u) else if c =? 55 then Some (Decimal.D7 u) else if c =? 56 then Some (Decimal.D8 u)
          else if c =? 57 then Some (Decimal.D9 u) else None
      end
  end.
Definition int_of_str (s : str) : sres Z :=
  match s with
  | [] => SRaised [] 7
  | _ => match uint_of_chars s with Some u => SOk (Z.of_nat (Nat.of_uint u)) | None => SRaised [] 7 end
  end.
(* f"<prefix>_{i}" for an int i >= 0 *)
Definition numbered (prefix : str) (i : nat) : str := prefix ++ 95 :: uint_chars (Nat.to_uint i).
Section DirNames.
Import Coq.Strings.String.
Definition S_iter : str := Eval compute in lit "iter".
Definition S_plate : str := Eval compute in lit "plate".
End DirNames.
(* the NAME of a globbed iteration / plate directory of the tree under an output directory named [out]: the path whose model
   value (examine's configuration) is iter_path d / plate_path p *)
Definition iter_pathname (out : fspath) (d : iter_path) : fspath := out ++ [numbered S_iter (Z.to_nat (fst d))].
Definition plate_pathname (out : fspath) (p : plate_path) : fspath :=
  out ++ [numbered S_iter (Z.to_nat (fst (fst p))); numbered S_plate (Z.to_nat (snd (fst p)))].

(* ---------- vocabulary of the source-translation link of validate_initial_output_dir_and_get_result_files_as_dict
   (harness/src_functions.py C19_VALIDATE_INITIAL, Generated/SrcOrchInit.v; proofs: Proofs/C19Source_ValidateInitial.v) ----------
   The function is handed the job directory of the INITIAL step (iter_0/plate_0); as for the other helpers the path is the
   model value it denotes (a globbed plate directory = ((i, j), its files)) and a glob for one file name has at most one match.
     initial_required      the files the function insists on, in the order it reads them out of its three globs
     initial_files         the dict it returns: {"test_screen": path, "training_screen": path, "screen_metadata": loaded json}
                           (a metadata object is its n_unobserved_plates entry, as everywhere in this model)
     validate_initial      None when training.screen.h5 or screen_metadata.json is missing (the `or` of the two len tests);
                           with both present and NO test.screen.h5 the read `test_screen_glob[0]` is an IndexError (why = 98):
                           the test screen is required too, but its absence is an exception, not a None
     initial_complete      all three are there: exactly when the function returns the dict *)
Definition initial_required : list kind := [KTest; KTraining; KMeta].
Definition initial_complete (d : pdir) : bool := forallb (produced d) initial_required.
Record initial_files := mkif { if_test : spath; if_training : spath; if_meta : Z }.
Definition validate_initial (p : plate_path) : sres (option initial_files) :=
  match f_training (snd p), f_meta (snd p) with
  | Some _, Some m =>
      if f_test (snd p) then SOk (Some (mkif (SFile (fst p) KTest) (SFile (fst p) KTraining) m))
      else SRaised [] 98
  | _, _ => SOk None
  end.

(* ---------- vocabulary of the source-translation link of get_args (harness/src_functions.py C19_GET_ARGS,
   Generated/SrcOrchArgs.v; proofs: Proofs/C19Source_GetArgs.v) ----------
   A string is the list of its code points (str).  The parser object held in the variable `parser` is its OPTION TABLE, in
   the order of the add_argument calls:
     optspec            one add_argument("--flag", ...) call: the option string, the conversion (type=str / type=int / no type
                        but choices=[...]), required=, default= (an int default, or none)
     dest_of_flag       argparse's rule for the attribute name: the first long option string without its leading "--", every
                        "-" replaced by "_"
     namespace          the object parse_known_args returns: one attribute per declared option, in table order
     parse_known_args   parser.parse_known_args() on the command line (sys.argv[1:]): the words are read from the left; a word
                        that IS a declared option string takes the next word as its value (missing, or a word that starts with
                        "-": `expected one argument`), the value is converted (int: an unsigned ASCII decimal numeral; choices:
                        membership), a later occurrence overrides an earlier one; every other word goes, in order, to the list
                        of remaining arguments; at the end an option that was not given takes its default (None without one) and a
                        required one that was not given is an error.  Every argparse error is SystemExit(2): why = 64.
                        NOT REPRESENTED (why = 90, not a Python behaviour - like MNoFuel): command lines that use argparse's other
                        spellings - a word with "=" (--opt=value), an abbreviation (a proper prefix of a declared option, which
                        includes "--" and "-"), -h / --help and anything that starts like them, a word that starts with "-" and
                        a digit or "." (negative numbers are values, not options), a word that contains a space, and integers in
                        the forms int() accepts beyond [0-9]+ (sign, "_", white space, non-ASCII digits).
     orch_options       the table of the script's parser
     margs_of_ns        what main() reads of the namespace: args.mode (one of the two strings `choices` admits, else NOther),
                        args.batch_size (an int); args.outdir / args.screen must be strings (os.path.abspath) *)
Inductive argtype := TStr | TInt | TChoice (choices : list str).
Record optspec := mko { o_flag : str; o_type : argtype; o_required : bool; o_default : option Z }.
Definition dest_of_flag (flag : str) : str := map (fun c => if c =? 45 then 95 else c) (skipn 2 flag).
Definition o_dest (o : optspec) : str := dest_of_flag (o_flag o).
Inductive nsval := VStr (s : str) | VInt (z : Z) | VNone.
Definition namespace := list (str * nsval).

Fixpoint ns_get (d : str) (ns : namespace) : option nsval :=
  match ns with
  | [] => None
  | (k, v) :: r => if zlist_eqb k d then Some v else ns_get d r
  end.
Fixpoint ns_set (d : str) (v : nsval) (ns : namespace) : namespace :=
  match ns with
  | [] => [(d, v)]
  | (k, x) :: r => if zlist_eqb k d then (k, v) :: r else (k, x) :: ns_set d v r
  end.

Definition find_opt (table : list optspec) (w : str) : option optspec :=
  find (fun o => zlist_eqb (o_flag o) w) table.
Definition starts_with_dash (w : str) : bool := match w with 45 :: _ => true | _ => false end.
Fixpoint is_prefix (a b : str) : bool :=
  match a, b with
  | [], _ => true
  | x :: a', y :: b' => (x =? y) && is_prefix a' b'
  | _ :: _, [] => false
  end.
Definition is_digit (c : Z) : bool := (48 <=? c) && (c <=? 57).
Definition is_alnum_dot (c : Z) : bool :=
  is_digit c || ((65 <=? c) && (c <=? 90)) || ((97 <=? c) && (c <=? 122)) || (c =? 46).
(* the spellings of argparse that the model does not represent (see above) *)
Definition unmodelled_word (table : list optspec) (w : str) : bool :=
  starts_with_dash w &&
  match find_opt table w with
  | Some _ => false                                            (* exactly a declared option string *)
  | None =>
      existsb (Z.eqb 61) w || existsb (Z.eqb 32) w
      || existsb (fun o => is_prefix w (o_flag o)) table
      || match w with
         | 45 :: 104 :: _ => true | 45 :: 45 :: 104 :: _ => true     (* -h..., --h... *)
         | 45 :: c :: _ => is_digit c || (c =? 46)
         | _ => false
         end
  end.

Definition convert_arg (t : argtype) (v : str) : sres nsval :=
  match t with
  | TStr => SOk (VStr v)
  | TInt =>
      match v, uint_of_chars v with
      | _ :: _, Some u => SOk (VInt (Z.of_nat (Nat.of_uint u)))
      | _, _ => if forallb is_alnum_dot v then SRaised [] 64 else SRaised [] 90
      end
  | TChoice cs => if existsb (zlist_eqb v) cs then SOk (VStr v) else SRaised [] 64
  end.

Fixpoint scan_words (table : list optspec) (ws : list str) (ns : namespace) (extras : list str) : sres (namespace * list str) :=
  match ws with
  | [] => SOk (ns, extras)
  | w :: r =>
      match find_opt table w with
      | Some o =>
          match r with
          | v :: r' =>
              if starts_with_dash v then SRaised [] 64
              else dos x <- convert_arg (o_type o) v; scan_words table r' (ns_set (o_dest o) x ns) extras
          | [] => SRaised [] 64
          end
      | None => scan_words table r ns (extras ++ [w])
      end
  end.

Fixpoint finish_namespace (table : list optspec) (given : namespace) : sres namespace :=
  match table with
  | [] => SOk []
  | o :: r =>
      dos v <- match ns_get (o_dest o) given with
               | Some v => SOk v
               | None => if o_required o then SRaised [] 64
                         else SOk (match o_default o with Some d => VInt d | None => VNone end)
               end;
      dos rest <- finish_namespace r given;
      SOk ((o_dest o, v) :: rest)
  end.

Definition parse_known_args (table : list optspec) (cmdline : list str) : sres (namespace * list str) :=
  if existsb (unmodelled_word table) cmdline then SRaised [] 90
  else dos r <- scan_words table cmdline [] [];
       dos ns <- finish_namespace table (fst r);
       SOk (ns, snd r).

Section ArgLiterals.
Import Coq.Strings.String.
Definition L_batch_size : str := Eval compute in lit "--batch-size".
Definition D_screen : str := Eval compute in lit "screen".
Definition D_batch_size : str := Eval compute in lit "batch_size".
Definition D_mode : str := Eval compute in lit "mode".
Definition D_outdir : str := Eval compute in lit "outdir".
End ArgLiterals.

Definition orch_options : list optspec :=
  [ mko L_screen TStr true None;
    mko L_batch_size TInt false (Some 1);
    mko L_mode (TChoice [L_retrospective; L_prospective]) true None;
    mko L_outdir TStr true None ].

Definition modename_of_str (s : str) : modename :=
  if zlist_eqb s L_retrospective then NRetrospective
  else if zlist_eqb s L_prospective then NProspective else NOther 0.
Definition margs_of_ns (ns : namespace) : option margs :=
  match ns_get D_mode ns, ns_get D_batch_size ns, ns_get D_outdir ns, ns_get D_screen ns with
  | Some (VStr m), Some (VInt b), Some (VStr _), Some (VStr _) => Some (mka (modename_of_str m) b)
  | _, _, _, _ => None
  end.

(* ---------- vocabulary of the source-translation link of the path helpers get_script_location / get_nextflow_dir /
   get_base_config / get_repository_root / get_main_nf_file (harness/src_functions.py C19_PATH_*, Generated/SrcOrchPaths.v; proofs:
   Proofs/C19Source_Paths.v) and of the command builders re-translated over them (C19_RUN_*_CLOSED, Generated/SrcOrchCmdClosed.v;
   proofs: Proofs/C19Source_CmdClosed.v) ----------
   An absolute path is the list of its components below "/" (fspath; a component is a string without "/").
     pyfile             the module global __file__, denoted by the path os.path.realpath resolves it to (absolute, no symbolic
                        link, no "." / ".." / empty component: clean_path)
     dirname            os.path.dirname of such a path: all components but the last
     path_join          os.path.join(p, c1, ..) with relative single-component names c1, ..: they are appended
     abspath            os.path.abspath of an absolute path = os.path.normpath: "." and empty components are dropped, ".." removes
                        the component before it ("/.." is "/"); purely textual, symbolic links are not looked at
     script_location .. main_nf_file   the five helpers as written
     script_in root     where the script lies in a checkout of the repository at [root]: root/nextflow/scripts/batchie.py
     word_of_file root p   the command-line word a path is for a script whose pipeline (the main.nf and workflows the model's
                        `outputs` describes) is the checkout at [root]: root/main.nf is WMainNf, any other path is its text *)
Definition pyfile := fspath.
Definition realpath_of (f : pyfile) : fspath := f.
Definition dirname (p : fspath) : fspath := removelast p.
Definition path_join (p : fspath) (more : list str) : fspath := p ++ more.
Section PathLiterals.
Import Coq.Strings.String.
Definition S_dotdot : str := Eval compute in lit "..".
Definition S_dot : str := Eval compute in lit ".".
Definition S_main_nf : str := Eval compute in lit "main.nf".
Definition S_nextflow_config : str := Eval compute in lit "nextflow.config".
Definition S_nextflow : str := Eval compute in lit "nextflow".
Definition S_scripts : str := Eval compute in lit "scripts".
Definition S_batchie_py : str := Eval compute in lit "batchie.py".
End PathLiterals.
Fixpoint norm_rev (p : fspath) (acc : list str) : list str :=      (* acc: the components kept so far, the last one first *)
  match p with
  | [] => acc
  | c :: r =>
      if zlist_eqb c S_dotdot then norm_rev r (tl acc)
      else if zlist_eqb c S_dot || is_nil c then norm_rev r acc
      else norm_rev r (c :: acc)
  end.
Definition abspath (p : fspath) : fspath := rev (norm_rev p []).
Definition clean_path (p : fspath) : Prop := Forall (fun c => c <> S_dotdot /\ c <> S_dot /\ c <> []) p.

Definition script_location (f : pyfile) : fspath := abspath (dirname (realpath_of f)).
Definition nextflow_dir (f : pyfile) : fspath := abspath (path_join (script_location f) [S_dotdot]).
Definition base_config (f : pyfile) : fspath := abspath (path_join (nextflow_dir f) [S_dotdot; S_nextflow_config]).
Definition repository_root (f : pyfile) : fspath := abspath (path_join (script_location f) [S_dotdot; S_dotdot]).
Definition main_nf_file (f : pyfile) : fspath := abspath (path_join (repository_root f) [S_main_nf]).

Definition script_in (root : fspath) : pyfile := root ++ [S_nextflow; S_scripts; S_batchie_py].
Fixpoint fspath_eqb (a b : fspath) : bool :=
  match a, b with
  | [], [] => true
  | x :: a', y :: b' => zlist_eqb x y && fspath_eqb a' b'
  | _, _ => false
  end.
Definition path_text (p : fspath) : str := flat_map (fun c => 47 :: c) p.
Definition word_of_file (root p : fspath) : word :=
  if fspath_eqb p (root ++ [S_main_nf]) then WMainNf else WLit (path_text p).

(* ---------- torn (present but unreadable) completion markers (Proofs/C19Torn.v, C19Source_Torn.v; harness kind `torn`) ----------
   The model above assumes that a published file appears atomically.  nextflow's publishDir copies a file into place, so an
   interruption DURING a publication leaves a file that exists under its final name and holds a prefix of its content.  The only
   file whose content the script parses is the completion marker (json.load in validate_job_dir_and_return_meta, then
   meta["n_unobserved_plates"]); selected_plate is read as text and the other files are only globbed for.
     torn_set            the steps whose job directory holds a screen_metadata.json that json.load cannot read.  In the tree
                         component such a directory has f_meta = None (there is no value to read): torn_wf
     tres                result of examine on such a tree: TRaised why = an exception that names no directory (70: JSONDecodeError),
                         raised before anything is touched
     examine_t tfix      examine as written, with the marker check of a torn directory raising (tfix = false: the script today) or
                         answering None like a missing marker (tfix = true: the repair `except ValueError: return None` around json.load)
     tentry              a crash-schedule entry + te_torn: the interruption inside the pipeline run comes WHILE event k - 4 of
                         the run is under way instead of after it.  Events 1 .. m are the publications of its m files: if the
                         file being published is the marker it is left torn (any other file: whole, see above), and the
                         pipeline run has not succeeded.  Event m + 1 is the run's own wrap-up after its last publication
                         (nextflow's report, trace, clean-up): interrupted there, every file is whole and the step counts as
                         complete, but the exit status is not 0 and the call of run_next_* does not return
     attempt_t           one call of run_next_* on a tree with torn markers: raises (tree untouched, nothing named), or names a
                         directory (the operator removes it, torn or not), or is the model's attempt on the tree component
     op_screen_t         the operator counts directories HOLDING a marker file (he does not parse it)
     session_t           script_session over attempt_t *)
Inductive tres (A : Type) := TOk (a : A) | TNamed (why : Z) (s : step) | TRaised (why : Z).
Arguments TOk {A} a.
Arguments TNamed {A} why s.
Arguments TRaised {A} why.
Definition tbind {A B} (r : tres A) (k : A -> tres B) : tres B :=
  match r with TOk a => k a | TNamed w s => TNamed w s | TRaised w => TRaised w end.
Definition tres_of_xres {A} (r : xres A) : tres A :=
  match r with XOk a => TOk a | XNamed w s => TNamed w s end.

Definition torn_set := list step.
Definition is_torn (t : torn_set) (s : step) : bool := existsb (step_eqb s) t.
Definition untear (s : step) (t : torn_set) : torn_set := filter (fun x => negb (step_eqb s x)) t.
Definition tfs := (fs * torn_set)%type.
Definition torn_wf (tf : tfs) : Prop :=
  forall it pl pidx d, In (it, pl) (fst tf) -> In (pidx, d) pl -> is_torn (snd tf) (it, pidx) = true -> f_meta d = None.

Fixpoint examine_plates_t (tfix : bool) (torn : torn_set) (it : Z) (st : exst) (idx : Z) (pl : idir) : tres exst :=
  match pl with
  | [] => TOk st
  | (pidx, d) :: r =>
      if is_torn torn (it, pidx) then (if tfix then TNamed 1 (it, pidx) else TRaised 70)
      else
      match f_meta d with
      | None => TNamed 1 (it, pidx)
      | Some m =>
          if negb (pidx =? idx) then TNamed 2 (it, pidx)
          else examine_plates_t tfix torn it (mkx (Some m) it pidx (Some ((it, pidx), d))) (idx + 1) r
      end
  end.
Definition examine_iter_t (tfix : bool) (torn : torn_set) (fixed : bool) (st : exst) (itd : Z * idir) : tres exst :=
  let pl := sort_dirs (snd itd) in
  let st0 := if fixed && is_nil pl then st else mkx (x_meta st) (x_iter st) 0 (x_leak st) in
  examine_plates_t tfix torn (fst itd) st0 0 pl.
Fixpoint examine_iters_t (tfix : bool) (torn : torn_set) (fixed : bool) (st : exst) (l : fs) : tres exst :=
  match l with
  | [] => TOk st
  | itd :: r => tbind (examine_iter_t tfix torn fixed st itd) (fun st' => examine_iters_t tfix torn fixed st' r)
  end.
Definition examine_t (tfix fixed : bool) (bs : Z) (tf : tfs) : tres (Z * Z * option Z * option spath) :=
  tbind (examine_iters_t tfix (snd tf) fixed exst0 (sort_dirs (fst tf))) (fun st =>
    match x_meta st with
    | None => TOk (0, 0, None, None)
    | Some m =>
        if x_plate st >=? bs - 1
        then TOk (x_iter st + 1, 0, Some m, screen_of (x_leak st))
        else TOk (x_iter st, x_plate st + 1, Some m, screen_of (x_leak st))
    end).

Record tentry := mkte { te_e : entry; te_torn : bool }.
Definition last_is_meta (ps : list kind) : bool := match rev ps with k :: _ => is_meta k | [] => false end.
Definition clear_meta (d : pdir) : pdir :=
  mkp (f_training d) (f_test d) (f_thetas d) (f_dist d) (f_selected d) (f_advanced d) None (f_by d).

Definition attempt_t (tfix : bool) (md : mode) (fixed : bool) (bs : Z) (n : nat) (tf : tfs) (te : tentry) : tfs * logitem :=
  match examine_t tfix fixed bs tf with
  | TRaised w => (tf, GFail w)
  | TNamed w s => ((rmtree s (fst tf), untear s (snd tf)), GNamed w s)
  | TOk (i, j, _, _) =>
      let '(f1, g) := attempt md fixed bs n (fst tf) (te_e te) in
      (* the first action of a call that acts is rmtree of its job directory (i, j) *)
      let torn1 := match g with GDone | GStopped O | GNamed _ _ => snd tf | _ => untear (i, j) (snd tf) end in
      match g with
      | GLaunch s l ps ok =>
          (* the interruption comes WHILE the (k-4)-th file is being published: it exists, torn; only a torn marker matters *)
          if te_torn te && last_is_meta ps && Nat.eqb (length ps) (e_k (te_e te) - 4)
          then ((upd_plate s clear_meta f1, s :: torn1), GLaunch s l ps false)
          (* the interruption comes in the run's own wrap-up AFTER its last publication: every file is whole, the exit status is not 0 *)
          else if te_torn te && ok && Nat.eqb (S (length ps)) (e_k (te_e te) - 4)
          then ((f1, torn1), GLaunch s l ps false)
          else ((f1, torn1), g)
      | _ => ((f1, torn1), g)
      end
  end.

Fixpoint script_run_t (tfix : bool) (md : mode) (fixed : bool) (bs : Z) (n : nat) (tf : tfs) (sched : list tentry)
  : tfs * list logitem :=
  match sched with
  | [] => (tf, [])
  | e :: r =>
      let '(tf1, g) := attempt_t tfix md fixed bs n tf e in
      let '(tf2, gs) := script_run_t tfix md fixed bs n tf1 r in
      (tf2, g :: gs)
  end.

Record ires_t := mkrt { rt_fs : tfs; rt_calls : list logitem; rt_end : iend; rt_rest : list tentry }.
Fixpoint invocation_t (tfix : bool) (md : mode) (fixed : bool) (bs : Z) (n : nat) (tf : tfs) (sched : list tentry) : ires_t :=
  match sched with
  | [] => mkrt tf [] IExhausted []
  | e :: r =>
      let '(tf1, g) := attempt_t tfix md fixed bs n tf e in
      match call_returns md bs g with
      | Some true => let r2 := invocation_t tfix md fixed bs n tf1 r in
                     mkrt (rt_fs r2) (g :: rt_calls r2) (rt_end r2) (rt_rest r2)
      | Some false => mkrt tf1 [g] IReturned r
      | None => mkrt tf1 [g] IRaised r
      end
  end.
Definition op_screen_t (md : mode) (bs : Z) (tf : tfs) : Z :=
  match md with
  | Retro => 0
  | Prosp => (zlen (completed (fst tf)) + zlen (snd tf)) / bs
  end.
Fixpoint session_t (fuel : nat) (tfix : bool) (md : mode) (fixed : bool) (bs : Z) (n : nat) (tf : tfs) (sched : list tentry)
  : tfs * list irec :=
  match fuel, sched with
  | S m, _ :: _ =>
      let r := invocation_t tfix md fixed bs n tf sched in
      let '(tf2, recs) := session_t m tfix md fixed bs n (rt_fs r) (rt_rest r) in
      (tf2, mki (op_screen_t md bs tf) (rt_calls r) (rt_end r) :: recs)
  | _, _ => (tf, [])
  end.
Definition script_session_t (tfix : bool) (md : mode) (fixed : bool) (bs : Z) (n : nat) (tf : tfs) (sched : list tentry)
  : tfs * list irec := session_t (length sched) tfix md fixed bs n tf sched.
Definition whole (e : entry) : tentry := mkte e false.

(* ---------- vocabulary of the source-translation link on trees with torn markers (harness/src_functions.py C19_VALIDATE,
   C19_EXAMINE, C19_RETRO / C19_PROSP; Proofs/C19Source.v) ----------
   Since the repair of the torn-marker finding, validate_job_dir_and_return_meta looks INTO the marker file: json.load may raise
   (ValueError: JSONDecodeError / UnicodeDecodeError - the file was cut short), and what it answers must be a dict with the key
   n_unobserved_plates.  So a marker file is no longer "the value the script reads from it":
     jval                 a JSON document as far as the script looks at it: a dict (with the value of its n_unobserved_plates
                          entry, or without that key) or anything else (a list, a number, null ...)
     mfile                the text of a screen_metadata.json file: Some j = the document j, None = no JSON document (torn)
     marker_dir           a job directory as validate_job_dir_and_return_meta sees it: the marker files its glob matches (the
                          translated function is linked for EVERY such list, whatever the files hold)
     marker_dir_of        what that glob finds in the world (tree, torn set): a torn marker where the step is in the torn set,
                          else the whole marker of f_meta, else nothing
     valid_meta           what the repaired function answers: the first match, if it is a dict with the key; else None
     jget_nup             meta["n_unobserved_plates"] in run_next_retrospective_step: KeyError (97) without the key, TypeError
                          (96) on a document that is no dict - both proved unreachable (the metadata examine hands on is valid_meta's)
     tfs_after            the world after the file-system actions of a call so far: rmtree of a job directory removes its torn marker
     sres_of_tres         examine_t's answer in the translation's monad (TRaised w = an exception naming nothing, nothing done)
     step_result_t        what a call of run_next_* does on a world with torn markers: examine_t decides whether a directory is
                          named; if none is, no directory examine looked at holds a torn marker and the call is the model's plan
                          on the tree component (attempt_t is built the same way) *)
Inductive jval := JDict (nup : option Z) | JOther.
Definition mfile := option jval.
Definition marker_dir := list mfile.
Definition glob_meta_files (d : marker_dir) : list mfile := d.
Definition json_load (f : mfile) : option jval := f.
Definition is_dict (o : option jval) : bool := match o with Some (JDict _) => true | _ => false end.
(* `"n_unobserved_plates" not in o`: a key test on a dict only; on None or a number it is a TypeError, on a list / string it
   would be an element / substring test (JOther does not say which document it is): an exception (96) in the model - the source
   evaluates it only behind `not isinstance(o, dict) or`, and the link proves that this exception is never reached *)
Definition lacks_nup (o : option jval) : sres bool :=
  match o with Some (JDict (Some _)) => SOk false | Some (JDict None) => SOk true | _ => SRaised [] 96 end.
Definition whole_meta (m : Z) : jval := JDict (Some m).
Definition marker_dir_of (torn : torn_set) (p : plate_path) : marker_dir :=
  if is_torn torn (fst p) then [None]
  else match f_meta (snd p) with Some m => [Some (whole_meta m)] | None => [] end.
Definition valid_meta (d : marker_dir) : option jval :=
  match d with
  | Some (JDict (Some m)) :: _ => Some (JDict (Some m))
  | _ => None
  end.
Definition jget_nup (j : jval) : sres Z :=
  match j with JDict (Some m) => SOk m | JDict None => SRaised [] 97 | JOther => SRaised [] 96 end.
Definition torn_after (t : torn_set) (done : list action) : torn_set :=
  fold_left (fun t a => match a with ARmTree s => untear s t | _ => t end) done t.
Definition tfs_after (tf : tfs) (done : list action) : tfs := (tree_after (fst tf) done, torn_after (snd tf) done).
Definition sres_of_tres {A} (r : tres A) : sres A :=
  match r with TOk a => SOk a | TNamed w s => SNamed w s | TRaised w => SRaised [] w end.
Definition tres_map {A B} (g : A -> B) (r : tres A) : tres B :=
  match r with TOk a => TOk (g a) | TNamed w s => TNamed w s | TRaised w => TRaised w end.
Definition xres_map {A B} (g : A -> B) (r : xres A) : xres B :=
  match r with XOk a => XOk (g a) | XNamed w s => XNamed w s end.
(* examine's answer as the translation holds it: the metadata is the loaded document *)
Definition up_meta (a : Z * Z * option Z * option spath) : Z * Z * option jval * option spath :=
  let '(i, j, m, s) := a in (i, j, option_map whole_meta m, s).
Definition step_result_t (tfix : bool) (md : mode) (fixed : bool) (bs : Z) (tf : tfs) : sres (bool * list action) :=
  match examine_t tfix fixed bs tf with
  | TOk _ => result_of_plan md bs (plan_of md fixed bs (fst tf))
  | TNamed w s => SNamed w s
  | TRaised w => SRaised [] w
  end.
