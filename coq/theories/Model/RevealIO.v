(* Wire codecs and the traced runner shared by Run/RunC03.v and Run/RunC12.v.
   A trace applies the operations one after the other to the current screen; an operation the model
   refuses (Err) leaves the current screen unchanged and the trace continues, exactly as a caller of the
   real functions that catches the ValueError would see it.  Every element of the trace is the [step]
   result on a state reached by the history of the accepted operations before it. *)
From Coq Require Import ZArith List Bool.
From Batchie Require Import Lib.Sexp Model.Encode Model.Screen Model.ScreenIO Model.Reveal Model.Holdout.
Import ListNotations.
Open Scope Z_scope.

(* wire-level operation: the four lifecycle operations plus set_observed *)
Inductive xop := Life (o : op) | SetObs (sel : list bool) (vals : list Z).

Definition xstep (v : variant) (s : screen) (o : xop) : result screen :=
  match o with
  | Life o => step v s o
  | SetObs sel vals => set_observed s sel vals
  end.

Fixpoint trace (v : variant) (s : screen) (ops : list xop) : list (result screen) :=
  match ops with
  | [] => []
  | o :: rest =>
      let r := xstep v s o in
      r :: trace v (match r with Ok s' => s' | Err _ => s end) rest
  end.

(* (reveal mask unmask) *)
Definition as_variant (s : sexp) : option variant :=
  do t <- as_triple as_bool as_bool as_bool s;
  let '(a, b, c) := t in Some {| carry_reveal := a; carry_mask := b; carry_unmask := c |}.

(* (0 ids) reveal | (1) mask | (2) unmask | (3) save+load | (4 sel vals) set_observed *)
Definition as_xop (s : sexp) : option xop :=
  match s with
  | SL [SZ 0; ids] => do ids <- as_Zs ids; Some (Life (Reveal ids))
  | SL [SZ 1] => Some (Life Mask)
  | SL [SZ 2] => Some (Life Unmask)
  | SL [SZ 3] => Some (Life SaveLoad)
  | SL [SZ 4; sel; vals] => do sel <- as_listof as_bool sel; do vals <- as_Zs vals; Some (SetObs sel vals)
  | _ => None
  end.

(* (variant mk_args sel test ops) *)
Definition as_sim (s : sexp) :=
  match s with
  | SL [v; a; sel; test; ops] =>
      do v <- as_variant v; do a <- as_mk_args a; do sel <- as_listof as_bool sel;
      do test <- as_bool test; do ops <- as_listof as_xop ops;
      Some (v, a, sel, test, ops)
  | _ => None
  end.

(* (size n_plates n_unobserved n_observed n_unique_samples n_unique_treatments) as screen_metadata.json *)
Definition of_meta (s : screen) : sexp :=
  SL [of_nat (length (s_rows s)); of_nat (n_plates s); of_nat (n_unobserved_plates s);
      of_nat (n_observed_plates s); of_nat (n_unique_samples_rows s); of_nat (n_unique_treatments_rows s)].

(* result of a simulation: parent, both halves, and the trace from the chosen half *)
Definition run_sim (out : screen -> sexp)
  (x : variant * (list row * nat * name * option (tmapping * bool) * option (nmapping * bool) * bool * bool)
       * list bool * bool * list xop) : sexp :=
  let '(v, a, sel, test, ops) := x in
  of_result (fun y => y)
    (dor p <- mk_screen_args a;
     dor pr <- holdout_split p sel;
     Ok (SL [out p; out (fst pr); out (snd pr);
             of_list (of_result out) (trace v (half test pr) ops)])).
