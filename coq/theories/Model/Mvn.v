(* C08 model, part 2: batchie.fast_mvn.sample_mvn_from_precision(Q, mu_part=b) given the
   Cholesky factor L of Q (np.linalg.cholesky, an input here) and the standard-normal vector z
   the generator returned:
       Lt = L.T
       result  = solve_triangular(Lt, z, lower=False)        -> back_subst L z
       result += cho_solve((Lt, False), b)                   -> back_subst L (fwd_subst L b)
   Abstracted: the Cholesky factorisation itself, floating point. *)
From Coq Require Import ZArith List QArith Qcanon.
From Batchie Require Import Lib.Num Model.Gibbs.
Import ListNotations.
Open Scope Qc_scope.

(* solve L w = b, L lower triangular; acc = w_0 .. w_{j-1} *)
Fixpoint fwd_go (rows : list (list Qc)) (b acc : list Qc) : list Qc :=
  match rows, b with
  | r :: rows', bj :: b' =>
      let j := length acc in
      fwd_go rows' b' (acc ++ [(bj - vdot j r acc) / vnth r j])
  | _, _ => acc
  end.
Definition fwd_subst (L : list (list Qc)) (b : list Qc) : list Qc := fwd_go L b [].

(* solve L^T x = z; acc = x_j .. x_{D-1} *)
Fixpoint back_go (D : nat) (L : list (list Qc)) (z : list Qc) (j : nat) (acc : list Qc) : list Qc :=
  match j with
  | O => acc
  | S j' =>
      let xj := (vnth z j' - sumn (D - j) (fun t => vnth (rnth L (j + t)) j' * vnth acc t)) / vnth (rnth L j') j' in
      back_go D L z j' (xj :: acc)
  end.
Definition back_subst (D : nat) (L : list (list Qc)) (z : list Qc) : list Qc := back_go D L z D [].

Definition mvn_mean (D : nat) (L : list (list Qc)) (b : list Qc) : list Qc := back_subst D L (fwd_subst L b).
Definition sample_mvn (D : nat) (L : list (list Qc)) (z b : list Qc) : list Qc :=
  vadd D (back_subst D L z) (mvn_mean D L b).
