(* C08 model, part 2: batchie.fast_mvn.sample_mvn_from_precision(Q, mu_part=b) given the
   Cholesky factor L of Q (np.linalg.cholesky, an input here) and the standard-normal vector z
   the generator returned:
       Lt = L.T
       result  = solve_triangular(Lt, z, lower=False)        -> back_subst L z
       result += cho_solve((Lt, False), b)                   -> back_subst L (fwd_subst L b)
   Abstracted: the Cholesky factorisation itself, floating point. *)
From Coq Require Import ZArith List QArith Qcanon.
From Batchie Require Import Lib.Num Model.Gibbs.
Import ListNotations.
Open Scope Qc_scope.

(* solve L w = b, L lower triangular; acc = w_0 .. w_{j-1} *)
Fixpoint fwd_go (rows : list (list Qc)) (b acc : list Qc) : list Qc :=
  match rows, b with
  | r :: rows', bj :: b' =>
      let j := length acc in
      fwd_go rows' b' (acc ++ [(bj - vdot j r acc) / vnth r j])
  | _, _ => acc
  end.
Definition fwd_subst (L : list (list Qc)) (b : list Qc) : list Qc := fwd_go L b [].

(* solve L^T x = z; acc = x_j .. x_{D-1} *)
Fixpoint back_go (D : nat) (L : list (list Qc)) (z : list Qc) (j : nat) (acc : list Qc) : list Qc :=
  match j with
  | O => acc
  | S j' =>
      let xj := (vnth z j' - sumn (D - j) (fun t => vnth (rnth L (j + t)) j' * vnth acc t)) / vnth (rnth L j') j' in
      back_go D L z j' (xj :: acc)
  end.
Definition back_subst (D : nat) (L : list (list Qc)) (z : list Qc) : list Qc := back_go D L z D [].

Definition mvn_mean (D : nat) (L : list (list Qc)) (b : list Qc) : list Qc := back_subst D L (fwd_subst L b).
Definition sample_mvn (D : nat) (L : list (list Qc)) (z b : list Qc) : list Qc :=
  vadd D (back_subst D L z) (mvn_mean D L b).

(* ---------------------------------------------------------------- vocabulary of the source translation of
   batchie.fast_mvn.sample_mvn_from_precision (Generated/SrcMvn.v, configuration C08_SAMPLE_MVN of
   harness/src_functions.py).  The function may raise (np.linalg.cholesky on a matrix that is not positive definite) and
   it draws (rng.normal): it denotes a program of draws whose result is a [result] - [mprog], the free monad [gprog] of
   Model/Gibbs.v over the exception monad of Lib/Sexp.v. *)
From Batchie Require Import Lib.Sexp.
Open Scope Qc_scope.
Definition mprog (T : Type) : Type := gprog (result T).
Definition mp_ret {T : Type} (x : T) : mprog T := GRet (Ok x).
Definition mp_raise {T : Type} (tag : Z) : mprog T := GRet (Err tag).
Definition mp_bind {A B : Type} (p : mprog A) (f : A -> mprog B) : mprog B :=
  gbind p (fun r => match r with Ok x => f x | Err t => GRet (Err t) end).
Notation "'dmv' x <- e ; k" := (mp_bind e (fun x => k))
  (at level 200, x pattern, e at level 100, k at level 200, right associativity).
Fixpoint mp_fold {S A : Type} (f : S -> A -> mprog S) (l : list A) (s : S) : mprog S :=
  match l with
  | [] => mp_ret s
  | a :: r => dmv s' <- f s a; mp_fold f r s'
  end.
(* a read of None where a value is needed (TypeError) *)
Definition mp_unwrap {T : Type} (o : option T) : mprog T := match o with Some x => mp_ret x | None => mp_raise 99 end.
(* a library call that may raise and does not draw *)
Definition mp_lift {T : Type} (r : result T) : mprog T := GRet r.
(* the generator the draw is made on: the argument, or a fresh np.random.default_rng().  WHICH generator answers is not
   represented in a draw node (the answers of all draws form one stream) *)
Inductive pygen := DefaultRng | ArgRng.
(* rng.normal(size=n): n independent standard normals = np.random.normal(0, 1) n times, variances 1 *)
Definition mp_draw_std (n : Z) : mprog (list Qc) :=
  GDraw (DNormalVec (repeat 1 (Z.to_nat n))) (fun v => GRet (Ok (val_v v))).
(* scipy.linalg.solve_triangular(U, z, lower=False): back substitution on the upper triangle of U, an n x n matrix
   given as the list of its n rows;  x_j = (z_j - sum_{k > j} U[j][k] x_k) / U[j][j];  acc = x_j .. x_{n-1} *)
Fixpoint solve_upper_go (U : list (list Qc)) (z : list Qc) (n j : nat) (acc : list Qc) : list Qc :=
  match j with
  | O => acc
  | S j' =>
      let xj := (vnth z j' - sumn (n - j) (fun t => vnth (rnth U j') (j + t) * vnth acc t)) / vnth (rnth U j') j' in
      solve_upper_go U z n j' (xj :: acc)
  end.
Definition solve_upper (U : list (list Qc)) (z : list Qc) : list Qc := solve_upper_go U z (length U) (length U) [].
(* A.T of a SQUARE matrix (the precision matrix, its Cholesky factor): a list of rows does not know its number of
   columns when it is empty, so it is taken to be the number of rows *)
Definition np_transpose_sq (A : list (list Qc)) : list (list Qc) := np_transpose (length A) A.
(* scipy.linalg.cho_solve((U, False), b): solves (U^T U) x = b given the UPPER factor U, by a forward substitution with
   the lower-triangular U^T followed by a back substitution with U *)
Definition cho_solve_upper (U : list (list Qc)) (b : list Qc) : list Qc :=
  solve_upper U (fwd_subst (np_transpose_sq U) b).

(* the hand-written model of the whole function: [chol] is np.linalg.cholesky (Err = LinAlgError), any function; the
   theorems about the law of the result assume its contract [chol_contract] *)
Definition mvn_general (chol : list (list Qc) -> result (list (list Qc))) (Q : list (list Qc))
    (mu mu_part : option (list Qc)) (chol_factor : bool) : mprog (list Qc) :=
  match (if chol_factor then Ok Q else chol Q) with
  | Err t => GRet (Err t)
  | Ok L =>
      GDraw (DNormalVec (repeat 1 (length Q))) (fun v =>
        let x := back_subst (length L) L (val_v v) in
        GRet (Ok (match mu_part, mu with
                  | Some b, _ => vadd (length L) x (mvn_mean (length L) L b)
                  | None, Some m => np_vadd x m
                  | None, None => x
                  end)))
  end.
(* ... as the Gibbs blocks call it: sample_mvn_from_precision(Q, mu_part=b) *)
Definition mvn_prog (chol : list (list Qc) -> result (list (list Qc))) (Q : list (list Qc)) (b : list Qc) : mprog (list Qc) :=
  match chol Q with
  | Err t => GRet (Err t)
  | Ok L => GDraw (DNormalVec (repeat 1 (length Q))) (fun v => GRet (Ok (sample_mvn (length L) L (val_v v) b)))
  end.
(* np.linalg.cholesky's contract: a lower-triangular factor of the size of Q with non-zero diagonal and L L^T = Q *)
Definition chol_contract (chol : list (list Qc) -> result (list (list Qc))) : Prop :=
  forall Q L, chol Q = Ok L ->
    length L = length Q /\
    (forall j k, (j < k)%nat -> (k < length Q)%nat -> vnth (rnth L j) k = 0) /\
    (forall j, (j < length Q)%nat -> vnth (rnth L j) j <> 0) /\
    (forall j k, (j < length Q)%nat -> (k < length Q)%nat ->
       vnth (rnth Q j) k = sumn (length Q) (fun t => vnth (rnth L j) t * vnth (rnth L k) t)).

(* the block methods' `try: w = sample_mvn_from_precision(Q, mu_part=b) except: ...` sees the call's answer: the
   vector, or the fact that it raised - the model's [val] answers VV w / VFail of a [DMvn Q b] node *)
Definition mvn_answer (r : result (list Qc)) : val := match r with Ok x => VV x | Err _ => VFail end.
Definition mvn_call (p : mprog (list Qc)) : gprog val := gbind p (fun r => GRet (mvn_answer r)).
(* a model program in which every [DMvn Q b] node is replaced by the program [f Q b] that computes its answer: with
   [f] = the translated sample_mvn_from_precision the MVN draw node of a block BECOMES the translated function (its
   Cholesky call and its standard-normal draw node) *)
Fixpoint gplug (q : gprog val) (k : val -> prog) : prog :=
  match q with GRet v => k v | GDraw dr k' => Draw dr (fun a => gplug (k' a) k) end.
Fixpoint expand_mvn (f : list (list Qc) -> list Qc -> gprog val) (p : prog) : prog :=
  match p with
  | Ret s => Ret s
  | Draw dr k =>
      match dr with
      | DMvn Q b => gplug (f Q b) (fun v => expand_mvn f (k v))
      | _ => Draw dr (fun v => expand_mvn f (k v))
      end
  end.

(* ---------------------------------------------------------------- vocabulary of the source translation of the wrapper class
   SparseDrugCombo (Generated/SrcGibbsObj.v, configurations C08_SDC_...): the object is the record of the seven attributes its
   constructor assigns; `wrapped_model` is the LegacySparseDrugComboImpl object ([pyimpl], Model/Gibbs.v) *)
Record pysdc := { sdc_n_dims : Z; sdc_n_treatments : Z; sdc_n_samples : Z; sdc_rng : option pygen; sdc_predict_interactions : bool; sdc_interaction_log_transform : bool; sdc_wrapped : pyimpl }.
Definition set_sdc_n_dims (o : pysdc) x : pysdc := {| sdc_n_dims := x; sdc_n_treatments := sdc_n_treatments o; sdc_n_samples := sdc_n_samples o; sdc_rng := sdc_rng o; sdc_predict_interactions := sdc_predict_interactions o; sdc_interaction_log_transform := sdc_interaction_log_transform o; sdc_wrapped := sdc_wrapped o |}.
Definition set_sdc_n_treatments (o : pysdc) x : pysdc := {| sdc_n_dims := sdc_n_dims o; sdc_n_treatments := x; sdc_n_samples := sdc_n_samples o; sdc_rng := sdc_rng o; sdc_predict_interactions := sdc_predict_interactions o; sdc_interaction_log_transform := sdc_interaction_log_transform o; sdc_wrapped := sdc_wrapped o |}.
Definition set_sdc_n_samples (o : pysdc) x : pysdc := {| sdc_n_dims := sdc_n_dims o; sdc_n_treatments := sdc_n_treatments o; sdc_n_samples := x; sdc_rng := sdc_rng o; sdc_predict_interactions := sdc_predict_interactions o; sdc_interaction_log_transform := sdc_interaction_log_transform o; sdc_wrapped := sdc_wrapped o |}.
Definition set_sdc_rng (o : pysdc) x : pysdc := {| sdc_n_dims := sdc_n_dims o; sdc_n_treatments := sdc_n_treatments o; sdc_n_samples := sdc_n_samples o; sdc_rng := x; sdc_predict_interactions := sdc_predict_interactions o; sdc_interaction_log_transform := sdc_interaction_log_transform o; sdc_wrapped := sdc_wrapped o |}.
Definition set_sdc_predict_interactions (o : pysdc) x : pysdc := {| sdc_n_dims := sdc_n_dims o; sdc_n_treatments := sdc_n_treatments o; sdc_n_samples := sdc_n_samples o; sdc_rng := sdc_rng o; sdc_predict_interactions := x; sdc_interaction_log_transform := sdc_interaction_log_transform o; sdc_wrapped := sdc_wrapped o |}.
Definition set_sdc_interaction_log_transform (o : pysdc) x : pysdc := {| sdc_n_dims := sdc_n_dims o; sdc_n_treatments := sdc_n_treatments o; sdc_n_samples := sdc_n_samples o; sdc_rng := sdc_rng o; sdc_predict_interactions := sdc_predict_interactions o; sdc_interaction_log_transform := x; sdc_wrapped := sdc_wrapped o |}.
Definition set_sdc_wrapped (o : pysdc) x : pysdc := {| sdc_n_dims := sdc_n_dims o; sdc_n_treatments := sdc_n_treatments o; sdc_n_samples := sdc_n_samples o; sdc_rng := sdc_rng o; sdc_predict_interactions := sdc_predict_interactions o; sdc_interaction_log_transform := sdc_interaction_log_transform o; sdc_wrapped := x |}.
(* a new instance before its __init__ ran (object.__new__): no attribute yet - every field at a blank value *)
Definition obs_blank : pyobs := obs_empty.
Definition st_blank : st :=
  {| W := []; W0 := []; V2 := []; V1 := []; V0 := []; alpha := 0; prec := 0; tau := []; tau0 := 0; phi2 := []; phi1 := []; phi0 := [];
     eta2 := []; eta1 := []; eta0 := 0; gam := []; Mu := [] |}.
Definition pi_blank : pyimpl :=
  {| pi_D := 0%Z; pi_ndd := 0%Z; pi_ncl := 0%Z; pi_minMu := 0; pi_maxMu := 0; pi_a0 := 0; pi_b0 := 0; pi_individual_eff := false;
     pi_intercept := false; pi_fake_intercept := false; pi_local_shrinkage := false; pi_mult_gamma_proc := false; pi_steps := 0%Z;
     pi_obs := obs_blank; pi_st := st_blank |}.
(* a method call on the wrapped object mutates it in place: the wrapper goes on holding the updated object *)
Definition sdc_on_wrapped (o : pysdc) (r : result pyimpl) : result pysdc :=
  match r with Ok w => Ok (set_sdc_wrapped o w) | Err t => Err t end.
(* ... for mcmc_step, which the first part translates on the sampler state of the wrapped object (its step counter, which
   nothing reads, is not carried) *)
Definition sdc_with_state (o : pysdc) (s : st) : pysdc := set_sdc_wrapped o (set_pi_st (sdc_wrapped o) s).
(* the object SparseDrugCombo.__init__ leaves behind *)
Definition sdc_init_obj (n_samples n_treatments D : nat) (fake_intercept individual_eff mult_gamma_proc local_shrinkage : bool)
    (a0 b0 minMu maxMu : Qc) (rng : option pygen) (predict_interactions interaction_log_transform intercept : bool) : pysdc :=
  {| sdc_n_dims := Z.of_nat D; sdc_n_treatments := Z.of_nat n_treatments; sdc_n_samples := Z.of_nat n_samples; sdc_rng := rng;
     sdc_predict_interactions := predict_interactions; sdc_interaction_log_transform := interaction_log_transform;
     sdc_wrapped := init_obj D n_treatments n_samples intercept fake_intercept individual_eff mult_gamma_proc local_shrinkage a0 b0 minMu maxMu |}.
