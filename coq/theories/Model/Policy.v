(* C16 model: batchie.policies.k_per_sample.KPerSamplePlatePolicy.filter_eligible_plates and the part of
   batchie.scoring.main.select_next_plate that feeds it.  No proofs here.

   A plate is (plate id, sample ids of its rows) -- what Plate.plate_id and Plate.sample_ids return.
   `n_unique_samples` = len(np.unique(sample_ids)); `sample_ids[0]` = first row's sample id.
   The three Python containers are transcribed as insertion-ordered association lists / lists:
     n_plates_per_sample, n_plates_already_selected_per_sample : defaultdict(int)  -> list (sample * count)
     sample_ids_with_insufficient_plates : set                                       -> list sample (membership only)
   so "the LAST incomplete sample in insertion order wins" is what the model does, as the code does.
   Abstracted: the rng argument (never used by this policy), logging, the Plate objects themselves
   (the harness compares plate ids, in order).
   Error tags: 1 = ValueError (some plate does not contain exactly one sample),
               2 = ValueError from argmin of an empty sequence (no eligible plate has a score). *)
From Coq Require Import ZArith List Bool.
From Batchie Require Import Lib.Sexp.
Import ListNotations.
Open Scope Z_scope.

Definition plate : Type := (Z * list Z)%type.
Definition plate_id (p : plate) : Z := fst p.
Definition rows (p : plate) : list Z := snd p.

Definition mem (x : Z) (l : list Z) : bool := existsb (Z.eqb x) l.

(* len(np.unique(a)) *)
Fixpoint n_unique (l : list Z) : Z :=
  match l with
  | [] => 0
  | x :: r => if mem x r then n_unique r else 1 + n_unique r
  end.

(* plate.sample_ids[0]  (only evaluated after the single-sample check, so rows are non-empty) *)
Definition sample_of (p : plate) : Z := hd 0 (rows p).

Definition single (p : plate) : bool := n_unique (rows p) =? 1.

(* d[s] += 1 on a defaultdict(int): existing key keeps its position, new key goes last *)
Fixpoint incr (d : list (Z * Z)) (s : Z) : list (Z * Z) :=
  match d with
  | [] => [(s, 1)]
  | (s', v) :: r => if s' =? s then (s', v + 1) :: r else (s', v) :: incr r s
  end.

(* for plate in ps: d[plate.sample_ids[0]] += 1 *)
Definition count_samples (ps : list plate) : list (Z * Z) :=
  fold_left (fun d p => incr d (sample_of p)) ps [].

(* for sample_id, v in d.items(): if v < k: set.add(sample_id) *)
Definition insufficient (k : Z) (d : list (Z * Z)) : list Z :=
  map fst (filter (fun sv => snd sv <? k) d).

(* sample_chosen = None; for sample_id, v in d.items(): if v < k: sample_chosen = sample_id *)
Definition sample_chosen (k : Z) (d : list (Z * Z)) : option Z :=
  fold_left (fun acc sv => if snd sv <? k then Some (fst sv) else acc) d None.

Definition filter_eligible (k : Z) (batch remaining : list plate) : result (list plate) :=
  if forallb single (batch ++ remaining) then
    let n_per := count_samples remaining in
    let insuff := insufficient k n_per in
    let n_sel := count_samples batch in
    match sample_chosen k n_sel with
    | Some c => Ok (filter (fun p => sample_of p =? c) remaining)
    | None =>
        Ok (filter (fun p => negb (mem (sample_of p) insuff) && negb (mem (sample_of p) (map fst n_sel)))
              remaining)
    end
  else Err 1.

(* ---- select_next_plate ----
   screen.plates = [get_plate(x) for x in np.unique(plate_ids)]: the harness hands the plates over in that
   order together with `is_observed`.  The stable sort by plate id is transcribed (insertion sort) although
   on a list coming from np.unique it changes nothing. *)
Definition splate : Type := (plate * bool)%type.   (* plate, is_observed *)

Fixpoint insert_by_id (p : plate) (l : list plate) : list plate :=
  match l with
  | [] => [p]
  | q :: r => if plate_id q <=? plate_id p then q :: insert_by_id p r else p :: q :: r
  end.
(* sorted(l, key=plate_id): stable; fold_right keeps equal keys in their original order *)
Definition sort_by_id (l : list plate) : list plate := fold_right insert_by_id [] l.

Definition select_args (screen : list splate) (batch_ids : list Z) : list plate * list plate :=
  (map fst (filter (fun sp => mem (plate_id (fst sp)) batch_ids) screen),
   sort_by_id (map fst (filter (fun sp => negb (snd sp) && negb (mem (plate_id (fst sp)) batch_ids)) screen))).

(* ChunkedScoresHolder.plate_id_with_minimum_score(eligible ids):
   mask = isin(plate_ids, eligible); plate_ids[mask][scores[mask].argmin()]  -- first minimum.
   scores are (plate id, order key of the score). *)
Fixpoint argmin_first (l : list (Z * Z)) : option (Z * Z) :=
  match l with
  | [] => None
  | x :: r =>
      match argmin_first r with
      | None => Some x
      | Some y => if snd y <? snd x then Some y else Some x
      end
  end.

Definition min_score_id (scores : list (Z * Z)) (eligible_ids : list Z) : result Z :=
  match argmin_first (filter (fun iv => mem (fst iv) eligible_ids) scores) with
  | Some iv => Ok (fst iv)
  | None => Err 2
  end.

(* returns (eligible plate ids as the policy returned them, id of the returned plate or None) *)
Definition select_next (k : Z) (screen : list splate) (scores : list (Z * Z)) (batch_ids : list Z)
  : result (list Z * option Z) :=
  let '(b, r) := select_args screen batch_ids in
  dor el <- filter_eligible k b r;
  match el with
  | [] => Ok ([], None)
  | _ => let ids := map plate_id el in dor best <- min_score_id scores ids; Ok (ids, Some best)
  end.

(* ---- histories (executable, used by the correspondence) ---- *)
Fixpoint remove_id (i : Z) (l : list plate) : list plate :=
  match l with
  | [] => []
  | p :: r => if plate_id p =? i then r else p :: remove_id i r
  end.
Definition find_id (i : Z) (l : list plate) : option plate := find (fun p => plate_id p =? i) l.

(* direct calls: the batch is kept in selection order; picks are the ids chosen by the harness.
   Output: the eligible id list at every state visited (one more than the number of picks).
   tag 3 = a pick that the model does not consider eligible. *)
Fixpoint history_direct (k : Z) (batch remaining : list plate) (picks : list Z) : result (list (list Z)) :=
  dor el <- filter_eligible k batch remaining;
  match picks with
  | [] => Ok [map plate_id el]
  | i :: rest =>
      match find_id i el with
      | None => Err 3
      | Some p =>
          dor tl <- history_direct k (batch ++ [p]) (remove_id i remaining) rest;
          Ok (map plate_id el :: tl)
      end
  end.

(* through select_next_plate: one score table per step; the chosen plate id is appended to batch ids.
   Output per step: (eligible ids, chosen id or None); stops after a None. *)
Fixpoint history_select (k : Z) (screen : list splate) (batch_ids : list Z) (tables : list (list (Z * Z)))
  : result (list (list Z * option Z)) :=
  match tables with
  | [] => Ok []
  | sc :: rest =>
      dor eo <- select_next k screen sc batch_ids;
      match snd eo with
      | None => Ok [eo]
      | Some i => dor tl <- history_select k screen (batch_ids ++ [i]) rest; Ok (eo :: tl)
      end
  end.

(* ---- vocabulary used to state the property (not extracted) ---- *)
From Coq Require Import Permutation.

(* number of plates of sample c in a list of plates *)
Definition cnt (c : Z) (l : list plate) : Z :=
  Z.of_nat (length (filter (fun p => sample_of p =? c) l)).

(* a state within a batch: (plates in the batch, unobserved plates not in the batch) *)
Definition state : Type := (list plate * list plate)%type.

(* one selection: ANY plate the policy allows may be the one with the best score; it moves from the
   remaining plates to the batch.  The lists are taken up to permutation, which covers the batch in
   selection order (direct use) as well as in screen order (what select_next_plate builds). *)
Inductive step (k : Z) : state -> state -> Prop :=
| step_intro b r el p b' r' :
    filter_eligible k b r = Ok el -> In p el ->
    Permutation b' (p :: b) -> Permutation r (p :: r') ->
    step k (b, r) (b', r').

(* every state of every selection history that starts with the empty batch *)
Inductive reachable (k : Z) (unobserved : list plate) : state -> Prop :=
| reach_init : reachable k unobserved ([], unobserved)
| reach_step s s' : reachable k unobserved s -> step k s s' -> reachable k unobserved s'.

(* batch id lists produced by iterating select_next_plate (any score table at each call) *)
Inductive sel_hist (k : Z) (screen : list splate) : list Z -> Prop :=
| sel_nil : sel_hist k screen []
| sel_snoc ids scores el i :
    sel_hist k screen ids -> select_next k screen scores ids = Ok (el, Some i) ->
    sel_hist k screen (ids ++ [i]).

(* ---- vocabulary of the source translation of select_next_plate (harness/src_functions.py C16_SELECT ->
        Generated/SrcScoringPolicy.v): the meaning given to the attribute / library calls the translator does not
        translate.  A Plate object is a `plate` (id, sample ids); its is_observed attribute is a function of the
        object.  Definitions only. ---- *)
(* np.random.default_rng(): the generator is only handed on to the policy, which never reads it *)
Definition rng_t : Type := unit.
Definition fresh_rng : rng_t := tt.
(* screen.get_plate(i) = Plate(screen, plate_ids == i): the plate of the screen with that id; a Plate that selects no
   row when the screen has none *)
Definition get_plate (screen : list plate) (i : Z) : plate :=
  match find_id i screen with
  | Some p => p
  | None => (i, [])
  end.
(* Plate.plate_name = screen.plate_names[selection_vector][0]: IndexError (Err 7) when the plate selects no row;
   the name is represented by the plate id (ids are a dense encoding of the names, C01) *)
Definition plate_name (p : plate) : result Z :=
  match rows p with
  | [] => Err 7
  | _ :: _ => Ok (plate_id p)
  end.

(* ---- appended (gap review g5, C16 gap 2): the screen EVOLVES between two calls within a batch ----
   The retrospective pipeline reveals the chosen plate before the next call (run_subsequent_batch_plate passes the
   predecessor's advanced_screen.h5): the plates whose ids are in the batch ids become observed.  Definitions only. *)
(* Screen.set_observed on the rows of the plate with id i *)
Definition reveal (i : Z) (screen : list splate) : list splate :=
  map (fun sp => if plate_id (fst sp) =? i then (fst sp, true) else sp) screen.
Definition reveal_all (js : list Z) (screen : list splate) : list splate := fold_right reveal screen js.

(* batch id lists produced by iterating select_next_plate while, between two calls, any plates whose ids are already in
   the batch (e.g. the plate just chosen) may be revealed; the last index is the screen the next call will see *)
Inductive sel_hist_reveal (k : Z) (screen0 : list splate) : list splate -> list Z -> Prop :=
| selr_nil : sel_hist_reveal k screen0 screen0 []
| selr_snoc screen ids scores el i js :
    sel_hist_reveal k screen0 screen ids -> select_next k screen scores ids = Ok (el, Some i) ->
    incl js (ids ++ [i]) ->
    sel_hist_reveal k screen0 (reveal_all js screen) (ids ++ [i]).

(* executable: as history_select, but after step n the chosen plate is revealed when the n-th flag says so *)
Fixpoint history_select_reveal (k : Z) (screen : list splate) (batch_ids : list Z) (tables : list (list (Z * Z)))
  (flags : list bool) : result (list (list Z * option Z)) :=
  match tables with
  | [] => Ok []
  | sc :: rest =>
      dor eo <- select_next k screen sc batch_ids;
      match snd eo with
      | None => Ok [eo]
      | Some i =>
          let screen' := if hd false flags then reveal i screen else screen in
          dor tl <- history_select_reveal k screen' (batch_ids ++ [i]) rest (tl flags); Ok (eo :: tl)
      end
  end.
