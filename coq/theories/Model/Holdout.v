(* C03 / C12 model, part 2: the hold-out split as the origin of the (training, test) pair.
   Transcribes the two constructor calls at the end of
     batchie.retrospective.create_plate_balanced_holdout_set_among_masked_plates  (retrospective.py:690-712)
   (create_random_holdout builds its halves the same way).
     keep_screen    = Screen(rows[~sel], observations[~sel], observation_mask = screen.observation_mask[~sel],
                             treatment_mapping = screen.treatment_mapping, sample_mapping = screen.sample_mapping)
     holdout_screen = Screen(rows[sel],  observations[sel],  observation_mask = ones,
                             treatment_mapping = screen.treatment_mapping, sample_mapping = screen.sample_mapping)
   Both halves DO receive the parent's mappings.
   Abstracted: WHICH rows are held out.  The selection vector [sel] (one boolean per row) is an oracle
   input: the harness records the results of the rng.choice calls of the real function and derives it;
   the theorems quantify over every selection vector.  (That the selection takes ceil(fraction * size)
   rows of every unobserved plate is C11's subject.)
   Error tag 10: selection length <> size (never produced by the code; malformed wire input).
   No proofs here. *)
From Coq Require Import ZArith List Bool.
From Batchie Require Import Lib.Sexp Model.Encode Model.Screen Model.Reveal.
Import ListNotations.
Open Scope Z_scope.

Definition holdout_split (p : screen) (sel : list bool) : result (screen * screen) :=
  if negb (Nat.eqb (length sel) (length (s_rows p))) then Err 10
  else
    let keep := select (map negb sel) (s_rows p) in
    let held := map (with_mask true) (select sel (s_rows p)) in
    dor tr <- mk_screen keep (s_arity p) (s_ctrl p) (Some (s_tmap p, true)) (Some (s_smap p, true)) true true;
    dor te <- mk_screen held (s_arity p) (s_ctrl p) (Some (s_tmap p, true)) (Some (s_smap p, true)) true true;
    Ok (tr, te).

(* which half a history starts from *)
Definition half (test : bool) (pr : screen * screen) : screen := if test then snd pr else fst pr.

(* a whole simulation: construct the parent, split, run a history on one half *)
Definition lifecycle (v : variant) (p : screen) (sel : list bool) (test : bool) (ops : list op) : result screen :=
  dor pr <- holdout_split p sel;
  history v ops (half test pr).

(* ==== appended: the hold-out at the ID / MAPPING level (C03 source link of
   create_plate_balanced_holdout_set_among_masked_plates, Generated/SrcHoldoutIds.v, Proofs/C03Source_Holdout.v).
   WHICH rows are held out is what the loop of the function computes from the recorded rng.choice answers
   (RetroHoldout.ho_plates, C11's model of that loop, read on the rows of the screen); the two halves are then
   [holdout_split] on that selection vector: both constructor calls receive the parent's mappings. ==== *)
From Batchie Require Model.Retro Model.RetroHoldout.
Definition balanced_holdout_ids (num : Z) (den : positive) (counts : option (list Z)) (p : screen) (ds : list Retro.draw)
  : result ((screen * screen) * list Retro.draw) :=
  if (num <? 0) || (Zpos den <? num) then Err 5
  else
    let n := length (s_rows p) in
    dor r <- RetroHoldout.ho_plates n num den (s_rows p) (Retro.plate_names_of (s_rows p)) counts ds (repeat false n);
    dor pr <- holdout_split p (fst r);
    Ok (pr, snd r).
