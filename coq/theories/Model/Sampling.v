(* C17 model: batchie.sampling.sample (whole function).  No proofs here.

   The model is a counter machine that emits, in the order the code issues them, the calls made on the
   model object and on the results holder:
     Reset               model.reset_model()
     SetRng e sk         model.set_rng(default_rng(S)) where the SeedSequence S has entropy e, spawn_key sk
     Step                model.step()
     Record              results.add_theta(model.get_model_state())   (MCMC)  /  results.add_theta(theta)  (VI)
     SampleVI n          model.sample(num_samples=n)
   numpy: SeedSequence(seed).spawn(n)[i] is the SeedSequence (entropy = seed, spawn_key = (i,)) for 0 <= i < n,
   python list indexing makes a negative i mean n + i; default_rng(seed) has (entropy = seed, spawn_key = ()) (pre-repair VI variant only).
   That a SeedSequence determines the PCG64 stream, and that distinct spawn keys give non-overlapping
   streams, is numpy's contract and is not modelled (the harness checks the first draws).
   The results holder is (n_thetas, current length): ThetaHolder.add_theta raises when full.
   Abstracted: logging, tqdm, the Theta values themselves.
   Error tags: 1 ValueError (holder full)   2 ValueError (negative seed)   3 OverflowError (negative n_chains)
               4 IndexError (chain_index out of range)   5 ValueError (a None argument)   6 ValueError (not a model) *)
From Coq Require Import ZArith List Bool.
From Batchie Require Import Lib.Sexp.
Import ListNotations.
Open Scope Z_scope.

Inductive event : Type :=
| Reset
| SetRng (entropy : Z) (spawn_key : list Z)
| Step
| Record
| SampleVI (n : Z).

(* seeds = SeedSequence(seed).spawn(n_chains); seeds[chain_index] *)
Definition rng_key (seed n_chains chain_index : Z) : result (Z * list Z) :=
  if seed <? 0 then Err 2
  else if n_chains <? 0 then Err 3
  else if (0 <=? chain_index) && (chain_index <? n_chains) then Ok (seed, [chain_index])
  else if (- n_chains <=? chain_index) && (chain_index <? 0) then Ok (seed, [n_chains + chain_index])
  else Err 4.

(* for _ in trange(n_burnin): model.step() *)
Definition burnin (n_burnin : Z) : list event := repeat Step (Z.to_nat n_burnin).

(* for step_index in trange(total_steps):
       model.step()
       if ((step_index + 1) % thin) == 0: results.add_theta(model.get_model_state())
   [todo] iterations are left, the next one has index [step_index]; [len] = len(results.thetas).
   Returns the events and the final length. *)
Fixpoint thin_loop (thin n_thetas : Z) (todo : nat) (step_index len : Z) : result (list event * Z) :=
  match todo with
  | O => Ok ([], len)
  | S todo' =>
      if (step_index + 1) mod thin =? 0 then
        if n_thetas <=? len then Err 1
        else dor r <- thin_loop thin n_thetas todo' (step_index + 1) (len + 1);
             Ok (Step :: Record :: fst r, snd r)
      else dor r <- thin_loop thin n_thetas todo' (step_index + 1) len;
           Ok (Step :: fst r, snd r)
  end.

(* MCMC branch; n_thetas = results.n_thetas, len0 = len(results.thetas) on entry *)
Definition sample_mcmc (seed n_chains chain_index n_burnin thin n_thetas len0 : Z) : result (list event * Z) :=
  dor key <- rng_key seed n_chains chain_index;
  let total_steps := n_thetas * thin in
  dor r <- thin_loop thin n_thetas (Z.to_nat total_steps) 0 len0;
  Ok (Reset :: SetRng (fst key) (snd key) :: burnin n_burnin ++ fst r, snd r).

(* for theta in samples: results.add_theta(theta) *)
Fixpoint add_all (n_thetas : Z) (todo : nat) (len : Z) : result (list event * Z) :=
  match todo with
  | O => Ok ([], len)
  | S todo' =>
      if n_thetas <=? len then Err 1
      else dor r <- add_all n_thetas todo' (len + 1); Ok (Record :: fst r, snd r)
  end.

(* VI branch; [returned] = len(model.sample(num_samples=n_thetas)) (the VIModel contract says = n_thetas).
   REPAIRED (fix PENDING, KNOWN_FINDINGS vi-chains-share-generator): the generator is derived exactly as in the MCMC
   branch, SeedSequence(seed).spawn(n_chains)[chain_index]; n_burnin and thin are not read *)
Definition sample_vi (seed n_chains chain_index n_thetas len0 : Z) (returned : nat) : result (list event * Z) :=
  dor key <- rng_key seed n_chains chain_index;
  dor r <- add_all n_thetas returned len0;
  Ok (Reset :: SetRng (fst key) (snd key) :: SampleVI n_thetas :: fst r, snd r).

(* the match statement: kind 0 = isinstance MCMCModel (tested first), 1 = VIModel, anything else refused;
   None for any of n_chains, chain_index, n_burnin, thin is refused in the MCMC branch,
   None for n_chains or chain_index in the VI branch *)
Definition sample (kind seed : Z) (n_chains chain_index n_burnin thin : option Z) (n_thetas len0 : Z)
  (returned : nat) : result (list event * Z) :=
  if kind =? 0 then
    match n_chains, chain_index, n_burnin, thin with
    | Some nc, Some ci, Some b, Some t => sample_mcmc seed nc ci b t n_thetas len0
    | _, _, _, _ => Err 5
    end
  else if kind =? 1 then
    match n_chains, chain_index with
    | Some nc, Some ci => sample_vi seed nc ci n_thetas len0 returned
    | _, _ => Err 5
    end
  else Err 6.

(* ---- the PRE-REPAIR variant of the VI branch, kept only for the witness C17_vi_streams_distinct_refuted; it is NOT
   what the source says any more (C17_model_is_source is about [sample] above): model.reset_model();
   rng = default_rng(seed); none of n_chains, chain_index, n_burnin, thin was read ---- *)
Definition sample_vi_pre_repair (seed n_thetas len0 : Z) (returned : nat) : result (list event * Z) :=
  if seed <? 0 then Err 2
  else dor r <- add_all n_thetas returned len0;
       Ok (Reset :: SetRng seed [] :: SampleVI n_thetas :: fst r, snd r).

Definition sample_pre_repair (kind seed : Z) (n_chains chain_index n_burnin thin : option Z) (n_thetas len0 : Z)
  (returned : nat) : result (list event * Z) :=
  if kind =? 1 then sample_vi_pre_repair seed n_thetas len0 returned
  else sample kind seed n_chains chain_index n_burnin thin n_thetas len0 returned.

(* ---- observations on a trace (used to state the schedule) ---- *)
Definition is_step (e : event) : bool := match e with Step => true | _ => false end.
Definition is_record (e : event) : bool := match e with Record => true | _ => false end.
Definition n_steps (tr : list event) : Z := Z.of_nat (length (filter is_step tr)).
Definition n_records (tr : list event) : Z := Z.of_nat (length (filter is_record tr)).
(* for each Record, how many Steps have been issued before it (c = steps so far) *)
Fixpoint record_marks (c : Z) (tr : list event) : list Z :=
  match tr with
  | [] => []
  | Step :: r => record_marks (c + 1) r
  | Record :: r => c :: record_marks c r
  | _ :: r => record_marks c r
  end.
(* ThetaHolder.is_complete *)
Definition is_complete (n_thetas len : Z) : bool := len =? n_thetas.

(* ---- vocabulary of the source translation (Generated/SrcSampling.v, harness/py2gal.py) ----
   The translated function threads one state variable: the world = (calls issued so far on the model
   and on the holder, len(results.thetas)).  The numpy / holder primitives it calls: *)
Definition world : Type := (list event * Z)%type.
Definition emit (w : world) (e : event) : world := (fst w ++ [e], snd w).
(* results.add_theta(...): ThetaHolder raises when full *)
Definition add_theta (n_thetas : Z) (w : world) : result world :=
  if n_thetas <=? snd w then Err 1 else Ok (fst w ++ [Record], snd w + 1).
(* numpy.random.SeedSequence(seed).spawn(n): the parent entropy and the number of children *)
Definition seeds : Type := (Z * Z)%type.
Definition spawn_seeds (seed n : Z) : result seeds :=
  if seed <? 0 then Err 2 else if n <? 0 then Err 3 else Ok (seed, n).
(* default_rng(children[i]): python list indexing (negative i counts from the end); child i has spawn_key (i,) *)
Definition rngkey : Type := (Z * list Z)%type.
Definition rng_of_spawned (s : seeds) (i : Z) : result rngkey :=
  let n := snd s in
  if (0 <=? i) && (i <? n) then Ok (fst s, [i])
  else if (- n <=? i) && (i <? 0) then Ok (fst s, [n + i])
  else Err 4.
(* the Theta objects themselves are abstracted *)
Definition theta : Type := unit.
Definition vi_samples (returned : nat) : list theta := repeat tt returned.

(* ---- appended (gap review g5): the generator a trace hands to the model = the key of its first SetRng event ---- *)
Fixpoint handed_key (tr : list event) : option (Z * list Z) :=
  match tr with
  | [] => None
  | SetRng e sk :: _ => Some (e, sk)
  | _ :: r => handed_key r
  end.
