(* Model of the command-line wrapper batchie/cli/analyze_model_evaluation.py main(): the only place where the
   evaluation metrics of property C20 are REPORTED.  No proofs here.  Conventions of Model/Cli.v: the parsed arguments
   are a record, the library functions the wrapper calls are the components of a record `an_lib` over abstract types
   (Scr screens, Th theta holders, Ev evaluations, Co similarity matrices, F the numbers the metrics return - NaN
   included, so F is instantiated with `result Qc` for the Metrics model).

   What main() does is the LIST OF ITS EFFECTS on the output directory, in order: the directory is created, five plots are
   drawn (each from which object into which file), and the summary {mse, mse_variance, inter_chain_mse_variance} is
   written as JSON.  A file of the report is (output directory, name); the six names are the string constants of the source.

   Randomness (property C18).  The two predicted-vs-observed plots call seaborn.regplot, whose confidence band is a bootstrap
   drawn from numpy.random.default_rng(seed): their events carry the `seed=` keyword main() hands to the plotting function
   (None = the keyword is absent = regplot's default seed=None = a generator seeded from OS entropy).  Since the repair
   "fix: analyze_model_evaluation ignored --seed" main() passes seed=args.seed to both; the pre-repair wrapper (the keyword
   absent, --seed parsed and never read) is kept as `cli_analyze_gen false` for the refutation only. *)
From Coq Require Import ZArith List Bool.
From Batchie Require Import Lib.Sexp Lib.PyRt Model.Cli.
Import ListNotations.
Open Scope Z_scope.
Set Implicit Arguments.

Record an_args := mk_an_args { an_model_evaluation : path; an_screen : path; an_thetas : list path; an_output_dir : path;
                               an_seed : Z }.

(* the file names main() joins to --output-dir *)
Inductive an_name : Type :=
  | N_heat              (* "sample_prediction_correlation.pdf" *)
  | N_scatter           (* "predicted_vs_observed_scatterplot.pdf" *)
  | N_scatter_sample    (* "predicted_vs_observed_by_sample_scatterplot.pdf" *)
  | N_violin            (* "per_sample_violin_plot.pdf" *)
  | N_violin99          (* "per_sample_violin_plot__99th_percentiles.pdf" *)
  | N_summary.          (* "summary_statistics.json" *)
Definition an_file : Type := (path * an_name)%type.     (* os.path.join(dir, name) *)

(* the dict literal {"mse": a, "mse_variance": b, "inter_chain_mse_variance": c} *)
Record an_summary (F : Type) := mk_an_summary { sum_mse : F; sum_mse_variance : F; sum_inter_chain : F }.

Inductive an_event (Ev Co F : Type) : Type :=
  | AnMkdir (d : path)                                       (* os.makedirs(d, exist_ok=True) *)
  | AnHeat (c : Co) (f : an_file)                            (* plotting.plot_correlation_heatmap(c, f) *)
  | AnScatter (e : Ev) (f : an_file) (seed : option Z)       (* plotting.predicted_vs_observed_scatterplot(e, f[, seed=s]) *)
  | AnScatterSample (e : Ev) (f : an_file) (seed : option Z) (* plotting.predicted_vs_observed_scatterplot_per_sample(e, f[, seed=s]) *)
  | AnViolin (e : Ev) (f : an_file) (percentile : option Z)  (* plotting.per_sample_violin_plot(e, f[, percentile=p]) *)
  | AnSummary (s : an_summary F) (f : an_file).              (* json.dump(s, open(f, "w"), indent=4) *)
Arguments AnMkdir {Ev Co F}.
Arguments AnHeat {Ev Co F}.
Arguments AnScatter {Ev Co F}.
Arguments AnScatterSample {Ev Co F}.
Arguments AnViolin {Ev Co F}.
Arguments AnSummary {Ev Co F}.

Record an_lib (Scr Th Ev Co F : Type) := mk_an_lib {
  an_load_thetas : path -> result Th;                  (* ThetaHolder.load_h5 *)
  an_concat_thetas : list Th -> result Th;             (* ThetaHolder.concat *)
  an_load_screen : path -> result Scr;                 (* Screen.load_h5 *)
  an_load_eval : path -> result Ev;                    (* ModelEvaluation.load_h5 *)
  an_correlation_matrix : Scr -> Th -> result Co;      (* models.main.correlation_matrix(screen, thetas) *)
  an_mse : Ev -> F;                                    (* me.mse() *)
  an_mse_variance : Ev -> F;                           (* me.mse_variance() *)
  an_inter_chain : Ev -> F }.                          (* me.inter_chain_mse_variance() *)

(* pass_seed = true: main() of the tree under test (seed=args.seed at both regplot-drawing calls); false: the wrapper before the repair *)
Definition cli_analyze_gen (pass_seed : bool) (Scr Th Ev Co F : Type) (L : an_lib Scr Th Ev Co F) (a : an_args)
  : result (list (an_event Ev Co F)) :=
  let d := an_output_dir a in
  let sd := if pass_seed then Some (an_seed a) else None in
  dor hs <- res_map_all (an_load_thetas L) (an_thetas a);
  dor thetas <- an_concat_thetas L hs;                  (* ALL --thetas files, chain-major, in argument order *)
  dor screen <- an_load_screen L (an_screen a);
  dor me <- an_load_eval L (an_model_evaluation a);
  dor corr <- an_correlation_matrix L screen thetas;
  Ok [AnMkdir d;
      AnHeat corr (d, N_heat);
      AnScatter me (d, N_scatter) sd;
      AnScatterSample me (d, N_scatter_sample) sd;
      AnViolin me (d, N_violin) None;
      AnViolin me (d, N_violin99) (Some 99);
      AnSummary (mk_an_summary (an_mse L me) (an_mse_variance L me) (an_inter_chain L me)) (d, N_summary)].

Definition cli_analyze (Scr Th Ev Co F : Type) (L : an_lib Scr Th Ev Co F) (a : an_args)
  : result (list (an_event Ev Co F)) := cli_analyze_gen true L a.

(* ---- where the bootstrap generators of a run come from (C18) ----
   the `seed=` keywords of the regplot-drawing calls of a run, in order *)
Definition an_regplot_seeds {Ev Co F : Type} (evs : list (an_event Ev Co F)) : list (option Z) :=
  flat_map (fun e => match e with AnScatter _ _ s => [s] | AnScatterSample _ _ s => [s] | _ => [] end) evs.
(* numpy.random.default_rng(s), the generator seaborn builds for regplot(seed=s): a function `of_seed` of the integer when one is
   given; otherwise made from the entropy `w` the operating system hands out at that moment (no input of the command) *)
Definition regplot_rng {G W : Type} (of_seed : Z -> G) (of_entropy : W -> G) (s : option Z) (w : W) : G :=
  match s with Some z => of_seed z | None => of_entropy w end.
(* the bootstrap generators of a run in a world whose entropy source answers w *)
Definition an_bootstrap_rngs {Ev Co F G W : Type} (of_seed : Z -> G) (of_entropy : W -> G)
  (r : result (list (an_event Ev Co F))) (w : W) : list G :=
  match r with
  | Ok evs => map (fun s => regplot_rng of_seed of_entropy s w) (an_regplot_seeds evs)
  | Err _ => []
  end.

(* the summary a run reports (None when main() raises before writing it) *)
Definition reported_summary {Ev Co F : Type} (r : result (list (an_event Ev Co F))) : option (an_summary F) :=
  match r with
  | Ok evs => match flat_map (fun e => match e with AnSummary s _ => [s] | _ => [] end) evs with
              | [s] => Some s | _ => None end
  | Err _ => None
  end.
