(* C06 model: chunked plate scoring and selection (batchie.scoring.main, batchie.data,
   batchie.common).  No proofs here.

   Screen.  A screen is the list of its experiments (rows) in storage order; a row carries
   the plate id, its observation-mask bit, the sample id and the treatment ids.  Every
   ScreenSubset / Plate of the code is a boolean selection vector over these rows; here a
   subset is the list of (position, row) pairs it selects, in storage order, so
   "v1 | v2" is "filter by the disjunction" and subset.sample_ids / treatment_ids are read
   off in storage order exactly as screen.sample_ids[selection_vector] does.
     unique_plate_ids   np.unique(plate_ids)           = sort_uniq (ascending, no repeats)
     get_plate          Plate(self, plate_ids == id)   = get_plate
     plates             [get_plate(x) for x in unique] = plates
     is_observed        np.all(observation_mask)       = is_observed  (a partly observed
                                                         plate is NOT observed)
   batch_plate_ids None and [] behave identically in both functions; the model uses [].

   score_chunk (scoring/main.py:144-219), statement by statement:
     candidates         filter unobserved, drop batch ids, sorted(key=plate_id) (stable)
     array_split        np.array_split(l, n): div_points = cumsum([0] + r*[q+1] + (n-r)*[q]),
                        closed form k*q + min k r; chunk k = l[div k : div (k+1)]
     py_index           Python list indexing (negative indices wrap once, else IndexError)
     conditioned        filter_dataset_to_unique_treatments(plate.combine(concat(batch plates))):
                        rows of the screen whose plate id is the candidate's or in the batch,
                        IN STORAGE ORDER, reduced by select_unique_zipped_numpy_arrays =
                        np.unique(axis=0, return_index=True) marks the FIRST occurrence of each
                        (sample id, treatment ids) and the mask keeps storage order = uniq_first
     a non-empty batch none of whose ids is a plate of the screen -> ScreenSubset.concat([])
     raises (Err 3); n_chunks <= 0 -> ValueError (Err 1); chunk_index out of range -> Err 2.
   The value returned by the model's score_chunk is what is handed to Scorer.score: the
   (plate id, rows) pairs in dict order.

   Scorer: abstract.  [chunk_holder] takes a function (plate id, rows) -> score, i.e. a scorer
   that returns exactly one score per plate it was handed, in the order handed (true of
   RandomScorer, SizeScorer and the DBAL scorer).  [chunk_holder_of_answer] takes an arbitrary
   returned dict instead (fewer / more entries: unfilled zero slots / IndexError).
   Scores are Z order keys (harness: common.float_key; -inf is below every finite key).

   ChunkedScoresHolder (20-76): declared size, the two zero-initialised arrays as one list of
   (plate id, score) slots (they always have equal length), current_index.
     add_score   writes slot current_index (IndexError = Err 4 when it is past the end)
     combine     concatenates ALL slots (filled or not); current_index += len(other.scores);
                 size is not updated
     concat      ValueError on [] (Err 5), else left fold of combine
     save/load   datasets written and read back unchanged; load sets size = len(scores)
     plate_id_with_minimum_score   mask = isin(plate_ids, eligible); numpy argmin = FIRST
                 minimum in storage order among the masked slots; empty -> ValueError (Err 6)
   select_next_plate (79-141): eligibility = unobserved, not in batch, allowed by the policy
   (an abstract function of (batch plates, candidates), None = no policy); None when nothing
   is eligible; screen.get_plate(best).plate_name raises IndexError when the chosen id is
   not a plate of the screen (Err 7). *)
From Coq Require Import ZArith List Bool.
From Batchie Require Import Lib.Sexp.
Import ListNotations.
Open Scope Z_scope.

Record row := mkrow { r_plate : Z; r_obs : bool; r_sample : Z; r_treat : list Z }.
Definition screen := list row.
Definition irow := (nat * row)%type.
Record plate := mkplate { p_id : Z; p_rows : list irow }.

Definition indexed (s : screen) : list irow := combine (seq 0 (length s)) s.

Fixpoint insert_uniq (x : Z) (l : list Z) : list Z :=
  match l with
  | [] => [x]
  | y :: r => if x <? y then x :: l else if x =? y then l else y :: insert_uniq x r
  end.
Definition sort_uniq (l : list Z) : list Z := fold_right insert_uniq [] l.

Definition zmem (x : Z) (l : list Z) : bool := existsb (Z.eqb x) l.

Definition sub_rows (s : screen) (f : Z -> bool) : list irow :=
  filter (fun ir => f (r_plate (snd ir))) (indexed s).

Definition unique_plate_ids (s : screen) : list Z := sort_uniq (map r_plate s).
Definition get_plate (s : screen) (pid : Z) : plate := mkplate pid (sub_rows s (Z.eqb pid)).
Definition plates (s : screen) : list plate := map (get_plate s) (unique_plate_ids s).
Definition is_observed (p : plate) : bool := forallb (fun ir => r_obs (snd ir)) (p_rows p).

(* sorted(l, key=lambda p: p.plate_id): stable *)
Fixpoint insert_by_id (p : plate) (l : list plate) : list plate :=
  match l with
  | [] => [p]
  | q :: r => if p_id p <=? p_id q then p :: l else q :: insert_by_id p r
  end.
Definition sorted_by_id (l : list plate) : list plate := fold_right insert_by_id [] l.

Definition candidates (s : screen) (batch : list Z) : list plate :=
  let unobserved := filter (fun p => negb (is_observed p)) (plates s) in
  let unobserved := filter (fun p => negb (zmem (p_id p) batch)) unobserved in
  sorted_by_id unobserved.

(* np.array_split *)
Definition split_point (len n k : nat) : nat := (k * (len / n) + Nat.min k (len mod n))%nat.
Definition array_split {A} (l : list A) (n : nat) : list (list A) :=
  map (fun k => firstn (split_point (length l) n (S k) - split_point (length l) n k)
                       (skipn (split_point (length l) n k) l))
      (seq 0 n).

Definition py_index {A} (l : list A) (i : Z) : option A :=
  let n := Z.of_nat (length l) in
  if (0 <=? i) && (i <? n) then nth_error l (Z.to_nat i)
  else if (- n <=? i) && (i <? 0) then nth_error l (Z.to_nat (i + n))
  else None.

(* select_unique_zipped_numpy_arrays on [sample_ids, treatment_ids[:,0], ...] *)
Definition key := (Z * list Z)%type.
Definition row_key (ir : irow) : key := (r_sample (snd ir), r_treat (snd ir)).
Fixpoint zlist_eqb (a b : list Z) : bool :=
  match a, b with
  | [], [] => true
  | x :: a', y :: b' => (x =? y) && zlist_eqb a' b'
  | _, _ => false
  end.
Definition key_eqb (a b : key) : bool := (fst a =? fst b) && zlist_eqb (snd a) (snd b).
Definition key_mem (k : key) (l : list key) : bool := existsb (key_eqb k) l.
Fixpoint uniq_first (seen : list key) (l : list irow) : list irow :=
  match l with
  | [] => []
  | x :: r => if key_mem (row_key x) seen then uniq_first seen r
              else x :: uniq_first (row_key x :: seen) r
  end.

Definition union_rows (s : screen) (batch : list Z) (pid : Z) : list irow :=
  sub_rows s (fun q => (q =? pid) || zmem q batch).
Definition conditioned (s : screen) (batch : list Z) (pid : Z) : list irow :=
  uniq_first [] (union_rows s batch pid).

(* the rows the scorer sees for candidate p *)
Definition rows_for (s : screen) (batch : list Z) (p : plate) : list irow :=
  match batch with
  | [] => p_rows p
  | _ => conditioned s batch (p_id p)
  end.

Definition score_chunk (s : screen) (batch : list Z) (n_chunks chunk_index : Z)
  : result (list (Z * list irow)) :=
  if n_chunks <=? 0 then Err 1
  else match py_index (array_split (candidates s batch) (Z.to_nat n_chunks)) chunk_index with
       | None => Err 2
       | Some chunk =>
           match batch with
           | [] => Ok (map (fun p => (p_id p, rows_for s batch p)) chunk)
           | _ => if existsb (fun p => zmem (p_id p) batch) (plates s)
                  then Ok (map (fun p => (p_id p, rows_for s batch p)) chunk)
                  else Err 3
           end
       end.

(* ---- ChunkedScoresHolder ---- *)
Definition slot := (Z * Z)%type.     (* plate id, score key *)
Record holder := mkholder { h_size : Z; h_slots : list slot; h_cur : nat }.

Definition holder_new (size : nat) : holder := mkholder (Z.of_nat size) (repeat (0, 0) size) 0.

Definition add_score (h : holder) (pid sc : Z) : result holder :=
  if (h_cur h <? length (h_slots h))%nat
  then Ok (mkholder (h_size h)
             (firstn (h_cur h) (h_slots h) ++ (pid, sc) :: skipn (S (h_cur h)) (h_slots h))
             (S (h_cur h)))
  else Err 4.

Fixpoint add_scores (h : holder) (l : list slot) : result holder :=
  match l with
  | [] => Ok h
  | (pid, sc) :: r => dor h' <- add_score h pid sc; add_scores h' r
  end.

Definition h_combine (a b : holder) : holder :=
  mkholder (h_size a) (h_slots a ++ h_slots b) (h_cur a + length (h_slots b)).

Definition h_concat (hs : list holder) : result holder :=
  match hs with
  | [] => Err 5
  | h :: t => Ok (fold_left h_combine t h)
  end.

Definition h_save (h : holder) : list slot * nat := (h_slots h, h_cur h).
Definition h_load (f : list slot * nat) : holder :=
  mkholder (Z.of_nat (length (fst f))) (fst f) (snd f).

(* numpy argmin: first minimum *)
Fixpoint argmin_first (l : list slot) : option slot :=
  match l with
  | [] => None
  | x :: r => match argmin_first r with
              | None => Some x
              | Some y => if snd y <? snd x then Some y else Some x
              end
  end.

Definition min_plate (h : holder) (eligible : option (list Z)) : result Z :=
  let masked := match eligible with
                | None => h_slots h
                | Some e => filter (fun sl => zmem (fst sl) e) (h_slots h)
                end in
  match argmin_first masked with
  | None => Err 6
  | Some sl => Ok (fst sl)
  end.

(* ---- score_chunk's tail: the holder of one chunk ---- *)
Definition scorer_t := Z -> list irow -> Z.

Definition chunk_holder_of_answer (handed : list (Z * list irow)) (answer : list slot) : result holder :=
  add_scores (holder_new (length handed)) answer.

Definition chunk_holder (scorer : scorer_t) (s : screen) (batch : list Z) (n_chunks chunk_index : Z)
  : result holder :=
  dor ps <- score_chunk s batch n_chunks chunk_index;
  chunk_holder_of_answer ps (map (fun p => (fst p, scorer (fst p) (snd p))) ps).

(* ---- select_next_plate ---- *)
Definition policy_t := list plate -> list plate -> list plate.

Definition eligible_plates (policy : option policy_t) (s : screen) (batch : list Z) : list plate :=
  let batch_plates := filter (fun p => zmem (p_id p) batch) (plates s) in
  let cands := candidates s batch in
  match policy with
  | None => cands
  | Some f => f batch_plates cands
  end.

Definition select_next (policy : option policy_t) (s : screen) (batch : list Z) (h : holder)
  : result (option Z) :=
  match eligible_plates policy s batch with
  | [] => Ok None
  | e =>
      dor best <- min_plate h (Some (map p_id e));
      if zmem best (map r_plate s) then Ok (Some best) else Err 7
  end.

(* ---- the whole pipeline: chunks listed in [order] are scored, saved, loaded, combined
        in that order, then a plate is selected ---- *)
Definition load_chunk (scorer : scorer_t) (s : screen) (batch : list Z) (n_chunks k : Z) : result holder :=
  dor h <- chunk_holder scorer s batch n_chunks k; Ok (h_load (h_save h)).

Definition pipeline (scorer : scorer_t) (policy : option policy_t) (s : screen) (batch : list Z)
  (n_chunks : Z) (order : list Z) : result (option Z) :=
  dor hs <- res_map_all (load_chunk scorer s batch n_chunks) order;
  dor h <- h_concat hs;
  select_next policy s batch h.

(* the score of plate id [pid] under the conditioning the code applies *)
Definition plate_score (scorer : scorer_t) (s : screen) (batch : list Z) (pid : Z) : Z :=
  scorer pid (rows_for s batch (get_plate s pid)).

(* ---- vocabulary of the source translations (harness/src_functions.py -> Generated/SrcScoring.v):
        the meaning given to the attribute / library calls of scoring/main.py that the translator does not
        translate.  Definitions only. ---- *)
(* np.random.default_rng(): the generator is only handed on (to the policy / the scorer), never read *)
Definition rng_t : Type := unit.
Definition fresh_rng : rng_t := tt.
(* Plate.plate_name = screen.plate_names[selection_vector][0]: IndexError (Err 7) when the plate selects no row,
   otherwise the name stored at its first selected row (represented by that row's position) *)
Definition plate_name (p : plate) : result nat :=
  match p_rows p with
  | [] => Err 7
  | ir :: _ => Ok (fst ir)
  end.
(* a ScreenSubset: the (position, row) pairs its selection vector selects, in storage order.  A Plate used where a
   ScreenSubset is expected (Plate is a subclass) is its rows p_rows *)
Definition subset : Type := list irow.
Definition selects (a : subset) (ir : irow) : bool := existsb (Nat.eqb (fst ir)) (map fst a).
(* a.combine(b) = Plate(screen, a.selection_vector | b.selection_vector) *)
Definition subset_union (s : screen) (a b : subset) : subset :=
  filter (fun ir => selects a ir || selects b ir) (indexed s).
(* ScreenSubset.concat(l): ValueError on [] (Err 3); a single element is returned itself; otherwise the subset whose
   selection vector is the disjunction of all *)
Definition subset_concat (s : screen) (l : list subset) : result subset :=
  match l with
  | [] => Err 3
  | [a] => Ok a
  | _ => Ok (filter (fun ir => existsb (fun a => selects a ir) l) (indexed s))
  end.
(* np.array_split(l, n)[i].tolist(): ValueError for n <= 0 (Err 1), IndexError for i out of range (Err 2) *)
Definition array_split_at {A} (l : list A) (n i : Z) : result (list A) :=
  if n <=? 0 then Err 1
  else match py_index (array_split l (Z.to_nat n)) i with
       | Some c => Ok c
       | None => Err 2
       end.
(* Scorer.score(plates=d, ...): an arbitrary function of the dict it is handed (plate id -> subset, in dict order)
   to the dict it returns (plate id -> score key, in dict order) *)
Definition scorer_fn : Type := list (Z * subset) -> list slot.
(* ---- ChunkedScoresHolder's two numpy arrays as lists (translations of add_score / combine /
        plate_id_with_minimum_score / concat): a holder is represented by (scores, plate_ids, current_index) ---- *)
Definition holder_arrays (h : holder) : list Z * list Z * Z :=
  (map snd (h_slots h), map fst (h_slots h), Z.of_nat (h_cur h)).
(* a.argmin(): position and value of the FIRST minimum; ValueError (Err 6) on an empty array *)
Fixpoint argmin_from (l : list Z) : option (nat * Z) :=
  match l with
  | [] => None
  | x :: r => match argmin_from r with
              | None => Some (0%nat, x)
              | Some (j, y) => if y <? x then Some (S j, y) else Some (0%nat, x)
              end
  end.
Definition argmin_index (l : list Z) : result Z :=
  match argmin_from l with
  | Some (j, _) => Ok (Z.of_nat j)
  | None => Err 6
  end.
(* a[i].item(): IndexError (Err 4) outside -len..len-1 *)
Definition array_item (l : list Z) (i : Z) : result Z :=
  match py_index l i with
  | Some x => Ok x
  | None => Err 4
  end.
(* np.isin(a, l) *)
Definition isin (a l : list Z) : list bool := map (fun x => zmem x l) a.
(* a[mask] with a boolean mask: IndexError (Err 4) when the lengths differ *)
Definition mask_select (a : list Z) (m : list bool) : result (list Z) :=
  if (length a =? length m)%nat then Ok (map fst (filter snd (combine a m))) else Err 4.
(* l[0] on a Python list *)
Definition list_head {A} (l : list A) : result A :=
  match l with
  | x :: _ => Ok x
  | [] => Err 4
  end.

(* ==== ChunkedScoresHolder as an OBJECT, its persistence, get_score (vocabulary of the source translations of
   __init__ / get_score / save_h5 / load_h5: harness/src_functions.py C06_HOLDER_*, Generated/SrcHolderIO.v, proofs
   Proofs/C06SourceIO.v).  Definitions only. ====
   The Python object is [pyholder]: its four attributes (size, the two numpy arrays as lists, current_index).  A float
   score is its order key [skey] (= Z; the key of 0.0 is 0); the translator treats `list skey` (float array) and `list Z`
   (int array) as different type names, so an exchange of the two arrays is refused.  A model holder h is represented by
   [holder_obj h] (as in the links of add_score / combine, with the declared size in addition).
   What the HDF5 file holds while batchie writes / reads it is [shraw]: its datasets and attributes BY NAME, in creation
   order; [shraw_close] is the representation map to the model's file (list of slots, current_index).
   Error tags: 1 ValueError (np.zeros of a negative size), 8 ValueError (a.item() on an array whose size is not 1),
   30 KeyError (no dataset / attribute of that name), 31 create_dataset of an existing name, 32 the stored array is of
   another kind than the reader expects / the two arrays differ in length / a negative current_index (not a model file). *)
From Coq Require String.
Import String.StringSyntax.
Local Delimit Scope string_scope with string.

Definition skey : Type := Z.
Record pyholder := mkpyholder { ph_size : Z; ph_scores : list skey; ph_pids : list Z; ph_cur : Z }.
Definition set_ph_size (o : pyholder) (v : Z) : pyholder := mkpyholder v (ph_scores o) (ph_pids o) (ph_cur o).
Definition set_ph_scores (o : pyholder) (v : list skey) : pyholder := mkpyholder (ph_size o) v (ph_pids o) (ph_cur o).
Definition set_ph_pids (o : pyholder) (v : list Z) : pyholder := mkpyholder (ph_size o) (ph_scores o) v (ph_cur o).
Definition set_ph_cur (o : pyholder) (v : Z) : pyholder := mkpyholder (ph_size o) (ph_scores o) (ph_pids o) v.
Definition holder_obj (h : holder) : pyholder :=
  mkpyholder (h_size h) (map snd (h_slots h)) (map fst (h_slots h)) (Z.of_nat (h_cur h)).
(* cls(...) / ChunkedScoresHolder(...): a fresh instance before __init__ runs (which overwrites all four attributes) *)
Definition ph_blank : pyholder := mkpyholder 0 [] [] 0.
(* np.zeros(n, dtype=...) of an int n: ValueError when n is negative *)
Definition np_zeros_keys (n : Z) : result (list Z) := if n <? 0 then Err 1 else Ok (repeat 0 (Z.to_nat n)).
(* a == v, elementwise against a scalar *)
Definition np_eq_scalar_z (a : list Z) (v : Z) : list bool := map (fun x => x =? v) a.
(* a.item(): the only element of an array of size 1, ValueError otherwise *)
Definition array_only (a : list Z) : result Z := match a with [x] => Ok x | _ => Err 8 end.
(* the model of get_score: the score of the ONLY slot with that plate id (no such slot, or several - an unfilled slot has
   plate id 0 -: ValueError) *)
Definition h_get_score (h : holder) (pid : Z) : result Z :=
  match filter (fun sl => fst sl =? pid) (h_slots h) with
  | [sl] => Ok (snd sl)
  | _ => Err 8
  end.

Inductive shval : Type :=
| SH_F1 (a : list skey)          (* 1-d float *)
| SH_I1 (a : list Z).            (* 1-d int *)
Record shraw : Type := { sh_data : list (String.string * shval); sh_attrs : list (String.string * Z) }.
Definition SK_scores : String.string := "scores"%string.
Definition SK_plate_ids : String.string := "plate_ids"%string.
Definition SK_current_index : String.string := "current_index"%string.
(* h5py.File(fn, "w"): a new, empty file *)
Definition shraw_empty : shraw := {| sh_data := []; sh_attrs := [] |}.
Fixpoint sh_find {V : Type} (k : String.string) (l : list (String.string * V)) : option V :=
  match l with
  | [] => None
  | (k', v) :: r => if String.eqb k' k then Some v else sh_find k r
  end.
(* f.create_dataset(k, data=v): a new dataset; a name that exists is refused *)
Definition shraw_create (w : shraw) (k : String.string) (v : shval) : result shraw :=
  match sh_find k (sh_data w) with
  | Some _ => Err 31
  | None => Ok {| sh_data := sh_data w ++ [(k, v)]; sh_attrs := sh_attrs w |}
  end.
(* f.attrs[k] = v: set or replace *)
Fixpoint sh_put (l : list (String.string * Z)) (k : String.string) (v : Z) : list (String.string * Z) :=
  match l with
  | [] => [(k, v)]
  | (k', v') :: r => if String.eqb k' k then (k', v) :: r else (k', v') :: sh_put r k v
  end.
Definition shraw_set_attr (w : shraw) (k : String.string) (v : Z) : shraw :=
  {| sh_data := sh_data w; sh_attrs := sh_put (sh_attrs w) k v |}.
(* f[k][:], by the kind of array the caller goes on to use;  f.attrs[k] *)
Definition shraw_read_f1 (w : shraw) (k : String.string) : result (list skey) :=
  match sh_find k (sh_data w) with Some (SH_F1 a) => Ok a | Some _ => Err 32 | None => Err 30 end.
Definition shraw_read_i1 (w : shraw) (k : String.string) : result (list Z) :=
  match sh_find k (sh_data w) with Some (SH_I1 a) => Ok a | Some _ => Err 32 | None => Err 30 end.
Definition shraw_attr (w : shraw) (k : String.string) : result Z :=
  match sh_find k (sh_attrs w) with Some v => Ok v | None => Err 30 end.
(* the representation map  raw file -> the model's file (slots, current_index): both datasets and the attribute are there
   under their names, the arrays have one length, the index is a natural number *)
Definition shraw_close (w : shraw) : result (list slot * nat) :=
  dor sc <- shraw_read_f1 w SK_scores;
  dor pi <- shraw_read_i1 w SK_plate_ids;
  dor ci <- shraw_attr w SK_current_index;
  if (length sc =? length pi)%nat && (0 <=? ci) then Ok (combine pi sc, Z.to_nat ci) else Err 32.

(* ---- SizeScorer.score (scoring/size.py; link in Proofs/C06SourceSize.v): every candidate's score is the number of rows of
   its plate (an int), in the order of the plates dict ---- *)
Definition size_scorer : scorer_fn :=
  fun plates => map (fun kp => (fst kp, Z.of_nat (length (snd kp)))) plates.

(* ---- gap review G6.1: a scorer that is NOT a function of the plate ----
   RandomScorer, or a DBAL scorer that sub-samples triples, answers differently each time it is called: the score a plate
   gets depends on WHICH call (the position of the chunk file in the combine order) scored it, so with a chunk repeated
   one plate carries two different scores in the combined holder.  [pscorer_t]: the scorer of the call at position pos. *)
Definition pscorer_t := nat -> scorer_t.
Definition positions {A : Type} (l : list A) : list (nat * A) := combine (seq 0 (length l)) l.
Definition pipeline_pos (scorer : pscorer_t) (policy : option policy_t) (s : screen) (batch : list Z)
  (n_chunks : Z) (order : list Z) : result (option Z) :=
  dor hs <- res_map_all (fun pk => load_chunk (scorer (fst pk)) s batch n_chunks (snd pk)) (positions order);
  dor h <- h_concat hs;
  select_next policy s batch h.
