(* C08 model: batchie.models.sparse_combo.LegacySparseDrugComboImpl (default options:
   fake_intercept, individual_eff, mult_gamma_proc, local_shrinkage all True) over exact
   rationals.  Transcribes, function by function:
     _update / cline_idxs, dd1_idxs, dd2_idxs   -> positions
     get(attr, ix)                              -> get_v / get_r   (python index, then 0 on -1)
     self.W[cline], self.W0[cline]              -> py_r / py_v     (python negative index)
     _reconstruct_Mu / predict                  -> mu_row, reconstruct_Mu
     a[idx] += delta  (numpy fancy index)       -> scatter_add     (gather, add, assign in order:
                                                   a repeated index keeps the last write)
     _W0_step _V0_step _W_step _V2_step _V1_step -> block_W0 ... block_V1 (one call per c / m)
     _prec_*_step, _alpha_step, mcmc_step       -> prog_* , step_prog, mcmc_step
     SparseDrugCombo.get_model_state, predict   -> export, predict_row
   Every random draw of the code is a [Draw d k] node: [d] = the arguments the code passes to the
   numpy primitive (variances 1/precision instead of standard deviations, rates instead of
   scales), [k] = what the code does with the drawn value.  The try/except around the MVN draws
   is the [VFail] answer (block skipped, state unchanged).
   Abstracted: float32/float64 rounding (exact rationals), sqrt (oracle), the distribution of the
   numpy primitives, last_rmse / num_mcmc_steps bookkeeping, the non-default option branches. *)
From Coq Require Import String.
From Coq Require Import ZArith List QArith Qcanon Bool.
From Batchie Require Import Lib.Num Generated.Consts Generated.ConstsMcmc.
Import ListNotations.
Open Scope Qc_scope.

(* ---------------------------------------------------------------- indexed access *)
Definition vnth (v : list Qc) (k : nat) : Qc := nth k v 0.
Definition rnth (M : list (list Qc)) (i : nat) : list Qc := nth i M [].
Definition znth (l : list Z) (i : nat) : Z := nth i l 0%Z.
Definition sumn (n : nat) (f : nat -> Qc) : Qc := qsum (map f (seq 0 n)).
Definition tab {A} (n : nat) (f : nat -> A) : list A := map f (seq 0 n).
Definition qnat (n : nat) : Qc := qofZ (Z.of_nat n).
Definition half : Qc := Q2Qc (1 # 2).
Definition jitter : Qc := Q2Qc (1 # 1000).
Definition prec_hi : Qc := qofZ 1000000.

Fixpoint set_nth {A} (i : nat) (x : A) (l : list A) {struct l} : list A :=
  match l with
  | [] => []
  | a :: r => match i with O => x :: r | S j => a :: set_nth j x r end
  end.

(* python index: negative counts from the end *)
Definition pyidx (len : nat) (ix : Z) : nat :=
  Z.to_nat (if (ix <? 0)%Z then Z.of_nat len + ix else ix)%Z.
Definition py_v (v : list Qc) (ix : Z) : Qc := vnth v (pyidx (length v) ix).
Definition py_r (M : list (list Qc)) (ix : Z) : list Qc := rnth M (pyidx (length M) ix).
(* self.get(attr, ix): read, then zero where ix == -1 *)
Definition get_v (v : list Qc) (ix : Z) : Qc := if (ix =? -1)%Z then 0 else py_v v ix.
Definition get_r (M : list (list Qc)) (ix : Z) : list Qc := if (ix =? -1)%Z then [] else py_r M ix.

Definition vdot (D : nat) (a b : list Qc) : Qc := sumn D (fun k => vnth a k * vnth b k).
Definition vmul (D : nat) (a b : list Qc) : list Qc := tab D (fun k => vnth a k * vnth b k).
Definition vadd (D : nat) (a b : list Qc) : list Qc := tab D (fun k => vnth a k + vnth b k).

(* ---------------------------------------------------------------- data, configuration, state *)
Record data := { d_y : list Qc; d_cl : list Z; d_dd1 : list Z; d_dd2 : list Z }.
Record cfg := { c_D : nat; c_ndd : nat; c_ncl : nat; c_a0 : Qc; c_b0 : Qc; c_minMu : Qc; c_maxMu : Qc }.
Record st := {
  W : list (list Qc); W0 : list Qc; V2 : list (list Qc); V1 : list (list Qc); V0 : list Qc;
  alpha : Qc; prec : Qc; tau : list Qc; tau0 : Qc;
  phi2 : list (list Qc); phi1 : list (list Qc); phi0 : list Qc;
  eta2 : list Qc; eta1 : list Qc; eta0 : Qc; gam : list Qc; Mu : list Qc }.

Definition nobs (d : data) : nat := length (d_y d).
(* self.<key>_idxs[k]: the observation numbers whose key is k, in insertion order *)
Definition positions (k : Z) (keys : list Z) : list nat :=
  filter (fun i => (znth keys i =? k)%Z) (seq 0 (length keys)).

Definition set_W s x := {| W := x; W0 := W0 s; V2 := V2 s; V1 := V1 s; V0 := V0 s; alpha := alpha s; prec := prec s; tau := tau s; tau0 := tau0 s; phi2 := phi2 s; phi1 := phi1 s; phi0 := phi0 s; eta2 := eta2 s; eta1 := eta1 s; eta0 := eta0 s; gam := gam s; Mu := Mu s |}.
Definition set_W0 s x := {| W := W s; W0 := x; V2 := V2 s; V1 := V1 s; V0 := V0 s; alpha := alpha s; prec := prec s; tau := tau s; tau0 := tau0 s; phi2 := phi2 s; phi1 := phi1 s; phi0 := phi0 s; eta2 := eta2 s; eta1 := eta1 s; eta0 := eta0 s; gam := gam s; Mu := Mu s |}.
Definition set_V2 s x := {| W := W s; W0 := W0 s; V2 := x; V1 := V1 s; V0 := V0 s; alpha := alpha s; prec := prec s; tau := tau s; tau0 := tau0 s; phi2 := phi2 s; phi1 := phi1 s; phi0 := phi0 s; eta2 := eta2 s; eta1 := eta1 s; eta0 := eta0 s; gam := gam s; Mu := Mu s |}.
Definition set_V1 s x := {| W := W s; W0 := W0 s; V2 := V2 s; V1 := x; V0 := V0 s; alpha := alpha s; prec := prec s; tau := tau s; tau0 := tau0 s; phi2 := phi2 s; phi1 := phi1 s; phi0 := phi0 s; eta2 := eta2 s; eta1 := eta1 s; eta0 := eta0 s; gam := gam s; Mu := Mu s |}.
Definition set_V0 s x := {| W := W s; W0 := W0 s; V2 := V2 s; V1 := V1 s; V0 := x; alpha := alpha s; prec := prec s; tau := tau s; tau0 := tau0 s; phi2 := phi2 s; phi1 := phi1 s; phi0 := phi0 s; eta2 := eta2 s; eta1 := eta1 s; eta0 := eta0 s; gam := gam s; Mu := Mu s |}.
Definition set_alpha s x := {| W := W s; W0 := W0 s; V2 := V2 s; V1 := V1 s; V0 := V0 s; alpha := x; prec := prec s; tau := tau s; tau0 := tau0 s; phi2 := phi2 s; phi1 := phi1 s; phi0 := phi0 s; eta2 := eta2 s; eta1 := eta1 s; eta0 := eta0 s; gam := gam s; Mu := Mu s |}.
Definition set_prec s x := {| W := W s; W0 := W0 s; V2 := V2 s; V1 := V1 s; V0 := V0 s; alpha := alpha s; prec := x; tau := tau s; tau0 := tau0 s; phi2 := phi2 s; phi1 := phi1 s; phi0 := phi0 s; eta2 := eta2 s; eta1 := eta1 s; eta0 := eta0 s; gam := gam s; Mu := Mu s |}.
Definition set_tau s x := {| W := W s; W0 := W0 s; V2 := V2 s; V1 := V1 s; V0 := V0 s; alpha := alpha s; prec := prec s; tau := x; tau0 := tau0 s; phi2 := phi2 s; phi1 := phi1 s; phi0 := phi0 s; eta2 := eta2 s; eta1 := eta1 s; eta0 := eta0 s; gam := gam s; Mu := Mu s |}.
Definition set_tau0 s x := {| W := W s; W0 := W0 s; V2 := V2 s; V1 := V1 s; V0 := V0 s; alpha := alpha s; prec := prec s; tau := tau s; tau0 := x; phi2 := phi2 s; phi1 := phi1 s; phi0 := phi0 s; eta2 := eta2 s; eta1 := eta1 s; eta0 := eta0 s; gam := gam s; Mu := Mu s |}.
Definition set_phi2 s x := {| W := W s; W0 := W0 s; V2 := V2 s; V1 := V1 s; V0 := V0 s; alpha := alpha s; prec := prec s; tau := tau s; tau0 := tau0 s; phi2 := x; phi1 := phi1 s; phi0 := phi0 s; eta2 := eta2 s; eta1 := eta1 s; eta0 := eta0 s; gam := gam s; Mu := Mu s |}.
Definition set_phi1 s x := {| W := W s; W0 := W0 s; V2 := V2 s; V1 := V1 s; V0 := V0 s; alpha := alpha s; prec := prec s; tau := tau s; tau0 := tau0 s; phi2 := phi2 s; phi1 := x; phi0 := phi0 s; eta2 := eta2 s; eta1 := eta1 s; eta0 := eta0 s; gam := gam s; Mu := Mu s |}.
Definition set_phi0 s x := {| W := W s; W0 := W0 s; V2 := V2 s; V1 := V1 s; V0 := V0 s; alpha := alpha s; prec := prec s; tau := tau s; tau0 := tau0 s; phi2 := phi2 s; phi1 := phi1 s; phi0 := x; eta2 := eta2 s; eta1 := eta1 s; eta0 := eta0 s; gam := gam s; Mu := Mu s |}.
Definition set_eta2 s x := {| W := W s; W0 := W0 s; V2 := V2 s; V1 := V1 s; V0 := V0 s; alpha := alpha s; prec := prec s; tau := tau s; tau0 := tau0 s; phi2 := phi2 s; phi1 := phi1 s; phi0 := phi0 s; eta2 := x; eta1 := eta1 s; eta0 := eta0 s; gam := gam s; Mu := Mu s |}.
Definition set_eta1 s x := {| W := W s; W0 := W0 s; V2 := V2 s; V1 := V1 s; V0 := V0 s; alpha := alpha s; prec := prec s; tau := tau s; tau0 := tau0 s; phi2 := phi2 s; phi1 := phi1 s; phi0 := phi0 s; eta2 := eta2 s; eta1 := x; eta0 := eta0 s; gam := gam s; Mu := Mu s |}.
Definition set_eta0 s x := {| W := W s; W0 := W0 s; V2 := V2 s; V1 := V1 s; V0 := V0 s; alpha := alpha s; prec := prec s; tau := tau s; tau0 := tau0 s; phi2 := phi2 s; phi1 := phi1 s; phi0 := phi0 s; eta2 := eta2 s; eta1 := eta1 s; eta0 := x; gam := gam s; Mu := Mu s |}.
Definition set_gam s x := {| W := W s; W0 := W0 s; V2 := V2 s; V1 := V1 s; V0 := V0 s; alpha := alpha s; prec := prec s; tau := tau s; tau0 := tau0 s; phi2 := phi2 s; phi1 := phi1 s; phi0 := phi0 s; eta2 := eta2 s; eta1 := eta1 s; eta0 := eta0 s; gam := x; Mu := Mu s |}.
Definition set_Mu s x := {| W := W s; W0 := W0 s; V2 := V2 s; V1 := V1 s; V0 := V0 s; alpha := alpha s; prec := prec s; tau := tau s; tau0 := tau0 s; phi2 := phi2 s; phi1 := phi1 s; phi0 := phi0 s; eta2 := eta2 s; eta1 := eta1 s; eta0 := eta0 s; gam := gam s; Mu := x |}.

(* ---------------------------------------------------------------- fitted values *)
(* predict / _reconstruct_Mu for one row: intercept + interaction1 + interaction2 *)
Definition mu_row (D : nat) (s : st) (c d1 d2 : Z) : Qc :=
  let w := py_r (W s) c in
  (alpha s + py_v (W0 s) c + get_v (V0 s) d1 + get_v (V0 s) d2)
  + vdot D w (vadd D (get_r (V1 s) d1) (get_r (V1 s) d2))
  + sumn D (fun k => vnth w k * vnth (get_r (V2 s) d1) k * vnth (get_r (V2 s) d2) k).
Definition mu_at (g : cfg) (d : data) (s : st) (i : nat) : Qc :=
  mu_row (c_D g) s (znth (d_cl d) i) (znth (d_dd1 d) i) (znth (d_dd2 d) i).
Definition reconstruct (g : cfg) (d : data) (s : st) : list Qc := tab (nobs d) (mu_at g d s).
Definition reconstruct_Mu (g : cfg) (d : data) (clip : bool) (s : st) : st :=
  match nobs d with
  | O => s
  | _ => let m := reconstruct g d s in
         set_Mu s (if clip then map (qclip (c_minMu g) (c_maxMu g)) m else m)
  end.

(* a[idx] = vals, in order *)
Fixpoint scatter_set (M : list Qc) (idx : list nat) (vals : list Qc) : list Qc :=
  match idx, vals with
  | i :: idx', v :: vals' => scatter_set (set_nth i v M) idx' vals'
  | _, _ => M
  end.
(* a[idx] += delta *)
Definition scatter_add (M : list Qc) (idx : list nat) (delta : list Qc) : list Qc :=
  scatter_set M idx (map (fun p => vnth M (fst p) + snd p) (combine idx delta)).

(* ---------------------------------------------------------------- draws and programs *)
Inductive draw :=
| DNormal (mean var : Qc)                       (* np.random.normal(mean, sqrt var) *)
| DNormalVec (vars : list Qc)                   (* np.random.normal(0, sqrt vars) *)
| DMvn (Q : list (list Qc)) (b : list Qc)       (* sample_mvn_from_precision(Q, mu_part=b) *)
| DGamma (shape rate : Qc)                      (* np.random.gamma(shape, 1/rate) *)
| DGammaVec (shape : Qc) (rates : list Qc)
| DGammaMat (shape : Qc) (rates : list (list Qc)).
Inductive val := VQ (q : Qc) | VV (v : list Qc) | VM (m : list (list Qc)) | VFail.
Definition val_q (v : val) : Qc := match v with VQ q => q | _ => 0 end.
Definition val_v (v : val) : list Qc := match v with VV l => l | _ => [] end.
Definition val_m (v : val) : list (list Qc) := match v with VM m => m | _ => [] end.

Inductive prog := Ret (s : st) | Draw (d : draw) (k : val -> prog).
Fixpoint bind (p : prog) (f : st -> prog) : prog :=
  match p with Ret s => f s | Draw d k => Draw d (fun v => bind (k v) f) end.
Fixpoint seq_blocks (blocks : list (st -> draw * (val -> st))) (s : st) : prog :=
  match blocks with
  | [] => Ret s
  | b :: r => Draw (fst (b s)) (fun v => seq_blocks r (snd (b s) v))
  end.
(* replay a program against recorded draw results *)
Fixpoint run_prog (p : prog) (vals : list val) : list draw * option st :=
  match p with
  | Ret s => ([], match vals with [] => Some s | _ => None end)
  | Draw d k => match vals with
                | [] => ([d], None)
                | v :: r => let res := run_prog (k v) r in (d :: fst res, snd res)
                end
  end.

(* ---------------------------------------------------------------- Gaussian blocks *)
(* rows of a vector block: (resid_i, X_i) *)
Definition rowsT := list (Qc * list Qc).
(* Q = (Xt @ X) * prec; Q[diag] += lam *)
Definition gramQ (D : nat) (p : Qc) (rows : rowsT) (lam : list Qc) : list (list Qc) :=
  tab D (fun j => tab D (fun k =>
    p * qsum (map (fun r => vnth (snd r) j * vnth (snd r) k) rows) + (if Nat.eqb j k then vnth lam j else 0))).
(* mu_part = (Xt @ resid) * prec *)
Definition xtr (D : nat) (p : Qc) (rows : rowsT) : list Qc :=
  tab D (fun j => p * qsum (map (fun r => vnth (snd r) j * fst r) rows)).

Section Blocks.
Variable g : cfg.
Variable d : data.
Let D := c_D g.
Definition yi (i : nat) : Qc := vnth (d_y d) i.

Definition block_W0 (s : st) (c : nat) : draw * (val -> st) :=
  let cidx := positions (Z.of_nat c) (d_cl d) in
  match cidx with
  | [] => (DNormal 0 (/ tau0 s), fun v => set_W0 s (set_nth c (val_q v) (W0 s)))
  | _ =>
      let old := vnth (W0 s) c in
      let resid := map (fun i => yi i - vnth (Mu s) i + old) cidx in
      let P := prec s * qlen cidx + tau0 s in
      (DNormal (prec s * qsum resid / P) (/ P),
       fun v => let x := val_q v in
                set_Mu (set_W0 s (set_nth c x (W0 s)))
                       (scatter_add (Mu s) cidx (map (fun _ => x - old) cidx)))
  end.

Definition block_V0 (s : st) (m : nat) : draw * (val -> st) :=
  let idx := positions (Z.of_nat m) (d_dd1 d) ++ positions (Z.of_nat m) (d_dd2 d) in
  let lam := vnth (phi0 s) m * eta0 s in
  match idx with
  | [] => (DNormal 0 (/ lam), fun v => set_V0 s (set_nth m (val_q v) (V0 s)))
  | _ =>
      let old := vnth (V0 s) m in
      let resid := map (fun i => yi i - vnth (Mu s) i + old) idx in
      let P := prec s * qlen idx + lam in
      (DNormal (prec s * qsum resid / P) (/ P),
       fun v => let x := val_q v in
                set_Mu (set_V0 s (set_nth m x (V0 s)))
                       (scatter_add (Mu s) idx (map (fun _ => x - old) idx)))
  end.

Definition mk_rows (s : st) (X : nat -> list Qc) (cur : list Qc) (idx : list nat) : rowsT :=
  map (fun i => (yi i - vnth (Mu s) i + vdot D (X i) cur, X i)) idx.
Definition mvn_deltas (rows : rowsT) (cur new : list Qc) : list Qc :=
  map (fun r => vdot D (snd r) new - vdot D (snd r) cur) rows.

(* X row of the W block: get(V2,dd1)*get(V2,dd2) + get(V1,dd1) + get(V1,dd2) *)
Definition xrow_W (s : st) (i : nat) : list Qc :=
  let d1 := znth (d_dd1 d) i in let d2 := znth (d_dd2 d) i in
  vadd D (vmul D (get_r (V2 s) d1) (get_r (V2 s) d2)) (vadd D (get_r (V1 s) d1) (get_r (V1 s) d2)).

Definition block_W (s : st) (c : nat) : draw * (val -> st) :=
  let cidx := positions (Z.of_nat c) (d_cl d) in
  match cidx with
  | [] => (DNormalVec (map Qcinv (tau s)), fun v => set_W s (set_nth c (val_v v) (W s)))
  | _ =>
      let cur := rnth (W s) c in
      let rows := mk_rows s (xrow_W s) cur cidx in
      (DMvn (gramQ D (prec s) rows (tau s)) (xtr D (prec s) rows),
       fun v => match v with
                | VV w => set_Mu (set_W s (set_nth c w (W s))) (scatter_add (Mu s) cidx (mvn_deltas rows cur w))
                | _ => s
                end)
  end.

(* X rows of the V2 block: W[cline] * get(V2, other treatment) *)
Definition xrow_V2a (s : st) (i : nat) : list Qc := vmul D (py_r (W s) (znth (d_cl d) i)) (get_r (V2 s) (znth (d_dd2 d) i)).
Definition xrow_V2b (s : st) (i : nat) : list Qc := vmul D (py_r (W s) (znth (d_cl d) i)) (get_r (V2 s) (znth (d_dd1 d) i)).
Definition xrow_V1 (s : st) (i : nat) : list Qc := tab D (vnth (py_r (W s) (znth (d_cl d) i))).

Definition block_V (getV : st -> list (list Qc)) (setV : st -> list (list Qc) -> st)
    (lamf : st -> nat -> list Qc) (Xa Xb : st -> nat -> list Qc) (s : st) (m : nat) : draw * (val -> st) :=
  let idx1 := positions (Z.of_nat m) (d_dd1 d) in
  let idx2 := positions (Z.of_nat m) (d_dd2 d) in
  match idx1 ++ idx2 with
  | [] => (DNormalVec (map Qcinv (lamf s m)), fun v => setV s (set_nth m (val_v v) (getV s)))
  | _ =>
      let cur := rnth (getV s) m in
      let rows := mk_rows s (Xa s) cur idx1 ++ mk_rows s (Xb s) cur idx2 in
      (DMvn (gramQ D (prec s) rows (lamf s m)) (xtr D (prec s) rows),
       fun v => match v with
                | VV w => set_Mu (setV s (set_nth m w (getV s))) (scatter_add (Mu s) (idx1 ++ idx2) (mvn_deltas rows cur w))
                | _ => s
                end)
  end.
Definition lam_V2 (s : st) (m : nat) : list Qc := tab D (fun k => vnth (rnth (phi2 s) m) k * vnth (eta2 s) k).
Definition lam_V1 (s : st) (m : nat) : list Qc := tab D (fun k => vnth (rnth (phi1 s) m) k * vnth (eta1 s) k).
Definition block_V2 := block_V V2 set_V2 lam_V2 xrow_V2a xrow_V2b.
Definition block_V1 := block_V V1 set_V1 lam_V1 xrow_V1 xrow_V1.

(* ---------------------------------------------------------------- alpha and the precisions *)
Variable orc : oracle.
(* C = 1 / sqrt(1 + k) *)
Definition clip_lo (k : nat) : Qc := / orc ORC_SQRT (1 + qnat k).
Definition clipC (k : nat) (x : Qc) : Qc := qclip (clip_lo k) prec_hi x.

Definition alpha_step (s : st) : st :=
  match nobs d with
  | O => s
  | _ => let a := qmean (d_y d) in
         set_Mu (set_alpha s a) (map (fun x => x + (a - alpha s)) (Mu s))
  end.

Definition prog_prec_W0 (s : st) : prog :=
  Draw (DGamma (c_a0 g + half * qnat (c_ncl g)) (c_b0 g + half * qsum (map qsq (W0 s)) + jitter))
       (fun v => Ret (set_tau0 s (clipC (nobs d) (val_q v)))).

Definition prog_prec_obs (s : st) : prog :=
  match nobs d with
  | O => Draw (DGamma (c_a0 g) (c_b0 g)) (fun v => Ret (set_prec s (val_q v)))
  | _ => let sse := sumn (nobs d) (fun i => qsq (yi i - vnth (Mu s) i)) in
         Draw (DGamma (c_a0 g + half * qnat (nobs d)) (c_b0 g + half * sse + jitter))
              (fun v => Ret (set_prec s (clipC (nobs d) (val_q v))))
  end.

(* number of observations in which treatment m occurs (N1 + N2) *)
Definition n_occ (m : nat) : nat :=
  (length (positions (Z.of_nat m) (d_dd1 d)) + length (positions (Z.of_nat m) (d_dd2 d)))%nat.

Definition prog_prec_V0 (s : st) : prog :=
  Draw (DGammaVec 1 (map (fun p => 1 + p) (phi0 s))) (fun aux =>
  Draw (DGammaVec 1 (tab (c_ndd g) (fun m => vnth (val_v aux) m + half * eta0 s * qsq (vnth (V0 s) m) + jitter))) (fun v =>
  let ph := tab (c_ndd g) (fun m => clipC (n_occ m) (vnth (val_v v) m)) in
  Draw (DGamma 1 (1 + eta0 s)) (fun aux2 =>
  Draw (DGamma (half * (1 + qnat (c_ndd g)))
               (val_q aux2 + half * sumn (c_ndd g) (fun m => vnth ph m * qsq (vnth (V0 s) m)) + jitter)) (fun v2 =>
  Ret (set_eta0 (set_phi0 s ph) (clipC (nobs d) (val_q v2))))))).

Definition prog_prec_Vk (V phi : list (list Qc)) (eta : list Qc)
    (fin : list (list Qc) -> list Qc -> st) : prog :=
  Draw (DGammaMat 1 (map (map (fun p => 1 + p)) phi)) (fun aux =>
  Draw (DGammaMat 1 (tab (c_ndd g) (fun m => tab D (fun k =>
          vnth (rnth (val_m aux) m) k + half * vnth eta k * qsq (vnth (rnth V m) k) + jitter)))) (fun v =>
  let ph := tab (c_ndd g) (fun m => tab D (fun k => clipC (n_occ m) (vnth (rnth (val_m v) m) k))) in
  Draw (DGammaVec 1 (map (fun e => 1 + e) eta)) (fun aux2 =>
  Draw (DGammaVec (half * (1 + qnat (c_ndd g)))
          (tab D (fun k => vnth (val_v aux2) k
                           + half * sumn (c_ndd g) (fun m => vnth (rnth ph m) k * qsq (vnth (rnth V m) k)) + jitter))) (fun v2 =>
  Ret (fin ph (tab D (fun k => clipC (nobs d) (vnth (val_v v2) k)))))))).
Definition prog_prec_V2 (s : st) : prog :=
  prog_prec_Vk (V2 s) (phi2 s) (eta2 s) (fun ph et => set_eta2 (set_phi2 s ph) et).
Definition prog_prec_V1 (s : st) : prog :=
  prog_prec_Vk (V1 s) (phi1 s) (eta1 s) (fun ph et => set_eta1 (set_phi1 s ph) et).

(* multiplicative gamma process *)
Fixpoint cumprod_from (acc : Qc) (l : list Qc) : list Qc :=
  match l with [] => [] | x :: r => (acc * x) :: cumprod_from (acc * x) r end.
Definition cumprod (l : list Qc) : list Qc := cumprod_from 1 l.
(* bn - 1 for component dd: 0.5 * sum_c sum_{k>=dd} (cumprod(gam)[k] / gam[dd]) * W[c,k]^2 *)
Definition gam_half_ss (s : st) (dd : nat) : Qc :=
  let cp := cumprod (gam s) in
  half * sumn (c_ncl g) (fun c => sumn (D - dd) (fun j =>
            vnth cp (dd + j) / vnth (gam s) dd * qsq (vnth (rnth (W s) c) (dd + j)))).
Definition gam_shape (dd : nat) : Qc :=
  (match dd with O => qofZ 2 | _ => qofZ 3 end) + half * qnat (c_ncl g) * qnat (D - dd).
Fixpoint prog_gam (ds : list nat) (s : st) : prog :=
  match ds with
  | [] => Ret (set_tau s (map (clipC (nobs d)) (cumprod (gam s))))
  | dd :: r => Draw (DGamma (gam_shape dd) (1 + gam_half_ss s dd + jitter))
                    (fun v => prog_gam r (set_gam s (set_nth dd (val_q v) (gam s))))
  end.
Definition prog_prec_W (s : st) : prog := prog_gam (seq 0 D) s.

(* ---------------------------------------------------------------- one sweep *)
Inductive blk := BReconstruct | BAlpha | BW0 | BV0 | BW | BV2 | BV1
               | BPrecW0 | BPrecV0 | BPrecObs | BPrecV2 | BPrecV1 | BPrecW.
Definition blk_name (b : blk) : string :=
  match b with
  | BReconstruct => "_reconstruct_Mu" | BAlpha => "_alpha_step" | BW0 => "_W0_step" | BV0 => "_V0_step"
  | BW => "_W_step" | BV2 => "_V2_step" | BV1 => "_V1_step" | BPrecW0 => "_prec_W0_step"
  | BPrecV0 => "_prec_V0_step" | BPrecObs => "_prec_obs_step" | BPrecV2 => "_prec_V2_step"
  | BPrecV1 => "_prec_V1_step" | BPrecW => "_prec_W_step"
  end%string.
Definition step_prog (b : blk) (s : st) : prog :=
  match b with
  | BReconstruct => Ret (reconstruct_Mu g d false s)
  | BAlpha => Ret (alpha_step s)
  | BW0 => seq_blocks (map (fun c s' => block_W0 s' c) (seq 0 (c_ncl g))) s
  | BV0 => seq_blocks (map (fun m s' => block_V0 s' m) (seq 0 (c_ndd g))) s
  | BW => seq_blocks (map (fun c s' => block_W s' c) (seq 0 (c_ncl g))) s
  | BV2 => seq_blocks (map (fun m s' => block_V2 s' m) (seq 0 (c_ndd g))) s
  | BV1 => seq_blocks (map (fun m s' => block_V1 s' m) (seq 0 (c_ndd g))) s
  | BPrecW0 => prog_prec_W0 s
  | BPrecV0 => prog_prec_V0 s
  | BPrecObs => prog_prec_obs s
  | BPrecV2 => prog_prec_V2 s
  | BPrecV1 => prog_prec_V1 s
  | BPrecW => prog_prec_W s
  end.
(* the order of mcmc_step (proved equal to Generated.ConstsMcmc.MCMC_STEP_ORDER) *)
Definition step_order : list blk :=
  [BReconstruct; BAlpha; BW0; BV0; BW; BV2; BV1; BPrecW0; BPrecV0; BPrecObs; BPrecV2; BPrecV1; BPrecW].
Definition run_blocks (bs : list blk) (s : st) : prog :=
  fold_left (fun p b => bind p (step_prog b)) bs (Ret s).
Definition mcmc_step (s : st) : prog := run_blocks step_order s.
End Blocks.

(* ---------------------------------------------------------------- exported posterior sample *)
Record sample := { sm_W : list (list Qc); sm_W0 : list Qc; sm_V2 : list (list Qc); sm_V1 : list (list Qc);
                   sm_V0 : list Qc; sm_alpha : Qc; sm_precision : Qc }.
(* SparseDrugCombo.get_model_state *)
Definition export (s : st) : sample :=
  {| sm_W := W s; sm_W0 := W0 s; sm_V2 := V2 s; sm_V1 := V1 s; sm_V0 := V0 s; sm_alpha := alpha s; sm_precision := prec s |}.
(* common.copy_array_with_control_treatments_set_to_zero *)
Definition ctl_v (v : list Qc) (t : Z) : Qc := if (t =? CONTROL_SENTINEL_VALUE)%Z then 0 else py_v v t.
Definition ctl_r (M : list (list Qc)) (t : Z) : list Qc := if (t =? CONTROL_SENTINEL_VALUE)%Z then [] else py_r M t.
(* sparse_combo.predict(sample, data, viability=False) for one row *)
Definition predict_row (D : nat) (t : sample) (c d1 d2 : Z) : Qc :=
  let w := py_r (sm_W t) c in
  let interaction2 := sumn D (fun k => vnth w k * vnth (ctl_r (sm_V2 t) d1) k * vnth (ctl_r (sm_V2 t) d2) k) in
  let interaction1 := sumn D (fun k => vnth w k * (vnth (ctl_r (sm_V1 t) d1) k + vnth (ctl_r (sm_V1 t) d2) k)) in
  let intercept := sm_alpha t + py_v (sm_W0 t) c + ctl_v (sm_V0 t) d1 + ctl_v (sm_V0 t) d2 in
  intercept + interaction1 + interaction2.
Definition predict_training (g : cfg) (d : data) (t : sample) : list Qc :=
  tab (nobs d) (fun i => predict_row (c_D g) t (znth (d_cl d) i) (znth (d_dd1 d) i) (znth (d_dd2 d) i)).

(* ---------------------------------------------------------------- vocabulary of the source translation
   (Generated/SrcGibbs.v, configurations C08_* of harness/src_functions.py).  Each definition below is the meaning of ONE
   attribute / numpy / library call of the translated methods of LegacySparseDrugComboImpl; which call is applied to
   what, in which order, under which test and in which loop is read from the source on every run.

   The object: `self` is split as the model splits it - the options and sizes [g : cfg], the observations [d : data]
   (self.y, self.cline, self.dd1, self.dd2 and the three index dicts derived from them by _update) and the sampler
   state [st] (cfg["fields"]: self.W ... self.Mu are the fields of the record, a store rebinds the record).
   Arrays: a float array of shape (n,) is [list Qc], of shape (n, D) the list of its rows, an integer array of
   observation numbers [list nat], an id array [list Z].  numpy's IndexError / shape errors are not represented (as in
   the header of this file): a read outside an array gives 0 / [], a store outside it does nothing; the linking
   theorems carry the shape facts they need as hypotheses.

   Random draws: the translated methods denote programs in the free monad [gprog] over the model's [draw] / [val]
   (exactly the model's [prog], with a result type): `x = np.random.normal(m, s)` is the node [GDraw (DNormal m (s^2))]
   whose continuation goes on with the drawn value.  [to_prog] reads such a program of states as a model program. *)
Definition qnum := Qc.
(* Python / numpy float arithmetic as exact rational arithmetic (named: the generated file does not open Qc_scope) *)
Definition q0 : Qc := 0.
Definition q1 : Qc := 1.
Definition qadd (a b : Qc) : Qc := a + b.
Definition qsub (a b : Qc) : Qc := a - b.
Definition qmul (a b : Qc) : Qc := a * b.
Definition qdiv (a b : Qc) : Qc := a / b.
Inductive gprog (T : Type) : Type := GRet (x : T) | GDraw (dr : draw) (k : val -> gprog T).
Arguments GRet {T} x.
Arguments GDraw {T} dr k.
Fixpoint gbind {A B : Type} (p : gprog A) (f : A -> gprog B) : gprog B :=
  match p with GRet x => f x | GDraw dr k => GDraw dr (fun v => gbind (k v) f) end.
Notation "'dop' x <- e ; k" := (gbind e (fun x => k))
  (at level 200, x pattern, e at level 100, k at level 200, right associativity).
(* a for loop whose body may draw: the state is threaded left to right *)
Fixpoint prog_fold {S A : Type} (f : S -> A -> gprog S) (l : list A) (s : S) : gprog S :=
  match l with
  | [] => GRet s
  | a :: r => dop s' <- f s a; prog_fold f r s'
  end.
Fixpoint to_prog (p : gprog st) : prog :=
  match p with GRet s => Ret s | GDraw dr k => Draw dr (fun v => to_prog (k v)) end.
Fixpoint of_prog (p : prog) : gprog st :=
  match p with Ret s => GRet s | Draw dr k => GDraw dr (fun v => of_prog (k v)) end.
(* equality of programs up to the extensionality of their continuations (Coq's equality of functions is intensional;
   no axiom is used): the same draw arguments, and equal programs for every drawn value *)
Inductive prog_eq : prog -> prog -> Prop :=
| PE_ret : forall s, prog_eq (Ret s) (Ret s)
| PE_draw : forall dr k1 k2, (forall v, prog_eq (k1 v) (k2 v)) -> prog_eq (Draw dr k1) (Draw dr k2).
Inductive geq {T : Type} : gprog T -> gprog T -> Prop :=
| GE_ret : forall x, geq (GRet x) (GRet x)
| GE_draw : forall dr k1 k2, (forall v, geq (k1 v) (k2 v)) -> geq (GDraw dr k1) (GDraw dr k2).

(* np.sqrt(x) and 1.0 / np.sqrt(x), kept symbolic: the model never takes a square root of a variance (a normal draw
   with standard deviation 1/sqrt(p) has variance 1/p exactly); where the VALUE of 1/sqrt(x) is used (the clipping
   bound) it is the oracle's, as in [clip_lo] *)
Inductive ssqrt := Sqrt (x : Qc).
Inductive isqrt := InvSqrt (x : Qc).
Definition inv_sqrt (r : ssqrt) : isqrt := match r with Sqrt x => InvSqrt x end.
Definition isq_sq (r : isqrt) : Qc := match r with InvSqrt x => / x end.                        (* (1/sqrt x)^2 *)
Definition isq_value (orc : oracle) (r : isqrt) : Qc := match r with InvSqrt x => / orc ORC_SQRT x end.

(* np.random.normal(m, s), np.random.normal(0.0, s) with an array s, np.random.gamma(a, scale): scale = 1 / rate *)
Definition draw_normal (m : Qc) (s : isqrt) : gprog Qc := GDraw (DNormal m (isq_sq s)) (fun v => GRet (val_q v)).
Definition draw_normal_vec (s : list isqrt) : gprog (list Qc) := GDraw (DNormalVec (map isq_sq s)) (fun v => GRet (val_v v)).
Definition draw_gamma (a scale : Qc) : gprog Qc := GDraw (DGamma a (/ scale)) (fun v => GRet (val_q v)).
(* ... with an array of scales: the drawn array has the shape of the scale argument (numpy's contract; a recorded answer
   of another shape is read at that shape, as the model reads it) *)
Definition fit_like {A B} (z : B) (like : list A) (l : list B) : list B := map (fun i => nth i l z) (seq 0 (length like)).
Definition fit_like2 (like m : list (list Qc)) : list (list Qc) :=
  map (fun p => fit_like 0 (fst p) (snd p)) (combine like (fit_like [] like m)).
Definition draw_gamma_vec (a : Qc) (scales : list Qc) : gprog (list Qc) :=
  GDraw (DGammaVec a (map Qcinv scales)) (fun v => GRet (fit_like 0 scales (val_v v))).
Definition draw_gamma_mat (a : Qc) (scales : list (list Qc)) : gprog (list (list Qc)) :=
  GDraw (DGammaMat a (map (map Qcinv) scales)) (fun v => GRet (fit_like2 scales (val_m v))).

(* a[i] with a Python int i (negative counts from the end); a[i] = v *)
Definition np_get {A} (z : A) (a : list A) (i : Z) : A := nth (pyidx (length a) i) a z.
Definition np_store {A} (a : list A) (i : Z) (v : A) : list A := set_nth (pyidx (length a) i) v a.
(* a[idx] with an array of observation numbers / of Python ints: one entry per index, in order *)
Definition np_gather {A} (z : A) (a : list A) (idx : list nat) : list A := map (fun i => nth i a z) idx.
Definition np_take {A} (z : A) (a : list A) (ix : list Z) : list A := map (np_get z a) ix.
(* elementwise operators on arrays of equal shape, array op scalar *)
Fixpoint zipw {A B C} (f : A -> B -> C) (a : list A) (b : list B) : list C :=
  match a, b with x :: a', y :: b' => f x y :: zipw f a' b' | _, _ => [] end.
Definition np_vsub : list Qc -> list Qc -> list Qc := zipw Qcminus.
Definition np_vadd : list Qc -> list Qc -> list Qc := zipw Qcplus.
Definition np_vmul : list Qc -> list Qc -> list Qc := zipw Qcmult.
Definition np_vadds (a : list Qc) (x : Qc) : list Qc := map (fun y => y + x) a.
Definition np_vmuls (a : list Qc) (x : Qc) : list Qc := map (fun y => y * x) a.
Definition np_square : list Qc -> list Qc := map qsq.
(* a[idx] += x (a scalar, broadcast) / a[idx] += delta (an array): gather, add, assign in order *)
Definition np_iadd_at_scalar (a : list Qc) (idx : list nat) (x : Qc) : list Qc := scatter_add a idx (map (fun _ => x) idx).
Definition np_iadd_at (a : list Qc) (idx : list nat) (delta : list Qc) : list Qc := scatter_add a idx delta.
(* np.where(mask)[0]: the positions where the mask holds, ascending *)
Definition np_where (m : list bool) : list nat := filter (fun i => nth i m false) (seq 0 (length m)).
(* a[positions] = 0.0: every listed entry (row) becomes zero ([z] = the zero of an entry's shape) *)
Definition np_zero_at {A} (z : A) (a : list A) (pos : list nat) : list A := fold_left (fun a i => set_nth i z a) pos a.
(* np.clip(x, C, hi) with C = 1.0 / np.sqrt(..) *)
Definition np_clip_isq (orc : oracle) (x : Qc) (lo : isqrt) (hi : Qc) : Qc := qclip (isq_value orc lo) hi x.
(* scalar op array, elementwise on arrays of standard deviations / clipping bounds, range *)
Definition np_sadd (x : Qc) : list Qc -> list Qc := map (fun y => x + y).
Definition np_smul (x : Qc) : list Qc -> list Qc := map (fun y => x * y).
Definition np_sdiv (x : Qc) : list Qc -> list Qc := map (fun y => x / y).
Definition np_vdivs (a : list Qc) (x : Qc) : list Qc := map (fun y => y / x) a.
Definition np_clip_isq_each (orc : oracle) (a : list Qc) (lo : list isqrt) (hi : Qc) : list Qc :=
  zipw (fun x l => np_clip_isq orc x l hi) a lo.
Definition np_clip_isq_all (orc : oracle) (a : list Qc) (lo : isqrt) (hi : Qc) : list Qc :=
  map (fun x => np_clip_isq orc x lo hi) a.
(* np.clip(a, C[:, None], hi): row m of the matrix is clipped below by C[m] *)
Definition np_clip_isq_rows (orc : oracle) (a : list (list Qc)) (lo : list isqrt) (hi : Qc) : list (list Qc) :=
  zipw (fun row l => np_clip_isq_all orc row l hi) a lo.
(* a.sum(0) of a matrix with D columns (the list of rows does not know D when there is no row) *)
Definition np_colsum (D : nat) (a : list (list Qc)) : list Qc := tab D (fun k => qsum (map (fun r => vnth r k) a)).
Definition zrange2 (a b : Z) : list Z := map (fun i => (a + Z.of_nat i)%Z) (seq 0 (Z.to_nat (b - a))).
(* a[i:] (a slice from a Python index to the end), total sum of a matrix *)
Definition np_from {A} (a : list A) (i : Z) : list A := skipn (pyidx (length a) i) a.
Definition np_msum (a : list (list Qc)) : Qc := qsum (map qsum a).
(* sample_mvn_from_precision(Q, mu_part=b): the answer says whether the call raised (VFail) - the block's try/except *)
Definition draw_mvn (Q : list (list Qc)) (b : list Qc) : gprog val := GDraw (DMvn Q b) (fun v => GRet v).
(* matrix products of the vector blocks; a matrix is the list of its rows and has D columns (explicit: the list does not
   know D when there is no row): X @ v, X.transpose(), A @ B, matrix * scalar, Q[np.diag_indices(D)] += v *)
Definition np_matvec (X : list (list Qc)) (v : list Qc) : list Qc := map (fun r => qsum (zipw Qcmult r v)) X.
Definition np_transpose (D : nat) (X : list (list Qc)) : list (list Qc) := tab D (fun j => map (fun r => vnth r j) X).
Definition np_matmul (D : nat) (A B : list (list Qc)) : list (list Qc) :=
  map (fun a => tab D (fun k => qsum (zipw Qcmult a (map (fun r => vnth r k) B)))) A.
Definition np_mmuls (A : list (list Qc)) (x : Qc) : list (list Qc) := map (fun r => np_vmuls r x) A.
Definition np_add_diag (Q : list (list Qc)) (v : list Qc) : list (list Qc) :=
  tab (length Q) (fun j => tab (length (rnth Q j)) (fun k => vnth (rnth Q j) k + (if Nat.eqb j k then vnth v j else 0))).
(* np.diag_indices(n), and Q[dix] += v: v[j] is added to Q[j][j] for j < n *)
Inductive diag_indices := DiagIndices (n : Z).
Definition np_add_diag_at (ix : diag_indices) (Q : list (list Qc)) (v : list Qc) : list (list Qc) :=
  match ix with DiagIndices n =>
    tab (length Q) (fun j => tab (length (rnth Q j)) (fun k =>
      vnth (rnth Q j) k + (if Nat.eqb j k && (Z.of_nat j <? n)%Z then vnth v j else 0)))
  end.
(* the sweep for an arbitrary behaviour [step] of the block methods ([run_blocks g d orc] is [run_blocks_with (step_prog g d orc)]) *)
Definition run_blocks_with (step : blk -> st -> prog) (bs : list blk) (s : st) : prog :=
  fold_left (fun p b => bind p (step b)) bs (Ret s).
(* hypothesis of the linking theorems: a parameter matrix has n rows of D entries (what __init__ allocates) *)
Definition shape2 (M : list (list Qc)) (n D : nat) : Prop :=
  length M = n /\ forall i, (i < n)%nat -> length (rnth M i) = D.

(* ---- the observation store of the object, for the links of _update / encode_obs: the four Python lists and the three
   defaultdict(list) index dicts (insertion-ordered association lists; a missing key reads as the empty list) *)
Record pyobs := { o_y : list Qc; o_cl : list Z; o_dd1 : list Z; o_dd2 : list Z;
                  o_cidx : list (Z * list nat); o_1idx : list (Z * list nat); o_2idx : list (Z * list nat) }.
Definition set_o_y o x := {| o_y := x; o_cl := o_cl o; o_dd1 := o_dd1 o; o_dd2 := o_dd2 o; o_cidx := o_cidx o; o_1idx := o_1idx o; o_2idx := o_2idx o |}.
Definition set_o_cl o x := {| o_y := o_y o; o_cl := x; o_dd1 := o_dd1 o; o_dd2 := o_dd2 o; o_cidx := o_cidx o; o_1idx := o_1idx o; o_2idx := o_2idx o |}.
Definition set_o_dd1 o x := {| o_y := o_y o; o_cl := o_cl o; o_dd1 := x; o_dd2 := o_dd2 o; o_cidx := o_cidx o; o_1idx := o_1idx o; o_2idx := o_2idx o |}.
Definition set_o_dd2 o x := {| o_y := o_y o; o_cl := o_cl o; o_dd1 := o_dd1 o; o_dd2 := x; o_cidx := o_cidx o; o_1idx := o_1idx o; o_2idx := o_2idx o |}.
Definition set_o_cidx o x := {| o_y := o_y o; o_cl := o_cl o; o_dd1 := o_dd1 o; o_dd2 := o_dd2 o; o_cidx := x; o_1idx := o_1idx o; o_2idx := o_2idx o |}.
Definition set_o_1idx o x := {| o_y := o_y o; o_cl := o_cl o; o_dd1 := o_dd1 o; o_dd2 := o_dd2 o; o_cidx := o_cidx o; o_1idx := x; o_2idx := o_2idx o |}.
Definition set_o_2idx o x := {| o_y := o_y o; o_cl := o_cl o; o_dd1 := o_dd1 o; o_dd2 := o_dd2 o; o_cidx := o_cidx o; o_1idx := o_1idx o; o_2idx := x |}.
(* dct[k] on a defaultdict(list) (read), dct[k].append(n) *)
Fixpoint dl_get (dct : list (Z * list nat)) (k : Z) : list nat :=
  match dct with [] => [] | (k', l) :: r => if (k' =? k)%Z then l else dl_get r k end.
Fixpoint dl_append (dct : list (Z * list nat)) (k : Z) (n : nat) : list (Z * list nat) :=
  match dct with
  | [] => [(k, [n])]
  | (k', l) :: r => if (k' =? k)%Z then (k', l ++ [n]) :: r else (k', l) :: dl_append r k n
  end.
(* the object's observation store represents the model's data: the lists agree and every index dict lists, for every key,
   the observation numbers with that key in insertion order - what the block methods' index primitive reads *)
Definition obs_rep (o : pyobs) (d : data) : Prop :=
  o_y o = d_y d /\ o_cl o = d_cl d /\ o_dd1 o = d_dd1 d /\ o_dd2 o = d_dd2 d /\
  (forall k, dl_get (o_cidx o) k = positions k (d_cl d)) /\
  (forall k, dl_get (o_1idx o) k = positions k (d_dd1 d)) /\ (forall k, dl_get (o_2idx o) k = positions k (d_dd2 d)).
Definition data_snoc (d : data) (y : Qc) (cl dd1 dd2 : Z) : data :=
  {| d_y := d_y d ++ [y]; d_cl := d_cl d ++ [cl]; d_dd1 := d_dd1 d ++ [dd1]; d_dd2 := d_dd2 d ++ [dd2] |}.
Definition obs_empty : pyobs := {| o_y := []; o_cl := []; o_dd1 := []; o_dd2 := []; o_cidx := []; o_1idx := []; o_2idx := [] |}.
Definition data_empty : data := {| d_y := []; d_cl := []; d_dd1 := []; d_dd2 := [] |}.

(* ---------------------------------------------------------------- vocabulary of the source translation, second part
   (Generated/SrcGibbsObj.v, configurations C08_IMPL_* / C08_SDC_* of harness/src_functions.py): the constructor and
   reset_model of LegacySparseDrugComboImpl, the wrappers of SparseDrugCombo, and what a closed whole-sweep statement
   needs - the shapes __init__ gives the state arrays, well-shaped answers, reachable states. *)
From Batchie Require Import Lib.Sexp.
Open Scope Qc_scope.
(* the WHOLE object as __init__ builds it: every attribute the constructor assigns.  The methods linked in the first part
   see it split into [cfg_of] (sizes, hyper-parameters), the observation store [pi_obs] and the sampler state [pi_st]; the
   five option flags are parameters of the translated methods that read them. *)
Record pyimpl := { pi_D : Z; pi_ndd : Z; pi_ncl : Z; pi_minMu : Qc; pi_maxMu : Qc; pi_a0 : Qc; pi_b0 : Qc; pi_individual_eff : bool; pi_intercept : bool; pi_fake_intercept : bool; pi_local_shrinkage : bool; pi_mult_gamma_proc : bool; pi_steps : Z; pi_obs : pyobs; pi_st : st }.
Definition set_pi_D o x := {| pi_D := x; pi_ndd := pi_ndd o; pi_ncl := pi_ncl o; pi_minMu := pi_minMu o; pi_maxMu := pi_maxMu o; pi_a0 := pi_a0 o; pi_b0 := pi_b0 o; pi_individual_eff := pi_individual_eff o; pi_intercept := pi_intercept o; pi_fake_intercept := pi_fake_intercept o; pi_local_shrinkage := pi_local_shrinkage o; pi_mult_gamma_proc := pi_mult_gamma_proc o; pi_steps := pi_steps o; pi_obs := pi_obs o; pi_st := pi_st o |}.
Definition set_pi_ndd o x := {| pi_D := pi_D o; pi_ndd := x; pi_ncl := pi_ncl o; pi_minMu := pi_minMu o; pi_maxMu := pi_maxMu o; pi_a0 := pi_a0 o; pi_b0 := pi_b0 o; pi_individual_eff := pi_individual_eff o; pi_intercept := pi_intercept o; pi_fake_intercept := pi_fake_intercept o; pi_local_shrinkage := pi_local_shrinkage o; pi_mult_gamma_proc := pi_mult_gamma_proc o; pi_steps := pi_steps o; pi_obs := pi_obs o; pi_st := pi_st o |}.
Definition set_pi_ncl o x := {| pi_D := pi_D o; pi_ndd := pi_ndd o; pi_ncl := x; pi_minMu := pi_minMu o; pi_maxMu := pi_maxMu o; pi_a0 := pi_a0 o; pi_b0 := pi_b0 o; pi_individual_eff := pi_individual_eff o; pi_intercept := pi_intercept o; pi_fake_intercept := pi_fake_intercept o; pi_local_shrinkage := pi_local_shrinkage o; pi_mult_gamma_proc := pi_mult_gamma_proc o; pi_steps := pi_steps o; pi_obs := pi_obs o; pi_st := pi_st o |}.
Definition set_pi_minMu o x := {| pi_D := pi_D o; pi_ndd := pi_ndd o; pi_ncl := pi_ncl o; pi_minMu := x; pi_maxMu := pi_maxMu o; pi_a0 := pi_a0 o; pi_b0 := pi_b0 o; pi_individual_eff := pi_individual_eff o; pi_intercept := pi_intercept o; pi_fake_intercept := pi_fake_intercept o; pi_local_shrinkage := pi_local_shrinkage o; pi_mult_gamma_proc := pi_mult_gamma_proc o; pi_steps := pi_steps o; pi_obs := pi_obs o; pi_st := pi_st o |}.
Definition set_pi_maxMu o x := {| pi_D := pi_D o; pi_ndd := pi_ndd o; pi_ncl := pi_ncl o; pi_minMu := pi_minMu o; pi_maxMu := x; pi_a0 := pi_a0 o; pi_b0 := pi_b0 o; pi_individual_eff := pi_individual_eff o; pi_intercept := pi_intercept o; pi_fake_intercept := pi_fake_intercept o; pi_local_shrinkage := pi_local_shrinkage o; pi_mult_gamma_proc := pi_mult_gamma_proc o; pi_steps := pi_steps o; pi_obs := pi_obs o; pi_st := pi_st o |}.
Definition set_pi_a0 o x := {| pi_D := pi_D o; pi_ndd := pi_ndd o; pi_ncl := pi_ncl o; pi_minMu := pi_minMu o; pi_maxMu := pi_maxMu o; pi_a0 := x; pi_b0 := pi_b0 o; pi_individual_eff := pi_individual_eff o; pi_intercept := pi_intercept o; pi_fake_intercept := pi_fake_intercept o; pi_local_shrinkage := pi_local_shrinkage o; pi_mult_gamma_proc := pi_mult_gamma_proc o; pi_steps := pi_steps o; pi_obs := pi_obs o; pi_st := pi_st o |}.
Definition set_pi_b0 o x := {| pi_D := pi_D o; pi_ndd := pi_ndd o; pi_ncl := pi_ncl o; pi_minMu := pi_minMu o; pi_maxMu := pi_maxMu o; pi_a0 := pi_a0 o; pi_b0 := x; pi_individual_eff := pi_individual_eff o; pi_intercept := pi_intercept o; pi_fake_intercept := pi_fake_intercept o; pi_local_shrinkage := pi_local_shrinkage o; pi_mult_gamma_proc := pi_mult_gamma_proc o; pi_steps := pi_steps o; pi_obs := pi_obs o; pi_st := pi_st o |}.
Definition set_pi_individual_eff o x := {| pi_D := pi_D o; pi_ndd := pi_ndd o; pi_ncl := pi_ncl o; pi_minMu := pi_minMu o; pi_maxMu := pi_maxMu o; pi_a0 := pi_a0 o; pi_b0 := pi_b0 o; pi_individual_eff := x; pi_intercept := pi_intercept o; pi_fake_intercept := pi_fake_intercept o; pi_local_shrinkage := pi_local_shrinkage o; pi_mult_gamma_proc := pi_mult_gamma_proc o; pi_steps := pi_steps o; pi_obs := pi_obs o; pi_st := pi_st o |}.
Definition set_pi_intercept o x := {| pi_D := pi_D o; pi_ndd := pi_ndd o; pi_ncl := pi_ncl o; pi_minMu := pi_minMu o; pi_maxMu := pi_maxMu o; pi_a0 := pi_a0 o; pi_b0 := pi_b0 o; pi_individual_eff := pi_individual_eff o; pi_intercept := x; pi_fake_intercept := pi_fake_intercept o; pi_local_shrinkage := pi_local_shrinkage o; pi_mult_gamma_proc := pi_mult_gamma_proc o; pi_steps := pi_steps o; pi_obs := pi_obs o; pi_st := pi_st o |}.
Definition set_pi_fake_intercept o x := {| pi_D := pi_D o; pi_ndd := pi_ndd o; pi_ncl := pi_ncl o; pi_minMu := pi_minMu o; pi_maxMu := pi_maxMu o; pi_a0 := pi_a0 o; pi_b0 := pi_b0 o; pi_individual_eff := pi_individual_eff o; pi_intercept := pi_intercept o; pi_fake_intercept := x; pi_local_shrinkage := pi_local_shrinkage o; pi_mult_gamma_proc := pi_mult_gamma_proc o; pi_steps := pi_steps o; pi_obs := pi_obs o; pi_st := pi_st o |}.
Definition set_pi_local_shrinkage o x := {| pi_D := pi_D o; pi_ndd := pi_ndd o; pi_ncl := pi_ncl o; pi_minMu := pi_minMu o; pi_maxMu := pi_maxMu o; pi_a0 := pi_a0 o; pi_b0 := pi_b0 o; pi_individual_eff := pi_individual_eff o; pi_intercept := pi_intercept o; pi_fake_intercept := pi_fake_intercept o; pi_local_shrinkage := x; pi_mult_gamma_proc := pi_mult_gamma_proc o; pi_steps := pi_steps o; pi_obs := pi_obs o; pi_st := pi_st o |}.
Definition set_pi_mult_gamma_proc o x := {| pi_D := pi_D o; pi_ndd := pi_ndd o; pi_ncl := pi_ncl o; pi_minMu := pi_minMu o; pi_maxMu := pi_maxMu o; pi_a0 := pi_a0 o; pi_b0 := pi_b0 o; pi_individual_eff := pi_individual_eff o; pi_intercept := pi_intercept o; pi_fake_intercept := pi_fake_intercept o; pi_local_shrinkage := pi_local_shrinkage o; pi_mult_gamma_proc := x; pi_steps := pi_steps o; pi_obs := pi_obs o; pi_st := pi_st o |}.
Definition set_pi_steps o x := {| pi_D := pi_D o; pi_ndd := pi_ndd o; pi_ncl := pi_ncl o; pi_minMu := pi_minMu o; pi_maxMu := pi_maxMu o; pi_a0 := pi_a0 o; pi_b0 := pi_b0 o; pi_individual_eff := pi_individual_eff o; pi_intercept := pi_intercept o; pi_fake_intercept := pi_fake_intercept o; pi_local_shrinkage := pi_local_shrinkage o; pi_mult_gamma_proc := pi_mult_gamma_proc o; pi_steps := x; pi_obs := pi_obs o; pi_st := pi_st o |}.
Definition set_pi_obs o x := {| pi_D := pi_D o; pi_ndd := pi_ndd o; pi_ncl := pi_ncl o; pi_minMu := pi_minMu o; pi_maxMu := pi_maxMu o; pi_a0 := pi_a0 o; pi_b0 := pi_b0 o; pi_individual_eff := pi_individual_eff o; pi_intercept := pi_intercept o; pi_fake_intercept := pi_fake_intercept o; pi_local_shrinkage := pi_local_shrinkage o; pi_mult_gamma_proc := pi_mult_gamma_proc o; pi_steps := pi_steps o; pi_obs := x; pi_st := pi_st o |}.
Definition set_pi_st o x := {| pi_D := pi_D o; pi_ndd := pi_ndd o; pi_ncl := pi_ncl o; pi_minMu := pi_minMu o; pi_maxMu := pi_maxMu o; pi_a0 := pi_a0 o; pi_b0 := pi_b0 o; pi_individual_eff := pi_individual_eff o; pi_intercept := pi_intercept o; pi_fake_intercept := pi_fake_intercept o; pi_local_shrinkage := pi_local_shrinkage o; pi_mult_gamma_proc := pi_mult_gamma_proc o; pi_steps := pi_steps o; pi_obs := pi_obs o; pi_st := x |}.
(* a store to an attribute of the state / the observation store of the whole object *)
Definition pi_set_W (o : pyimpl) x : pyimpl := set_pi_st o (set_W (pi_st o) x).
Definition pi_set_W0 (o : pyimpl) x : pyimpl := set_pi_st o (set_W0 (pi_st o) x).
Definition pi_set_V2 (o : pyimpl) x : pyimpl := set_pi_st o (set_V2 (pi_st o) x).
Definition pi_set_V1 (o : pyimpl) x : pyimpl := set_pi_st o (set_V1 (pi_st o) x).
Definition pi_set_V0 (o : pyimpl) x : pyimpl := set_pi_st o (set_V0 (pi_st o) x).
Definition pi_set_alpha (o : pyimpl) x : pyimpl := set_pi_st o (set_alpha (pi_st o) x).
Definition pi_set_prec (o : pyimpl) x : pyimpl := set_pi_st o (set_prec (pi_st o) x).
Definition pi_set_tau (o : pyimpl) x : pyimpl := set_pi_st o (set_tau (pi_st o) x).
Definition pi_set_tau0 (o : pyimpl) x : pyimpl := set_pi_st o (set_tau0 (pi_st o) x).
Definition pi_set_phi2 (o : pyimpl) x : pyimpl := set_pi_st o (set_phi2 (pi_st o) x).
Definition pi_set_phi1 (o : pyimpl) x : pyimpl := set_pi_st o (set_phi1 (pi_st o) x).
Definition pi_set_phi0 (o : pyimpl) x : pyimpl := set_pi_st o (set_phi0 (pi_st o) x).
Definition pi_set_eta2 (o : pyimpl) x : pyimpl := set_pi_st o (set_eta2 (pi_st o) x).
Definition pi_set_eta1 (o : pyimpl) x : pyimpl := set_pi_st o (set_eta1 (pi_st o) x).
Definition pi_set_eta0 (o : pyimpl) x : pyimpl := set_pi_st o (set_eta0 (pi_st o) x).
Definition pi_set_gam (o : pyimpl) x : pyimpl := set_pi_st o (set_gam (pi_st o) x).
Definition pi_set_Mu (o : pyimpl) x : pyimpl := set_pi_st o (set_Mu (pi_st o) x).
Definition pi_set_o_y (o : pyimpl) x : pyimpl := set_pi_obs o (set_o_y (pi_obs o) x).
Definition pi_set_o_cl (o : pyimpl) x : pyimpl := set_pi_obs o (set_o_cl (pi_obs o) x).
Definition pi_set_o_dd1 (o : pyimpl) x : pyimpl := set_pi_obs o (set_o_dd1 (pi_obs o) x).
Definition pi_set_o_dd2 (o : pyimpl) x : pyimpl := set_pi_obs o (set_o_dd2 (pi_obs o) x).
Definition pi_set_o_cidx (o : pyimpl) x : pyimpl := set_pi_obs o (set_o_cidx (pi_obs o) x).
Definition pi_set_o_1idx (o : pyimpl) x : pyimpl := set_pi_obs o (set_o_1idx (pi_obs o) x).
Definition pi_set_o_2idx (o : pyimpl) x : pyimpl := set_pi_obs o (set_o_2idx (pi_obs o) x).
(* the sizes as the model's configuration (a negative size never gets past np.zeros) *)
Definition cfg_of (o : pyimpl) : cfg :=
  {| c_D := Z.to_nat (pi_D o); c_ndd := Z.to_nat (pi_ndd o); c_ncl := Z.to_nat (pi_ncl o); c_a0 := pi_a0 o; c_b0 := pi_b0 o;
     c_minMu := pi_minMu o; c_maxMu := pi_maxMu o |}.
(* np.zeros(n) / np.zeros((n, m)) / np.ones(n): ValueError ("negative dimensions are not allowed") = Err 7 *)
Definition np_zeros1 (n : Z) : result (list Qc) := if (n <? 0)%Z then Err 7%Z else Ok (repeat 0 (Z.to_nat n)).
Definition np_ones1 (n : Z) : result (list Qc) := if (n <? 0)%Z then Err 7%Z else Ok (repeat 1 (Z.to_nat n)).
Definition np_zeros2 (sh : Z * Z) : result (list (list Qc)) :=
  if ((fst sh <? 0) || (snd sh <? 0))%Z then Err 7%Z else Ok (repeat (repeat 0 (Z.to_nat (snd sh))) (Z.to_nat (fst sh))).
(* np.ones_like(a): ones in the shape of a *)
Definition np_ones_like1 (a : list Qc) : list Qc := map (fun _ => 1) a.
Definition np_ones_like2 (a : list (list Qc)) : list (list Qc) := map (map (fun _ => 1)) a.
Definition q100 : Qc := qofZ 100.

(* the state __init__ creates: zero embeddings, horseshoe precisions 100 and 1, tau = tau0 = prec = 100, gam = 1 (option
   mult_gamma_proc), alpha = 0, an empty cache *)
Definition init_st (g : cfg) : st :=
  {| W := repeat (repeat 0 (c_D g)) (c_ncl g); W0 := repeat 0 (c_ncl g);
     V2 := repeat (repeat 0 (c_D g)) (c_ndd g); V1 := repeat (repeat 0 (c_D g)) (c_ndd g); V0 := repeat 0 (c_ndd g);
     alpha := 0; prec := q100; tau := repeat q100 (c_D g); tau0 := q100;
     phi2 := repeat (repeat q100 (c_D g)) (c_ndd g); phi1 := repeat (repeat q100 (c_D g)) (c_ndd g); phi0 := repeat q100 (c_ndd g);
     eta2 := repeat 1 (c_D g); eta1 := repeat 1 (c_D g); eta0 := 1; gam := repeat 1 (c_D g); Mu := [] |}.
(* the object __init__ leaves behind (all five options recorded, no observation, step counter 0) *)
Definition init_obj (D ndd ncl : nat) (intercept fake_intercept individual_eff mult_gamma_proc local_shrinkage : bool)
    (a0 b0 minMu maxMu : Qc) : pyimpl :=
  let g := {| c_D := D; c_ndd := ndd; c_ncl := ncl; c_a0 := a0; c_b0 := b0; c_minMu := minMu; c_maxMu := maxMu |} in
  {| pi_D := Z.of_nat D; pi_ndd := Z.of_nat ndd; pi_ncl := Z.of_nat ncl; pi_minMu := minMu; pi_maxMu := maxMu; pi_a0 := a0; pi_b0 := b0;
     pi_individual_eff := individual_eff; pi_intercept := intercept; pi_fake_intercept := fake_intercept;
     pi_local_shrinkage := local_shrinkage; pi_mult_gamma_proc := mult_gamma_proc; pi_steps := 0%Z; pi_obs := obs_empty;
     pi_st := init_st g |}.
(* reset_model: the five embeddings times 0.0 (zeros of the same shape), alpha, prec and the cache as in __init__; the
   precisions tau, tau0, phi*, eta*, gam keep their values *)
Definition reset_st (s : st) : st :=
  set_Mu (set_prec (set_alpha (set_V0 (set_V1 (set_V2 (set_W0 (set_W s (map (map (fun _ => 0)) (W s))) (map (fun _ => 0) (W0 s)))
    (map (map (fun _ => 0)) (V2 s))) (map (map (fun _ => 0)) (V1 s))) (map (fun _ => 0) (V0 s))) 0) q100) [].

(* every shape hypothesis of the block links: the parameter arrays have the sizes __init__ allocates *)
Definition shapes (g : cfg) (s : st) : Prop :=
  shape2 (W s) (c_ncl g) (c_D g) /\ length (W0 s) = c_ncl g /\
  shape2 (V2 s) (c_ndd g) (c_D g) /\ shape2 (V1 s) (c_ndd g) (c_D g) /\ length (V0 s) = c_ndd g /\
  length (tau s) = c_D g /\
  shape2 (phi2 s) (c_ndd g) (c_D g) /\ shape2 (phi1 s) (c_ndd g) (c_D g) /\ length (phi0 s) = c_ndd g /\
  length (eta2 s) = c_D g /\ length (eta1 s) = c_D g /\ length (gam s) = c_D g.
(* the four observation arrays have one entry per observation (what _update maintains) *)
Definition data_ok (d : data) : Prop := length (d_cl d) = nobs d /\ length (d_dd1 d) = nobs d /\ length (d_dd2 d) = nobs d.
(* between sweeps the cache may be stale (shorter than the data, after _update); inside a sweep, after _reconstruct_Mu, it
   has one entry per observation *)
Definition sweep_ready (g : cfg) (d : data) (s : st) : Prop := shapes g s /\ (length (Mu s) <= nobs d)%nat.
Definition in_sweep (g : cfg) (d : data) (s : st) : Prop := shapes g s /\ length (Mu s) = nobs d.

(* a well-shaped answer to a draw (numpy's contract): a number for a scalar draw, an array of the shape of the array
   argument for a vectorised draw, and for sample_mvn_from_precision either "raised" or a vector with one entry per row of Q *)
Definition val_ok (dr : draw) (v : val) : Prop :=
  match dr with
  | DNormal _ _ | DGamma _ _ => exists q, v = VQ q
  | DNormalVec vars => exists l, v = VV l /\ length l = length vars
  | DMvn Q _ => v = VFail \/ exists l, v = VV l /\ length l = length Q
  | DGammaVec _ rates => exists l, v = VV l /\ length l = length rates
  | DGammaMat _ rates => exists m, v = VM m /\ length m = length rates /\ forall i, length (rnth m i) = length (rnth rates i)
  end.
(* equality of programs on well-shaped answers: the same draw arguments at every node, and equal continuations for every
   well-shaped drawn value *)
Inductive prog_eq_ws : prog -> prog -> Prop :=
| PEW_ret : forall s, prog_eq_ws (Ret s) (Ret s)
| PEW_draw : forall dr k1 k2, (forall v, val_ok dr v -> prog_eq_ws (k1 v) (k2 v)) -> prog_eq_ws (Draw dr k1) (Draw dr k2).
(* a stream of answers each of which is well-shaped for the draw it answers *)
Fixpoint answers_ok (p : prog) (vals : list val) : Prop :=
  match p, vals with
  | Draw dr k, v :: r => val_ok dr v /\ answers_ok (k v) r
  | _, _ => True
  end.
(* every state a program can return for well-shaped answers *)
Fixpoint all_rets_ws (P : st -> Prop) (p : prog) : Prop :=
  match p with Ret s => P s | Draw dr k => forall v, val_ok dr v -> all_rets_ws P (k v) end.
(* the states the object can be in: after __init__, any number of _update calls, whole sweeps (answered by well-shaped
   draws) and reset_model calls, in any order *)
Inductive reach (g : cfg) (orc : oracle) : data -> st -> Prop :=
| R_init : reach g orc data_empty (init_st g)
| R_update : forall d s y cl dd1 dd2, reach g orc d s -> reach g orc (data_snoc d y cl dd1 dd2) s
| R_sweep : forall d s vals s', reach g orc d s -> answers_ok (mcmc_step g d orc s) vals ->
    snd (run_prog (mcmc_step g d orc s) vals) = Some s' -> reach g orc d s'
| R_reset : forall d s, reach g orc d s -> reach g orc d (reset_st s).
