(* Models of the command-line wrappers batchie/cli/*.py: what each main() must do with the parsed
   arguments, the files and the library functions.  No proofs here.

   A main() is glue: it loads the files named by its arguments, calls library functions and saves what they
   return.  Each model therefore takes
     - the parsed arguments as a RECORD of the plain argparse results (paths, ints, flags, id lists, optional
       class names); get_args() itself (argparse, the class lookup by name) is not modelled: the object a
       `args.<x>_cls( **args.<x>_params)` call constructs is a component `*_mk_*` of the library record
       (a `result`: the constructor may raise);
     - a record `*_lib` of the LIBRARY functions the wrapper calls, over abstract types of screens, holders,
       models ...: `*_load_*` = what loading the file at a path yields (Err = the load raises), the other
       components stand for the library function of that name with ITS parameter list (keyword defaults of
       the library signature are filled in where the wrapper does not pass an argument).  The links hold for
       EVERY such record; the library functions' own models and links are those of their properties
       (Scores.score_chunk / select_next, Reveal.reveal_plates, Sampling.sample, Thetas, Persist ...);
       instances over the C06 vocabulary are stated in Props/C06.v.
   A main() denotes `result (list (path * content))`: the files it writes, in order (Err tag = the exception
   that ends it; files written before an exception are not represented).

   Generators.  get_prng_from_seed_argument(args) = default_rng(SeedSequence(args.seed).generate_state(1)[0]):
   `mix` is that hash (a function of the seed alone), `Gen w` a numpy Generator in the state identified by the
   word w; SeedSequence refuses a negative seed (ValueError, Err 9).  A wrapper that only hands its generator
   on passes the value; prepare_retrospective_simulation makes several calls on ONE generator, so there every
   library function that draws returns the generator's next state, which the next call receives (the ORDER
   of the steps is part of the model).

   Error tags: 9 negative seed, 8 ZeroDivisionError (the log statistics of an empty smoothed screen), 99
   attribute of None (never reached: guarded by the `is not None` tests). *)
From Coq Require Import ZArith List Bool.
From Batchie Require Import Lib.Sexp Lib.PyRt.
Import ListNotations.
Open Scope Z_scope.
Set Implicit Arguments.

Definition path : Type := list Z.      (* a file name: its code points *)
Definition cname : Type := list Z.     (* a class name given on the command line *)

(* ---------- argument_parsing.get_prng_from_seed_argument ---------- *)
Inductive gen : Type := Gen (state : Z).
(* numpy.random.SeedSequence(s).generate_state(1)[0] *)
Definition seedseq_word (mix : Z -> Z) (s : Z) : result Z := if s <? 0 then Err 9 else Ok (mix s).
Definition prng_of_seed (mix : Z -> Z) (seed : Z) : result gen :=
  dor w <- seedseq_word mix seed; Ok (Gen w).

(* `ThetaHolder(n_thetas=1)` used only to reach the static method load_h5 and the class method concat *)
Inductive handle : Type := Handle.
(* sum(l) of a list of ints *)
Definition zsum (l : list Z) : Z := fold_left Z.add l 0.

(* ---------- calculate_scores.main ---------- *)
Record cs_args := mk_cs_args {
  cs_data : path; cs_thetas : list path; cs_distance_matrix : list path; cs_n_chunks : Z; cs_chunk_index : Z;
  cs_batch_plate_ids : list Z; cs_output : path; cs_seed : Z; cs_progress : bool }.

Record cs_lib (Scr Pl Th Dm Sc H : Type) := mk_cs_lib {
  cs_load_screen : path -> result Scr;                 (* Screen.load_h5 *)
  cs_plates : Scr -> list Pl;                          (* screen.plates (only counted for the log line) *)
  cs_is_observed : Pl -> bool;
  cs_plate_id : Pl -> Z;
  cs_mk_scorer : result Sc;                            (* args.scorer_cls( **args.scorer_params) *)
  cs_load_thetas : path -> result Th;                  (* ThetaHolder.load_h5 *)
  cs_concat_thetas : list Th -> result Th;             (* ThetaHolder.concat *)
  cs_load_dist : path -> result Dm;                    (* ChunkedDistanceMatrix.load *)
  cs_concat_dist : list Dm -> result Dm;               (* ChunkedDistanceMatrix.concat *)
  (* score_chunk(scorer, thetas, screen, distance_matrix, rng=None, progress_bar=False, n_chunks=1, chunk_index=0,
     batch_plate_ids=None) *)
  cs_score_chunk : Sc -> Th -> Scr -> Dm -> option gen -> bool -> Z -> Z -> option (list Z) -> result H }.

Definition cli_calculate_scores (Scr Pl Th Dm Sc H : Type) (L : cs_lib Scr Pl Th Dm Sc H) (mix : Z -> Z) (a : cs_args)
  : result (list (path * H)) :=
  dor screen <- cs_load_screen L (cs_data a);
  dor scorer <- cs_mk_scorer L;
  dor ths <- res_map_all (cs_load_thetas L) (cs_thetas a);
  dor thetas <- cs_concat_thetas L ths;
  dor dms <- res_map_all (cs_load_dist L) (cs_distance_matrix a);
  dor dm <- cs_concat_dist L dms;
  dor rng <- prng_of_seed mix (cs_seed a);
  dor h <- cs_score_chunk L scorer thetas screen dm (Some rng) (cs_progress a) (cs_n_chunks a) (cs_chunk_index a)
             (Some (cs_batch_plate_ids a));
  Ok [(cs_output a, h)].

(* ---------- select_next_plate.main ---------- *)
Record sn_args := mk_sn_args {
  sn_data : path; sn_scores : list path; sn_policy : option cname; sn_output : path; sn_seed : Z;
  sn_batch_plate_id : list Z }.

Record sn_lib (Scr Pl Po H : Type) := mk_sn_lib {
  sn_load_screen : path -> result Scr;                 (* Screen.load_h5 *)
  sn_mk_policy : result Po;                            (* args.policy_cls( **args.policy_params) *)
  sn_load_scores : path -> result H;                   (* ChunkedScoresHolder.load_h5 *)
  sn_concat_scores : list H -> result H;               (* ChunkedScoresHolder.concat *)
  (* select_next_plate(scores, screen, policy, batch_plate_ids=None, rng=None) *)
  sn_select : H -> Scr -> option Po -> option (list Z) -> option gen -> result (option Pl);
  sn_plate_id : Pl -> Z }.

(* the output file holds the decimal text of one integer: the chosen plate's id, or -1 exactly when the library
   function selected nothing *)
Definition cli_select_next_plate (Scr Pl Po H : Type) (L : sn_lib Scr Pl Po H) (mix : Z -> Z) (a : sn_args)
  : result (list (path * Z)) :=
  dor screen <- sn_load_screen L (sn_data a);
  dor policy <- match sn_policy a with
                | Some _ => dor p <- sn_mk_policy L; Ok (Some p)
                | None => Ok None
                end;
  dor rng <- prng_of_seed mix (sn_seed a);
  dor hs <- res_map_all (sn_load_scores L) (sn_scores a);
  dor scores <- sn_concat_scores L hs;
  dor next <- sn_select L scores screen policy (Some (sn_batch_plate_id a)) (Some rng);
  Ok [(sn_output a, match next with Some p => sn_plate_id L p | None => -1 end)].

(* ---------- train_model.main ---------- *)
Record tm_args := mk_tm_args {
  tm_data : path; tm_output : path; tm_n_samples : Z; tm_n_burnin : Z; tm_thin : Z; tm_n_chains : Z;
  tm_chain_index : Z; tm_seed : Z; tm_progress : bool }.

Record tm_lib (Scr Sub Sp Pa Mo Th : Type) := mk_tm_lib {
  tm_load_screen : path -> result Scr;                 (* Screen.load_h5 *)
  tm_from_screen : Scr -> result Sp;                   (* ExperimentSpace.from_screen *)
  tm_set_space : Pa -> Sp -> Pa;                       (* params[EXPERIMENT_SPACE] = space *)
  tm_construct : Pa -> result Mo;                      (* args.model_cls( **params) *)
  tm_new_holder : Z -> result Th;                      (* ThetaHolder(n_thetas=n) *)
  tm_subset_observed : Scr -> option Sub;              (* screen.subset_observed(): None when nothing is observed *)
  tm_add_observations : Mo -> Sub -> result Mo;        (* model.add_observations(subset): the model afterwards *)
  (* sampling.sample(model, results, seed, n_chains=None, chain_index=None, n_burnin=None, thin=None, progress_bar=False) *)
  tm_sample : Mo -> Th -> Z -> option Z -> option Z -> option Z -> option Z -> bool -> result Th }.

(* the model is trained on the OBSERVED subset of the loaded screen only (on nothing when there is none) *)
Definition cli_train_model (Scr Sub Sp Pa Mo Th : Type) (L : tm_lib Scr Sub Sp Pa Mo Th) (params : Pa) (a : tm_args)
  : result (list (path * Th)) :=
  dor data <- tm_load_screen L (tm_data a);
  dor space <- tm_from_screen L data;
  dor model <- tm_construct L (tm_set_space L params space);
  dor holder <- tm_new_holder L (tm_n_samples a);
  dor model <- match tm_subset_observed L data with
               | Some d => tm_add_observations L model d
               | None => Ok model
               end;
  dor results <- tm_sample L model holder (tm_seed a) (Some (tm_n_chains a)) (Some (tm_chain_index a))
                   (Some (tm_n_burnin a)) (Some (tm_thin a)) (tm_progress a);
  Ok [(tm_output a, results)].

(* ---------- reveal_plate.main ---------- *)
Record rp_args := mk_rp_args { rp_screen : path; rp_output : path; rp_plate_id : list Z }.

Record rp_lib (Scr : Type) := mk_rp_lib {
  rp_load_screen : path -> result Scr;                 (* Screen.load_h5 *)
  rp_reveal : Scr -> list Z -> result Scr }.           (* reveal_plates(screen, plate_ids) *)

Definition cli_reveal_plate (Scr : Type) (L : rp_lib Scr) (a : rp_args) : result (list (path * Scr)) :=
  dor screen <- rp_load_screen L (rp_screen a);
  dor advanced <- rp_reveal L screen (rp_plate_id a);
  Ok [(rp_output a, advanced)].

(* ---------- prepare_retrospective_simulation.main ---------- *)
Record pr_args := mk_pr_args {
  pr_data : path; pr_training_output : path; pr_test_output : path; pr_initial_plate_generator : option cname;
  pr_plate_generator : option cname; pr_plate_smoother : option cname;
  pr_holdout_fraction : Z * positive;                  (* the float --holdout-fraction as an exact rational *)
  pr_seed : Z }.

Record pr_lib (Scr Pl Ig Pg Ps : Type) := mk_pr_lib {
  pr_load_screen : path -> result Scr;                 (* Screen.load_h5 *)
  pr_filter : Scr -> result Scr;                       (* filter_dataset_to_treatments_that_appear_in_at_least_one_combo *)
  pr_mk_initial : result Ig;                           (* args.initial_plate_generator_cls( **...params) *)
  pr_initial : Ig -> Scr -> gen -> result (Scr * gen); (* g.generate_and_unmask_initial_plate(screen, rng) *)
  pr_mask : Scr -> result Scr;                         (* mask_screen(screen) *)
  pr_mk_generator : result Pg;                         (* args.plate_generator_cls( **...params) *)
  pr_generate : Pg -> Scr -> gen -> result (Scr * gen);   (* g.generate_plates(screen, rng) *)
  pr_plates : Scr -> list Pl;
  pr_is_observed : Pl -> bool;
  pr_plate_id : Pl -> Z;
  pr_plate_size : Pl -> Z;
  pr_choice : list Pl -> gen -> result (Pl * gen);     (* rng.choice(list): raises on [] *)
  pr_reveal : Scr -> list Z -> result Scr;             (* reveal_plates(screen, plate_ids) *)
  pr_mk_smoother : result Ps;                          (* args.plate_smoother_cls( **...params) *)
  pr_smooth : Ps -> Scr -> gen -> result (Scr * gen);  (* s.smooth_plates(screen, rng) *)
  pr_n_plates : Scr -> Z;
  pr_size : Scr -> Z;
  (* create_plate_balanced_holdout_set_among_masked_plates(screen, fraction, rng) *)
  pr_holdout : Scr -> Z * positive -> gen -> result (Scr * Scr * gen) }.

(* a / b on two ints (a float that is only logged): ZeroDivisionError (Err 8) for b = 0 *)
Definition py_truediv (a b : Z) : result (Z * Z) := if b =? 0 then Err 8 else Ok (a, b).
(* np.std(list of ints): a float that is only logged (nan with a warning on []); not represented *)
Definition np_std (l : list Z) : handle := Handle.

(* The ORDER: filter; generator from --seed; initial plate (initial generator) or mask; plate generator if any;
   a random unobserved plate revealed when there is no initial generator; smoother if any (then the log statistics,
   which divide by the number of plates); the hold-out split LAST, on the smoothed screen; training and test screens
   saved.  Every drawing step receives the generator state its predecessor left. *)
Definition cli_prepare (Scr Pl Ig Pg Ps : Type) (L : pr_lib Scr Pl Ig Pg Ps) (mix : Z -> Z) (a : pr_args)
  : result (list (path * Scr)) :=
  dor screen <- pr_load_screen L (pr_data a);
  dor filtered <- pr_filter L screen;
  dor rng0 <- prng_of_seed mix (pr_seed a);
  dor i1 <- match pr_initial_plate_generator a with
            | Some _ => dor g <- pr_mk_initial L; pr_initial L g filtered rng0
            | None => dor s <- pr_mask L filtered; Ok (s, rng0)
            end;
  dor i2 <- match pr_plate_generator a with
            | Some _ => dor g <- pr_mk_generator L; pr_generate L g (fst i1) (snd i1)
            | None => Ok i1
            end;
  dor i3 <- match pr_initial_plate_generator a with
            | Some _ => Ok i2
            | None =>
                dor pr <- pr_choice L (filter (fun p => negb (pr_is_observed L p)) (pr_plates L (fst i2))) (snd i2);
                dor s <- pr_reveal L (fst i2) [pr_plate_id L (fst pr)];
                Ok (s, snd pr)
            end;
  dor i4 <- match pr_plate_smoother a with
            | None => Ok i3
            | Some _ =>
                dor sm <- pr_mk_smoother L;
                dor sr <- pr_smooth L sm (fst i3) (snd i3);
                dor _ <- py_truediv (pr_size L (fst sr)) (pr_n_plates L (fst sr));
                Ok sr
            end;
  dor h <- pr_holdout L (fst i4) (pr_holdout_fraction a) (snd i4);
  Ok [(pr_training_output a, fst (fst h)); (pr_test_output a, snd (fst h))].

(* ---------- extract_screen_metadata.main ---------- *)
Record em_args := mk_em_args { em_screen : path; em_output : path }.

(* the JSON object written: its six keys *)
Record meta := mk_meta {
  m_n_unique_samples : Z; m_n_unique_treatments : Z; m_size : Z; m_n_plates : Z; m_n_unobserved_plates : Z;
  m_n_observed_plates : Z }.

Record em_lib (Scr Pl : Type) := mk_em_lib {
  em_load_screen : path -> result Scr;                 (* Screen.load_h5 *)
  em_plates : Scr -> list Pl;
  em_is_observed : Pl -> bool;
  em_n_unique_samples : Scr -> Z;
  em_n_unique_treatments : Scr -> Z;
  em_size : Scr -> Z;
  em_n_plates : Scr -> Z }.

Definition count_if {A : Type} (p : A -> bool) (l : list A) : Z := Z.of_nat (length (filter p l)).

(* the counters: every plate is counted once, as observed or as unobserved *)
Definition cli_extract_screen_metadata (Scr Pl : Type) (L : em_lib Scr Pl) (a : em_args) : result (list (path * meta)) :=
  dor s <- em_load_screen L (em_screen a);
  Ok [(em_output a,
       mk_meta (em_n_unique_samples L s) (em_n_unique_treatments L s) (em_size L s) (em_n_plates L s)
               (count_if (fun p => negb (em_is_observed L p)) (em_plates L s))
               (count_if (em_is_observed L) (em_plates L s)))].

(* ---------- calculate_distance_matrix.main ---------- *)
Record cd_args := mk_cd_args {
  cd_data : path; cd_thetas : list path; cd_n_chunks : Z; cd_chunk_index : Z; cd_output : path; cd_progress : bool }.

Record cd_lib (Scr Th Me Dm : Type) := mk_cd_lib {
  cd_load_screen : path -> result Scr;                 (* Screen.load_h5 *)
  cd_load_thetas : path -> result Th;                  (* ThetaHolder.load_h5 *)
  cd_concat_thetas : list Th -> result Th;             (* ThetaHolder.concat *)
  cd_mk_metric : result Me;                            (* args.metric_cls( **args.metric_params) *)
  (* calculate_pairwise_distance_matrix_on_predictions(thetas, distance_metric, data, chunk_index, n_chunks, progress=False) *)
  cd_calculate : Th -> Me -> Scr -> Z -> Z -> bool -> result Dm }.

Definition cli_calculate_distance_matrix (Scr Th Me Dm : Type) (L : cd_lib Scr Th Me Dm) (a : cd_args)
  : result (list (path * Dm)) :=
  dor data <- cd_load_screen L (cd_data a);
  dor ths <- res_map_all (cd_load_thetas L) (cd_thetas a);
  dor thetas <- cd_concat_thetas L ths;
  dor metric <- cd_mk_metric L;
  dor r <- cd_calculate L thetas metric data (cd_chunk_index a) (cd_n_chunks a) (cd_progress a);
  Ok [(cd_output a, r)].

(* ---------- evaluate_model.main ---------- *)
Record ev_args := mk_ev_args { ev_screen : path; ev_thetas : list path; ev_output : path }.

Record ev_lib (Scr Th Pr PrT Ob Nm Ev : Type) := mk_ev_lib {
  ev_load_screen : path -> result Scr;                 (* Screen.load_h5 *)
  ev_load_thetas : path -> result Th;                  (* ThetaHolder.load_h5 *)
  ev_concat_thetas : list Th -> result Th;             (* ThetaHolder.concat *)
  ev_n_thetas : Th -> Z;                               (* holder.n_thetas: the declared size *)
  ev_predict_all : Scr -> Th -> result Pr;             (* predict_viability_all(screen, thetas) *)
  ev_transpose : Pr -> PrT;                            (* .T *)
  ev_observations : Scr -> Ob;
  ev_sample_names : Scr -> Nm;
  (* ModelEvaluation(predictions, observations, chain_ids, sample_names) *)
  ev_mk_eval : PrT -> Ob -> list Z -> Nm -> result Ev }.

(* [i] * n: n copies (none for n <= 0) *)
Definition zrepeat (i n : Z) : list Z := repeat i (Z.to_nat n).
(* chain ids: file i of --thetas (argument order) contributes its DECLARED size many copies of i *)
Definition chain_ids_of {Th : Type} (n_thetas : Th -> Z) (hs : list Th) : list Z :=
  concat (map (fun ih => zrepeat (fst ih) (n_thetas (snd ih))) (enumerate_z hs)).

Definition cli_evaluate_model (Scr Th Pr PrT Ob Nm Ev : Type) (L : ev_lib Scr Th Pr PrT Ob Nm Ev) (a : ev_args)
  : result (list (path * Ev)) :=
  dor screen <- ev_load_screen L (ev_screen a);
  dor hs <- res_map_all (ev_load_thetas L) (ev_thetas a);
  dor thetas <- ev_concat_thetas L hs;
  dor pred <- ev_predict_all L screen thetas;
  dor me <- ev_mk_eval L (ev_transpose L pred) (ev_observations L screen) (chain_ids_of (ev_n_thetas L) hs)
              (ev_sample_names L screen);
  Ok [(ev_output a, me)].

(* ====================================================================================================================
   The argument-handling glue: how command-line strings become the class and the parameter dict that the main()
   models above take as the `*_mk_*` components.  Sources: cli/argument_parsing.py (KVAppendAction.__call__,
   str_to_bool, cast_dict_to_type), introspection.py, and the statements of each get_args() after parser.parse_args().

   A Python str is the list of its code points.  A dict with str / type-object keys is an insertion-ordered association
   list (`kdict`, Lib/PyRt.v).  What argparse itself does (tokenising, calling the action once per occurrence of the
   option, the plain conversions type=int / type=str) is NOT modelled: parser.parse_args() yields the raw namespace.

   Library primitives (the record `pyprims`; theorems hold for EVERY such record): str.lower(), int(str), float(str),
   and the call of any other annotation object on a string.  F = the type of float values, O = of the values such other
   calls produce.

   Error tags: 20 AssertionError (nargs), 21 argparse.ArgumentError ("could not parse argument ... as k=v format"),
   22 ValueError of str_to_bool, 23 ValueError "empty separator", 24 ValueError of unpacking a list into two names,
   25 KeyError (a KEY that is not a required __init__ argument), 26 TypeError ('NoneType' object is not callable: a
   required argument without annotation; the empty marker takes no arguments), 29 TypeError "The given object is not a class.", 30 NameError of
   create_instance, 31 ValueError "is not a subclass of"; 98 IndexError, 99 TypeError on None (Lib/PyRt.v). *)
Definition str : Type := pystr.      (* Lib/PyRt.v: the list of code points; equality test PyRt.str_eqb *)

(* ---------- str.split(sep, maxsplit) ---------- *)
Fixpoint str_prefix (p s : str) : bool :=
  match p, s with
  | [], _ => true
  | x :: p', y :: s' => (x =? y) && str_prefix p' s'
  | _ :: _, [] => false
  end.
(* left-to-right scan: cur = the part collected so far (reversed), n = cuts still allowed (negative: no limit),
   skip = characters of a separator occurrence still to pass over *)
Fixpoint split_go (sep : str) (skip : nat) (n : Z) (cur : str) (s : str) : list str :=
  match s with
  | [] => [rev cur]
  | x :: r =>
      match skip with
      | S k => split_go sep k n cur r
      | O => if negb (n =? 0) && str_prefix sep s
             then rev cur :: split_go sep (pred (length sep)) (n - 1) [] r
             else split_go sep O n (x :: cur) r
      end
  end.
(* s.split(sep, maxsplit): at most maxsplit cuts at the leftmost non-overlapping occurrences of sep; ValueError for "" *)
Definition str_split (s sep : str) (maxsplit : Z) : result (list str) :=
  match sep with [] => Err 23 | _ => Ok (split_go sep O maxsplit [] s) end.

(* ---------- annotations, converters, parameter values ---------- *)
(* the annotation object of an __init__ parameter, as far as cast_dict_to_type can tell them apart: the four builtin types
   of its table, None (no annotation), the marker inspect.Parameter.empty (which get_required_init_args_with_annotations
   replaces by None), any other object (numbered) *)
Inductive ann : Type := ABool | AInt | AFloat | AStr | ANone | AEmpty | AOther (id : Z).      (* AEmpty: inspect.Parameter.empty *)
Definition ann_eqb (a b : ann) : bool :=
  match a, b with
  | ABool, ABool | AInt, AInt | AFloat, AFloat | AStr, AStr | ANone, ANone | AEmpty, AEmpty => true
  | AOther i, AOther j => i =? j
  | _, _ => false
  end.
(* what the table `converters` holds and `.get(t, t)` returns: the function str_to_bool, or a type object (called) *)
Inductive callable : Type := CStrToBool | CType (t : ann).
(* a converted parameter value *)
Inductive pval (F O : Type) : Type := VBool (b : bool) | VInt (z : Z) | VFloat (f : F) | VStr (s : str) | VOther (o : O).
Arguments VBool {F O} b.
Arguments VInt {F O} z.
Arguments VFloat {F O} f.
Arguments VStr {F O} s.
Arguments VOther {F O} o.

Record pyprims (F O : Type) := mk_pyprims {
  p_lower : str -> str;                         (* s.lower() *)
  p_int : str -> result Z;                      (* int(s) *)
  p_float : str -> result F;                    (* float(s) *)
  p_call_other : Z -> str -> result O }.        (* annotation object number n called on s *)

(* f(s) for a value f of the converter table / an annotation; `stb` = the function str_to_bool.  bool(s) (never reached
   through the table, which maps bool to str_to_bool) is "s is not empty". *)
Definition call_callable (F O : Type) (P : pyprims F O) (stb : str -> result bool) (c : callable) (s : str)
  : result (pval F O) :=
  match c with
  | CStrToBool => dor b <- stb s; Ok (VBool b)
  | CType ABool => Ok (VBool (negb (is_nil s)))
  | CType AInt => dor z <- p_int P s; Ok (VInt z)
  | CType AFloat => dor f <- p_float P s; Ok (VFloat f)
  | CType AStr => Ok (VStr s)
  | CType ANone => Err 26
  | CType AEmpty => Err 26
  | CType (AOther n) => dor o <- p_call_other P n s; Ok (VOther o)
  end.

(* ---------- argument_parsing.str_to_bool ---------- *)
Definition s_true : str := [116; 114; 117; 101].      Definition s_t : str := [116].
Definition s_yes : str := [121; 101; 115].            Definition s_y : str := [121].
Definition s_1 : str := [49].
Definition s_false : str := [102; 97; 108; 115; 101]. Definition s_f : str := [102].
Definition s_no : str := [110; 111].                  Definition s_n : str := [110].
Definition s_0 : str := [48].
Definition true_words : list str := [s_true; s_t; s_yes; s_y; s_1].
Definition false_words : list str := [s_false; s_f; s_no; s_n; s_0].
Definition str_in (s : str) (l : list str) : bool := existsb (str_eqb s) l.

Definition str_to_bool (F O : Type) (P : pyprims F O) (s : str) : result bool :=
  if str_in (p_lower P s) true_words then Ok true
  else if str_in (p_lower P s) false_words then Ok false
  else Err 22.

(* ---------- argument_parsing.cast_dict_to_type ---------- *)
Definition converters : list (ann * callable) :=
  [(ABool, CStrToBool); (AInt, CType AInt); (AFloat, CType AFloat); (AStr, CType AStr)].
(* the conversion of one value whose key has annotation t *)
Definition convert (F O : Type) (P : pyprims F O) (t : ann) (v : str) : result (pval F O) :=
  call_callable P (str_to_bool P) (kdict_get_default ann_eqb converters t (CType t)) v.
(* items in the order of k_v_string; per item: the annotation lookup (KeyError 25), then the conversion; the first
   exception aborts; a repeated key cannot occur in a dict *)
Fixpoint cast_items (F O : Type) (P : pyprims F O) (types : list (str * ann)) (items : list (str * str))
  (acc : list (str * pval F O)) : result (list (str * pval F O)) :=
  match items with
  | [] => Ok acc
  | (k, v) :: r =>
      dor t <- kdict_get str_eqb 25 types k;
      dor x <- convert P t v;
      cast_items P types r (kdict_set str_eqb acc k x)
  end.
Definition cast_dict (F O : Type) (P : pyprims F O) (k_v_string : list (str * str)) (k_v_types : list (str * ann))
  : result (list (str * pval F O)) := cast_items P k_v_types k_v_string [].

(* ---------- argument_parsing.KVAppendAction.__call__ ---------- *)
(* the namespace seen at the action's destination attribute: None (argparse's default) or the dict accumulated so far;
   `values` = the nargs=1 list of the option's words.  Note maxsplit = 2: a word with two or more '=' splits into three
   parts and is REFUSED (the class docstring says "on the first ="). *)
Definition s_eq : str := [61].
Definition kv_append (dest : option (list (str * str))) (values : list str) : result (option (list (str * str))) :=
  match values with
  | [w] =>
      match str_split w s_eq 2 with
      | Ok [k; v] => Ok (Some (kdict_set str_eqb (opt_or_empty dest) k v))
      | Ok _ => Err 21
      | Err t => if zmem t [23; 24] then Err 21 else Err t
      end
  | _ => Err 20
  end.
(* argparse calls the action once per occurrence of the option, in command-line order, on the same namespace *)
Fixpoint kv_parse (dest : option (list (str * str))) (words : list str) : result (option (list (str * str))) :=
  match words with
  | [] => Ok dest
  | w :: r => dor d <- kv_append dest [w]; kv_parse d r
  end.

(* ---------- introspection.py, as the get_args() functions use it ---------- *)
Inductive base_class : Type :=
  BScorer | BPlatePolicy | BBayesianModel | BPlateGenerator | BInitialPlateGenerator | BPlateSmoother | BDistanceMetric.
Record introspect (Cls : Type) := mk_introspect {
  (* get_class(package_name, class_name, base_class): None = no module of the package has an attribute of that name *)
  i_get_class : str -> str -> base_class -> result (option Cls);
  (* get_required_init_args_with_annotations(x), x a class or None: name -> annotation of the __init__ parameters
     without default, in signature order *)
  i_required : option Cls -> result (list (str * ann)) }.
Definition s_batchie : str := [98; 97; 116; 99; 104; 105; 101].

(* the KEY=VALUE parameters of one class-valued option: {} when the option's dict is None or empty, else cast with the
   required-argument annotations of the class found *)
Definition cast_params (F O : Type) (P : pyprims F O) (param : option (list (str * str))) (required : list (str * ann))
  : result (list (str * pval F O)) :=
  match param with
  | Some (x :: l) => cast_dict P (x :: l) required
  | _ => Ok []
  end.
(* class lookup by name, required-argument annotations of what was found (TypeError when nothing was), cast *)
Definition resolve (Cls F O : Type) (I : introspect Cls) (P : pyprims F O) (base : base_class) (name : str)
  (param : option (list (str * str))) : result (option Cls * list (str * pval F O)) :=
  dor c <- i_get_class I s_batchie name base;
  dor req <- i_required I c;
  dor ps <- cast_params P param req;
  Ok (c, ps).

(* ---------- the get_args() functions: the namespace after parser.parse_args(), then the post-processing ----------
   A namespace is a record: the plain argparse results main() reads (the `*_args` record above), the class-valued
   options' names and KEY=VALUE dicts as parse_args left them, and the attributes get_args() adds (`*_cls`: what
   get_class returned, possibly None; `*_params`: the cast parameters).  An attribute get_args() has not stored is
   represented by None / {} (reading it would be an AttributeError; main() reads it only under the test that stored it).
   `cls( **params)` is the component `construct` (the named class instantiated with the cast parameters; it may raise);
   calling None is a TypeError (Err 99). *)
Definition instantiate (Cls V Obj : Type) (construct : Cls -> V -> result Obj) (c : option Cls) (params : V) : result Obj :=
  dor k <- unwrap c; construct k params.

(* calculate_scores *)
Record cs_ns (Cls F O : Type) := mk_cs_ns {
  cs_plain : cs_args;
  cs_scorer : str;                                          (* --scorer *)
  cs_scorer_param : option (list (str * str));              (* --scorer-param KEY=VALUE ... (KVAppendAction) *)
  cs_scorer_cls : option Cls;
  cs_scorer_params : list (str * pval F O) }.
Definition cs_set_scorer_cls (Cls F O : Type) (a : cs_ns Cls F O) (c : option Cls) : cs_ns Cls F O :=
  mk_cs_ns (cs_plain a) (cs_scorer a) (cs_scorer_param a) c (cs_scorer_params a).
Definition cs_set_scorer_params (Cls F O : Type) (a : cs_ns Cls F O) (p : list (str * pval F O)) : cs_ns Cls F O :=
  mk_cs_ns (cs_plain a) (cs_scorer a) (cs_scorer_param a) (cs_scorer_cls a) p.
Definition cs_get_args (Cls F O : Type) (I : introspect Cls) (P : pyprims F O) (raw : cs_ns Cls F O)
  : result (cs_ns Cls F O) :=
  dor cp <- resolve I P BScorer (cs_scorer raw) (cs_scorer_param raw);
  Ok (cs_set_scorer_params (cs_set_scorer_cls raw (fst cp)) (snd cp)).
Definition cs_with_mk (Scr Pl Th Dm Sc H : Type) (L : cs_lib Scr Pl Th Dm Sc H) (mk : result Sc) : cs_lib Scr Pl Th Dm Sc H :=
  mk_cs_lib (cs_load_screen L) (cs_plates L) (cs_is_observed L) (cs_plate_id L) mk (cs_load_thetas L) (cs_concat_thetas L)
            (cs_load_dist L) (cs_concat_dist L) (cs_score_chunk L).
(* the whole command: the scorer is the class named by --scorer, instantiated with the cast --scorer-param values *)
Definition cli_calculate_scores_cmd (Cls F O Scr Pl Th Dm Sc H : Type) (I : introspect Cls) (P : pyprims F O)
  (construct : Cls -> list (str * pval F O) -> result Sc) (L : cs_lib Scr Pl Th Dm Sc H) (mix : Z -> Z)
  (raw : cs_ns Cls F O) : result (list (path * H)) :=
  dor a <- cs_get_args I P raw;
  cli_calculate_scores (cs_with_mk L (instantiate construct (cs_scorer_cls a) (cs_scorer_params a))) mix (cs_plain a).

(* select_next_plate *)
Record sn_ns (Cls F O : Type) := mk_sn_ns {
  sn_plain : sn_args;                                       (* sn_policy: --policy, None when absent *)
  sn_policy_param : option (list (str * str));
  sn_policy_cls : option Cls;
  sn_policy_params : list (str * pval F O) }.
Definition sn_set_policy_cls (Cls F O : Type) (a : sn_ns Cls F O) (c : option Cls) : sn_ns Cls F O :=
  mk_sn_ns (sn_plain a) (sn_policy_param a) c (sn_policy_params a).
Definition sn_set_policy_params (Cls F O : Type) (a : sn_ns Cls F O) (p : list (str * pval F O)) : sn_ns Cls F O :=
  mk_sn_ns (sn_plain a) (sn_policy_param a) (sn_policy_cls a) p.
Definition sn_get_args (Cls F O : Type) (I : introspect Cls) (P : pyprims F O) (raw : sn_ns Cls F O)
  : result (sn_ns Cls F O) :=
  match sn_policy (sn_plain raw) with
  | Some name =>
      dor cp <- resolve I P BPlatePolicy name (sn_policy_param raw);
      Ok (sn_set_policy_params (sn_set_policy_cls raw (fst cp)) (snd cp))
  | None => Ok (sn_set_policy_params (sn_set_policy_cls raw None) [])
  end.
Definition sn_with_mk (Scr Pl Po H : Type) (L : sn_lib Scr Pl Po H) (mk : result Po) : sn_lib Scr Pl Po H :=
  mk_sn_lib (sn_load_screen L) mk (sn_load_scores L) (sn_concat_scores L) (sn_select L) (sn_plate_id L).
Definition cli_select_next_plate_cmd (Cls F O Scr Pl Po H : Type) (I : introspect Cls) (P : pyprims F O)
  (construct : Cls -> list (str * pval F O) -> result Po) (L : sn_lib Scr Pl Po H) (mix : Z -> Z)
  (raw : sn_ns Cls F O) : result (list (path * Z)) :=
  dor a <- sn_get_args I P raw;
  cli_select_next_plate (sn_with_mk L (instantiate construct (sn_policy_cls a) (sn_policy_params a))) mix (sn_plain a).

(* train_model *)
Record tm_ns (Cls F O : Type) := mk_tm_ns {
  tm_plain : tm_args;
  tm_model : str;                                           (* --model *)
  tm_model_param : option (list (str * str));
  tm_model_cls : option Cls;
  tm_model_params : list (str * pval F O) }.
Definition tm_set_model_cls (Cls F O : Type) (a : tm_ns Cls F O) (c : option Cls) : tm_ns Cls F O :=
  mk_tm_ns (tm_plain a) (tm_model a) (tm_model_param a) c (tm_model_params a).
Definition tm_set_model_params (Cls F O : Type) (a : tm_ns Cls F O) (p : list (str * pval F O)) : tm_ns Cls F O :=
  mk_tm_ns (tm_plain a) (tm_model a) (tm_model_param a) (tm_model_cls a) p.
Definition tm_get_args (Cls F O : Type) (I : introspect Cls) (P : pyprims F O) (raw : tm_ns Cls F O)
  : result (tm_ns Cls F O) :=
  dor cp <- resolve I P BBayesianModel (tm_model raw) (tm_model_param raw);
  Ok (tm_set_model_cls (tm_set_model_params raw (snd cp)) (fst cp)).
Definition tm_with_construct (Scr Sub Sp Pa Mo Th : Type) (L : tm_lib Scr Sub Sp Pa Mo Th) (c : Pa -> result Mo)
  : tm_lib Scr Sub Sp Pa Mo Th :=
  mk_tm_lib (tm_load_screen L) (tm_from_screen L) (tm_set_space L) c (tm_new_holder L) (tm_subset_observed L)
            (tm_add_observations L) (tm_sample L).
(* the model is the class named by --model, instantiated with the cast --model-param values plus the experiment space *)
Definition cli_train_model_cmd (Cls F O Scr Sub Sp Mo Th : Type) (I : introspect Cls) (P : pyprims F O)
  (construct : Cls -> list (str * pval F O) -> result Mo) (L : tm_lib Scr Sub Sp (list (str * pval F O)) Mo Th)
  (raw : tm_ns Cls F O) : result (list (path * Th)) :=
  dor a <- tm_get_args I P raw;
  cli_train_model (tm_with_construct L (instantiate construct (tm_model_cls a))) (tm_model_params a) (tm_plain a).

(* prepare_retrospective_simulation: three class-valued options, each optional *)
Record pr_opt (Cls F O : Type) := mk_pr_opt {
  po_param : option (list (str * str));                     (* --<x>-param KEY=VALUE ... *)
  po_cls : option Cls;                                      (* args.<x>_cls *)
  po_params : list (str * pval F O) }.                      (* args.<x>_params *)
Record pr_ns (Cls F O : Type) := mk_pr_ns {
  pr_plain : pr_args;                                       (* the three option names are pr_plate_generator ... *)
  pr_pg : pr_opt Cls F O;                                   (* --plate-generator *)
  pr_ig : pr_opt Cls F O;                                   (* --initial-plate-generator *)
  pr_ps : pr_opt Cls F O }.                                 (* --plate-smoother *)
Definition po_set_cls (Cls F O : Type) (o : pr_opt Cls F O) (c : option Cls) : pr_opt Cls F O :=
  mk_pr_opt (po_param o) c (po_params o).
Definition po_set_params (Cls F O : Type) (o : pr_opt Cls F O) (p : list (str * pval F O)) : pr_opt Cls F O :=
  mk_pr_opt (po_param o) (po_cls o) p.
Definition pr_set_pg (Cls F O : Type) (a : pr_ns Cls F O) (o : pr_opt Cls F O) : pr_ns Cls F O :=
  mk_pr_ns (pr_plain a) o (pr_ig a) (pr_ps a).
Definition pr_set_ig (Cls F O : Type) (a : pr_ns Cls F O) (o : pr_opt Cls F O) : pr_ns Cls F O :=
  mk_pr_ns (pr_plain a) (pr_pg a) o (pr_ps a).
Definition pr_set_ps (Cls F O : Type) (a : pr_ns Cls F O) (o : pr_opt Cls F O) : pr_ns Cls F O :=
  mk_pr_ns (pr_plain a) (pr_pg a) (pr_ig a) o.
(* one option: untouched when absent, else class and cast parameters stored *)
Definition pr_resolve_opt (Cls F O : Type) (I : introspect Cls) (P : pyprims F O) (base : base_class) (name : option cname)
  (o : pr_opt Cls F O) : result (pr_opt Cls F O) :=
  match name with
  | Some n => dor cp <- resolve I P base n (po_param o); Ok (po_set_params (po_set_cls o (fst cp)) (snd cp))
  | None => Ok o
  end.
(* in source order: plate generator, initial plate generator, plate smoother - each cast with ITS OWN class's annotations *)
Definition pr_get_args (Cls F O : Type) (I : introspect Cls) (P : pyprims F O) (raw : pr_ns Cls F O)
  : result (pr_ns Cls F O) :=
  dor g <- pr_resolve_opt I P BPlateGenerator (pr_plate_generator (pr_plain raw)) (pr_pg raw);
  dor i <- pr_resolve_opt I P BInitialPlateGenerator (pr_initial_plate_generator (pr_plain raw)) (pr_ig raw);
  dor s <- pr_resolve_opt I P BPlateSmoother (pr_plate_smoother (pr_plain raw)) (pr_ps raw);
  Ok (mk_pr_ns (pr_plain raw) g i s).
Definition pr_with_mk (Scr Pl Ig Pg Ps : Type) (L : pr_lib Scr Pl Ig Pg Ps) (mi : result Ig) (mg : result Pg) (ms : result Ps)
  : pr_lib Scr Pl Ig Pg Ps :=
  mk_pr_lib (pr_load_screen L) (pr_filter L) mi (pr_initial L) (pr_mask L) mg (pr_generate L) (pr_plates L) (pr_is_observed L)
            (pr_plate_id L) (pr_plate_size L) (pr_choice L) (pr_reveal L) ms (pr_smooth L) (pr_n_plates L) (pr_size L)
            (pr_holdout L).
Definition cli_prepare_cmd (Cls F O Scr Pl Ig Pg Ps : Type) (I : introspect Cls) (P : pyprims F O)
  (construct_ig : Cls -> list (str * pval F O) -> result Ig) (construct_pg : Cls -> list (str * pval F O) -> result Pg)
  (construct_ps : Cls -> list (str * pval F O) -> result Ps) (L : pr_lib Scr Pl Ig Pg Ps) (mix : Z -> Z)
  (raw : pr_ns Cls F O) : result (list (path * Scr)) :=
  dor a <- pr_get_args I P raw;
  cli_prepare (pr_with_mk L (instantiate construct_ig (po_cls (pr_ig a)) (po_params (pr_ig a)))
                            (instantiate construct_pg (po_cls (pr_pg a)) (po_params (pr_pg a)))
                            (instantiate construct_ps (po_cls (pr_ps a)) (po_params (pr_ps a))))
              mix (pr_plain a).

(* ---------- introspection.py itself, over the importlib / pkgutil / inspect primitives ----------
   Mod = module objects, Obj = any Python object a module attribute may hold.  pkgutil.walk_packages is the finite list of
   the module names it yields (its laziness, and an exception from importing a sub-package while walking, are not
   represented); importlib.import_module may raise (any tag). *)
Record sigparam := mk_sigparam {
  sp_no_default : bool;                          (* param.default == inspect.Parameter.empty *)
  sp_annotation : ann }.                         (* param.annotation (AEmpty when there is none) *)
Record pyworld (Mod Obj : Type) := mk_pyworld {
  w_import : str -> result Mod;                  (* importlib.import_module(name) *)
  w_walk : Mod -> str -> list str;               (* [name for _, name, _ in pkgutil.walk_packages(pkg.__path__, prefix + ".")] *)
  w_getattr : Mod -> str -> option Obj;          (* getattr(module, name, None) *)
  w_truthy : Obj -> bool;                        (* bool(o) *)
  w_issubclass : Obj -> base_class -> result bool;      (* issubclass(o, base): TypeError when o is not a class *)
  w_isclass : Obj -> bool;                       (* inspect.isclass(o) *)
  w_signature : Obj -> result (list (str * sigparam)) }.   (* inspect.signature(o.__init__).parameters, in signature order *)
Definition s_self : str := [115; 101; 108; 102].
Definition opt_isclass (Mod Obj : Type) (W : pyworld Mod Obj) (c : option Obj) : bool :=
  match c with Some o => w_isclass W o | None => false end.

(* get_class: the modules of the package in walk order; the first truthy attribute of that name decides (ValueError 31 when
   it is not a subclass of the base class); None when no module has one *)
Fixpoint find_class (Mod Obj : Type) (W : pyworld Mod Obj) (name : str) (base : base_class) (mods : list str)
  : result (option Obj) :=
  match mods with
  | [] => Ok None
  | m :: r =>
      dor md <- w_import W m;
      match w_getattr W md name with
      | Some o =>
          if w_truthy W o
          then dor b <- w_issubclass W o base; if b then Ok (Some o) else Err 31
          else find_class W name base r
      | None => find_class W name base r
      end
  end.
Definition get_class (Mod Obj : Type) (W : pyworld Mod Obj) (package_name class_name : str) (base : base_class)
  : result (option Obj) :=
  dor p <- w_import W package_name; find_class W class_name base (w_walk W p package_name).

(* create_instance: NameError (30) when nothing (or something falsy) was found *)
Definition create_instance (Mod Obj V Inst : Type) (W : pyworld Mod Obj) (construct : Obj -> V -> result Inst)
  (package_name class_name : str) (base : base_class) (kwargs : V) : result Inst :=
  dor c <- get_class W package_name class_name base;
  match c with
  | Some o => if w_truthy W o then construct o kwargs else Err 30
  | None => Err 30
  end.

(* get_required_init_args_with_annotations: the parameters other than "self" that have no default, in signature order,
   each with its annotation, None standing for "no annotation" *)
Definition required_step (d : list (str * ann)) (np : str * sigparam) : list (str * ann) :=
  if str_eqb (fst np) s_self then d
  else if sp_no_default (snd np)
       then kdict_set str_eqb d (fst np)
                      (if negb (ann_eqb (sp_annotation (snd np)) AEmpty) then sp_annotation (snd np) else ANone)
       else d.
Definition required_args (Mod Obj : Type) (W : pyworld Mod Obj) (c : option Obj) : result (list (str * ann)) :=
  match c with
  | Some o => if w_isclass W o then dor ps <- w_signature W o; Ok (fold_left required_step ps []) else Err 29
  | None => Err 29
  end.

(* the introspection record the get_args() models take, made of the functions above *)
Definition introspect_of (Mod Obj : Type) (W : pyworld Mod Obj) : introspect Obj :=
  mk_introspect (get_class W) (required_args W).

(* ====================================================================================================================
   The argparse option tables: what `get_parser()` of each wrapper declares, and what that means for the namespace
   `parser.parse_args()` yields - the record the get_args() / main() models above take for granted.

   The tables themselves are NOT written here: harness/argparse_reader.py reads them from /repo on every run
   (Generated/SrcParser_<command>.v, `src_parser_<command> : list argopt`, one record per parser.add_argument call, the
   options of log_config.add_logging_args included).  Here: the record type, argparse's reading of one declaration
   (dest derivation, the default when none is written, what kind of value the namespace attribute holds, whether it can
   be None), and - per command - the attributes the argument records above ASSUME: name, kind of value, optional or
   not.  Proofs/C18SourceParser_<command>.v prove that the table read from the source provides them.

   argparse, as far as used (Lib/argparse.py of CPython 3.11; compared with the real parser objects and real parses on
   generated command lines by harness/c18_args.py, op 13 of Run/RunC18.v):
     - dest: the dest= keyword, else the first flag beginning with "--" (else the first flag), leading '-' stripped, '-' -> '_';
     - default: the default= keyword, else False / True for store_true / store_false, else None;
     - the attribute when the option is absent from the command line is that default (required=True: the parse fails
       instead); when present: action store without nargs: type(word) (no type: the word itself, a str); with nargs '+', '*'
       or an int >= 1: the list of the converted words; store_true / store_false: a bool; KVAppendAction with nargs=1:
       the dict KEY -> VALUE accumulated by KVAppendAction.__call__ (linked above as kv_append / kv_parse);
     - anything else (nargs='?', append, count, a type with store_true, a default of another kind than the option's
       values, a KVAppendAction with a type / default / other nargs) has NO kind here: a field cannot rely on it.
   The automatic -h/--help stores nothing.  No proofs here. *)
From Coq Require Import String Ascii.

(* an ASCII string literal as a Python str (list of code points); used for option names only *)
Fixpoint str_of_string (s : string) : str :=
  match s with
  | EmptyString => []
  | String c r => Z.of_N (N_of_ascii c) :: str_of_string r
  end.

Inductive argtype : Type := TInt | TFloat | TStr | TStrToBool.        (* type=int / float / str / str_to_bool *)
(* a literal default / choice: None, a bool, an int, a float (the exact rational value of the double), a str, [] / list() *)
Inductive pylit : Type := LNone | LBool (b : bool) | LInt (z : Z) | LFloat (num : Z) (den : positive) | LStr (v : str) | LEmptyList.
Inductive argaction : Type := ActStore | ActStoreTrue | ActStoreFalse | ActAppend | ActCount | ActKVAppend.
Inductive argnargs : Type := NInt (n : Z) | NPlus | NStar | NOpt.
(* one parser.add_argument(...) call, as written: absent keywords are None / false / ActStore; o_dest is the dest the READER
   derived (proved equal to opt_dest below for every table) *)
Record argopt := mk_argopt {
  o_flags : list str; o_dest_kw : option str; o_dest : str; o_type : option argtype; o_default : option pylit;
  o_required : bool; o_action : argaction; o_nargs : option argnargs; o_choices : option (list pylit) }.

(* ---------- argparse's reading of one declaration ---------- *)
Definition is_long_flag (f : str) : bool := match f with 45 :: 45 :: _ => true | _ => false end.
Fixpoint lstrip_dash (f : str) : str := match f with 45 :: r => lstrip_dash r | _ => f end.
Definition dash_to_underscore (f : str) : str := map (fun c => if c =? 45 then 95 else c) f.
Definition derived_dest (flags : list str) : str :=
  dash_to_underscore (lstrip_dash (match filter is_long_flag flags with l :: _ => l | [] => hd [] flags end)).
Definition opt_dest (o : argopt) : str := match o_dest_kw o with Some d => d | None => derived_dest (o_flags o) end.

Definition opt_default (o : argopt) : pylit :=
  match o_default o with
  | Some d => d
  | None => match o_action o with ActStoreTrue => LBool false | ActStoreFalse => LBool true | _ => LNone end
  end.

(* the kind of value a namespace attribute holds *)
Inductive nskind : Type := KInt | KFloat | KStr | KBool | KList (elem : nskind) | KKV.      (* KKV: dict str -> str *)
Fixpoint nskind_eqb (a b : nskind) : bool :=
  match a, b with
  | KInt, KInt | KFloat, KFloat | KStr, KStr | KBool, KBool | KKV, KKV => true
  | KList x, KList y => nskind_eqb x y
  | _, _ => false
  end.
Definition type_kind (t : option argtype) : nskind :=
  match t with None => KStr | Some TStr => KStr | Some TInt => KInt | Some TFloat => KFloat | Some TStrToBool => KBool end.
(* a default of the kind of the option's values (None fits everything: whether it can be seen is opt_may_be_none) *)
Definition lit_fits (d : pylit) (k : nskind) : bool :=
  match d, k with
  | LNone, _ => true
  | LBool _, KBool => true
  | LInt _, KInt => true
  | LFloat _ _, KFloat => true
  | LStr _, KStr => true
  | LEmptyList, KList _ => true
  | _, _ => false
  end.
(* what the attribute holds when the option IS given *)
Definition opt_given_kind (o : argopt) : option nskind :=
  match o_action o, o_nargs o with
  | ActStore, None => Some (type_kind (o_type o))
  | ActStore, Some NPlus => Some (KList (type_kind (o_type o)))
  | ActStore, Some NStar => Some (KList (type_kind (o_type o)))
  | ActStore, Some (NInt n) => if 1 <=? n then Some (KList (type_kind (o_type o))) else None
  | ActStoreTrue, None => if is_none (o_type o) then Some KBool else None
  | ActStoreFalse, None => if is_none (o_type o) then Some KBool else None
  | ActKVAppend, Some (NInt 1) => if is_none (o_type o) && is_none (o_default o) then Some KKV else None
  | _, _ => None
  end.
(* ... and in every case (given or not): the default must be of that kind too *)
Definition opt_kind (o : argopt) : option nskind :=
  match opt_given_kind o with
  | Some k => if lit_fits (opt_default o) k then Some k else None
  | None => None
  end.
Definition is_lnone (d : pylit) : bool := match d with LNone => true | _ => false end.
(* the attribute is None exactly when the option may be left out and its default is None *)
Definition opt_may_be_none (o : argopt) : bool := negb (o_required o) && is_lnone (opt_default o).

(* ---------- what an argument record assumes of the namespace ---------- *)
Record nsfield := mk_nsfield { f_name : str; f_kind : nskind; f_optional : bool }.
Definition fld (name : string) (k : nskind) (optional : bool) : nsfield := mk_nsfield (str_of_string name) k optional.
Definition opts_with_dest (tbl : list argopt) (d : str) : list argopt := filter (fun o => str_eqb (o_dest o) d) tbl.
(* the attribute is the dest of EXACTLY ONE declared option, which stores values of the assumed kind, and is None-able
   exactly when the record says `option` *)
Definition declares (tbl : list argopt) (f : nsfield) : Prop :=
  exists o, opts_with_dest tbl (f_name f) = [o] /\ opt_kind o = Some (f_kind f) /\ opt_may_be_none o = f_optional f.

(* log_config.configure_logging(args) reads args.verbose *)
Definition logging_fields : list nsfield := [fld "verbose" KBool false].
(* cs_args (paths are str; cs_seed through get_prng_from_seed_argument) + cs_ns: --scorer, --scorer-param *)
Definition cs_fields : list nsfield :=
  [fld "data" KStr false; fld "thetas" (KList KStr) false; fld "distance_matrix" (KList KStr) false; fld "n_chunks" KInt false;
   fld "chunk_index" KInt false; fld "batch_plate_ids" (KList KInt) false; fld "output" KStr false; fld "seed" KInt false;
   fld "progress" KBool false; fld "scorer" KStr false; fld "scorer_param" KKV true].
(* sn_args (sn_policy : option cname) + sn_ns: --policy-param *)
Definition sn_fields : list nsfield :=
  [fld "data" KStr false; fld "scores" (KList KStr) false; fld "policy" KStr true; fld "output" KStr false; fld "seed" KInt false;
   fld "batch_plate_id" (KList KInt) false; fld "policy_param" KKV true].
(* tm_args + tm_ns: --model, --model-param *)
Definition tm_fields : list nsfield :=
  [fld "data" KStr false; fld "output" KStr false; fld "n_samples" KInt false; fld "n_burnin" KInt false; fld "thin" KInt false;
   fld "n_chains" KInt false; fld "chain_index" KInt false; fld "seed" KInt false; fld "progress" KBool false;
   fld "model" KStr false; fld "model_param" KKV true].
(* rp_args *)
Definition rp_fields : list nsfield := [fld "screen" KStr false; fld "output" KStr false; fld "plate_id" (KList KInt) false].
(* pr_args (three optional class names; the float --holdout-fraction) + pr_ns: the three --*-param dicts *)
Definition pr_fields : list nsfield :=
  [fld "data" KStr false; fld "training_output" KStr false; fld "test_output" KStr false;
   fld "initial_plate_generator" KStr true; fld "plate_generator" KStr true; fld "plate_smoother" KStr true;
   fld "holdout_fraction" KFloat false; fld "seed" KInt false;
   fld "initial_plate_generator_param" KKV true; fld "plate_generator_param" KKV true; fld "plate_smoother_param" KKV true].
(* em_args *)
Definition em_fields : list nsfield := [fld "screen" KStr false; fld "output" KStr false].
(* cd_args + what calculate_distance_matrix.get_args() (not translated) reads: --distance-metric, --distance-metric-param *)
Definition cd_fields : list nsfield :=
  [fld "data" KStr false; fld "thetas" (KList KStr) false; fld "n_chunks" KInt false; fld "chunk_index" KInt false;
   fld "output" KStr false; fld "progress" KBool false; fld "distance_metric" KStr false; fld "distance_metric_param" KKV true].
(* ev_args *)
Definition ev_fields : list nsfield := [fld "screen" KStr false; fld "thetas" (KList KStr) false; fld "output" KStr false].
(* an_args (Model/CliAnalyze.v): what the translated analyze_model_evaluation.main reads - the four paths and, since the repair
   "fix: analyze_model_evaluation ignored --seed", args.seed (handed to the two regplot-drawing plots) *)
Definition am_fields : list nsfield :=
  [fld "model_evaluation" KStr false; fld "screen" KStr false; fld "thetas" (KList KStr) false; fld "output_dir" KStr false;
   fld "seed" KInt false].

(* ---------- properties of a table as a whole ---------- *)
(* the reader's dest is argparse's derivation *)
Definition dests_derived (tbl : list argopt) : Prop := forall o, In o tbl -> o_dest o = opt_dest o.
(* no two options share a dest or a flag *)
Definition dests_distinct (tbl : list argopt) : Prop := NoDup (map o_dest tbl) /\ NoDup (List.concat (map o_flags tbl)).
(* the randomised commands: --seed is the only option stored at `seed`, an int option whose default is a non-negative int
   literal - so get_prng_from_seed_argument(args) never sees None, and the default seed is one SeedSequence accepts *)
Definition s_seed : str := str_of_string "seed".
Definition s_seed_flag : str := str_of_string "--seed".
Definition seed_declared (tbl : list argopt) : Prop :=
  exists o z, opts_with_dest tbl s_seed = [o] /\ In s_seed_flag (o_flags o) /\ opt_kind o = Some KInt
              /\ opt_default o = LInt z /\ 0 <= z.
(* the chunk / chain coordinates: an option carrying one of these flags is an int option that is never None, stored at the
   attribute of that name *)
Definition coordinate_flags : list (str * str) :=
  [(str_of_string "--n-chunks", str_of_string "n_chunks"); (str_of_string "--chunk-index", str_of_string "chunk_index");
   (str_of_string "--n-chains", str_of_string "n_chains"); (str_of_string "--chain-index", str_of_string "chain_index")].
Definition coordinates_int (tbl : list argopt) : Prop :=
  forall fd o, In fd coordinate_flags -> In o tbl -> In (fst fd) (o_flags o) ->
               o_dest o = snd fd /\ opt_kind o = Some KInt /\ opt_may_be_none o = false.
(* every option with a flag ending in "-param" accumulates KEY=VALUE words through KVAppendAction (nargs=1, no type, no default) *)
Definition str_suffix (suf f : str) : bool := str_prefix (rev suf) (rev f).
Definition s_param_suffix : str := str_of_string "-param".
Definition is_param_option (o : argopt) : bool := existsb (str_suffix s_param_suffix) (o_flags o).
Definition params_kv (tbl : list argopt) : Prop :=
  forall o, In o tbl -> is_param_option o = true ->
            o_action o = ActKVAppend /\ o_nargs o = Some (NInt 1) /\ opt_kind o = Some KKV /\ opt_may_be_none o = true.
(* prepare_retrospective_simulation: --holdout-fraction is the only option stored at `holdout_fraction`, a float option whose
   default is a float literal in [0, 1] (a fraction of the experiments) *)
Definition s_holdout_fraction : str := str_of_string "holdout_fraction".
Definition fraction_declared (tbl : list argopt) : Prop :=
  exists o n d, opts_with_dest tbl s_holdout_fraction = [o] /\ opt_kind o = Some KFloat /\ opt_may_be_none o = false
                /\ opt_default o = LFloat n d /\ 0 <= n <= Zpos d.

(* ---------- calculate_distance_matrix.get_args and main as a whole command (gap review G7.2) ----------
   The namespace of calculate_distance_matrix: the plain results main() reads (cd_args), --distance-metric (required, a str),
   --distance-metric-param KEY=VALUE ... (KVAppendAction; None when the option is absent), and the two attributes get_args()
   stores: metric_cls (what get_class returned, possibly None) and metric_params (the cast parameters). *)
Record cd_ns (Cls F O : Type) := mk_cd_ns {
  cd_plain : cd_args;
  cd_distance_metric : str;                                           (* --distance-metric *)
  cd_distance_metric_param : option (list (str * str));               (* --distance-metric-param KEY=VALUE ... *)
  cd_metric_cls : option Cls;
  cd_metric_params : list (str * pval F O) }.
Definition cd_set_metric_cls (Cls F O : Type) (a : cd_ns Cls F O) (c : option Cls) : cd_ns Cls F O :=
  mk_cd_ns (cd_plain a) (cd_distance_metric a) (cd_distance_metric_param a) c (cd_metric_params a).
Definition cd_set_metric_params (Cls F O : Type) (a : cd_ns Cls F O) (p : list (str * pval F O)) : cd_ns Cls F O :=
  mk_cd_ns (cd_plain a) (cd_distance_metric a) (cd_distance_metric_param a) (cd_metric_cls a) p.
(* class lookup among DistanceMetric subclasses, its required-argument annotations, --distance-metric-param cast by them *)
Definition cd_get_args (Cls F O : Type) (I : introspect Cls) (P : pyprims F O) (raw : cd_ns Cls F O)
  : result (cd_ns Cls F O) :=
  dor cp <- resolve I P BDistanceMetric (cd_distance_metric raw) (cd_distance_metric_param raw);
  Ok (cd_set_metric_params (cd_set_metric_cls raw (fst cp)) (snd cp)).
Definition cd_with_mk (Scr Th Me Dm : Type) (L : cd_lib Scr Th Me Dm) (mk : result Me) : cd_lib Scr Th Me Dm :=
  mk_cd_lib (cd_load_screen L) (cd_load_thetas L) (cd_concat_thetas L) mk (cd_calculate L).
(* the whole command: the metric is the class named by --distance-metric instantiated with the cast --distance-metric-param values *)
Definition cli_calculate_distance_matrix_cmd (Cls F O Scr Th Me Dm : Type) (I : introspect Cls) (P : pyprims F O)
  (construct : Cls -> list (str * pval F O) -> result Me) (L : cd_lib Scr Th Me Dm) (raw : cd_ns Cls F O)
  : result (list (path * Dm)) :=
  dor a <- cd_get_args I P raw;
  cli_calculate_distance_matrix (cd_with_mk L (instantiate construct (cd_metric_cls a) (cd_metric_params a))) (cd_plain a).
