(* Wire codecs for the shared Screen model. *)
From Coq Require Import ZArith List Bool.
From Batchie Require Import Lib.Sexp Model.Encode Model.Screen.
Import ListNotations.
Open Scope Z_scope.

Definition as_name : sexp -> option name := as_Zs.
Definition as_tkey : sexp -> option tkey := as_pair as_name as_Z.

(* (sample plate ((name dose) ...) obs mask) *)
Definition as_row (s : sexp) : option row :=
  match s with
  | SL [sa; pl; tr; ob; mk] =>
      do sa <- as_name sa; do pl <- as_name pl; do tr <- as_listof as_tkey tr;
      do ob <- as_Z ob; do mk <- as_bool mk;
      Some {| r_sample := sa; r_plate := pl; r_treats := tr; r_obs := ob; r_mask := mk |}
  | _ => None
  end.

Definition as_tmapping : sexp -> option tmapping := as_listof (as_pair as_tkey as_Z).
Definition as_nmapping : sexp -> option nmapping := as_listof (as_pair as_name as_Z).

(* (rows arity ctrl tmap? smap? obs_given mask_given), mappings as () | ((mapping isint)) *)
Definition as_mk_args (s : sexp)
  : option (list row * nat * name * option (tmapping * bool) * option (nmapping * bool) * bool * bool) :=
  match s with
  | SL [rows; ar; ctrl; tm; sm; og; mg] =>
      do rows <- as_listof as_row rows; do ar <- as_nat ar; do ctrl <- as_name ctrl;
      do tm <- as_option (as_pair as_tmapping as_bool) tm;
      do sm <- as_option (as_pair as_nmapping as_bool) sm;
      do og <- as_bool og; do mg <- as_bool mg;
      Some (rows, ar, ctrl, tm, sm, og, mg)
  | _ => None
  end.

Definition mk_screen_args (a : list row * nat * name * option (tmapping * bool) * option (nmapping * bool) * bool * bool)
  : result screen :=
  let '(rows, ar, ctrl, tm, sm, og, mg) := a in mk_screen rows ar ctrl tm sm og mg.

Definition of_name : name -> sexp := of_Zs.
Definition of_tkey : tkey -> sexp := of_pair of_name SZ.
Definition of_row (r : row) : sexp :=
  SL [of_name (r_sample r); of_name (r_plate r); of_list of_tkey (r_treats r); SZ (r_obs r); of_bool (r_mask r)].
Definition of_tmapping : tmapping -> sexp := of_list (of_pair of_tkey SZ).
Definition of_nmapping : nmapping -> sexp := of_list (of_pair of_name SZ).

(* (rows tids sids pids tmap smap pmap n_samples n_treatments) *)
Definition of_screen (s : screen) : sexp :=
  SL [of_list of_row (s_rows s); of_list of_Zs (s_tids s); of_Zs (s_sids s); of_Zs (s_pids s);
      of_tmapping (s_tmap s); of_nmapping (s_smap s); of_nmapping (s_pmap s);
      SZ (space_n_samples s); SZ (space_n_treatments s)].
