(* C02 model: persistence of batchie.data.Screen and batchie.data.ExperimentSpace.
     Screen.save_h5            -> [save]         (the 14 datasets + 1 attribute it writes)
     Screen.load_h5            -> [load]         (= [mk_screen] called with exactly the arguments load_h5
                                                   passes: observations and observation_mask given, the stored
                                                   sample_mapping and treatment_mapping supplied, plates not
                                                   supplied and therefore re-encoded; the stored treatment_ids /
                                                   sample_ids / plate_ids datasets are NOT read)
     ExperimentSpace.save_h5   -> [space_save]
     ExperimentSpace.load_h5   -> [space_load]
     ExperimentSpace.from_screen -> [space_of_screen]
   Modelling decisions (each exercised by every correspondence case):
   * h5py dataset write -> read is the identity on numeric / bool arrays (bit patterns, shapes, dtypes).
   * encode_string_array / decode_string_array (UTF-8 via np.char.encode / np.char.decode; an array with zero
     elements becomes an empty bytes / str array OF THE SAME SHAPE) are mutually inverse on arrays of valid,
     NUL-free strings of any shape, including shape (0,) and (0, arity).
   * A 2-d dataset keeps its shape even without rows, so the file records the second dimension of
     "treatment_names" / "treatment_doses" ([f_arity]); a list of rows alone would lose it when n = 0.
   * A constructed Screen's mapping id arrays always have dtype int64 (built by pandas from a RangeIndex, or
     accepted by numpy_array_is_0_indexed_integers, which rejects every other dtype), h5py keeps the dtype,
     hence the "integer dtype" flag load_h5 hands to the constructor is [true].  The harness asserts the dtypes.
   * Doses are order keys (see Model/Encode.v): -0.0 and 0.0 are identified in the model; the harness compares
     raw dose bits on the implementation.
   * arity at load = treatment_names.shape[1] = [f_arity].
   Error tags: 1 arrays of different lengths / shapes; others see Model/Encode.v.
   No proofs here. *)
From Coq Require Import ZArith List Bool.
From Batchie Require Import Lib.Sexp Generated.Consts Model.Encode Model.Screen.
Import ListNotations.
Open Scope Z_scope.

Record file := {
  f_arity : nat;                     (* shape[1] of "treatment_names" and "treatment_doses" *)
  f_tnames : list (list name);       (* "treatment_names"          n x arity *)
  f_tdoses : list (list Z);          (* "treatment_doses"          n x arity *)
  f_tids : list (list Z);            (* "treatment_ids"            n x arity *)
  f_tm_names : list name;            (* "treatment_mapping_names" *)
  f_tm_doses : list Z;               (* "treatment_mapping_doses" *)
  f_tm_ids : list Z;                 (* "treatment_mapping_ids" *)
  f_obs : list Z;                    (* "observations"  float64 bit patterns *)
  f_mask : list bool;                (* "observation_mask" *)
  f_sids : list Z;                   (* "sample_ids" *)
  f_snames : list name;              (* "sample_names" *)
  f_sm_names : list name;            (* "sample_mapping_names" *)
  f_sm_ids : list Z;                 (* "sample_mapping_ids" *)
  f_pids : list Z;                   (* "plate_ids" *)
  f_pnames : list name;              (* "plate_names" *)
  f_ctrl : name                      (* attrs["control_treatment_name"] *)
}.

Definition save (s : screen) : file :=
  {| f_arity := s_arity s;
     f_tnames := map (fun r => map fst (r_treats r)) (s_rows s);
     f_tdoses := map (fun r => map snd (r_treats r)) (s_rows s);
     f_tids := s_tids s;
     f_tm_names := map (fun e => fst (fst e)) (s_tmap s);
     f_tm_doses := map (fun e => snd (fst e)) (s_tmap s);
     f_tm_ids := map snd (s_tmap s);
     f_obs := map r_obs (s_rows s);
     f_mask := map r_mask (s_rows s);
     f_sids := s_sids s;
     f_snames := map r_sample (s_rows s);
     f_sm_names := map fst (s_smap s);
     f_sm_ids := map snd (s_smap s);
     f_pids := s_pids s;
     f_pnames := map r_plate (s_rows s);
     f_ctrl := s_ctrl s |}.

(* arrays -> rows; None when the arrays do not have the same number of experiments / shape *)
Fixpoint zip_rows (sn pn : list name) (tn : list (list name)) (td : list (list Z))
         (ob : list Z) (mk : list bool) : option (list row) :=
  match sn with
  | [] => match pn, tn, td, ob, mk with [], [], [], [], [] => Some [] | _, _, _, _, _ => None end
  | s :: sn' =>
      match pn, tn, td, ob, mk with
      | p :: pn', t :: tn', d :: td', o :: ob', m :: mk' =>
          if Nat.eqb (length t) (length d) then
            do rs <- zip_rows sn' pn' tn' td' ob' mk';
            Some ({| r_sample := s; r_plate := p; r_treats := combine t d; r_obs := o; r_mask := m |} :: rs)
          else None
      | _, _, _, _, _ => None
      end
  end.

Fixpoint zip_tmap (ns : list name) (ds ids : list Z) : option tmapping :=
  match ns, ds, ids with
  | [], [], [] => Some []
  | n :: ns', d :: ds', i :: ids' => do r <- zip_tmap ns' ds' ids'; Some ((n, d, i) :: r)
  | _, _, _ => None
  end.

Fixpoint zip_nmap (ns : list name) (ids : list Z) : option nmapping :=
  match ns, ids with
  | [], [] => Some []
  | n :: ns', i :: ids' => do r <- zip_nmap ns' ids'; Some ((n, i) :: r)
  | _, _ => None
  end.

Definition load (f : file) : result screen :=
  match zip_rows (f_snames f) (f_pnames f) (f_tnames f) (f_tdoses f) (f_obs f) (f_mask f),
        zip_tmap (f_tm_names f) (f_tm_doses f) (f_tm_ids f),
        zip_nmap (f_sm_names f) (f_sm_ids f) with
  | Some rows, Some tm, Some sm =>
      mk_screen rows (f_arity f) (f_ctrl f) (Some (tm, true)) (Some (sm, true)) true true
  | _, _, _ => Err 1
  end.

(* k consecutive save/load cycles *)
Fixpoint cycles (k : nat) (s : screen) : result screen :=
  match k with
  | O => Ok s
  | S k' => dor s' <- load (save s); cycles k' s'
  end.

(* ---- ExperimentSpace ---- *)
Record space := {
  sp_tmap : tmapping;
  sp_smap : nmapping;
  sp_ctrl : name
}.

Definition space_of_screen (s : screen) : space :=
  {| sp_tmap := s_tmap s; sp_smap := s_smap s; sp_ctrl := s_ctrl s |}.

Record sfile := {
  g_tnames : list name;              (* "treatment_names" *)
  g_tdoses : list Z;                 (* "treatment_doses" *)
  g_tids : list Z;                   (* "treatment_ids" *)
  g_snames : list name;              (* "sample_names" *)
  g_sids : list Z;                   (* "sample_ids" *)
  g_ctrl : name                      (* attrs["control_treatment_name"] *)
}.

Definition space_save (sp : space) : sfile :=
  {| g_tnames := map (fun e => fst (fst e)) (sp_tmap sp);
     g_tdoses := map (fun e => snd (fst e)) (sp_tmap sp);
     g_tids := map snd (sp_tmap sp);
     g_snames := map fst (sp_smap sp);
     g_sids := map snd (sp_smap sp);
     g_ctrl := sp_ctrl sp |}.

(* ExperimentSpace(...) validates nothing; arrays of different lengths cannot come out of
   [space_save] and are reported as tag 1 *)
Definition space_load (g : sfile) : result space :=
  match zip_tmap (g_tnames g) (g_tdoses g) (g_tids g), zip_nmap (g_snames g) (g_sids g) with
  | Some tm, Some sm => Ok {| sp_tmap := tm; sp_smap := sm; sp_ctrl := g_ctrl g |}
  | _, _ => Err 1
  end.

Fixpoint space_cycles (k : nat) (sp : space) : result space :=
  match k with
  | O => Ok sp
  | S k' => dor sp' <- space_load (space_save sp); space_cycles k' sp'
  end.
