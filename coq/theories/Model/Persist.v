(* C02 model: persistence of batchie.data.Screen and batchie.data.ExperimentSpace.
     Screen.save_h5            -> [save]         (the 14 datasets + 1 attribute it writes)
     Screen.load_h5            -> [load]         (= [mk_screen] called with exactly the arguments load_h5
                                                   passes: observations and observation_mask given, the stored
                                                   sample_mapping and treatment_mapping supplied, plates not
                                                   supplied and therefore re-encoded; the stored treatment_ids /
                                                   sample_ids / plate_ids datasets are NOT read)
     ExperimentSpace.save_h5   -> [space_save]
     ExperimentSpace.load_h5   -> [space_load]
     ExperimentSpace.from_screen -> [space_of_screen]
   Modelling decisions (each exercised by every correspondence case):
   * h5py dataset write -> read is the identity on numeric / bool arrays (bit patterns, shapes, dtypes).
   * encode_string_array / decode_string_array (UTF-8 via np.char.encode / np.char.decode; an array with zero
     elements becomes an empty bytes / str array OF THE SAME SHAPE) are mutually inverse on arrays of valid,
     NUL-free strings of any shape, including shape (0,) and (0, arity).
   * A 2-d dataset keeps its shape even without rows, so the file records the second dimension of
     "treatment_names" / "treatment_doses" ([f_arity]); a list of rows alone would lose it when n = 0.
   * A constructed Screen's mapping id arrays always have dtype int64 (built by pandas from a RangeIndex, or
     accepted by numpy_array_is_0_indexed_integers, which rejects every other dtype), h5py keeps the dtype,
     hence the "integer dtype" flag load_h5 hands to the constructor is [true].  The harness asserts the dtypes.
   * Doses are order keys (see Model/Encode.v): -0.0 and 0.0 are identified in the model; the harness compares
     raw dose bits on the implementation.
   * arity at load = treatment_names.shape[1] = [f_arity].
   Error tags: 1 arrays of different lengths / shapes; others see Model/Encode.v.
   No proofs here. *)
From Coq Require Import ZArith List Bool.
From Batchie Require Import Lib.Sexp Generated.Consts Model.Encode Model.Screen.
Import ListNotations.
Open Scope Z_scope.

Record file := {
  f_arity : nat;                     (* shape[1] of "treatment_names" and "treatment_doses" *)
  f_tnames : list (list name);       (* "treatment_names"          n x arity *)
  f_tdoses : list (list Z);          (* "treatment_doses"          n x arity *)
  f_tids : list (list Z);            (* "treatment_ids"            n x arity *)
  f_tm_names : list name;            (* "treatment_mapping_names" *)
  f_tm_doses : list Z;               (* "treatment_mapping_doses" *)
  f_tm_ids : list Z;                 (* "treatment_mapping_ids" *)
  f_obs : list Z;                    (* "observations"  float64 bit patterns *)
  f_mask : list bool;                (* "observation_mask" *)
  f_sids : list Z;                   (* "sample_ids" *)
  f_snames : list name;              (* "sample_names" *)
  f_sm_names : list name;            (* "sample_mapping_names" *)
  f_sm_ids : list Z;                 (* "sample_mapping_ids" *)
  f_pids : list Z;                   (* "plate_ids" *)
  f_pnames : list name;              (* "plate_names" *)
  f_ctrl : name                      (* attrs["control_treatment_name"] *)
}.

Definition save (s : screen) : file :=
  {| f_arity := s_arity s;
     f_tnames := map (fun r => map fst (r_treats r)) (s_rows s);
     f_tdoses := map (fun r => map snd (r_treats r)) (s_rows s);
     f_tids := s_tids s;
     f_tm_names := map (fun e => fst (fst e)) (s_tmap s);
     f_tm_doses := map (fun e => snd (fst e)) (s_tmap s);
     f_tm_ids := map snd (s_tmap s);
     f_obs := map r_obs (s_rows s);
     f_mask := map r_mask (s_rows s);
     f_sids := s_sids s;
     f_snames := map r_sample (s_rows s);
     f_sm_names := map fst (s_smap s);
     f_sm_ids := map snd (s_smap s);
     f_pids := s_pids s;
     f_pnames := map r_plate (s_rows s);
     f_ctrl := s_ctrl s |}.

(* arrays -> rows; None when the arrays do not have the same number of experiments / shape *)
Fixpoint zip_rows (sn pn : list name) (tn : list (list name)) (td : list (list Z))
         (ob : list Z) (mk : list bool) : option (list row) :=
  match sn with
  | [] => match pn, tn, td, ob, mk with [], [], [], [], [] => Some [] | _, _, _, _, _ => None end
  | s :: sn' =>
      match pn, tn, td, ob, mk with
      | p :: pn', t :: tn', d :: td', o :: ob', m :: mk' =>
          if Nat.eqb (length t) (length d) then
            do rs <- zip_rows sn' pn' tn' td' ob' mk';
            Some ({| r_sample := s; r_plate := p; r_treats := combine t d; r_obs := o; r_mask := m |} :: rs)
          else None
      | _, _, _, _, _ => None
      end
  end.

Fixpoint zip_tmap (ns : list name) (ds ids : list Z) : option tmapping :=
  match ns, ds, ids with
  | [], [], [] => Some []
  | n :: ns', d :: ds', i :: ids' => do r <- zip_tmap ns' ds' ids'; Some ((n, d, i) :: r)
  | _, _, _ => None
  end.

Fixpoint zip_nmap (ns : list name) (ids : list Z) : option nmapping :=
  match ns, ids with
  | [], [] => Some []
  | n :: ns', i :: ids' => do r <- zip_nmap ns' ids'; Some ((n, i) :: r)
  | _, _ => None
  end.

Definition load (f : file) : result screen :=
  match zip_rows (f_snames f) (f_pnames f) (f_tnames f) (f_tdoses f) (f_obs f) (f_mask f),
        zip_tmap (f_tm_names f) (f_tm_doses f) (f_tm_ids f),
        zip_nmap (f_sm_names f) (f_sm_ids f) with
  | Some rows, Some tm, Some sm =>
      mk_screen rows (f_arity f) (f_ctrl f) (Some (tm, true)) (Some (sm, true)) true true
  | _, _, _ => Err 1
  end.

(* k consecutive save/load cycles *)
Fixpoint cycles (k : nat) (s : screen) : result screen :=
  match k with
  | O => Ok s
  | S k' => dor s' <- load (save s); cycles k' s'
  end.

(* ---- ExperimentSpace ---- *)
Record space := {
  sp_tmap : tmapping;
  sp_smap : nmapping;
  sp_ctrl : name
}.

Definition space_of_screen (s : screen) : space :=
  {| sp_tmap := s_tmap s; sp_smap := s_smap s; sp_ctrl := s_ctrl s |}.

Record sfile := {
  g_tnames : list name;              (* "treatment_names" *)
  g_tdoses : list Z;                 (* "treatment_doses" *)
  g_tids : list Z;                   (* "treatment_ids" *)
  g_snames : list name;              (* "sample_names" *)
  g_sids : list Z;                   (* "sample_ids" *)
  g_ctrl : name                      (* attrs["control_treatment_name"] *)
}.

Definition space_save (sp : space) : sfile :=
  {| g_tnames := map (fun e => fst (fst e)) (sp_tmap sp);
     g_tdoses := map (fun e => snd (fst e)) (sp_tmap sp);
     g_tids := map snd (sp_tmap sp);
     g_snames := map fst (sp_smap sp);
     g_sids := map snd (sp_smap sp);
     g_ctrl := sp_ctrl sp |}.

(* ExperimentSpace(...) validates nothing; arrays of different lengths cannot come out of
   [space_save] and are reported as tag 1 *)
Definition space_load (g : sfile) : result space :=
  match zip_tmap (g_tnames g) (g_tdoses g) (g_tids g), zip_nmap (g_snames g) (g_sids g) with
  | Some tm, Some sm => Ok {| sp_tmap := tm; sp_smap := sm; sp_ctrl := g_ctrl g |}
  | _, _ => Err 1
  end.

Fixpoint space_cycles (k : nat) (sp : space) : result space :=
  match k with
  | O => Ok sp
  | S k' => dor sp' <- space_load (space_save sp); space_cycles k' sp'
  end.

(* ==== vocabulary of the source-translation link for C02 ====
   (harness/src_functions.py C02_*, generated file Generated/SrcPersist.v, proofs Proofs/C02Source.v)
   What an HDF5 file holds while batchie writes / reads it: [h5raw] = its datasets and its attributes BY NAME, in
   creation order.  The translated save_h5 methods build an h5raw with one [h5_create] per create_dataset call, the
   translated load_h5 methods read it back with one [h5_read_*] per f[NAME][:].  A dataset value is one of five array
   kinds; a 2-d array carries shape[1] (so that an array without rows still has an arity, see the header).
   Strings: [bname] is a UTF-8 ENCODED string (an element of a bytes array).  It is the same Coq type as [name]
   (the codec is the identity on valid NUL-free strings, header bullet 2), but the translator treats the two type NAMES
   as different, so a missing / doubled encode_string_array or decode_string_array is refused.
   A Python mapping (Screen.treatment_mapping, .sample_mapping) is a TUPLE of aligned arrays: [tmap_cols] / [smap_cols]
   of the model's row list; m[i] is the i-th projection.
   Error tags: 30 KeyError (no dataset / attribute of that name), 31 create_dataset of an existing name,
   32 the stored array is of another kind than the reader expects / the 2-d shapes of one file disagree. *)
From Coq Require String.
Import String.StringSyntax.
Local Delimit Scope string_scope with string.

Definition h5_2d (T : Type) : Type := (nat * list (list T))%type.     (* (shape[1], rows) *)
Definition bname : Type := name.
Inductive h5val : Type :=
| V_S2 (a : h5_2d bname)        (* 2-d bytes *)
| V_N2 (a : h5_2d Z)            (* 2-d numeric: dose keys, ids *)
| V_S1 (a : list bname)         (* 1-d bytes *)
| V_N1 (a : list Z)             (* 1-d numeric: dose keys, ids, float64 bit patterns *)
| V_B1 (a : list bool).         (* 1-d bool *)
Record h5raw : Type := { h_data : list (String.string * h5val); h_attrs : list (String.string * name) }.

(* the names batchie uses *)
Definition K_treatment_names : String.string := "treatment_names"%string.
Definition K_treatment_doses : String.string := "treatment_doses"%string.
Definition K_treatment_ids : String.string := "treatment_ids"%string.
Definition K_treatment_mapping_names : String.string := "treatment_mapping_names"%string.
Definition K_treatment_mapping_doses : String.string := "treatment_mapping_doses"%string.
Definition K_treatment_mapping_ids : String.string := "treatment_mapping_ids"%string.
Definition K_observations : String.string := "observations"%string.
Definition K_observation_mask : String.string := "observation_mask"%string.
Definition K_sample_ids : String.string := "sample_ids"%string.
Definition K_sample_names : String.string := "sample_names"%string.
Definition K_sample_mapping_names : String.string := "sample_mapping_names"%string.
Definition K_sample_mapping_ids : String.string := "sample_mapping_ids"%string.
Definition K_plate_ids : String.string := "plate_ids"%string.
Definition K_plate_names : String.string := "plate_names"%string.
Definition K_control_treatment_name : String.string := "control_treatment_name"%string.

(* h5py.File(path, "w"): a new, empty file *)
Definition h5_empty : h5raw := {| h_data := []; h_attrs := [] |}.
Fixpoint h5_find {V : Type} (k : String.string) (l : list (String.string * V)) : option V :=
  match l with
  | [] => None
  | (k', v) :: r => if String.eqb k' k then Some v else h5_find k r
  end.
(* f.create_dataset(k, data=v[, compression="gzip"]): a new dataset; a name that exists is refused *)
Definition h5_create (w : h5raw) (k : String.string) (v : h5val) : result h5raw :=
  match h5_find k (h_data w) with
  | Some _ => Err 31
  | None => Ok {| h_data := h_data w ++ [(k, v)]; h_attrs := h_attrs w |}
  end.
(* f.attrs[k] = v: set or replace *)
Fixpoint h5_put (l : list (String.string * name)) (k : String.string) (v : name) : list (String.string * name) :=
  match l with
  | [] => [(k, v)]
  | (k', v') :: r => if String.eqb k' k then (k', v) :: r else (k', v') :: h5_put r k v
  end.
Definition h5_set_attr (w : h5raw) (k : String.string) (v : name) : h5raw :=
  {| h_data := h_data w; h_attrs := h5_put (h_attrs w) k v |}.
(* f[k][:], by the kind of array the caller goes on to use *)
Definition h5_read_s2 (w : h5raw) (k : String.string) : result (h5_2d bname) :=
  match h5_find k (h_data w) with Some (V_S2 a) => Ok a | Some _ => Err 32 | None => Err 30 end.
Definition h5_read_n2 (w : h5raw) (k : String.string) : result (h5_2d Z) :=
  match h5_find k (h_data w) with Some (V_N2 a) => Ok a | Some _ => Err 32 | None => Err 30 end.
Definition h5_read_s1 (w : h5raw) (k : String.string) : result (list bname) :=
  match h5_find k (h_data w) with Some (V_S1 a) => Ok a | Some _ => Err 32 | None => Err 30 end.
Definition h5_read_n1 (w : h5raw) (k : String.string) : result (list Z) :=
  match h5_find k (h_data w) with Some (V_N1 a) => Ok a | Some _ => Err 32 | None => Err 30 end.
Definition h5_read_b1 (w : h5raw) (k : String.string) : result (list bool) :=
  match h5_find k (h_data w) with Some (V_B1 a) => Ok a | Some _ => Err 32 | None => Err 30 end.
(* f.attrs[k] *)
Definition h5_attr (w : h5raw) (k : String.string) : result name :=
  match h5_find k (h_attrs w) with Some v => Ok v | None => Err 30 end.

(* the representation map  raw file -> [file] / [sfile]: every dataset and attribute of the record is there under
   its name, with its kind; the three 2-d datasets of a screen file have the same shape[1] *)
Definition h5_close (w : h5raw) : result file :=
  dor tn <- h5_read_s2 w K_treatment_names;
  dor td <- h5_read_n2 w K_treatment_doses;
  dor ti <- h5_read_n2 w K_treatment_ids;
  dor tmn <- h5_read_s1 w K_treatment_mapping_names;
  dor tmd <- h5_read_n1 w K_treatment_mapping_doses;
  dor tmi <- h5_read_n1 w K_treatment_mapping_ids;
  dor ob <- h5_read_n1 w K_observations;
  dor mk <- h5_read_b1 w K_observation_mask;
  dor si <- h5_read_n1 w K_sample_ids;
  dor sn <- h5_read_s1 w K_sample_names;
  dor smn <- h5_read_s1 w K_sample_mapping_names;
  dor smi <- h5_read_n1 w K_sample_mapping_ids;
  dor pi <- h5_read_n1 w K_plate_ids;
  dor pn <- h5_read_s1 w K_plate_names;
  dor c <- h5_attr w K_control_treatment_name;
  if Nat.eqb (fst td) (fst tn) && Nat.eqb (fst ti) (fst tn) then
    Ok {| f_arity := fst tn; f_tnames := snd tn; f_tdoses := snd td; f_tids := snd ti;
          f_tm_names := tmn; f_tm_doses := tmd; f_tm_ids := tmi; f_obs := ob; f_mask := mk;
          f_sids := si; f_snames := sn; f_sm_names := smn; f_sm_ids := smi; f_pids := pi; f_pnames := pn;
          f_ctrl := c |}
  else Err 32.
Definition h5_close_space (w : h5raw) : result sfile :=
  dor tn <- h5_read_s1 w K_treatment_names;
  dor td <- h5_read_n1 w K_treatment_doses;
  dor ti <- h5_read_n1 w K_treatment_ids;
  dor sn <- h5_read_s1 w K_sample_names;
  dor si <- h5_read_n1 w K_sample_ids;
  dor c <- h5_attr w K_control_treatment_name;
  Ok {| g_tnames := tn; g_tdoses := td; g_tids := ti; g_snames := sn; g_sids := si; g_ctrl := c |}.

(* a mapping as the tuple of its arrays *)
Definition tmap_arrays : Type := (list name * list Z * list Z)%type.
Definition smap_arrays : Type := (list name * list Z)%type.
Definition tmap_cols (m : tmapping) : tmap_arrays :=
  (map (fun e => fst (fst e)) m, map (fun e => snd (fst e)) m, map snd m).
Definition smap_cols (m : nmapping) : smap_arrays := (map fst m, map snd m).

(* attribute reads self.<name> of a Screen object: the columns of its rows / its id arrays / its mappings *)
Definition sc_tnames (s : screen) : h5_2d name := (s_arity s, map (fun r => map fst (r_treats r)) (s_rows s)).
Definition sc_tdoses (s : screen) : h5_2d Z := (s_arity s, map (fun r => map snd (r_treats r)) (s_rows s)).
Definition sc_tids (s : screen) : h5_2d Z := (s_arity s, s_tids s).
Definition sc_obs (s : screen) : list Z := map r_obs (s_rows s).
Definition sc_mask (s : screen) : list bool := map r_mask (s_rows s).
Definition sc_snames (s : screen) : list name := map r_sample (s_rows s).
Definition sc_pnames (s : screen) : list name := map r_plate (s_rows s).

(* Screen(treatment_names=, treatment_doses=, sample_names=, plate_names=, observations=, observation_mask=,
          control_treatment_name=, treatment_mapping=, sample_mapping=) on ARRAYS: row i is made of the i-th entries;
   arrays of different lengths / shapes are refused (tag 1); an argument that is not passed is None
   (control_treatment_name: the default ""); mapping id arrays read from a file have an integer dtype (header bullet 4) *)
Definition arrays_screen (tn : h5_2d name) (td : h5_2d Z) (sn pn : list name)
    (ob : option (list Z)) (mk : option (list bool)) (ctrl : option name)
    (tm : option tmap_arrays) (sm : option smap_arrays) : result screen :=
  let n := List.length sn in
  let obs := match ob with Some o => o | None => repeat 0 n end in             (* overwritten by mk_screen when not given *)
  let msk := match mk with Some m => m | None => repeat false n end in
  match (if Nat.eqb (fst td) (fst tn) then zip_rows sn pn (snd tn) (snd td) obs msk else None),
        match tm with Some (a, b, c) => option_map Some (zip_tmap a b c) | None => Some None end,
        match sm with Some (a, b) => option_map Some (zip_nmap a b) | None => Some None end with
  | Some rows, Some tmo, Some smo =>
      mk_screen rows (fst tn) (match ctrl with Some c => c | None => [] end)
                (option_map (fun m => (m, true)) tmo) (option_map (fun m => (m, true)) smo)
                (match ob with Some _ => true | None => false end) (match mk with Some _ => true | None => false end)
  | _, _, _ => Err 1
  end.

(* ExperimentSpace(treatment_mapping=, sample_mapping=, control_treatment_name=) on arrays: stores them *)
Definition arrays_space (tm : tmap_arrays) (sm : smap_arrays) (ctrl : name) : result space :=
  match zip_tmap (fst (fst tm)) (snd (fst tm)) (snd tm), zip_nmap (fst sm) (snd sm) with
  | Some t, Some s => Ok {| sp_tmap := t; sp_smap := s; sp_ctrl := ctrl |}
  | _, _ => Err 1
  end.

(* ---- the string codec helpers encode_string_array / decode_string_array (translated too) ----
   np.char.encode(a) / np.char.decode(a, "utf-8") work elementwise and are the identity on valid NUL-free strings
   (header bullet 2) - but on an array WITHOUT elements numpy returns an empty float64 array (of shape (0,) unless the
   first dimension is non-zero), which is not a string array and cannot be stored / decoded as one: tag 33.  (That was
   the defect repaired in /repo 81a412f; the helpers guard the call with `arr.size == 0`.)
   np.empty(a.shape, dtype=...) is an array of a's shape with unspecified content; where a has no elements it is THE
   array without elements of that shape, i.e. a itself as a value; elsewhere its content is not modelled: tag 34. *)
Definition arr1_empty {T : Type} (a : list T) : bool := match a with [] => true | _ :: _ => false end.        (* a.size == 0 *)
Definition arr2_empty {T : Type} (a : h5_2d T) : bool :=
  Nat.eqb (fst a) 0 || match snd a with [] => true | _ :: _ => false end.
Definition np_char_codec1 (a : list name) : result (list name) := if arr1_empty a then Err 33 else Ok a.
Definition np_char_codec2 (a : h5_2d name) : result (h5_2d name) := if arr2_empty a then Err 33 else Ok a.
Definition np_empty_like1 (a : list name) : result (list name) := if arr1_empty a then Ok a else Err 34.
Definition np_empty_like2 (a : h5_2d name) : result (h5_2d name) := if arr2_empty a then Ok a else Err 34.

(* ==== ExperimentSpace: the constructor and the query methods ====
   (harness/src_functions.py LS_SPACE_*, generated file Generated/SrcSpaceMethods.v, proofs Proofs/C01Source_Space*.v)
   An ExperimentSpace OBJECT is [pyspace]: its three instance attributes as Python stores them - the two mapping TUPLES of
   arrays (whatever their lengths: the constructor validates nothing) and the control name.  [pyspace_of] is the object
   from_screen / load_h5 build for a model [space] (the columns of its row lists).
   Doses are order keys (Model/Encode.v): the key of 0.0 and of -0.0 is 0, and numpy's == / setdiff1d / unique identify the two.
   Error tags (continuing the list above): 35 a boolean mask of another length than the array it indexes (numpy IndexError),
   36 `.item()` on an array that does not hold exactly one element (ValueError). *)
Definition pyspace : Type := (tmap_arrays * smap_arrays * name)%type.
Definition pysp_tmap (o : pyspace) : tmap_arrays := fst (fst o).                     (* o.treatment_mapping *)
Definition pysp_smap (o : pyspace) : smap_arrays := snd (fst o).                     (* o.sample_mapping *)
Definition pysp_ctrl (o : pyspace) : name := snd o.                                  (* o.control_treatment_name *)
Definition set_pysp_tmap (o : pyspace) (v : tmap_arrays) : pyspace := (v, pysp_smap o, pysp_ctrl o).
Definition set_pysp_smap (o : pyspace) (v : smap_arrays) : pyspace := (pysp_tmap o, v, pysp_ctrl o).
Definition set_pysp_ctrl (o : pyspace) (v : name) : pyspace := (pysp_tmap o, pysp_smap o, v).
(* object.__new__(ExperimentSpace): the instance before __init__ has set its attributes *)
Definition blank_pyspace : pyspace := (([], [], []), ([], []), []).
Definition pyspace_of (sp : space) : pyspace := (tmap_cols (sp_tmap sp), smap_cols (sp_smap sp), sp_ctrl sp).

(* ---- vocabulary: one numpy call each ---- *)
Definition arr_eq_name (a : list name) (v : name) : list bool := map (fun x => name_eqb x v) a.       (* a == v, a a str array *)
Definition arr_eq_id (a : list Z) (v : Z) : list bool := map (fun x => x =? v) a.                    (* a == v, a an int array *)
(* a[m], m a boolean mask: the elements where m is True, in order; IndexError (tag 35) unless m has a's length *)
Definition arr_mask {A} (a : list A) (m : list bool) : result (list A) :=
  if Nat.eqb (length m) (length a) then Ok (map snd (filter fst (combine m a))) else Err 35.
(* a.item(): the only element of an array of size 1, else ValueError (tag 36) *)
Definition arr_item {A} (a : list A) : result A := match a with [x] => Ok x | _ => Err 36 end.
(* np.setdiff1d(a, b) on str arrays: the sorted distinct values of a that are not in b *)
Definition setdiff1d_names (a b : list name) : list name :=
  sort_uniq name_cmp (filter (fun x => negb (existsb (name_eqb x) b)) a).

(* ---- models, over the row lists of [space] ---- *)
(* n_unique_treatment_types: the distinct treatment names other than the control name *)
Definition space_n_treatment_types (sp : space) : Z :=
  Z.of_nat (length (sort_uniq name_cmp (filter (fun n => negb (name_eqb n (sp_ctrl sp))) (map (fun e => fst (fst e)) (sp_tmap sp))))).
(* n_unique_doses: the distinct doses other than 0.0 *)
Definition space_n_doses (sp : space) : Z :=
  Z.of_nat (length (sort_uniq Z.compare (filter (fun d => negb (d =? 0)) (map (fun e => snd (fst e)) (sp_tmap sp))))).
(* the mapping rows of one treatment name *)
Definition space_rows_named (sp : space) (nm : name) : tmapping := filter (fun e => name_eqb (fst (fst e)) nm) (sp_tmap sp).
(* doses_for_treatment: that name's distinct non-zero doses, ascending *)
Definition space_doses_for_treatment (sp : space) (nm : name) : list Z :=
  sort_uniq Z.compare (filter (fun d => negb (d =? 0)) (map (fun e => snd (fst e)) (space_rows_named sp nm))).
(* treatment_ids_from_treatment_name: that name's distinct ids (the sentinel included, when a row of the name is a control), ascending *)
Definition space_treatment_ids_of_name (sp : space) (nm : name) : list Z :=
  sort_uniq Z.compare (map snd (space_rows_named sp nm)).
(* sample_id_from_sample_name / sample_name_from_sample_id: the id / name of the ONLY mapping row with that name / id; no row or
   several rows: `.item()` raises (tag 36) *)
Definition space_sample_id (sp : space) (nm : name) : result Z :=
  match filter (fun e => name_eqb (fst e) nm) (sp_smap sp) with [e] => Ok (snd e) | _ => Err 36 end.
Definition space_sample_name (sp : space) (i : Z) : result name :=
  match filter (fun e => snd e =? i) (sp_smap sp) with [e] => Ok (fst e) | _ => Err 36 end.
