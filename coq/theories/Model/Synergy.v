(* C20 model, part 2: batchie.data.create_single_treatment_effect_map /
   create_single_treatment_effect_array and batchie.synergy.calculate_synergy, transcribed
   statement by statement over exact rationals.  No proofs here.

   treatment_ids is an (n x arity) integer matrix = list of rows; [arity] is shape[1] and is
   passed explicitly (it is defined for a matrix with zero rows).  The wire decoder only
   admits rectangular matrices.  CONTROL_SENTINEL_VALUE = -1.

   Error tags: 1 ValueError (arity < 2, length mismatch in calculate_synergy, strict mode,
   np.array of a ragged list of id arrays), 4 IndexError (boolean mask of the wrong length),
   5 KeyError (effect array: a (sample, treatment) without single-agent measurement). *)
From Coq Require Import ZArith List QArith Qcanon.
From Batchie Require Import Lib.Sexp Lib.Num Model.Metrics.
Import ListNotations.
Open Scope Qc_scope.

Definition CONTROL : Z := (-1)%Z.
Definition E_INDEX : Z := 4%Z.
Definition E_KEY : Z := 5%Z.

Definition is_control (t : Z) : bool := (t =? CONTROL)%Z.

(* np.sum(treatment_ids == CONTROL, axis=1) == shape[1] - 1 *)
Definition n_control (row : list Z) : nat := length (filter is_control row).
Definition single_mask (arity : nat) (tids : list (list Z)) : list bool :=
  map (fun row => Nat.eqb (n_control row) (arity - 1)) tids.

(* np.sort(row)[-1] : the largest entry (arity >= 2, so the row is not empty) *)
Definition row_max (row : list Z) : Z :=
  match row with [] => CONTROL | x :: r => fold_left Z.max r x end.

Definition qprod (l : list Qc) : Qc := fold_right Qcmult 1 l.

Definition effect_map_t : Type := list ((Z * Z) * Qc).

Definition map_lookup (m : effect_map_t) (s t : Z) : option Qc :=
  match find (fun kv => (fst (fst kv) =? s)%Z && (snd (fst kv) =? t)%Z) m with
  | Some kv => Some (snd kv)
  | None => None
  end.

(* create_single_treatment_effect_map; the dict in insertion order *)
Definition effect_map (arity : nat) (sids : list Z) (tids : list (list Z)) (obs : list Qc)
  : result effect_map_t :=
  if Nat.ltb arity 2 then Err E_VALUE
  else if negb (Nat.eqb (length obs) (length tids)) || negb (Nat.eqb (length sids) (length tids))
  then Err E_INDEX
  else
    let mask := single_mask arity tids in
    let s_obs := select mask obs in
    let s_trt := map row_max (select mask tids) in
    let s_sid := select mask sids in
    Ok (flat_map (fun s =>
          flat_map (fun t =>
            if is_control t then [((s, t), 1)]
            else
              let m := map (fun ts => (fst ts =? t)%Z && (snd ts =? s)%Z) (combine s_trt s_sid) in
              if existsb (fun b => b) m then [((s, t), qmean (select m s_obs))] else [])
            (sorted_unique (concat tids)))
          (sorted_unique sids)).

(* create_single_treatment_effect_array *)
Definition effect_array (arity : nat) (sids : list Z) (tids : list (list Z)) (obs : list Qc)
  : result (list (list Qc)) :=
  dor m <- effect_map arity sids tids obs;
  res_map_all (fun st =>
    res_map_all (fun t => match map_lookup m (fst st) t with Some v => Ok v | None => Err E_KEY end)
                (snd st))
    (combine sids tids).

Definition is_some {A} (o : option A) : bool := match o with Some _ => true | None => false end.
Definition somes {A} (l : list (option A)) : list A :=
  flat_map (fun o => match o with Some a => [a] | None => [] end) l.

(* the loop of calculate_synergy over the rows that are not single-agent rows *)
Fixpoint synergy_loop (strict : bool) (m : effect_map_t) (rows : list (Z * list Z * Qc))
  : result (list (Z * list Z * Qc)) :=
  match rows with
  | [] => Ok []
  | (s, row, o) :: rest =>
      let ids := filter (fun t => negb (is_control t)) row in
      let effs := map (map_lookup m s) ids in
      if forallb is_some effs then
        dor r <- synergy_loop strict m rest;
        Ok ((s, ids, qprod (somes effs) - o) :: r)
      else if strict then Err E_VALUE
      else synergy_loop strict m rest
  end.

Definition all_same_length {A} (l : list (list A)) : bool :=
  match l with [] => true | x :: r => forallb (fun y => Nat.eqb (length y) (length x)) r end.

Definition calculate_synergy (strict : bool) (arity : nat) (sids : list Z) (tids : list (list Z))
  (obs : list Qc) : result (list Z * list (list Z) * list Qc) :=
  if Nat.ltb arity 2 then Err E_VALUE
  else if negb (Nat.eqb (length sids) (length tids)) then Err E_VALUE
  else if negb (Nat.eqb (length sids) (length obs)) then Err E_VALUE
  else
    dor m <- effect_map arity sids tids obs;
    let multi := map negb (single_mask arity tids) in
    let rows := combine (combine (select multi sids) (select multi tids)) (select multi obs) in
    dor out <- synergy_loop strict m rows;
    let idss := map (fun r => snd (fst r)) out in
    if all_same_length idss
    then Ok (map (fun r => fst (fst r)) out, idss, map snd out)
    else Err E_VALUE.

(* ---- vocabulary of the source translations (harness/src_functions.py C20_*; Generated/SrcSynergy.v) ----
   The meaning of ONE numpy / library call each.  Arrays: a 1-d integer array is [list Z], a 2-d one the list of its
   rows (shape[1] is passed explicitly), bool arrays likewise, a float array is [list Qc] (exact values). *)
Definition q_one : Qc := 1.                                   (* the literal 1.0 *)
(* a == v / a != v, elementwise against a scalar *)
Definition np_eq1 (a : list Z) (v : Z) : list bool := map (fun x => (x =? v)%Z) a.
Definition np_ne1 (a : list Z) (v : Z) : list bool := map (fun x => negb (x =? v)%Z) a.
Definition np_eq2 (a : list (list Z)) (v : Z) : list (list bool) := map (fun r => np_eq1 r v) a.
(* np.sum(m, axis=1) of a 2-d bool array: the number of True per row *)
Definition np_sum_rows (m : list (list bool)) : list Z := map (fun r => Z.of_nat (length (filter (fun b => b) r))) m.
(* ~m *)
Definition np_not (m : list bool) : list bool := map negb m.
(* a & b on bool arrays of one length; unequal lengths (numpy: broadcast of a length-1 operand, else ValueError) are
   refused - the links prove the operands have one length wherever the source applies `&` *)
Definition np_and (a b : list bool) : result (list bool) :=
  if Nat.eqb (length a) (length b) then Ok (map (fun p => fst p && snd p) (combine a b)) else Err E_VALUE.
(* a[m] / a[m, :] with m a boolean mask over the first axis: IndexError unless the mask has the array's length *)
Definition np_select {A} (m : list bool) (a : list A) : result (list A) :=
  if Nat.eqb (length m) (length a) then Ok (select m a) else Err E_INDEX.
(* np.sort(a, axis=1) *)
Fixpoint zins (x : Z) (l : list Z) : list Z :=
  match l with [] => [x] | y :: r => if (x <=? y)%Z then x :: l else y :: zins x r end.
Definition zsort (l : list Z) : list Z := fold_right zins [] l.
Definition np_sort_rows (a : list (list Z)) : list (list Z) := map zsort a.
(* a[:, -1] on an (n x ncols) array: IndexError when there is no column *)
Definition np_last_col (ncols : nat) (a : list (list Z)) : result (list Z) :=
  if Nat.eqb ncols 0 then Err E_INDEX else Ok (map (fun r => last r CONTROL) a).
(* np.any(m) *)
Definition np_any (m : list bool) : bool := existsb (fun b => b) m.
(* np.mean(x) of a 1-d float array: NaN (Err E_NAN) when it is empty *)
Definition np_mean (x : list Qc) : result Qc := match x with [] => Err E_NAN | _ => Ok (qmean x) end.
(* zip(a, b, c) / zip(a, b): stops at the shortest *)
Definition zip3 {A B C} (a : list A) (b : list B) (c : list C) : list (A * B * C) := combine (combine a b) c.
(* np.array(list of 1-d integer arrays): ValueError unless they have one length (inhomogeneous shape) *)
Definition np_array_rows (l : list (list Z)) : result (list (list Z)) :=
  if all_same_length l then Ok l else Err E_VALUE.
(* np.ones_like(a, dtype=float) on a 2-d array *)
Definition np_ones_like (a : list (list Z)) : list (list Qc) := map (map (fun _ => q_one)) a.
