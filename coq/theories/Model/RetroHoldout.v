(* C11 model, part 2: the hold-out splits of batchie.retrospective
     create_plate_balanced_holdout_set_among_masked_plates -> [holdout_balanced]
     create_random_holdout                                 -> [holdout_random]
   The fraction is the exact rational value [num/den] of the Python float.  The code computes
   n = math.ceil(size * fraction) with a float product; the model either computes the exact
   ceiling ([counts] = None; the harness uses this mode for dyadic fractions, where the float
   product is exact) or takes Python's own n as an oracle input ([counts] = Some ...).
   rng.choice(indices, n, replace=False) answers are oracle inputs ([draw] stream); an answer
   whose length is not n is refused (tag 91) - numpy returns exactly n values.
   Both result screens are built with the parent's mappings, so only the plate-uniformity
   check of the constructor can fail ([construct]).  Tag 5: fraction outside [0,1].
   No proofs here. *)
From Coq Require Import ZArith List Bool Arith.
From Batchie Require Import Lib.Sexp Model.Encode Model.Screen Model.Retro.
Import ListNotations.
Open Scope nat_scope.

(* ceil(size * num / den) *)
Definition ceil_frac (size : nat) (num : Z) (den : positive) : Z :=
  ((Z.of_nat size * num + Zpos den - 1) / Zpos den)%Z.

(* plate.is_observed = np.all(mask[plate]) *)
Definition plate_observed (p : name) (rows : list row) : bool :=
  forallb r_mask (filter (in_plate p) rows).

Definition next_count (size : nat) (num : Z) (den : positive) (counts : option (list Z))
  : result (Z * option (list Z)) :=
  match counts with
  | None => Ok (ceil_frac size num den, None)
  | Some (c :: r) => Ok (c, Some r)
  | Some [] => Err 90%Z
  end.

Fixpoint ho_plates (n : nat) (num : Z) (den : positive) (rows : list row) (plates : list name)
         (counts : option (list Z)) (ds : list draw) (sel : bvec) : result (bvec * list draw) :=
  match plates with
  | [] => Ok (sel, ds)
  | p :: rest =>
      if plate_observed p rows then ho_plates n num den rows rest counts ds sel
      else
        dor c <- next_count (vcount (plate_vec p rows)) num den counts;
        let '(n_sample, counts') := c in
        dor d <- take_ints ds;
        let '(idx, ds') := d in
        if negb (Z.of_nat (length idx) =? n_sample)%Z then Err 91%Z
        else ho_plates n num den rows rest counts' ds' (vor sel (vof_idx n idx))
  end.

Definition split_by (sel : bvec) (rows : list row) : result (list row * list row) :=
  dor k <- construct (vselect (map negb sel) rows);
  dor h <- construct (map (set_mask true) (vselect sel rows));
  Ok (k, h).

Definition holdout_balanced (num : Z) (den : positive) (counts : option (list Z))
           (rows : list row) (ds : list draw) : result (list row * list row * list draw) :=
  if (num <? 0)%Z || (Zpos den <? num)%Z then Err 5%Z
  else
    let n := length rows in
    dor r <- ho_plates n num den rows (plate_names_of rows) counts ds (repeat false n);
    let '(sel, ds') := r in
    dor kh <- split_by sel rows;
    Ok (kh, ds').

Definition holdout_random (num : Z) (den : positive) (count : option Z)
           (rows : list row) (ds : list draw) : result (list row * list row * list draw) :=
  if (num <? 0)%Z || (Zpos den <? num)%Z then Err 5%Z
  else
    let n := length rows in
    let n_sample := match count with Some c => c | None => ceil_frac n num den end in
    dor d <- take_ints ds;
    let '(idx, ds') := d in
    if negb (Z.of_nat (length idx) =? n_sample)%Z then Err 91%Z
    else
      dor kh <- split_by (vof_idx n idx) rows;
      Ok (kh, ds').

(* ---- vocabulary of the source translation of create_plate_balanced_holdout_set_among_masked_plates
   (harness/src_functions.py -> Generated/SrcRetro.v); see the last section of Model/Retro.v ---- *)
(* np.arange(screen.size)[plate.selection_vector] *)
Definition vec_indices (v : bvec) : list nat := map fst (filter snd (enum_from 0 v)).
(* plate.is_observed = np.all(screen.observation_mask[plate.selection_vector]) *)
Definition vec_observed (v : bvec) (s : screen_t) : bool := forallb r_mask (vselect v s).
(* math.ceil(size * fraction): exact ceiling, or Python's own value from the oracle list (see the header) *)
Definition ceil_count (size : Z) (num : Z) (den : positive) (counts : option (list Z))
  : result (Z * option (list Z)) := next_count (Z.to_nat size) num den counts.
(* rng.choice(offered, n, replace=False): the recorded answer; numpy returns exactly n values *)
Definition choose (offered : list nat) (n : Z) (ds : list draw) : result (list nat * list draw) :=
  dor d <- take_ints ds;
  let '(idx, ds') := d in
  if negb (Z.of_nat (length idx) =? n)%Z then Err 91%Z else Ok (idx, ds').
(* selection_vector[indices] = True *)
Definition set_true (n : nat) (sel : bvec) (idx : list nat) : bvec := vor sel (vof_idx n idx).
(* Screen(<every column>[~sel], observation_mask = mask[~sel], the parent's mappings) *)
Definition screen_without (s : screen_t) (sel : bvec) : result screen_t := construct (vselect (map negb sel) s).
(* Screen(<every column>[sel], observation_mask = np.ones(count_nonzero(sel)), the parent's mappings) *)
Definition screen_observed_of (s : screen_t) (sel : bvec) : result screen_t :=
  construct (map (set_mask true) (vselect sel s)).
(* ---- vocabulary of the source translation of create_random_holdout (Generated/SrcRetroGen.v) ---- *)
(* math.ceil(screen.size * fraction): exact ceiling, or Python's own value [count] (see the header) *)
Definition ceil_size (s : screen_t) (num : Z) (den : positive) (count : option Z) : Z :=
  match count with Some c => c | None => ceil_frac (length s) num den end.
