(* C18 — randomised steps as programs that interact with a generator.

   A randomised step of batchie takes its inputs and a numpy Generator [rng] and, while it runs,
   issues draw requests ([rng.random()], [rng.choice(pool, k, replace=False)], ...) whose answers
   it consumes.  Here such a step is a resumption tree [prog]: either it is finished ([Ret]) or
   it asks one request and continues with a function of the answer ([Draw]).  Nothing else can
   enter a program: there is no global generator, no clock, no environment in the type.

     run  p answers    replays p on a recorded answer list (what the harness records by wrapping
                       the Generator); returns the output and the list of requests made.
     exec gen p s      runs p against a generator state machine gen : S -> Req -> Ans * S.
     own_only / from_global   two ways a world (own generator state, global generator state) can
                       serve a request: from the own component (what passing rng does) or from
                       the global component (what np.random.normal(...) does).

   Concrete programs (transcriptions; only the interaction skeleton and the part of the output
   that depends on the draws is modelled, the screens themselves are C11/C13 business):
     random_scorer_prog      scoring/rand.py RandomScorer.score:
                                 {k: rng.random() for k in plates.keys()}
     random_holdout_prog     retrospective.py create_random_holdout:
                                 rng.choice(np.arange(size), ceil(size*fraction), replace=False)
                                 selection_vector[indices] = True
     balanced_holdout_prog   retrospective.py create_plate_balanced_holdout_set_among_masked_plates:
                                 for plate in screen.plates: skip if observed, else
                                 rng.choice(plate_indices, ceil(plate.size*fraction), replace=False)
     dbal_subsample_prog     scoring/gaussian_dbal.py dbal_fast_gauss_scoring_vectorized:
                                 n = comb(n_thetas, 3); ValueError if 0;
                                 rng.choice(n, size=min(n, max_combos), replace=False)
   Abstracted: floats returned by rng.random() are order keys (Z); ceil(size*fraction) is taken
   over exact rationals (fraction = num/den, den > 0).
   Error tags: 1 = recorded answers exhausted; 4 = fewer than 3 thetas (ValueError). *)
From Coq Require Import ZArith List Bool.
From Batchie Require Import Lib.Sexp.
Import ListNotations.
Open Scope Z_scope.

Inductive prog (Req Ans Out : Type) : Type :=
| Ret (o : Out)
| Draw (r : Req) (k : Ans -> prog Req Ans Out).
Arguments Ret {Req Ans Out} o.
Arguments Draw {Req Ans Out} r k.

(* replay on recorded answers *)
Fixpoint run {Req Ans Out} (p : prog Req Ans Out) (answers : list Ans) : result (Out * list Req) :=
  match p with
  | Ret o => Ok (o, [])
  | Draw r k =>
      match answers with
      | [] => Err 1
      | a :: rest =>
          match run (k a) rest with
          | Ok (o, rs) => Ok (o, r :: rs)
          | Err t => Err t
          end
      end
  end.

(* execution against a generator state machine *)
Record outcome (Req Ans Out S : Type) : Type := mk_outcome {
  o_out : Out;
  o_reqs : list Req;
  o_answers : list Ans;
  o_final : S
}.
Arguments mk_outcome {Req Ans Out S}.
Arguments o_out {Req Ans Out S}.
Arguments o_reqs {Req Ans Out S}.
Arguments o_answers {Req Ans Out S}.
Arguments o_final {Req Ans Out S}.

Fixpoint exec {Req Ans Out S} (gen : S -> Req -> Ans * S) (p : prog Req Ans Out) (s : S)
  : outcome Req Ans Out S :=
  match p with
  | Ret o => mk_outcome o [] [] s
  | Draw r k =>
      let ga := gen s r in
      let rest := exec gen (k (fst ga)) (snd ga) in
      mk_outcome (o_out rest) (r :: o_reqs rest) (fst ga :: o_answers rest) (o_final rest)
  end.

(* a world = (state of the generator the step was given, state of the process-global generator) *)
Definition own_only {Req Ans S G} (gen : S -> Req -> Ans * S) (w : S * G) (r : Req) : Ans * (S * G) :=
  let ga := gen (fst w) r in (fst ga, (snd ga, snd w)).
Definition from_global {Req Ans S G} (ggen : G -> Req -> Ans * G) (w : S * G) (r : Req) : Ans * (S * G) :=
  let ga := ggen (snd w) r in (fst ga, (fst w, snd ga)).

(* sequencing with the same generator; loops *)
Fixpoint bind {Req Ans A B} (p : prog Req Ans A) (f : A -> prog Req Ans B) : prog Req Ans B :=
  match p with
  | Ret a => f a
  | Draw r k => Draw r (fun x => bind (k x) f)
  end.

Fixpoint for_each {Req Ans A B} (body : A -> prog Req Ans B) (l : list A) : prog Req Ans (list B) :=
  match l with
  | [] => Ret []
  | x :: r => bind (body x) (fun b => bind (for_each body r) (fun bs => Ret (b :: bs)))
  end.

(* ---------------------------------------------------------------- numpy requests used here *)
Inductive req : Type :=
| RRandom                                            (* rng.random() *)
| RChoice (pool : list Z) (k : Z) (replace : bool)   (* rng.choice(<array>, k, replace=...) *)
| RChoiceN (n : Z) (k : Z) (replace : bool)          (* rng.choice(<int n>, size=k, replace=...) *)
| RPermutation (pool : list Z).                      (* rng.permutation(<array>) *)
Definition ans := list Z.

Definition memZ (x : Z) (l : list Z) : bool := existsb (Z.eqb x) l.
Fixpoint nodupZ (l : list Z) : bool :=
  match l with [] => true | x :: r => negb (memZ x r) && nodupZ r end.
Definition KEY_ONE : Z := 4607182418800017408.   (* order key of the double 1.0 *)
Definition countZ (x : Z) (l : list Z) : nat := length (filter (Z.eqb x) l).
(* same elements with the same multiplicities *)
Definition is_permZ (a pool : list Z) : bool :=
  Nat.eqb (length a) (length pool) && forallb (fun x => Nat.eqb (countZ x a) (countZ x pool)) pool.

(* the numpy contract of each request, checked on every recorded answer *)
Definition valid_answer (r : req) (a : ans) : bool :=
  match r with
  | RRandom => match a with [z] => (0 <=? z) && (z <? KEY_ONE) | _ => false end
  | RChoice pool k rep =>
      (Z.of_nat (length a) =? k) && forallb (fun x => memZ x pool) a && (rep || nodupZ a)
  | RChoiceN n k rep =>
      (Z.of_nat (length a) =? k) && forallb (fun x => (0 <=? x) && (x <? n)) a && (rep || nodupZ a)
  | RPermutation pool => is_permZ a pool
  end.
Fixpoint answers_ok (rs : list req) (al : list ans) : bool :=
  match rs, al with
  | [], [] => true
  | r :: rs', a :: al' => valid_answer r a && answers_ok rs' al'
  | _, _ => false
  end.

Definition zrange (n : Z) : list Z := map Z.of_nat (seq 0 (Z.to_nat n)).
Definition zlen {A} (l : list A) : Z := Z.of_nat (length l).
(* ceil(size * num / den), den > 0 *)
Definition ceil_frac (size num den : Z) : Z := - ((- (size * num)) / den).
(* indices set to True by selection_vector[chosen] = True, in row order *)
Definition held_of (size : Z) (chosen : list Z) : list Z := filter (fun i => memZ i chosen) (zrange size).

(* ---------------------------------------------------------------- mirrored operations *)
Definition random_scorer_body (pid : Z) : prog req ans (Z * Z) :=
  Draw RRandom (fun a => Ret (pid, hd 0 a)).
Definition random_scorer_prog (plates : list Z) : prog req ans (list (Z * Z)) :=
  for_each random_scorer_body plates.

Definition random_holdout_prog (size num den : Z) : prog req ans (list Z) :=
  Draw (RChoice (zrange size) (ceil_frac size num den) false) (fun a => Ret (held_of size a)).

Definition balanced_holdout_req (num den : Z) (pl : list Z * bool) : req :=
  RChoice (fst pl) (ceil_frac (zlen (fst pl)) num den) false.
Definition balanced_holdout_body (num den : Z) (pl : list Z * bool) : prog req ans (list Z) :=
  if snd pl then Ret [] else Draw (balanced_holdout_req num den pl) (fun a => Ret a).
Definition balanced_holdout_prog (plates : list (list Z * bool)) (num den : Z) : prog req ans (list Z) :=
  bind (for_each (balanced_holdout_body num den) plates)
       (fun chosen => Ret (held_of (zlen (concat (map fst plates))) (concat chosen))).

Definition binom3 (n : Z) : Z := if n <? 3 then 0 else n * (n - 1) * (n - 2) / 6.
Definition dbal_subsample_prog (n_thetas max_combos : Z) : prog req ans (result (list Z)) :=
  let c := binom3 n_thetas in
  if c =? 0 then Ret (Err 4)
  else Draw (RChoiceN c (Z.min c max_combos) false) (fun a => Ret (Ok a)).

(* ---------------------------------------------------------------- vocabulary of the source translations
   (harness/src_functions.py C18_* -> Generated/SrcRand.v, by harness/py2gal.py with cfg["monad"]).
   A translated function denotes a program of the SAME resumption type whose output is a `result`
   (a Python exception = the program ends with Ret (Err tag)).  The only way such a term can obtain
   randomness is a [Draw]: the primitives below that contain one are the calls on the function's OWN
   generator argument; no other primitive of a configuration contains a request. *)
Definition rprog (Out : Type) : Type := prog req ans (result Out).
Definition rp_ret {A : Type} (a : A) : rprog A := Ret (Ok a).
Definition rp_raise {A : Type} (tag : Z) : rprog A := Ret (Err tag).
Definition rp_bind {A B : Type} (p : rprog A) (f : A -> rprog B) : rprog B :=
  bind p (fun r => match r with Ok a => f a | Err t => Ret (Err t) end).
Notation "'dop' x <- e ; k" := (rp_bind e (fun x => k))
  (at level 200, x pattern, e at level 100, k at level 200, right associativity).
(* a for loop: the state is threaded left to right; an exception or a request in the body is the loop's *)
Fixpoint rp_fold {S A : Type} (f : S -> A -> rprog S) (l : list A) (s : S) : rprog S :=
  match l with
  | [] => rp_ret s
  | a :: r => dop s' <- f s a; rp_fold f r s'
  end.
Definition rp_unwrap {A : Type} (o : option A) : rprog A :=
  match o with Some a => rp_ret a | None => rp_raise 99 end.
(* a library call that may raise but makes no request *)
Definition rp_lift {A : Type} (r : result A) : rprog A := Ret r.

(* the calls on the generator argument *)
Definition rp_draw (r : req) : rprog ans := Draw r (fun a => Ret (Ok a)).
(* rng.random(): the answer [z] stands for the double with order key z *)
Definition rp_random : rprog Z := Draw RRandom (fun a => Ret (Ok (hd 0 a))).
(* rng.choice(<array>, k, replace=False) *)
Definition rp_choice (pool : list Z) (k : Z) : rprog (list Z) := rp_draw (RChoice pool k false).
(* rng.choice(<int n>, size=k, replace=False) *)
Definition rp_choice_n (n k : Z) : rprog (list Z) := rp_draw (RChoiceN n k false).

(* boolean selection vectors over the rows 0..n-1 *)
(* np.zeros(n, dtype=bool) *)
Definition mask_zeros (n : Z) : list bool := repeat false (Z.to_nat n).
(* sel[idx] = True with an integer index array: every index must lie in -n..n-1 (otherwise IndexError, tag 98,
   and nothing is written); a negative index counts from the end; repeated indices are harmless *)
Definition wrap_index (n i : Z) : Z := if i <? 0 then i + n else i.
Definition mask_set_true (sel : list bool) (idx : list Z) : result (list bool) :=
  let n := zlen sel in
  if forallb (fun i => (- n <=? i) && (i <? n)) idx
  then Ok (map (fun jb : Z * bool => snd jb || memZ (fst jb) (map (wrap_index n) idx)) (combine (zrange n) sel))
  else Err 98.
(* a plate as the hold-out split sees it: (np.arange(screen.size)[plate.selection_vector], plate.is_observed) *)
Definition plate_t : Type := (list Z * bool)%type.

(* representation maps of the linking theorems (Proofs/C18Source.v) *)
(* the hand-written programs return a plain value; the translation returns Ok of it *)
Definition lift_ok {A : Type} (p : prog req ans A) : rprog A := bind p (fun a => Ret (Ok a)).
(* the selection vector whose true positions are [held] *)
Definition mask_of (size : Z) (held : list Z) : list bool := map (fun i => memZ i held) (zrange size).
(* what both hold-out functions do after the draws: the two Screen(...) constructions, for ANY meaning
   [mk_keep] / [mk_hold] of those constructor calls as functions of the screen and the selection vector *)
Definition holdout_finish {Scr : Type} (mk_keep mk_hold : Scr -> list bool -> result Scr) (screen : Scr) (sel : list bool)
  : result (Scr * Scr) :=
  dor k <- mk_keep screen sel; dor h <- mk_hold screen sel; Ok (k, h).

(* equality of programs up to the continuations' values on the answers [okA] admits (no functional
   extensionality is assumed): same requests in the same order, same outputs *)
Inductive prog_eq_on {Req Ans Out : Type} (okA : Req -> Ans -> bool) : prog Req Ans Out -> prog Req Ans Out -> Prop :=
| peq_ret : forall o, prog_eq_on okA (Ret o) (Ret o)
| peq_draw : forall r k k', (forall a, okA r a = true -> prog_eq_on okA (k a) (k' a)) ->
                            prog_eq_on okA (Draw r k) (Draw r k').
Definition any_answer {Req Ans : Type} (_ : Req) (_ : Ans) : bool := true.
(* every answer of a run satisfied the contract of its request (generic form of [answers_ok]) *)
Fixpoint all_ok {Req Ans : Type} (okA : Req -> Ans -> bool) (rs : list Req) (al : list Ans) : bool :=
  match rs, al with
  | [], _ => true
  | r :: rs', a :: al' => okA r a && all_ok okA rs' al'
  | _ :: _, [] => false
  end.

(* ---------------------------------------------------------------- FixedSizeSmoother / OptimalSizeSmoother
   retrospective.py FixedSizeSmoother._smooth_plates, OptimalSizeSmoother._smooth_plates: a plate is its boolean
   selection vector over the rows of the screen (all of length screen.size):
       for plate in screen.plates:   size < t: dropped | size == t: kept |
                                     size > t: rng.choice(np.arange(screen.size)[plate.selection_vector], t, replace=False),
                                               replaced by np.isin(np.arange(screen.size), chosen)
       final = OR of the kept vectors;  screen.subset(final).to_screen()
   (a request numpy rejects - t < 0 - raises in Python; it has no valid answer in the sense of [valid_answer]) *)
(* np.arange(n)[v] *)
Definition positions_of (n : Z) (v : list bool) : list Z :=
  map fst (filter (fun jb : Z * bool => snd jb) (combine (zrange n) v)).
(* Plate.size = np.count_nonzero(selection_vector) *)
Definition count_true (v : list bool) : Z := zlen (filter (fun b : bool => b) v).
(* a | b on boolean vectors of equal length *)
Definition bor_mask (a b : list bool) : list bool := map (fun ab : bool * bool => fst ab || snd ab) (combine a b).

Definition size_smoother_body (size t : Z) (v : list bool) : prog req ans (list (list bool)) :=
  if count_true v <? t then Ret []
  else if count_true v =? t then Ret [v]
  else Draw (RChoice (positions_of size v) t false) (fun a => Ret [mask_of size a]).
Definition size_smoother_prog (plates : list (list bool)) (size t : Z) : prog req ans (list bool) :=
  bind (for_each (size_smoother_body size t) plates)
       (fun kept => Ret (fold_left bor_mask (concat kept) (mask_zeros size))).
Definition size_smoother_req (size t : Z) (v : list bool) : req := RChoice (positions_of size v) t false.

(* ---------------------------------------------------------------- PlatePermutationPlateGenerator / SampleSegregatingPermutationPlateGenerator
   retrospective.py PlatePermutationPlateGenerator._generate_plates: the plate names (integers here) of the rows that are
   not force-included are permuted by ONE rng.permutation(to_permute.plate_names); everything else is request-free. *)
(* rng.permutation(<array>) *)
Definition rp_permutation (pool : list Z) : rprog (list Z) := rp_draw (RPermutation pool).
Definition plate_permutation_prog (names : list Z) : prog req ans (list Z) := Draw (RPermutation names) (fun a => Ret a).
(* np.ones(n, dtype=bool) *)
Definition mask_ones (n : Z) : list bool := repeat true (Z.to_nat n).
(* the selection vector of the rows to permute: ~np.isin(plate_names, force) if force is a non-empty list, else all rows *)
Definition pp_selection (force : option (list Z)) (names : list Z) (size : Z) : list bool :=
  match force with
  | Some (x :: l) => map (fun n => negb (memZ n (x :: l))) names
  | _ => mask_ones size
  end.
(* what the method does around its single request, for ANY meaning of screen.subset(v).to_screen() [mk_subset], of the
   Screen(...) construction with the new names [mk_renamed] and of a.combine(b) [mk_combine] *)
Definition pp_split {Scr : Type} (mk_subset : Scr -> list bool -> result Scr) (screen : Scr) (sv : list bool)
  : result (Scr * option Scr) :=
  if existsb negb sv
  then dor tp <- mk_subset screen sv; dor np <- mk_subset screen (map negb sv); Ok (tp, Some np)
  else dor tp <- mk_subset screen sv; Ok (tp, None).
Definition pp_finish {Scr : Type} (mk_renamed : Scr -> list Z -> result Scr) (mk_combine : Scr -> Scr -> result Scr)
           (tp : Scr) (np : option Scr) (new_names : list Z) : result Scr :=
  dor p <- mk_renamed tp new_names;
  match np with Some n => mk_combine p n | None => Ok p end.

(* retrospective.py SampleSegregatingPermutationPlateGenerator._generate_plates: per sample, in the order of
   screen.unique_sample_ids, the rows of the sample form one plate if there are at most max_plate_size of them, else they
   are permuted by ONE rng.permutation(rows) and np.array_split into ceil(len / max_plate_size) plates; then row i is
   labelled with the number of the (last) plate that contains it. *)
(* math.ceil(a / float(b)): ZeroDivisionError (tag 94) for b = 0; exact for the sizes of a screen *)
Definition ceil_div_float (a b : Z) : result Z := if b =? 0 then Err 94 else Ok (- ((- a) / b)).
(* np.array_split(l, n): ValueError (tag 95) unless n > 0; the first len % n parts have one element more *)
Definition split_start (q r j : nat) : nat := (j * q + Nat.min j r)%nat.
Definition array_split_z (l : list Z) (n : Z) : result (list (list Z)) :=
  if n <=? 0 then Err 95
  else
    let k := Z.to_nat n in
    let q := (length l / k)%nat in
    let r := (length l mod k)%nat in
    Ok (map (fun j => firstn (split_start q r (S j) - split_start q r j) (skipn (split_start q r j) l)) (seq 0 k)).
(* plate_names = np.array([""] * n, dtype=object): the label -1 stands for "" *)
Definition labels_blank (n : Z) : list Z := repeat (-1) (Z.to_nat n).
(* plate_names[indices] = f"generated_plate_{k}" with an integer index array: IndexError (tag 98) outside -n..n-1 *)
Definition label_set (labels : list Z) (idx : list Z) (k : Z) : result (list Z) :=
  let n := zlen labels in
  if forallb (fun i => (- n <=? i) && (i <? n)) idx
  then Ok (map (fun jl : Z * Z => if memZ (fst jl) (map (wrap_index n) idx) then k else snd jl) (combine (zrange n) labels))
  else Err 98.
Definition enumerate_zz {A : Type} (l : list A) : list (Z * A) := combine (zrange (zlen l)) l.
(* the labelling loop as a function: for k, indices in enumerate(plates): labels[indices] = k *)
Fixpoint label_all (labels : list Z) (kps : list (Z * list Z)) : result (list Z) :=
  match kps with
  | [] => Ok labels
  | (k, idx) :: rest => dor l <- label_set labels idx k; label_all l rest
  end.
Definition sample_seg_body (mx : Z) (g : list Z) : prog req ans (result (list (list Z))) :=
  if zlen g >? mx then
    match ceil_div_float (zlen g) mx with
    | Err e => Ret (Err e)
    | Ok n => Draw (RPermutation g) (fun a => Ret (array_split_z a n))
    end
  else Ret (Ok [g]).
(* the plates' row lists, in creation order; a raising library call inside the loop ends it *)
Fixpoint sample_seg_plates (mx : Z) (groups : list (list Z)) : prog req ans (result (list (list Z))) :=
  match groups with
  | [] => Ret (Ok [])
  | g :: rest =>
      bind (sample_seg_body mx g) (fun r =>
        match r with
        | Err e => Ret (Err e)
        | Ok ps => bind (sample_seg_plates mx rest) (fun r2 => Ret (match r2 with Ok qs => Ok (ps ++ qs) | Err e => Err e end))
        end)
  end.
(* output: the label (plate number) of every row *)
Definition sample_seg_prog (groups : list (list Z)) (size mx : Z) : prog req ans (result (list Z)) :=
  bind (sample_seg_plates mx groups)
       (fun r => Ret (match r with Ok ps => label_all (labels_blank size) (enumerate_zz ps) | Err e => Err e end)).
