(* C15 model: batchie.scoring.gaussian_dbal.generate_combination_at_sorted_index,
   transcribed statement by statement over unbounded Z (Python ints are unbounded;
   Coq's Z.div / Z.modulo are floor division / modulo with the sign of the divisor,
   exactly Python's // and %).  No proofs here.
   Error tags: 8 ZeroDivisionError (n_ck //= n with n = 0), 9 fuel exhausted (never
   reached: the inner loop decrements n and stops with tag 8 when n hits 0). *)
From Coq Require Import ZArith List.
From Batchie Require Import Lib.Sexp.
Import ListNotations.
Open Scope Z_scope.

(* n_ck = 1; for (n_minus_i, i_plus_1) in zip(range(n, n-k, -1), range(1, k+1)):
       n_ck *= n_minus_i; n_ck //= i_plus_1 *)
Definition init_nck (n : Z) (k : nat) : Z :=
  fold_left (fun acc i => (acc * (n - Z.of_nat i + 1)) / Z.of_nat i) (seq 1 k) 1.

(* while current_index - n_ck > index:
       current_index -= n_ck; n_ck *= n - k; n_ck -= n_ck % k; n -= 1; n_ck //= n *)
Fixpoint unrank_inner (fuel : nat) (index k cur nck n : Z) : result (Z * Z * Z) :=
  if cur - nck >? index then
    match fuel with
    | O => Err 9
    | S f =>
        let cur := cur - nck in
        let nck := nck * (n - k) in
        let nck := nck - nck mod k in
        let n := n - 1 in
        if n =? 0 then Err 8
        else unrank_inner f index k cur (nck / n) n
    end
  else Ok (cur, nck, n).

(* for k in range(k, 0, -1): n_ck *= k; n_ck //= n; <while>; n -= 1; yield n *)
Fixpoint unrank_outer (index : Z) (ks : list Z) (cur nck n : Z) : result (list Z) :=
  match ks with
  | [] => Ok []
  | k :: ks' =>
      let nck := nck * k in
      if n =? 0 then Err 8
      else
        let nck := nck / n in
        dor st <- unrank_inner (S (Z.to_nat n)) index k cur nck n;
        let '(cur, nck, n) := st in
        let n := n - 1 in
        dor rest <- unrank_outer index ks' cur nck n;
        Ok (n :: rest)
  end.

(* range(k, 0, -1) *)
Definition krange (k : nat) : list Z := map Z.of_nat (rev (seq 1 k)).

Definition unrank (index n : Z) (k : nat) : result (list Z) :=
  let nck := init_nck n k in
  unrank_outer index (krange k) nck nck n.

(* ---- vocabulary of the source-translation link (harness/src_functions.py, entries C15_GENERATE and C15_GET): the two builtin range calls the
   function makes, as the lists they iterate.  (zip(a, b) is List.combine: pairs up to the shorter argument.) *)
(* range(a, b) = a, a+1, ..., b-1 (empty when b <= a) *)
Definition range_up (a b : Z) : list Z := map (fun i => a + Z.of_nat i) (seq 0 (Z.to_nat (b - a))).
(* range(a, b, -1) = a, a-1, ..., b+1 (empty when a <= b) *)
Definition range_down (a b : Z) : list Z := map (fun i => a - Z.of_nat i) (seq 0 (Z.to_nat (a - b))).
