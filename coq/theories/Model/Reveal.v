(* C03 / C12 model, part 1: the operations of the simulation lifecycle on a screen.
   Transcribes, each AS THE CODE CONSTRUCTS THE NEW Screen (which keyword arguments the call
   site passes to Screen(...)):
     batchie.retrospective.mask_screen      Screen(names, doses, observations, sample_names, plate_names, control,
                                                   observation_mask = zeros)          -- NO mappings today
     batchie.retrospective.unmask_screen    same with observation_mask = ones          -- NO mappings today
     batchie.retrospective.reveal_plates    reveal_mask = isin(screen.plate_ids, plate_ids); guards on
                                            screen.observations[reveal_mask] (all == 0, incl. the empty
                                            selection since np.all([]) is True  ->  ValueError; then, PER
                                            selected plate (np.unique(screen.plate_ids[reveal_mask])), all of
                                            that plate's values == 0 -> the same ValueError [fix fx5]; any NaN
                                            -> ValueError); Screen(..., observation_mask = old | reveal_mask)
                                                                                       -- NO mappings today
     batchie.data.Screen.save_h5 / load_h5  load_h5 calls Screen(...) with the stored rows, observations,
                                            observation_mask AND the stored treatment_mapping / sample_mapping
     batchie.data.Screen.set_observed       in-place: _observations[sel] = values; _observation_mask[sel] = True
                                            (no constructor call, no plate check)
     batchie.cli.extract_screen_metadata    plate counters (loop over screen.plates, Plate.is_observed)
   reveal_plates takes ONE screen (the partially masked screen, which carries the real observation values in
   its observation array); the plate ids it selects by are that screen's own plate_ids, i.e. the rank of the
   plate name among the plate names occurring in THAT screen (plate ids are re-derived from the names on
   every construction; they are not carried by any mapping argument).
   [variant] says, per function, whether the call site passes the parent's treatment_mapping /
   sample_mapping.  [carry_mappings false] is the code as it stands; [carry_mappings true] is the
   repaired construction.
   Abstracted: HDF5 storage itself (dataset write -> read returns the same array; that is C02's subject);
   mapping id arrays of an existing Screen have an integer dtype (hence the flag [true]).
   Error tags (continuing Model/Encode.v): 8 all revealed values zero (or none selected) or a selected plate all zero, 9 NaN among
   revealed values, 10 selection length <> size, 11 value count does not fit the selection.
   No proofs here. *)
From Coq Require Import ZArith List Bool.
From Batchie Require Import Lib.Sexp Generated.Consts Model.Encode Model.Screen.
Import ListNotations.
Open Scope Z_scope.

Record variant := { carry_reveal : bool; carry_mask : bool; carry_unmask : bool }.
Definition carry_mappings (b : bool) : variant :=
  {| carry_reveal := b; carry_mask := b; carry_unmask := b |}.

Definition with_mask (b : bool) (r : row) : row :=
  {| r_sample := r_sample r; r_plate := r_plate r; r_treats := r_treats r; r_obs := r_obs r; r_mask := b |}.
Definition with_obs (o : Z) (r : row) : row :=
  {| r_sample := r_sample r; r_plate := r_plate r; r_treats := r_treats r; r_obs := o; r_mask := true |}.

(* the mapping arguments a call site passes *)
Definition tmap_arg (carry : bool) (s : screen) : option (tmapping * bool) :=
  if carry then Some (s_tmap s, true) else None.
Definition smap_arg (carry : bool) (s : screen) : option (nmapping * bool) :=
  if carry then Some (s_smap s, true) else None.

(* arr[bool_vector] *)
Fixpoint select {A} (sel : list bool) (l : list A) : list A :=
  match sel, l with
  | b :: sel', a :: l' => if b then a :: select sel' l' else select sel' l'
  | _, _ => []
  end.

Definition mem_Z (x : Z) (l : list Z) : bool := existsb (Z.eqb x) l.

(* Screen(..., observations = screen.observations, observation_mask = <masks>, [mappings]) *)
Definition rebuild (carry : bool) (s : screen) (rows : list row) : result screen :=
  mk_screen rows (s_arity s) (s_ctrl s) (tmap_arg carry s) (smap_arg carry s) true true.

Definition mask_screen (v : variant) (s : screen) : result screen :=
  rebuild (carry_mask v) s (map (with_mask false) (s_rows s)).

Definition unmask_screen (v : variant) (s : screen) : result screen :=
  rebuild (carry_unmask v) s (map (with_mask true) (s_rows s)).

(* np.isin(screen.plate_ids, plate_ids) *)
Definition reveal_sel (s : screen) (ids : list Z) : list bool :=
  map (fun pid => mem_Z pid ids) (s_pids s).
(* screen.observations[reveal_mask] *)
Definition revealed_values (s : screen) (ids : list Z) : list Z :=
  map r_obs (select (reveal_sel s ids) (s_rows s)).
(* observation_mask | reveal_mask *)
Definition reveal_rows (s : screen) (ids : list Z) : list row :=
  map (fun rb => with_mask (r_mask (fst rb) || snd rb) (fst rb)) (combine (s_rows s) (reveal_sel s ids)).

(* screen.observations[screen.plate_ids == pid]: the stored values of ONE plate *)
Definition plate_values (s : screen) (pid : Z) : list Z :=
  map r_obs (select (map (fun p => p =? pid) (s_pids s)) (s_rows s)).
(* np.unique(screen.plate_ids[reveal_mask]): the plates of the screen that the ids name, each once, ascending *)
Definition revealed_plate_ids (s : screen) (ids : list Z) : list Z :=
  sort_uniq Z.compare (select (reveal_sel s ids) (s_pids s)).
(* the zero guard of the code as repaired (fix fx5): nothing selected / all selected values zero (the joint test, kept: it
   is what refuses the empty selection), or SOME selected plate whose own stored values are all zero *)
Definition reveal_zero_guard (s : screen) (ids : list Z) : bool :=
  forallb obs_is_zero (revealed_values s ids)
  || existsb (fun pid => forallb obs_is_zero (plate_values s pid)) (revealed_plate_ids s ids).

Definition reveal_plates (v : variant) (s : screen) (ids : list Z) : result screen :=
  if reveal_zero_guard s ids then Err 8
  else if existsb obs_is_nan (revealed_values s ids) then Err 9
  else rebuild (carry_reveal v) s (reveal_rows s ids).

(* the code BEFORE fix fx5: the zero guard looked at the union of the selected rows only, so an all-zero plate named
   together with a plate holding a non-zero value was revealed.  Kept only as the subject of
   C12_reveal_refuses_zero_per_plate_refuted; nothing else mentions it. *)
Definition reveal_plates_joint (v : variant) (s : screen) (ids : list Z) : result screen :=
  if forallb obs_is_zero (revealed_values s ids) then Err 8
  else if existsb obs_is_nan (revealed_values s ids) then Err 9
  else rebuild (carry_reveal v) s (reveal_rows s ids).

(* save_h5 followed by load_h5 *)
Definition save_load (s : screen) : result screen :=
  mk_screen (s_rows s) (s_arity s) (s_ctrl s) (Some (s_tmap s, true)) (Some (s_smap s, true)) true true.

(* ---- the lifecycle operations and a history ---- *)
Inductive op := Reveal (ids : list Z) | Mask | Unmask | SaveLoad.

Definition step (v : variant) (s : screen) (o : op) : result screen :=
  match o with
  | Reveal ids => reveal_plates v s ids
  | Mask => mask_screen v s
  | Unmask => unmask_screen v s
  | SaveLoad => save_load s
  end.

(* fold_left step ops s0 in the result monad: the first refusal ends the history *)
Definition history (v : variant) (ops : list op) (s0 : screen) : result screen :=
  fold_left (fun acc o => dor s <- acc; step v s o) ops (Ok s0).

(* ---- Screen.set_observed(selection_mask, observations): numpy boolean-mask assignment ---- *)
Fixpoint assign (sel : list bool) (vals : list Z) (rows : list row) : list row :=
  match sel, rows with
  | b :: sel', r :: rows' =>
      if b then
        match vals with
        | x :: vals' => with_obs x r :: assign sel' vals' rows'
        | [] => r :: assign sel' [] rows'
        end
      else r :: assign sel' vals rows'
  | _, _ => rows
  end.

Definition count_true (sel : list bool) : nat := length (filter (fun b => b) sel).

Definition set_observed (s : screen) (sel : list bool) (vals : list Z) : result screen :=
  if negb (Nat.eqb (length sel) (length (s_rows s))) then Err 10
  else
    let k := count_true sel in
    let vals' :=
      if Nat.eqb (length vals) k then Some vals
      else match vals with [x] => Some (repeat x k) | _ => None end in       (* broadcasting of one value *)
    match vals' with
    | None => Err 11
    | Some vs =>
        Ok {| s_rows := assign sel vs (s_rows s); s_arity := s_arity s; s_ctrl := s_ctrl s;
              s_tmap := s_tmap s; s_smap := s_smap s; s_pmap := s_pmap s;
              s_tids := s_tids s; s_sids := s_sids s; s_pids := s_pids s |}
    end.

(* ---- extract_screen_metadata: counters over screen.plates ---- *)
Definition unique_plate_ids (s : screen) : list Z := sort_uniq Z.compare (s_pids s).
(* Plate.is_observed = np.all(observation_mask[plate_ids == pid]) *)
Definition plate_observed (s : screen) (pid : Z) : bool :=
  forallb (fun rp => negb (snd rp =? pid) || r_mask (fst rp)) (combine (s_rows s) (s_pids s)).
Definition n_plates (s : screen) : nat := length (unique_plate_ids s).
Definition n_unobserved_plates (s : screen) : nat :=
  length (filter (fun pid => negb (plate_observed s pid)) (unique_plate_ids s)).
Definition n_observed_plates (s : screen) : nat :=
  length (filter (plate_observed s) (unique_plate_ids s)).
(* the plates a reveal newly observes: distinct plate ids of the screen that are named in [ids]
   and were not observed before *)
Definition newly_revealed (s : screen) (ids : list Z) : list Z :=
  filter (fun pid => negb (plate_observed s pid) && mem_Z pid ids) (unique_plate_ids s).
(* Screen.n_unique_samples / n_unique_treatments (of the rows, not of the experiment space) *)
Definition n_unique_samples_rows (s : screen) : nat := length (sort_uniq Z.compare (s_sids s)).
Definition n_unique_treatments_rows (s : screen) : nat :=
  length (sort_uniq Z.compare
            (filter (fun i => negb (i =? CONTROL_SENTINEL_VALUE)) (concat (s_tids s)))).

(* ==== vocabulary of the source-translation link for C12 / C03 ====
   (harness/src_functions.py C12_*, generated file Generated/SrcReveal.v, proofs Proofs/C12Source.v)
   A Python Screen object is a [screen].  Its array attributes are the COLUMNS of its rows, one entry per
   experiment; a 2-d array carries its second dimension (so that an empty screen still has an arity).
   Observation arrays are float64 bit patterns (Model/Screen.v).  The numpy calls below have their list
   meaning for arrays of equal length, which is the invariant of the arrays of one Screen object (its
   constructor refuses anything else: "All arrays must have the same number of experiments"); on lists of
   different lengths - where numpy raises - zip_rows / np_or / select stop at the shorter one. *)
Definition names2d := (nat * list (list name))%type.      (* treatment_names: (shape[1], rows) *)
Definition doses2d := (nat * list (list Z))%type.         (* treatment_doses: dose keys *)
Definition tmap_t := (tmapping * bool)%type.              (* a treatment_mapping argument with the flag "its id array has an integer dtype" *)
Definition smap_t := (nmapping * bool)%type.

(* attribute reads screen.<name> *)
Definition col_tnames (s : screen) : names2d := (s_arity s, map (fun r => map fst (r_treats r)) (s_rows s)).
Definition col_tdoses (s : screen) : doses2d := (s_arity s, map (fun r => map snd (r_treats r)) (s_rows s)).
Definition col_samples (s : screen) : list name := map r_sample (s_rows s).
Definition col_plates (s : screen) : list name := map r_plate (s_rows s).
Definition col_obs (s : screen) : list Z := map r_obs (s_rows s).
Definition col_mask (s : screen) : list bool := map r_mask (s_rows s).
Definition screen_size (s : screen) : Z := Z.of_nat (length (s_rows s)).      (* screen.size *)
(* screen.treatment_mapping / screen.sample_mapping of an existing Screen: integer ids *)
Definition attr_tmap (s : screen) : tmap_t := (s_tmap s, true).
Definition attr_smap (s : screen) : smap_t := (s_smap s, true).

(* numpy, one call each *)
Definition np_isin (a l : list Z) : list bool := map (fun x => mem_Z x l) a.            (* np.isin(a, l) *)
Definition np_eq_zero (x : list Z) : list bool := map obs_is_zero x.                    (* x == 0, x a float array *)
Definition np_eq_Z (a : list Z) (p : Z) : list bool := map (fun x => x =? p) a.         (* a == p, a an int array, p an int *)
Definition np_isnan (x : list Z) : list bool := map obs_is_nan x.                       (* np.isnan(x) *)
Definition np_all (b : list bool) : bool := forallb (fun x => x) b.                     (* np.all(b); True for the empty array *)
Definition np_any (b : list bool) : bool := existsb (fun x => x) b.                     (* np.any(b) *)
Definition np_or (a b : list bool) : list bool := map (fun p => fst p || snd p) (combine a b).   (* a | b *)
Definition np_full {A} (x : A) (n : Z) : list A := repeat x (Z.to_nat n).               (* np.ones(n) / np.zeros(n) *)

(* Screen(treatment_names=, treatment_doses=, sample_names=, plate_names=, observations=, observation_mask=,
          control_treatment_name=, treatment_mapping=, sample_mapping=): row i is made of the i-th entries of the arrays;
   an argument that is not passed is None (control_treatment_name: the default "") *)
Fixpoint zip_rows (tn : list (list name)) (td : list (list Z)) (sn pn : list name) (ob : list Z) (mk : list bool)
  : list row :=
  match tn, td, sn, pn, ob, mk with
  | a :: tn', b :: td', c :: sn', d :: pn', e :: ob', f :: mk' =>
      {| r_sample := c; r_plate := d; r_treats := combine a b; r_obs := e; r_mask := f |} :: zip_rows tn' td' sn' pn' ob' mk'
  | _, _, _, _, _, _ => []
  end.

Definition py_screen (tnames : names2d) (tdoses : doses2d) (samples plates : list name)
    (obs : option (list Z)) (mask : option (list bool)) (ctrl : option name)
    (tmap : option tmap_t) (smap : option smap_t) : result screen :=
  let n := length samples in
  let ob := match obs with Some o => o | None => repeat 0 n end in            (* overwritten by mk_screen when not given *)
  let mk := match mask with Some m => m | None => repeat false n end in
  mk_screen (zip_rows (snd tnames) (snd tdoses) samples plates ob mk) (fst tnames)
            (match ctrl with Some c => c | None => [] end) tmap smap
            (match obs with Some _ => true | None => false end) (match mask with Some _ => true | None => false end).

(* ---- Screen.set_observed: numpy boolean-mask assignment on the two arrays it writes ---- *)
(* a[m] = vs, one value per selected position, consumed from the left *)
Fixpoint mask_put {A} (m : list bool) (vs : list A) (a : list A) : list A :=
  match m, a with
  | b :: m', x :: a' =>
      if b then match vs with
                | v :: vs' => v :: mask_put m' vs' a'
                | [] => x :: mask_put m' [] a'
                end
      else x :: mask_put m' vs a'
  | _, _ => a
  end.
(* a[m] = v, v an array: IndexError (tag 10) when the mask's length is not the array's; v must have as many values as m
   selects, or exactly one (broadcast); otherwise ValueError (tag 11) *)
Definition np_mask_assign {A} (a : list A) (m : list bool) (v : list A) : result (list A) :=
  if negb (Nat.eqb (length m) (length a)) then Err 10
  else
    let k := count_true m in
    if Nat.eqb (length v) k then Ok (mask_put m v a)
    else match v with
         | [x] => Ok (mask_put m (repeat x k) a)
         | _ => Err 11
         end.
(* a[m] = x, x a scalar *)
Definition np_mask_fill {A} (a : list A) (m : list bool) (x : A) : result (list A) :=
  if negb (Nat.eqb (length m) (length a)) then Err 10
  else Ok (mask_put m (repeat x (count_true m)) a).

(* the screen whose _observations / _observation_mask arrays are [ob] / [mk], everything else as in s *)
Definition with_cols (o : Z) (b : bool) (r : row) : row :=
  {| r_sample := r_sample r; r_plate := r_plate r; r_treats := r_treats r; r_obs := o; r_mask := b |}.
Fixpoint put_cols (rows : list row) (ob : list Z) (mk : list bool) : list row :=
  match rows, ob, mk with
  | r :: rows', o :: ob', b :: mk' => with_cols o b r :: put_cols rows' ob' mk'
  | _, _, _ => []
  end.
Definition set_cols (s : screen) (ob : list Z) (mk : list bool) : screen :=
  {| s_rows := put_cols (s_rows s) ob mk; s_arity := s_arity s; s_ctrl := s_ctrl s;
     s_tmap := s_tmap s; s_smap := s_smap s; s_pmap := s_pmap s;
     s_tids := s_tids s; s_sids := s_sids s; s_pids := s_pids s |}.

(* ---- Screen.__init__, the two statement runs that decide the observation mask ---- *)
Definition np_eq_name (a : list name) (x : name) : list bool := map (fun y => name_eqb y x) a.      (* a == x, a a string array *)
Definition np_eq_bool (a : list bool) (b : bool) : list bool := map (fun y => Bool.eqb y b) a.      (* a == b, a a bool array *)

