(* C09 model: prediction of the two shipped MCMC sample types, over exact rationals.

   Transcribes
     batchie.common.copy_array_with_control_treatments_set_to_zero      -> gather / zero_where / gather_zero{1,2}
     batchie.models.sparse_combo.predict / predict_single_drug          -> sp_mean2 / sp_mean1 (vectorised, as coded)
     SparseDrugComboMCMCSample.predict_{viability,conditional_mean,conditional_variance}   -> sp_predict
     SparseDrugComboInteractionMCMCSample.predict_*                      -> in_mean2 / in_viab2 / in_predict
     batchie.models.main.predict_{viability,mean,variance}_all          -> predict_all
     batchie.models.main.predict_{mean,viability}_avg                    -> predict_avg

   numpy semantics modelled: integer (fancy) indexing along axis 0 returns a fresh copy; a negative
   index i counts from the end (i + n); an index outside [-n, n) raises IndexError (py_index = None;
   the top-level functions return Err ERR_INDEX, the raw vectorised functions use a default that is
   never looked at when the validity predicate holds).  The control sentinel -1 therefore gathers the
   LAST row, which the code then overwrites with zeros in the copy (zero_where): the content of the
   last embedding row matters to a model that forgets the zeroing or zeroes other rows.
   Elementwise * and + and np.sum(.., -1) are map2 / qsum over lists (embedding rows are lists; numpy
   arrays are rectangular, which is the [theta_wfb] predicate used where a theorem needs it).

   Abstracted: floating point (the model computes the real-number value; 0.01 and 0.99 are the exact
   rationals, the doubles differ by < 1e-17); expit / exp / ln enter through the oracle; NaN checks of
   predict_*_all (no NaN over the rationals); broadcasting errors for inconsistent embedding widths.
   Purity (no mutation of theta or screen) is a runtime effect and is checked by the harness only.

   Error tags: 1 IndexError, 2 unsupported arity (NotImplementedError / ValueError), 3 KeyError in
   single_effect_lookup, 4 ThetaHolder.get_theta out of bounds (ValueError), 5 np.stack of no arrays
   (ValueError), 6 ZeroDivisionError (precision = 0.0), 7 NaN result (0/0 in predict_*_avg with no
   thetas). *)
From Coq Require Import ZArith List QArith Qcanon Bool.
From Batchie Require Import Lib.Sexp Lib.Num.
Import ListNotations.
Open Scope Qc_scope.

Definition CONTROL : Z := (-1)%Z.
Definition ERR_INDEX : Z := 1%Z.
Definition ERR_ARITY : Z := 2%Z.
Definition ERR_KEY : Z := 3%Z.
Definition ERR_HOLDER : Z := 4%Z.
Definition ERR_STACK : Z := 5%Z.
Definition ERR_ZERODIV : Z := 6%Z.
Definition ERR_NAN : Z := 7%Z.

(* ---------------------------------------------------------------- numpy indexing *)

Definition py_index (n : nat) (i : Z) : option nat :=
  if (0 <=? i)%Z then (if (i <? Z.of_nat n)%Z then Some (Z.to_nat i) else None)
  else (if (- Z.of_nat n <=? i)%Z then Some (Z.to_nat (i + Z.of_nat n)) else None).

Definition py_valid (n : nat) (i : Z) : bool :=
  match py_index n i with Some _ => true | None => false end.

Definition py_get {A} (d : A) (arr : list A) (i : Z) : A :=
  match py_index (length arr) i with Some k => nth k arr d | None => d end.

Definition map2 {A B C} (f : A -> B -> C) (a : list A) (b : list B) : list C :=
  map (fun p => f (fst p) (snd p)) (combine a b).

(* arr[ids, ...] : a new array *)
Definition gather {A} (d : A) (arr : list A) (ids : list Z) : list A := map (py_get d arr) ids.

(* results[ids == -1, ...] = 0.0 *)
Definition zero_where {A} (z : A -> A) (ids : list Z) (rows : list A) : list A :=
  map2 (fun i r => if (i =? CONTROL)%Z then z r else r) ids rows.

Definition zrow (r : list Qc) : list Qc := map (fun _ => 0) r.
Definition zscal (x : Qc) : Qc := 0.

Definition gather_zero2 (arr : list (list Qc)) (ids : list Z) : list (list Qc) :=
  zero_where zrow ids (gather [] arr ids).
Definition gather_zero1 (arr : list Qc) (ids : list Z) : list Qc :=
  zero_where zscal ids (gather 0 arr ids).

Definition vadd : list Qc -> list Qc -> list Qc := map2 Qcplus.
Definition vmul : list Qc -> list Qc -> list Qc := map2 Qcmult.
Definition madd : list (list Qc) -> list (list Qc) -> list (list Qc) := map2 vadd.
Definition mmul : list (list Qc) -> list (list Qc) -> list (list Qc) := map2 vmul.
Definition sum_last (M : list (list Qc)) : list Qc := map qsum M.

Definition VIAB_LO : Qc := Q2Qc (1 # 100).
Definition VIAB_HI : Qc := Q2Qc (99 # 100).
Definition clip_viab (x : Qc) : Qc := qclip VIAB_LO VIAB_HI x.

(* ---------------------------------------------------------------- the two sample types *)

Record sparse_theta := {
  sW : list (list Qc);  sW0 : list Qc;
  sV2 : list (list Qc); sV1 : list (list Qc); sV0 : list Qc;
  salpha : Qc; sprec : Qc }.

Record inter_theta := {
  iW : list (list Qc); iV2 : list (list Qc); iprec : Qc;
  ilookup : list (Z * Z * Qc) }.

Inductive theta := TS (p : sparse_theta) | TI (p : inter_theta).

(* a screen as the prediction code sees it: sample_ids and the columns of treatment_ids *)
Inductive screen :=
| Scr1 (rows : list (Z * Z))            (* (sample, t0) *)
| Scr2 (rows : list (Z * Z * Z))        (* (sample, t0, t1) *)
| ScrN (arity size : nat).              (* any other arity: only the size is ever read *)

Definition scr_size (s : screen) : nat :=
  match s with Scr1 r => length r | Scr2 r => length r | ScrN _ n => n end.

Definition col_s (rows : list (Z * Z * Z)) : list Z := map (fun r => fst (fst r)) rows.
Definition col_t0 (rows : list (Z * Z * Z)) : list Z := map (fun r => snd (fst r)) rows.
Definition col_t1 (rows : list (Z * Z * Z)) : list Z := map snd rows.

(* --- sparse_combo.predict, vectorised as coded *)
Definition sp_mean2 (t : sparse_theta) (rows : list (Z * Z * Z)) : list Qc :=
  let S := col_s rows in let T0 := col_t0 rows in let T1 := col_t1 rows in
  let Ws := gather [] (sW t) S in
  let interaction2 :=
    sum_last (mmul (mmul Ws (gather_zero2 (sV2 t) T0)) (gather_zero2 (sV2 t) T1)) in
  let interaction1 :=
    sum_last (mmul Ws (madd (gather_zero2 (sV1 t) T0) (gather_zero2 (sV1 t) T1))) in
  let intercept :=
    vadd (vadd (map (Qcplus (salpha t)) (gather 0 (sW0 t) S)) (gather_zero1 (sV0 t) T0))
         (gather_zero1 (sV0 t) T1) in
  vadd (vadd intercept interaction1) interaction2.

(* --- sparse_combo.predict_single_drug *)
Definition sp_mean1 (t : sparse_theta) (rows : list (Z * Z)) : list Qc :=
  let S := map fst rows in let T0 := map snd rows in
  let interaction1 := sum_last (mmul (gather [] (sW t) S) (gather_zero2 (sV1 t) T0)) in
  let intercept :=
    vadd (map (Qcplus (salpha t)) (gather 0 (sW0 t) S)) (gather_zero1 (sV0 t) T0) in
  vadd intercept interaction1.

(* --- the same, one experiment at a time (what the theorems relate the vectorised code to) *)
Definition emb2 (arr : list (list Qc)) (i : Z) : list Qc :=
  if (i =? CONTROL)%Z then zrow (py_get [] arr i) else py_get [] arr i.
Definition emb1 (arr : list Qc) (i : Z) : Qc :=
  if (i =? CONTROL)%Z then 0 else py_get 0 arr i.

Definition sp_mean_row2 (t : sparse_theta) (r : Z * Z * Z) : Qc :=
  let '(s, a, b) := r in
  let w := py_get [] (sW t) s in
  salpha t + py_get 0 (sW0 t) s + emb1 (sV0 t) a + emb1 (sV0 t) b
  + qsum (vmul w (vadd (emb2 (sV1 t) a) (emb2 (sV1 t) b)))
  + qsum (vmul (vmul w (emb2 (sV2 t) a)) (emb2 (sV2 t) b)).

Definition sp_mean_row1 (t : sparse_theta) (r : Z * Z) : Qc :=
  let '(s, a) := r in
  salpha t + py_get 0 (sW0 t) s + emb1 (sV0 t) a
  + qsum (vmul (py_get [] (sW t) s) (emb2 (sV1 t) a)).

(* index validity = "numpy raises no IndexError" *)
Definition sp_valid_t2 (t : sparse_theta) (a : Z) : bool :=
  py_valid (length (sV2 t)) a && py_valid (length (sV1 t)) a && py_valid (length (sV0 t)) a.
Definition sp_valid_s (t : sparse_theta) (s : Z) : bool :=
  py_valid (length (sW t)) s && py_valid (length (sW0 t)) s.
Definition sp_valid_row2 (t : sparse_theta) (r : Z * Z * Z) : bool :=
  let '(s, a, b) := r in sp_valid_s t s && sp_valid_t2 t a && sp_valid_t2 t b.
Definition sp_valid_row1 (t : sparse_theta) (r : Z * Z) : bool :=
  let '(s, a) := r in
  sp_valid_s t s && py_valid (length (sV1 t)) a && py_valid (length (sV0 t)) a.

Section Oracle.
Variable orc : oracle.

Definition viab_of_mean (m : Qc) : Qc := clip_viab (orc ORC_EXPIT m).

Definition post (viab : bool) (l : list Qc) : list Qc :=
  if viab then map viab_of_mean l else l.

Definition sp_predict (viab : bool) (t : sparse_theta) (scr : screen) : result (list Qc) :=
  match scr with
  | Scr1 rows => if forallb (sp_valid_row1 t) rows then Ok (post viab (sp_mean1 t rows)) else Err ERR_INDEX
  | Scr2 rows => if forallb (sp_valid_row2 t) rows then Ok (post viab (sp_mean2 t rows)) else Err ERR_INDEX
  | ScrN _ _ => Err ERR_ARITY
  end.

(* --- interaction sample type *)
Definition in_mean2 (t : inter_theta) (rows : list (Z * Z * Z)) : list Qc :=
  sum_last (mmul (mmul (gather [] (iW t) (col_s rows)) (gather_zero2 (iV2 t) (col_t0 rows)))
                 (gather_zero2 (iV2 t) (col_t1 rows))).

Definition in_mean_row2 (t : inter_theta) (r : Z * Z * Z) : Qc :=
  let '(s, a, b) := r in
  qsum (vmul (vmul (py_get [] (iW t) s) (emb2 (iV2 t) a)) (emb2 (iV2 t) b)).

Definition lookup (L : list (Z * Z * Qc)) (c d : Z) : option Qc :=
  match find (fun e => (fst (fst e) =? c)%Z && (snd (fst e) =? d)%Z) L with
  | Some e => Some (snd e) | None => None
  end.
Definition lookup0 (L : list (Z * Z * Qc)) (c d : Z) : Qc :=
  match lookup L c d with Some v => v | None => 0 end.

(* the list comprehension + np.clip of predict_viability *)
Definition in_single (t : inter_theta) (r : Z * Z * Z) : Qc :=
  let '(s, a, b) := r in clip_viab (lookup0 (ilookup t) s a * lookup0 (ilookup t) s b).

Definition in_viab_of (interaction single : Qc) : Qc :=
  clip_viab (orc ORC_EXP (interaction + orc ORC_LN single)).

Definition in_viab2 (t : inter_theta) (rows : list (Z * Z * Z)) : list Qc :=
  map2 in_viab_of (in_mean2 t rows) (map (in_single t) rows).

Definition in_viab_row2 (t : inter_theta) (r : Z * Z * Z) : Qc :=
  in_viab_of (in_mean_row2 t r) (in_single t r).

Definition in_valid_row2 (t : inter_theta) (r : Z * Z * Z) : bool :=
  let '(s, a, b) := r in
  py_valid (length (iW t)) s && py_valid (length (iV2 t)) a && py_valid (length (iV2 t)) b.
Definition in_haskey_row2 (t : inter_theta) (r : Z * Z * Z) : bool :=
  let '(s, a, b) := r in
  match lookup (ilookup t) s a, lookup (ilookup t) s b with Some _, Some _ => true | _, _ => false end.

Definition in_predict (viab : bool) (t : inter_theta) (scr : screen) : result (list Qc) :=
  match scr with
  | Scr2 rows =>
      if negb (forallb (in_valid_row2 t) rows) then Err ERR_INDEX
      else if viab then
        (if forallb (in_haskey_row2 t) rows then Ok (in_viab2 t rows) else Err ERR_KEY)
      else Ok (in_mean2 t rows)
  | _ => Err ERR_ARITY
  end.

(* --- the Theta interface *)
Inductive kind := KMean | KViab | KVar.

Definition theta_prec (t : theta) : Qc := match t with TS p => sprec p | TI p => iprec p end.

Definition variance (t : theta) (scr : screen) : result (list Qc) :=
  if qeqb (theta_prec t) 0 then Err ERR_ZERODIV
  else Ok (repeat (1 / theta_prec t) (scr_size scr)).

Definition theta_predict (k : kind) (t : theta) (scr : screen) : result (list Qc) :=
  match k with
  | KVar => variance t scr
  | KMean => match t with TS p => sp_predict false p scr | TI p => in_predict false p scr end
  | KViab => match t with TS p => sp_predict true p scr | TI p => in_predict true p scr end
  end.

(* --- ThetaHolder and models.main *)
Record holder := { h_n : nat; h_thetas : list theta }.   (* declared n_thetas, stored samples *)

Definition get_theta (h : holder) (i : nat) : result theta :=
  match nth_error (h_thetas h) i with Some t => Ok t | None => Err ERR_HOLDER end.

Definition predict_one (k : kind) (h : holder) (scr : screen) (i : nat) : result (list Qc) :=
  dor t <- get_theta h i; theta_predict k t scr.

(* predict_viability_all / predict_mean_all / predict_variance_all *)
Definition predict_all (k : kind) (h : holder) (scr : screen) : result (list (list Qc)) :=
  dor rows <- res_map_all (predict_one k h scr) (seq 0 (h_n h));
  match k, h_n h with
  | KVar, O => Err ERR_STACK
  | _, _ => Ok rows
  end.

Fixpoint avg_loop (f : nat -> result (list Qc)) (idx : list nat) (acc : list Qc) : result (list Qc) :=
  match idx with
  | [] => Ok acc
  | i :: r => dor sub <- f i; avg_loop f r (vadd acc sub)
  end.

Definition qofnat (n : nat) : Qc := qofZ (Z.of_nat n).

(* predict_mean_avg / predict_viability_avg (k = KMean / KViab) *)
Definition predict_avg (k : kind) (h : holder) (scr : screen) : result (list Qc) :=
  dor acc <- avg_loop (predict_one k h scr) (seq 0 (h_n h)) (repeat 0 (scr_size scr));
  match h_n h, scr_size scr with
  | O, S _ => Err ERR_NAN
  | n, _ => Ok (map (fun x => x / qofnat n) acc)
  end.

End Oracle.

(* ---------------------------------------------------------------- vocabulary of the statements *)

(* boolean-mask selection = arr[selection_vector] (Screen.subset / ScreenSubset) *)
Fixpoint select {A} (mask : list bool) (l : list A) : list A :=
  match mask, l with
  | m :: mask', x :: l' => if m then x :: select mask' l' else select mask' l'
  | _, _ => []
  end.

(* selection by an index list (row permutations, repeats) *)
Definition take_idx {A} (d : A) (idx : list nat) (l : list A) : list A := map (fun i => nth i l d) idx.

Definition scr_select (mask : list bool) (s : screen) : screen :=
  match s with
  | Scr1 r => Scr1 (select mask r)
  | Scr2 r => Scr2 (select mask r)
  | ScrN a n => ScrN a (length (select mask (repeat tt n)))
  end.

Definition scr_take (idx : list nat) (s : screen) : screen :=
  match s with
  | Scr1 r => Scr1 (take_idx (0, 0)%Z idx r)
  | Scr2 r => Scr2 (take_idx (0, 0, 0)%Z idx r)
  | ScrN a n => ScrN a (length idx)
  end.

Definition swap_row (r : Z * Z * Z) : Z * Z * Z := let '(s, a, b) := r in (s, b, a).
Definition scr_swap (s : screen) : screen :=
  match s with Scr2 r => Scr2 (map swap_row r) | _ => s end.

(* numpy arrays are rectangular and the parameter shapes agree *)
Definition rectb (D : nat) (M : list (list Qc)) : bool := forallb (fun r => Nat.eqb (length r) D) M.
Definition sparse_wfb (D : nat) (t : sparse_theta) : bool :=
  rectb D (sW t) && rectb D (sV2 t) && rectb D (sV1 t)
  && Nat.eqb (length (sW0 t)) (length (sW t))
  && Nat.eqb (length (sV1 t)) (length (sV2 t)) && Nat.eqb (length (sV0 t)) (length (sV2 t)).
Definition inter_wfb (D : nat) (t : inter_theta) : bool := rectb D (iW t) && rectb D (iV2 t).

(* ---------------------------------------------------------------- vocabulary of the source translation
   (Generated/SrcPredict.v, configurations C09_* of harness/src_functions.py).  Each definition is the meaning of ONE
   attribute / numpy / scipy call of the translated functions; which call is applied to what is read from the source.

   Arrays: [vec] = a float array of shape (n,), [mat] = a float array of shape (n, D) as the list of its rows,
   [list Z] = an integer array of shape (n,), [idmat] = an integer array of shape (n, arity) - the arity is kept
   because shape (0, arity) has no row to read it from.  The elementwise operators  vec + vec = vadd, mat + mat = madd,
   mat * mat = mmul, float + vec = sadd  are numpy's for operands of EQUAL shape (numpy's broadcasting of unequal shapes
   and its ValueError for incompatible ones are not represented, as in the header of this file). *)
Definition qnum := Qc.
Definition vec := list Qc.
Definition mat := list (list Qc).
Record idmat := { im_arity : nat; im_rows : list (list Z) }.
(* a ScreenBase object as the prediction code reads it: sample_ids, treatment_ids *)
Record pydata := { pd_sample_ids : list Z; pd_treatment_ids : idmat }.

Definition ERR_SHAPE : Z := 8%Z.     (* ValueError: could not broadcast input array / stacked arrays of unequal shape *)

(* a[ids, ...] = a[ids]: integer fancy indexing along axis 0 - a new array with one entry (row) per index, in order;
   a negative index i reads i + n; an index outside [-n, n) raises IndexError *)
Definition np_take {A} (arr : list A) (ids : list Z) : result (list A) :=
  res_map_all (fun i => match py_index (length arr) i with
                        | Some k => match nth_error arr k with Some x => Ok x | None => Err ERR_INDEX end
                        | None => Err ERR_INDEX
                        end) ids.
(* a[:, k] on a 2-d integer array: column k (negative k counts from the end; outside the arity: IndexError) *)
Definition np_col (a : idmat) (k : Z) : result (list Z) :=
  match py_index (im_arity a) k with
  | Some j => Ok (map (fun r => nth j r 0%Z) (im_rows a))
  | None => Err ERR_INDEX
  end.
(* a.shape[0], a.shape[1] of a 2-d integer array *)
Definition im_shape0 (a : idmat) : Z := Z.of_nat (length (im_rows a)).
Definition im_shape1 (a : idmat) : Z := Z.of_nat (im_arity a).
(* a == v, elementwise on an integer array *)
Definition np_eq_scalar (a : list Z) (v : Z) : list bool := map (fun x => (x =? v)%Z) a.
(* a[mask, ...] = 0.0: every entry (row) of axis 0 where the boolean mask holds becomes zero ([z] = "all zeros of the
   same shape": zscal for a number, zrow for a row); a mask of another length than axis 0 is an IndexError *)
Definition np_mask_zero {A} (z : A -> A) (a : list A) (m : list bool) : result (list A) :=
  if Nat.eqb (length m) (length a) then Ok (map2 (fun (b : bool) r => if b then z r else r) m a) else Err ERR_INDEX.
(* float + vec *)
Definition sadd (x : Qc) (v : list Qc) : list Qc := map (Qcplus x) v.
(* scipy.special.expit(x), np.clip(x, a_min=lo, a_max=hi) on a vec *)
Definition vexpit (orc : oracle) (x : list Qc) : list Qc := map (orc ORC_EXPIT) x.
Definition vclip (lo hi : Qc) (x : list Qc) : list Qc := map (qclip lo hi) x.
(* 1 / p on Python floats: ZeroDivisionError for p = 0.0 *)
Definition py_recip (p : Qc) : result Qc := if qeqb p 0 then Err ERR_ZERODIV else Ok (1 / p).
(* np.repeat(x, repeats=n) of a scalar *)
Definition np_repeat (x : Qc) (n : Z) : list Qc := repeat x (Z.to_nat n).

(* the representation map of the linking theorems: the ScreenBase object a model screen stands for.  Every object the
   prediction code can be handed has sample_ids of shape (n,) and treatment_ids of shape (n, arity), i.e. is
   [pydata_of] of a model screen ([ScrN a n], "any other arity", is only meant for a other than 1 and 2: scr_okb) *)
Definition tids1 (rows : list (Z * Z)) : idmat := {| im_arity := 1; im_rows := map (fun r => [snd r]) rows |}.
Definition tids2 (rows : list (Z * Z * Z)) : idmat :=
  {| im_arity := 2; im_rows := map (fun r => [snd (fst r); snd r]) rows |}.
Definition pydata_of (s : screen) : pydata :=
  match s with
  | Scr1 rows => {| pd_sample_ids := map fst rows; pd_treatment_ids := tids1 rows |}
  | Scr2 rows => {| pd_sample_ids := col_s rows; pd_treatment_ids := tids2 rows |}
  | ScrN a n => {| pd_sample_ids := repeat 0%Z n; pd_treatment_ids := {| im_arity := a; im_rows := repeat (repeat 0%Z a) n |} |}
  end.
Definition scr_okb (s : screen) : bool :=
  match s with ScrN a _ => negb (Nat.eqb a 1) && negb (Nat.eqb a 2) | _ => true end.

(* ---- vocabulary of the translated helpers of models/main.py (predict_*_all, predict_*_avg) ---- *)
(* thetas.get_theta(i) (ThetaHolder, linked to its source by C10): ValueError outside 0 .. len(thetas) - 1 *)
Definition holder_get (h : holder) (i : Z) : result theta :=
  if (i >? Z.of_nat (length (h_thetas h)) - 1)%Z || (i <? 0)%Z then Err ERR_HOLDER else get_theta h (Z.to_nat i).
(* np.zeros((n,), dtype=float), np.zeros((n, m), dtype=float) *)
Definition np_zeros1 (n : Z) : list Qc := repeat 0 (Z.to_nat n).
Definition np_zeros2 (n m : Z) : list (list Qc) := repeat (repeat 0 (Z.to_nat m)) (Z.to_nat n).
(* a[i, :] of a matrix (negative i counts from the end, IndexError outside) *)
Definition np_row (a : list (list Qc)) (i : Z) : result (list Qc) :=
  match py_index (length a) i with Some k => Ok (nth k a []) | None => Err ERR_INDEX end.
(* a[i, :] = v: row i is overwritten by v when v has the row's length, by v's single entry repeated when v has length 1
   (numpy broadcasting); any other length is a ValueError, a row index outside [-n, n) an IndexError *)
Definition np_set_row (a : list (list Qc)) (i : Z) (v : list Qc) : result (list (list Qc)) :=
  match py_index (length a) i with
  | None => Err ERR_INDEX
  | Some k =>
      let w := length (nth k a []) in
      if Nat.eqb (length v) w then Ok (firstn k a ++ v :: skipn (S k) a)
      else if Nat.eqb (length v) 1 then Ok (firstn k a ++ repeat (nth 0 v 0) w :: skipn (S k) a)
      else Err ERR_SHAPE
  end.
(* np.isnan(x).any() / np.any(np.isnan(x)): a vector of rationals holds no NaN (floating point is abstracted) *)
Definition vec_has_nan (x : list Qc) : bool := false.
(* x.size of a 1-d array *)
Definition vec_size (x : list Qc) : Z := Z.of_nat (length x).
(* np.stack(l, dtype=float) of a list of 1-d arrays: ValueError for no arrays and for arrays of unequal length *)
Definition np_stack (l : list (list Qc)) : result (list (list Qc)) :=
  match l with
  | [] => Err ERR_STACK
  | r :: rest => if forallb (fun x => Nat.eqb (length x) (length r)) rest then Ok l else Err ERR_SHAPE
  end.
(* x / n, a float array by a Python int: entrywise; by 0 the entries are nan / inf, which have no rational value:
   the harness reads a non-finite entry as the error ERR_NAN (an empty array stays empty) *)
Definition np_div_int (x : list Qc) (n : Z) : result (list Qc) :=
  if (n =? 0)%Z then match x with [] => Ok [] | _ => Err ERR_NAN end else Ok (map (fun y => y / qofZ n) x).

(* ---- vocabulary of the translated methods of SparseDrugComboInteractionMCMCSample ---- *)
(* zip(a, b, c): stops with the shortest *)
Fixpoint zip3 {A B C} (a : list A) (b : list B) (c : list C) : list (A * B * C) :=
  match a, b, c with
  | x :: a', y :: b', z :: c' => (x, y, z) :: zip3 a' b' c'
  | _, _, _ => []
  end.
(* d[c, t] on the single-effect dict: KeyError when the key is absent *)
Definition lookup_key (L : list (Z * Z * Qc)) (c d : Z) : result Qc :=
  match lookup L c d with Some v => Ok v | None => Err ERR_KEY end.
(* float * float *)
Definition qmul (x y : Qc) : Qc := x * y.
(* np.exp(x), np.log(x) on a vec: the oracle, entrywise *)
Definition vexp (orc : oracle) (x : list Qc) : list Qc := map (orc ORC_EXP) x.
Definition vlog (orc : oracle) (x : list Qc) : list Qc := map (orc ORC_LN) x.
