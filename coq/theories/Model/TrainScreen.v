(* C04 model, bridge to the shared Screen model: the id-level rows (Model/Train.v) of a
   screen built by Model/Screen.mk_screen.  Observation bit patterns (IEEE-754 binary64, as
   an integer in [0, 2^64)) are decoded to their exact value.  No proofs here. *)
From Coq Require Import ZArith List Bool QArith Qcanon.
From Batchie Require Import Lib.Sexp Model.Encode Model.Screen Model.Train.
Import ListNotations.
Open Scope Z_scope.

Definition two52 : Z := 4503599627370496.

Definition oval_of_bits (b : Z) : oval :=
  let neg := two63 <=? b in
  let e := (b / two52) mod 2048 in
  let m := b mod two52 in
  if e =? 2047 then (if m =? 0 then OInf neg else ONaN)
  else
    let mant := if e =? 0 then m else m + two52 in
    let ex := (if e =? 0 then 1 else e) - 1075 in
    let mag := if 0 <=? ex then Q2Qc (inject_Z (mant * 2 ^ ex))
               else Q2Qc (Qmake mant (Z.to_pos (2 ^ (- ex)))) in
    OFin (if neg then (- mag)%Qc else mag).

Fixpoint zip_rows (rows : list row) (tids : list (list Z)) (sids pids : list Z) : list trow :=
  match rows, tids, sids, pids with
  | r :: rs, t :: ts, s :: ss, p :: ps =>
      {| t_sample := s; t_plate := p; t_treats := t; t_obs := oval_of_bits (r_obs r); t_mask := r_mask r |}
      :: zip_rows rs ts ss ps
  | _, _, _, _ => []
  end.

Definition trows_of_screen (s : screen) : list trow :=
  zip_rows (s_rows s) (s_tids s) (s_sids s) (s_pids s).

(* two name-level row lists that differ only in masked observation values *)
Definition name_row_agree (a b : row) : Prop :=
  r_sample a = r_sample b /\ r_plate a = r_plate b /\ r_treats a = r_treats b /\
  r_mask a = r_mask b /\ (r_mask a = true -> r_obs a = r_obs b).
