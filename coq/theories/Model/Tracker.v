(* batchie.core.SimulationTracker (the record of a retrospective simulation: plates revealed per step, losses, seed) and its
   JSON persistence.  No code of src/batchie uses the class (it is library surface); the model exists for the source-translation
   link (harness/src_functions.py LS_TRACKER_*, generated file Generated/SrcTracker.v, proofs Proofs/C10Source_Tracker*.v).
   J = a JSON-native value (None, bool, int, finite float, str, list of such, dict with str keys of such): the values on which
   json.load (json.dump v) = v.  The constructor stores whatever it is given (no validation), so the three attributes are
   J values.  A tracker OBJECT is the triple of its attributes; its instance dict `self.__dict__` is the dict of the three
   attribute names in the order __init__ assigns them.
   A JSON file is [jfile]: None = nothing written yet, Some d = it holds the JSON object d (keys in order).
   Error tags: 93 TypeError of cls( **data ) (a key that is no parameter / a parameter without a key), 95 the file does not
   hold exactly one JSON object (json.load of an empty file; a second json.dump into the same file).
   No proofs here. *)
From Coq Require Import ZArith List Bool.
From Coq Require String Ascii.
From Batchie Require Import Lib.Sexp Lib.PyRt.
Import ListNotations.
Import String.StringSyntax.
Local Open Scope string_scope.
Open Scope Z_scope.

(* a key written as text: the code points of an ASCII string *)
Definition tkey_of (s : String.string) : pystr :=
  map (fun c => Z.of_N (Ascii.N_of_ascii c)) (String.list_ascii_of_string s).

Section Tracker.
Variable J : Type.
Definition pytracker : Type := (J * J * J)%type.            (* plate_ids_selected, losses, seed *)
Definition tr_plates (t : pytracker) : J := fst (fst t).
Definition tr_losses (t : pytracker) : J := snd (fst t).
Definition tr_seed (t : pytracker) : J := snd t.
Definition set_tr_plates (t : pytracker) (v : J) : pytracker := (v, tr_losses t, tr_seed t).
Definition set_tr_losses (t : pytracker) (v : J) : pytracker := (tr_plates t, v, tr_seed t).
Definition set_tr_seed (t : pytracker) (v : J) : pytracker := (tr_plates t, tr_losses t, v).
Definition jdict : Type := list (pystr * J).
(* t.__dict__ of an instance whose attributes are the three __init__ assigns, in that order *)
Definition tracker_dict (t : pytracker) : jdict :=
  [(tkey_of "plate_ids_selected", tr_plates t); (tkey_of "losses", tr_losses t); (tkey_of "seed", tr_seed t)].
Definition jfile : Type := option jdict.
Definition jfile_new : jfile := None.                                   (* open(fn, "w") *)
(* json.dump(d, f): the file holds the object d; a second document in one file is not a JSON file *)
Definition json_dump (f : jfile) (d : jdict) : result jfile := match f with None => Ok (Some d) | Some _ => Err 95 end.
(* json.load(f) *)
Definition json_load (f : jfile) : result jdict := match f with Some d => Ok d | None => Err 95 end.
End Tracker.

Arguments tr_plates {J}. Arguments tr_losses {J}. Arguments tr_seed {J}.
Arguments set_tr_plates {J}. Arguments set_tr_losses {J}. Arguments set_tr_seed {J}.
Arguments tracker_dict {J}. Arguments jfile_new {J}. Arguments json_dump {J}. Arguments json_load {J}.
