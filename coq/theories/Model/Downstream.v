(* C04 model, second part: what each DOWNSTREAM stage of the active-learning loop is handed, as a function of the
   projection [Train.downstream_input] (the screen minus the observation values behind the mask).  No proofs here.

   The stages and the models they already have (each source-linked in its own property):
     training    batchie.cli.train_model.main -> BayesianModel.add_observations          Train.train_sdc / train_int   (C04)
     sampler     LegacySparseDrugComboImpl.mcmc_step on the stored (y, cline, dd1, dd2)    Gibbs.mcmc_step               (C08)
     distance    calculate_pairwise_distance_matrix_on_predictions + chunk files            DistMat.pipeline              (C07)
     scores      batchie.scoring.main.score_chunk                                          Scores.score_chunk            (C06)
     selection   batchie.scoring.main.select_next_plate (+ KPerSamplePlatePolicy)           Scores.select_next (C06), Policy.select_next (C16)

   Each of these models takes a type in which an observation VALUE has no place (Scores.row carries the mask bit, a
   Policy.plate the sample ids, a prediction the (sample id, treatment ids) of a row, Gibbs.data the training arrays).
   The definitions below are the maps from a screen's projection into those types; composing them with the stage
   models (Proofs/C04Down*.v) gives functions of [downstream_input] - that composition, not the mere existence of the
   projection, is what the C04 downstream theorems are about.

     dn_scores_screen   Screen as read by score_chunk / select_next_plate: plate_ids, observation_mask, sample_ids,
                        treatment_ids per row, storage order
     dn_policy_plates   screen.plates as read by KPerSamplePlatePolicy: per unique plate id (ascending, np.unique) the
                        (plate id, sample ids of its rows in storage order) and Plate.is_observed = all mask bits
     dn_pred_rows       what model.predict(screen) / theta.predict_viability(screen) read: sample ids and treatment ids
     dn_train           Screen.subset_observed() = Train.view_train_input
     gibbs_data         the legacy sampler's store after the _update calls of training: the four columns of the trips
                        (None when a training target is not a finite number - then the training call has raised) *)
From Coq Require Import ZArith List Bool QArith Qcanon.
From Batchie Require Import Lib.Sexp Lib.Num Model.Train.
From Batchie Require Model.Scores Model.Policy Model.Gibbs Model.DistMat.
Import ListNotations.
Open Scope Z_scope.

Definition dn_scores_row (d : drow) : Scores.row :=
  Scores.mkrow (d_plate d) (d_mask d) (d_sample d) (d_treats d).
Definition dn_scores_screen (v : list drow) : Scores.screen := map dn_scores_row v.

Definition dn_policy_plates (v : list drow) : list Policy.splate :=
  map (fun pid =>
         let rows := filter (fun d => d_plate d =? pid) v in
         ((pid, map d_sample rows), forallb d_mask rows))
      (Scores.sort_uniq (map d_plate v)).

Definition dn_pred_rows (v : list drow) : list (Z * list Z) := map (fun d => (d_sample d, d_treats d)) v.

Definition dn_train (v : list drow) : option (list trow) := view_train_input v.

(* the same four, directly on a screen's rows *)
Definition scores_screen_of (rows : list trow) : Scores.screen :=
  map (fun r => Scores.mkrow (t_plate r) (t_mask r) (t_sample r) (t_treats r)) rows.
Definition policy_plates_of (rows : list trow) : list Policy.splate :=
  map (fun pid =>
         let sel := filter (fun r => t_plate r =? pid) rows in
         ((pid, map t_sample sel), forallb t_mask sel))
      (Scores.sort_uniq (map t_plate rows)).
Definition pred_rows_of (rows : list trow) : list (Z * list Z) := map (fun r => (t_sample r, t_treats r)) rows.

(* ---- the sampler's data ---- *)
Definition fin_of (v : oval) : option Qc := match v with OFin q => Some q | _ => None end.
Fixpoint all_some {A : Type} (l : list (option A)) : option (list A) :=
  match l with
  | [] => Some []
  | Some x :: r => match all_some r with Some r' => Some (x :: r') | None => None end
  | None :: _ => None
  end.
Definition gibbs_data (st : list trip) : option Gibbs.data :=
  match all_some (map (fun t => fin_of (tr_y t)) st) with
  | Some ys => Some {| Gibbs.d_y := ys; Gibbs.d_cl := map tr_cl st; Gibbs.d_dd1 := map tr_d1 st;
                       Gibbs.d_dd2 := map tr_d2 st |}
  | None => None
  end.
(* the rows C08's translated _update is called with, one per trip *)
Definition update_calls (st : list trip) : option (list (Qc * Z * Z * Z)) :=
  all_some (map (fun t => option_map (fun y => (y, tr_cl t, tr_d1 t, tr_d2 t)) (fin_of (tr_y t))) st).

(* ---- the posterior-sample collection: [n] recorded sweeps of the sampler on data [d] from state [s0], run against a
   list of answers to its draw requests per sweep (the recorded random draws; Gibbs.run_prog wants each list consumed
   exactly).  None = a list is too short / too long. ---- *)
Fixpoint run_sweeps (g : Gibbs.cfg) (d : Gibbs.data) (orc : oracle) (s : Gibbs.st) (vals : list (list Gibbs.val))
  : option (list Gibbs.st) :=
  match vals with
  | [] => Some []
  | vs :: rest =>
      match snd (Gibbs.run_prog (Gibbs.mcmc_step g d orc s) vs) with
      | Some s' =>
          match run_sweeps g d orc s' rest with
          | Some r => Some (s' :: r)
          | None => None
          end
      | None => None
      end
  end.

(* ---- the whole loop iteration at model level, for ANY prediction function of (posterior sample, row ids), ANY metric
   on prediction vectors, ANY scorer (function of the samples, the dense distance matrix and the dict of plates it is
   handed) and an optional KPerSample policy k.  Output: (posterior samples, dense distance matrix, the score holders of
   all chunks combined, the selected plate id / None). ---- *)
Section Loop.
Variables (V : Type) (vzero : V).
Variable predict : Gibbs.st -> list (Z * list Z) -> list Qc.
Variable metric : list Qc -> list Qc -> V.
Variable scorer : list Gibbs.st -> list (list V) -> Scores.scorer_fn.
Variable orc : oracle.
Variable r32 : Qc -> oval.

Record loop_cfg := {
  lc_g : Gibbs.cfg; lc_s0 : Gibbs.st; lc_vals : list (list Gibbs.val);
  lc_dchunks : Z; lc_dorder : list Z;
  lc_schunks : Z; lc_sorder : list Z; lc_batch : list Z;
  lc_policy : option Z
}.

Definition loop_thetas (c : loop_cfg) (rows : list trow) : result (list Gibbs.st) :=
  dor t <- train_sdc orc r32 rows;
  match gibbs_data t with
  | None => Err 3
  | Some d => match run_sweeps (lc_g c) d orc (lc_s0 c) (lc_vals c) with
              | Some th => Ok th
              | None => Err 9
              end
  end.

Definition loop_dist (c : loop_cfg) (th : list Gibbs.st) (v : list drow) : result (list (list V)) :=
  let preds := map (fun s => predict s (dn_pred_rows v)) th in
  DistMat.pipeline V vzero (fun i j => metric (nth i preds []) (nth j preds [])) (length th) (lc_dchunks c) (lc_dorder c).

Definition loop_scores (c : loop_cfg) (th : list Gibbs.st) (dm : list (list V)) (v : list drow) : result Scores.holder :=
  dor hs <- res_map_all (fun k =>
              dor ps <- Scores.score_chunk (dn_scores_screen v) (lc_batch c) (lc_schunks c) k;
              dor h <- Scores.chunk_holder_of_answer ps (scorer th dm ps);
              Ok (Scores.h_load (Scores.h_save h))) (lc_sorder c);
  Scores.h_concat hs.

Definition loop_select (c : loop_cfg) (h : Scores.holder) (v : list drow) : result (option Z) :=
  match lc_policy c with
  | None => Scores.select_next None (dn_scores_screen v) (lc_batch c) h
  | Some k => dor r <- Policy.select_next k (dn_policy_plates v) (Scores.h_slots h) (lc_batch c); Ok (snd r)
  end.

Definition loop_iteration (c : loop_cfg) (rows : list trow)
  : result (list Gibbs.st * list (list V) * Scores.holder * option Z) :=
  let v := downstream_input rows in
  dor th <- loop_thetas c rows;
  dor dm <- loop_dist c th v;
  dor h <- loop_scores c th dm v;
  dor sel <- loop_select c h v;
  Ok (th, dm, h, sel).
End Loop.

(* ---- the view handed to the model: ScreenSubset.single_treatment_effects of screen.subset_observed() (data.py:598-602 slices
   the PARENT's table by the selection vector; Screen.single_treatment_effects, data.py:1002-1016, builds that table with
   create_single_treatment_effect_array from the sample ids, treatment ids and observations of ALL rows - the mask is not
   consulted; a KeyError of the construction makes the property None).  arity >= 2 (below it the map raises ValueError).
   [*_repaired]: the table computed from the observed rows only. ---- *)
Fixpoint lk_find (k : lkey) (m : lookup) : option oval :=
  match m with
  | [] => None
  | (k', v) :: r => if (fst k =? fst k') && (snd k =? snd k') then Some v else lk_find k r
  end.
(* create_single_treatment_effect_array: per row, per treatment slot, the map's entry; None = KeyError *)
Definition effect_rows (m : lookup) (rows : list trow) : option (list (list oval)) :=
  all_some (map (fun r => all_some (map (fun t => lk_find (t_sample r, t) m) (t_treats r))) rows).
Definition screen_single_effects (arity : nat) (rows : list trow) : option (list (list oval)) :=
  effect_rows (single_effect_map arity rows) rows.
Definition subset_observed_single_effects (arity : nat) (rows : list trow) : option (list (list oval)) :=
  match screen_single_effects arity rows with
  | Some tab => Some (select (map t_mask rows) tab)
  | None => None
  end.
Definition subset_observed_single_effects_repaired (arity : nat) (rows : list trow) : option (list (list oval)) :=
  screen_single_effects arity (filter t_mask rows).
