(* C07 model, part 2: ChunkedDistanceMatrix (batchie.distance_calculation) as a list of
   (row, col, value) entries in insertion order, and
   calculate_pairwise_distance_matrix_on_predictions.  The zero-initialised backing
   arrays and their growth are abstracted away: in every state the pipeline reaches,
   the slot at current_index is zero (fresh np.zeros / exact-length copy), so the three
   "already calculated" guards of add_value never fire.  No proofs here.
   Error tags: 1 out of bounds, 2 not lower triangular, 3 size mismatch,
               4 concat of nothing, 5 not complete. *)
From Coq Require Import ZArith List Bool.
From Batchie Require Import Lib.Sexp Model.Chunks.
Import ListNotations.
Open Scope Z_scope.

Section DistMat.
Variable V : Type.
Variable vzero : V.

Definition entry := (Z * Z * V)%type.
Record dmat := { dm_size : Z; dm_entries : list entry }.

Definition dm_empty (size : Z) : dmat := {| dm_size := size; dm_entries := [] |}.

Definition add_value (m : dmat) (i j : Z) (v : V) : result dmat :=
  if (i >=? dm_size m) || (j >=? dm_size m) then Err 1
  else if i <? j then Err 2
  else Ok {| dm_size := dm_size m; dm_entries := dm_entries m ++ [(i, j, v)] |}.

Definition has_key (es : list entry) (i j : Z) : bool :=
  existsb (fun e => let '(a, b, _) := e in (a =? i) && (b =? j)) es.

(* combine: copy self, then add every entry of other whose (row, col) is not yet present *)
Fixpoint combine_loop (acc : dmat) (es : list entry) : result dmat :=
  match es with
  | [] => Ok acc
  | (i, j, v) :: r =>
      if has_key (dm_entries acc) i j then combine_loop acc r
      else dor acc' <- add_value acc i j v; combine_loop acc' r
  end.

Definition combine (a b : dmat) : result dmat :=
  if negb (dm_size a =? dm_size b) then Err 3
  else combine_loop a (dm_entries b).

Fixpoint concat_loop (acc : dmat) (ms : list dmat) : result dmat :=
  match ms with
  | [] => Ok acc
  | m :: r =>
      if negb (dm_size acc =? dm_size m) then Err 3
      else dor acc' <- combine acc m; concat_loop acc' r
  end.

Definition dm_concat (ms : list dmat) : result dmat :=
  match ms with
  | [] => Err 4
  | [m] => Ok m
  | m :: r => concat_loop m r
  end.

Definition is_complete (m : dmat) : bool :=
  Z.of_nat (length (dm_entries m)) =? n_lower (dm_size m).

(* to_dense writes dense[i,j] = dense[j,i] = v for each entry in order: the value read
   back at (a,b) is that of the LAST entry touching (a,b) or (b,a), else 0. *)
Fixpoint dense_get (es : list entry) (a b : Z) (cur : V) : V :=
  match es with
  | [] => cur
  | (i, j, v) :: r =>
      if ((i =? a) && (j =? b)) || ((i =? b) && (j =? a)) then dense_get r a b v
      else dense_get r a b cur
  end.

Definition to_dense (m : dmat) : result (list (list V)) :=
  if negb (is_complete m) then Err 5
  else
    let n := Z.to_nat (dm_size m) in
    Ok (map (fun a => map (fun b => dense_get (dm_entries m) (Z.of_nat a) (Z.of_nat b) vzero)
                          (seq 0 n)) (seq 0 n)).

(* save / load through h5py: datasets row_indices[:cur], col_indices[:cur], values[:cur], size *)
Definition dm_save (m : dmat) : Z * list entry := (dm_size m, dm_entries m).
Definition dm_load (f : Z * list entry) : dmat := {| dm_size := fst f; dm_entries := snd f |}.

(* calculate_pairwise_distance_matrix_on_predictions with the metric/prediction
   composite abstracted as d i j *)
Fixpoint add_all (d : nat -> nat -> V) (m : dmat) (ps : list (nat * nat)) : result dmat :=
  match ps with
  | [] => Ok m
  | (i, j) :: r => dor m' <- add_value m (Z.of_nat i) (Z.of_nat j) (d i j); add_all d m' r
  end.

Definition compute_chunk (d : nat -> nat -> V) (n : nat) (chunk_index n_chunks : Z) : result dmat :=
  add_all d (dm_empty (Z.of_nat n)) (chunk n chunk_index n_chunks).

(* the whole pipeline: compute the listed chunk indices, save, load, concat, densify *)
Definition pipeline (d : nat -> nat -> V) (n : nat) (n_chunks : Z) (order : list Z)
  : result (list (list V)) :=
  dor ms <- res_map_all (fun k => dor m <- compute_chunk d n k n_chunks; Ok (dm_load (dm_save m))) order;
  dor m <- dm_concat ms;
  to_dense m.

End DistMat.

Arguments dm_size {V}.
Arguments dm_entries {V}.

(* ---- storage level: the vocabulary of the whole-method translations of ChunkedDistanceMatrix
   (harness/src_functions.py, entries C07_CDM_...) and the representation map to [dmat].  No proofs here.
   A ChunkedDistanceMatrix object is the record of its six instance attributes; a 1-d numpy array is the list of its
   items, the dense matrix the list of its rows.
   Further error tags: 98 IndexError (PyRt), 12 "already calculated", 13 negative dimension (np.zeros),
                       14 slice store of an array that cannot be broadcast. *)
Record cdm (V : Type) := {
  c_size : Z; c_chunk : Z; c_cur : Z;                        (* size, chunk_size, current_index *)
  c_rows : list Z; c_cols : list Z; c_vals : list V }.       (* row_indices, col_indices, values *)
Arguments c_size {V}. Arguments c_chunk {V}. Arguments c_cur {V}.
Arguments c_rows {V}. Arguments c_cols {V}. Arguments c_vals {V}.

Definition set_c_size {V} (o : cdm V) (x : Z) : cdm V :=
  {| c_size := x; c_chunk := c_chunk o; c_cur := c_cur o; c_rows := c_rows o; c_cols := c_cols o; c_vals := c_vals o |}.
Definition set_c_chunk {V} (o : cdm V) (x : Z) : cdm V :=
  {| c_size := c_size o; c_chunk := x; c_cur := c_cur o; c_rows := c_rows o; c_cols := c_cols o; c_vals := c_vals o |}.
Definition set_c_cur {V} (o : cdm V) (x : Z) : cdm V :=
  {| c_size := c_size o; c_chunk := c_chunk o; c_cur := x; c_rows := c_rows o; c_cols := c_cols o; c_vals := c_vals o |}.
Definition set_c_rows {V} (o : cdm V) (x : list Z) : cdm V :=
  {| c_size := c_size o; c_chunk := c_chunk o; c_cur := c_cur o; c_rows := x; c_cols := c_cols o; c_vals := c_vals o |}.
Definition set_c_cols {V} (o : cdm V) (x : list Z) : cdm V :=
  {| c_size := c_size o; c_chunk := c_chunk o; c_cur := c_cur o; c_rows := c_rows o; c_cols := x; c_vals := c_vals o |}.
Definition set_c_vals {V} (o : cdm V) (x : list V) : cdm V :=
  {| c_size := c_size o; c_chunk := c_chunk o; c_cur := c_cur o; c_rows := c_rows o; c_cols := c_cols o; c_vals := x |}.
(* the object __init__ receives: no attribute is set yet (every attribute is stored before it is read) *)
Definition cdm_blank (V : Type) : cdm V :=
  {| c_size := 0; c_chunk := 0; c_cur := 0; c_rows := []; c_cols := []; c_vals := [] |}.

(* np.zeros(n, dtype=...) with an int n: n zeros; a negative n is a ValueError *)
Definition np_zeros {A : Type} (z : A) (n : Z) : result (list A) :=
  if n <? 0 then Err 13 else Ok (repeat z (Z.to_nat n)).
(* np.zeros((n, m)) *)
Definition np_zeros2 {A : Type} (z : A) (n m : Z) : result (list (list A)) :=
  if (n <? 0) || (m <? 0) then Err 13 else Ok (repeat (repeat z (Z.to_nat m)) (Z.to_nat n)).
(* a[:k] on a 1-d array: the first k items (all of them if k exceeds the length); a negative k counts from the end *)
Definition np_prefix {A : Type} (a : list A) (k : Z) : list A :=
  firstn (Z.to_nat (if k <? 0 then k + Z.of_nat (length a) else k)) a.
(* a[:k] = v with v a 1-d array: v must have as many items as the slice, or exactly one item (broadcast) *)
Definition np_store_prefix {A : Type} (a : list A) (k : Z) (v : list A) : result (list A) :=
  let p := length (np_prefix a k) in
  if Nat.eqb (length v) p then Ok (v ++ skipn p a)
  else match v with [x] => Ok (repeat x p ++ skipn p a) | _ => Err 14 end.
Definition cdm_store_rows {V} (o : cdm V) (k : Z) (v : list Z) : result (cdm V) :=
  dor a <- np_store_prefix (c_rows o) k v; Ok (set_c_rows o a).
Definition cdm_store_cols {V} (o : cdm V) (k : Z) (v : list Z) : result (cdm V) :=
  dor a <- np_store_prefix (c_cols o) k v; Ok (set_c_cols o a).
Definition cdm_store_vals {V} (o : cdm V) (k : Z) (v : list V) : result (cdm V) :=
  dor a <- np_store_prefix (c_vals o) k v; Ok (set_c_vals o a).
(* (a, b) in zip(r, c): some position holds a in r and b in c *)
Definition pair_in_zip (a b : Z) (r c : list Z) : bool :=
  existsb (fun p => (fst p =? a) && (snd p =? b)) (List.combine r c).

(* the representation map: entry k of the model is (row_indices[k], col_indices[k], values[k]), k < current_index *)
Definition dm_of_storage {V} (vzero : V) (st : cdm V) : dmat V :=
  {| dm_size := c_size st;
     dm_entries := map (fun k => (nth k (c_rows st) 0, nth k (c_cols st) 0, nth k (c_vals st) vzero))
                       (seq 0 (Z.to_nat (c_cur st))) |}.
(* what every constructed object satisfies (established by __init__, kept by add_value / combine / concat): three arrays
   of one length, current_index within it, a non-negative chunk_size, and every slot from current_index on still zero *)
Definition storage_ok {V} (vzero : V) (visz : V -> bool) (st : cdm V) : Prop :=
  length (c_cols st) = length (c_rows st) /\ length (c_vals st) = length (c_rows st) /\
  0 <= c_cur st <= Z.of_nat (length (c_rows st)) /\ 0 <= c_chunk st /\
  forall k, (Z.to_nat (c_cur st) <= k)%nat ->
    nth k (c_rows st) 0 = 0 /\ nth k (c_cols st) 0 = 0 /\ visz (nth k (c_vals st) vzero) = true.
(* add_value finds a slot: a free one, or storage that grows *)
Definition has_room {V} (st : cdm V) : Prop :=
  c_cur st < Z.of_nat (length (c_vals st)) \/ 0 < c_chunk st.
(* a source result against a model result: the same error, or a well-formed storage that represents the model value *)
Definition storage_refines {V} (vzero : V) (visz : V -> bool) (r : result (cdm V)) (m : result (dmat V)) : Prop :=
  match r, m with
  | Ok st, Ok d => storage_ok vzero visz st /\ dm_of_storage vzero st = d
  | Err a, Err b => a = b
  | _, _ => False
  end.

(* what __init__ builds: `if chunk_size:` takes the argument unless it is None or 0, otherwise the length of the chunk
   (n_chunks, chunk_index) of the enumeration; then current_index 0 and three zero arrays of that length *)
Definition init_chunk_size (size n_chunks chunk_index : Z) (chunk_size : option Z) : result Z :=
  match chunk_size with
  | Some c => if c =? 0 then dor l <- chunk_checked size chunk_index n_chunks; Ok (Z.of_nat (length l)) else Ok c
  | None => dor l <- chunk_checked size chunk_index n_chunks; Ok (Z.of_nat (length l))
  end.
Definition cdm_fresh {V} (vzero : V) (size chunk : Z) : cdm V :=
  {| c_size := size; c_chunk := chunk; c_cur := 0; c_rows := repeat 0 (Z.to_nat chunk);
     c_cols := repeat 0 (Z.to_nat chunk); c_vals := repeat vzero (Z.to_nat chunk) |}.
(* every stored index pair addresses a cell of the size x size matrix (add_value's guards give the upper bounds; the
   pipeline only stores pairs of the enumeration, which are not negative) *)
Definition entries_in_range {V} (st : cdm V) : Prop :=
  forall k, (k < Z.to_nat (c_cur st))%nat ->
    0 <= nth k (c_rows st) 0 < c_size st /\ 0 <= nth k (c_cols st) 0 < c_size st.
(* a matrix that holds a value has at least two rows (there is no pair below the diagonal otherwise) *)
Definition roomy {V} (st : cdm V) : Prop := c_cur st = 0 \/ 2 <= c_size st.

(* ---- save / load: the HDF5 file as the record of its four datasets (each absent until created).  h5py's
   create_dataset(name, data=a) stores the array a under name, f[name][:] reads it back whole, f[name][0] its first
   item; a missing dataset is a KeyError (tag 15).  No proofs here. *)
From Batchie Require Import Lib.PyRt.
Record h5cdm (V : Type) := {
  f_rows : option (list Z); f_cols : option (list Z); f_vals : option (list V); f_size : option (list Z) }.
Arguments f_rows {V}. Arguments f_cols {V}. Arguments f_vals {V}. Arguments f_size {V}.
Definition h5cdm_new (V : Type) : h5cdm V := {| f_rows := None; f_cols := None; f_vals := None; f_size := None |}.
Definition set_f_rows {V} (f : h5cdm V) (a : list Z) : h5cdm V :=
  {| f_rows := Some a; f_cols := f_cols f; f_vals := f_vals f; f_size := f_size f |}.
Definition set_f_cols {V} (f : h5cdm V) (a : list Z) : h5cdm V :=
  {| f_rows := f_rows f; f_cols := Some a; f_vals := f_vals f; f_size := f_size f |}.
Definition set_f_vals {V} (f : h5cdm V) (a : list V) : h5cdm V :=
  {| f_rows := f_rows f; f_cols := f_cols f; f_vals := Some a; f_size := f_size f |}.
Definition set_f_size {V} (f : h5cdm V) (a : list Z) : h5cdm V :=
  {| f_rows := f_rows f; f_cols := f_cols f; f_vals := f_vals f; f_size := Some a |}.
Definition h5_dataset {A : Type} (o : option A) : result A := match o with Some a => Ok a | None => Err 15 end.
Definition h5_first (o : option (list Z)) : result Z := dor a <- h5_dataset o; list_get a 0.
(* the file save writes for a stored object: the used prefixes of the three arrays and the one-item array [size] *)
Definition file_of_storage {V} (st : cdm V) : h5cdm V :=
  {| f_rows := Some (np_prefix (c_rows st) (c_cur st)); f_cols := Some (np_prefix (c_cols st) (c_cur st));
     f_vals := Some (np_prefix (c_vals st) (c_cur st)); f_size := Some [c_size st] |}.
