(* C07 model, part 2: ChunkedDistanceMatrix (batchie.distance_calculation) as a list of
   (row, col, value) entries in insertion order, and
   calculate_pairwise_distance_matrix_on_predictions.  The zero-initialised backing
   arrays and their growth are abstracted away: in every state the pipeline reaches,
   the slot at current_index is zero (fresh np.zeros / exact-length copy), so the three
   "already calculated" guards of add_value never fire.  No proofs here.
   Error tags: 1 out of bounds, 2 not lower triangular, 3 size mismatch,
               4 concat of nothing, 5 not complete. *)
From Coq Require Import ZArith List Bool.
From Batchie Require Import Lib.Sexp Model.Chunks.
Import ListNotations.
Open Scope Z_scope.

Section DistMat.
Variable V : Type.
Variable vzero : V.

Definition entry := (Z * Z * V)%type.
Record dmat := { dm_size : Z; dm_entries : list entry }.

Definition dm_empty (size : Z) : dmat := {| dm_size := size; dm_entries := [] |}.

Definition add_value (m : dmat) (i j : Z) (v : V) : result dmat :=
  if (i >=? dm_size m) || (j >=? dm_size m) then Err 1
  else if i <? j then Err 2
  else Ok {| dm_size := dm_size m; dm_entries := dm_entries m ++ [(i, j, v)] |}.

Definition has_key (es : list entry) (i j : Z) : bool :=
  existsb (fun e => let '(a, b, _) := e in (a =? i) && (b =? j)) es.

(* combine: copy self, then add every entry of other whose (row, col) is not yet present *)
Fixpoint combine_loop (acc : dmat) (es : list entry) : result dmat :=
  match es with
  | [] => Ok acc
  | (i, j, v) :: r =>
      if has_key (dm_entries acc) i j then combine_loop acc r
      else dor acc' <- add_value acc i j v; combine_loop acc' r
  end.

Definition combine (a b : dmat) : result dmat :=
  if negb (dm_size a =? dm_size b) then Err 3
  else combine_loop a (dm_entries b).

Fixpoint concat_loop (acc : dmat) (ms : list dmat) : result dmat :=
  match ms with
  | [] => Ok acc
  | m :: r =>
      if negb (dm_size acc =? dm_size m) then Err 3
      else dor acc' <- combine acc m; concat_loop acc' r
  end.

Definition dm_concat (ms : list dmat) : result dmat :=
  match ms with
  | [] => Err 4
  | [m] => Ok m
  | m :: r => concat_loop m r
  end.

Definition is_complete (m : dmat) : bool :=
  Z.of_nat (length (dm_entries m)) =? n_lower (dm_size m).

(* to_dense writes dense[i,j] = dense[j,i] = v for each entry in order: the value read
   back at (a,b) is that of the LAST entry touching (a,b) or (b,a), else 0. *)
Fixpoint dense_get (es : list entry) (a b : Z) (cur : V) : V :=
  match es with
  | [] => cur
  | (i, j, v) :: r =>
      if ((i =? a) && (j =? b)) || ((i =? b) && (j =? a)) then dense_get r a b v
      else dense_get r a b cur
  end.

Definition to_dense (m : dmat) : result (list (list V)) :=
  if negb (is_complete m) then Err 5
  else
    let n := Z.to_nat (dm_size m) in
    Ok (map (fun a => map (fun b => dense_get (dm_entries m) (Z.of_nat a) (Z.of_nat b) vzero)
                          (seq 0 n)) (seq 0 n)).

(* save / load through h5py: datasets row_indices[:cur], col_indices[:cur], values[:cur], size *)
Definition dm_save (m : dmat) : Z * list entry := (dm_size m, dm_entries m).
Definition dm_load (f : Z * list entry) : dmat := {| dm_size := fst f; dm_entries := snd f |}.

(* calculate_pairwise_distance_matrix_on_predictions with the metric/prediction
   composite abstracted as d i j *)
Fixpoint add_all (d : nat -> nat -> V) (m : dmat) (ps : list (nat * nat)) : result dmat :=
  match ps with
  | [] => Ok m
  | (i, j) :: r => dor m' <- add_value m (Z.of_nat i) (Z.of_nat j) (d i j); add_all d m' r
  end.

Definition compute_chunk (d : nat -> nat -> V) (n : nat) (chunk_index n_chunks : Z) : result dmat :=
  add_all d (dm_empty (Z.of_nat n)) (chunk n chunk_index n_chunks).

(* the whole pipeline: compute the listed chunk indices, save, load, concat, densify *)
Definition pipeline (d : nat -> nat -> V) (n : nat) (n_chunks : Z) (order : list Z)
  : result (list (list V)) :=
  dor ms <- res_map_all (fun k => dor m <- compute_chunk d n k n_chunks; Ok (dm_load (dm_save m))) order;
  dor m <- dm_concat ms;
  to_dense m.

End DistMat.

Arguments dm_size {V}.
Arguments dm_entries {V}.
