(* C19 (and C16's excludes chain) — vocabulary of the link between the model's file kinds and the nextflow side
   (Generated/SrcNfOutputs.v, written by harness/nf_reader.py from /repo/nextflow/**; proofs: Proofs/C19Nf.v).  No proofs here.
     kind_pattern k      the file-name pattern the orchestration script globs for when the model says "the file of kind k"
                         (Orchestrate.glob_in_plate / glob_in_job / glob_meta / glob_selected)
     kind_process k      the nextflow process that publishes it
     kind_levels k       directory levels between the job directory (iter_<i>) the script globs from and the file:
                         1 = <job dir>/*/<file>; selected_plate is globbed from the iteration directory: plate_*/*/<file> = 2
     glob_match p s      fnmatch with `*` as the only wildcard (enough for the seven patterns)
     kind_of_code        the kind codes of the wire format (Run/RunC19.v)
     publish_setting     the publishDir value under which `--outdir <job dir>` of the script's command line makes a module's
                         ${prefix}/<file> appear as <job dir>/<prefix>/<file>
     excludes_sep        the separator of `"--excludes={}".format(",".join(excludes))` in run_subsequent_batch_plate (the
                         text of that primitive in harness/src_functions.py: a changed separator refuses the translation) *)
From Coq Require Import ZArith List String Ascii Bool.
From Batchie Require Import Model.Orchestrate.
Import ListNotations.
Open Scope string_scope.

Definition kind_pattern (k : kind) : string :=
  match k with
  | KTraining => "training.screen.h5" | KTest => "test.screen.h5" | KThetas => "thetas*.h5"
  | KDist => "distance_matrix_chunk*.h5" | KSelected => "selected_plate" | KAdvanced => "advanced_screen.h5"
  | KMeta => "screen_metadata.json"
  end.
Definition kind_process (k : kind) : string :=
  match k with
  | KTraining => "PREPARE_RETROSPECTIVE_SIMULATION" | KTest => "PREPARE_RETROSPECTIVE_SIMULATION" | KThetas => "TRAIN_MODEL"
  | KDist => "CALCULATE_DISTANCE_MATRIX_CHUNK" | KSelected => "SELECT_NEXT_PLATE" | KAdvanced => "REVEAL_PLATE"
  | KMeta => "EXTRACT_SCREEN_METADATA"
  end.
Definition kind_levels (k : kind) : nat := match k with KSelected => 2 | _ => 1 end.
Definition kind_of_code (z : Z) : option kind :=
  match z with
  | 0%Z => Some KTraining | 1%Z => Some KTest | 2%Z => Some KThetas | 3%Z => Some KDist
  | 4%Z => Some KSelected | 5%Z => Some KAdvanced | 6%Z => Some KMeta | _ => None
  end.

Fixpoint glob_match_fuel (fuel : nat) (p s : list ascii) : bool :=
  match fuel with
  | O => false
  | S f =>
      match p, s with
      | [], [] => true
      | c :: p', _ =>
          if Ascii.eqb c "*"%char
          then glob_match_fuel f p' s || match s with [] => false | _ :: s' => glob_match_fuel f p s' end
          else match s with d :: s' => Ascii.eqb c d && glob_match_fuel f p' s' | [] => false end
      | [], _ :: _ => false
      end
  end.
Definition glob_match (p s : string) : bool :=
  let p' := list_ascii_of_string p in let s' := list_ascii_of_string s in
  glob_match_fuel (S (List.length p' + List.length s')) p' s'.

Definition publish_setting : string := "{ ""${params.outdir}"" }".
Definition publish_prefix : string := "${meta.id}".
Definition excludes_sep : string := ",".
(* names used by the statement of the excludes chain (Props/C19.v is not in string scope) *)
Definition S_excludes : string := "excludes".
Definition S_blank : string := " ".
Definition S_batch_plate_id : string := "batch_plate_id".
