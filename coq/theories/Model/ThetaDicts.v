(* C10 model, second part: the two shipped posterior-sample classes and their dict representations - what Model/Thetas.v
   leaves opaque (a sample there is a pair (private, shared) of two opaque values).  No proofs here.

     SparseDrugComboMCMCSample              models/sparse_combo.py:27-65              sc_sample
       private_parameters_dict (self.__dict__), from_dicts (cls( **private_params)), the inherited
       Theta.shared_parameters_dict (core.py:58-64, {})
     SparseDrugComboInteractionMCMCSample   models/sparse_combo_interaction.py:26-106  in_sample
       private_parameters_dict, shared_parameters_dict (the single-effect table as three parallel arrays),
       from_dicts (the table rebuilt by dict(zip(zip(keys1, keys2), vals)))
     Theta.equals                           core.py:76-97                              theta_equals

   A parameter dict is a `strdict pval` (Lib/PyRt.v: insertion-ordered association list with string keys, a key = the
   list of its code points).  A dict VALUE is a pval:
     PArr a    a float ndarray (W, V2, ...); A is abstract: dtype, shape and element values
     PNum x    a float scalar (alpha, precision); F is abstract (a Python float / numpy float64)
     PInts l   a 1-d array of integers (the sample / treatment columns of the exported table)
     PNums l   a 1-d array of floats (the value column of the exported table)
   The dataclass fields are typed by kind (W : A, precision : F): Python itself does not check them.  Error tags:
     93  TypeError of cls( **d): a key that is not a field (or is passed twice), or a missing field
     94  KeyError of shared_params[name]
     95  NOT a Python behaviour: a dict value of another kind than the class's own *_parameters_dict writes under that
         key (an array where a scalar is expected, ...).  What Python does there (no check at all in the dataclass,
         numpy broadcasting in the comparisons) is outside the model; no dict obtained from a sample reaches it
         (Proofs/C10SourceDicts.v: the round-trip and equality theorems are free of this tag).
   Not modelled: the dtype of an EMPTY exported table (numpy makes all three arrays float64 when the table is empty; they
   are PInts [] / PNums [] here), Python-int versus numpy-int64 keys of the rebuilt table (equal and hash-equal), aliasing
   (private_parameters_dict of the first class returns the live __dict__ of the instance). *)
From Coq Require Import ZArith List Bool.
From Coq Require String Ascii.
From Batchie Require Import Lib.Sexp Lib.PyRt.
Import ListNotations.
Import String.StringSyntax.
Local Open Scope string_scope.
Open Scope Z_scope.

(* a key written as text: the code points of an ASCII string *)
Definition key (s : String.string) : pystr :=
  map (fun c => Z.of_N (Ascii.N_of_ascii c)) (String.list_ascii_of_string s).

Section Samples.
Variables A F : Type.

Inductive pval := PArr (a : A) | PNum (x : F) | PInts (l : list Z) | PNums (l : list F).
Definition pdict := list (pystr * pval).

(* a dict value used where the class expects one kind (Err 95: see the header) *)
Definition as_arr (v : pval) : result A := match v with PArr a => Ok a | _ => Err 95 end.
Definition as_num (v : pval) : result F := match v with PNum x => Ok x | _ => Err 95 end.
Definition as_ints (v : pval) : result (list Z) := match v with PInts l => Ok l | _ => Err 95 end.
Definition as_nums (v : pval) : result (list F) := match v with PNums l => Ok l | _ => Err 95 end.

(* ---- SparseDrugComboMCMCSample ---- *)
Record sc_sample := { sc_W : A; sc_W0 : A; sc_V2 : A; sc_V1 : A; sc_V0 : A; sc_alpha : F; sc_precision : F }.

(* private_parameters_dict: the instance dict of the dataclass - one entry per field, in declaration order *)
Definition sc_private (t : sc_sample) : pdict :=
  [(key "W", PArr (sc_W t)); (key "W0", PArr (sc_W0 t)); (key "V2", PArr (sc_V2 t)); (key "V1", PArr (sc_V1 t));
   (key "V0", PArr (sc_V0 t)); (key "alpha", PNum (sc_alpha t)); (key "precision", PNum (sc_precision t))].

(* Theta.shared_parameters_dict (not overridden by this class): no shared parameters *)
Definition no_shared : pdict := [].

(* F( **d): the keys of d are among the names, and every name is there (TypeError = Err 93 otherwise) *)
Definition keys_among (names : list pystr) (d : pdict) : bool :=
  forallb (fun kv => existsb (str_eqb (fst kv)) names) d.
Definition kwarg (d : pdict) (k : pystr) : result pval := sdict_read 93 d k.

(* from_dicts: cls( **private_params); shared_params is not read *)
Definition sc_from_dicts (p s : pdict) : result sc_sample :=
  if negb (keys_among [key "W"; key "W0"; key "V2"; key "V1"; key "V0"; key "alpha"; key "precision"] p) then Err 93 else
  dor w <- kwarg p (key "W"); dor w0 <- kwarg p (key "W0"); dor v2 <- kwarg p (key "V2"); dor v1 <- kwarg p (key "V1");
  dor v0 <- kwarg p (key "V0"); dor al <- kwarg p (key "alpha"); dor pr <- kwarg p (key "precision");
  dor w <- as_arr w; dor w0 <- as_arr w0; dor v2 <- as_arr v2; dor v1 <- as_arr v1; dor v0 <- as_arr v0;
  dor al <- as_num al; dor pr <- as_num pr;
  Ok {| sc_W := w; sc_W0 := w0; sc_V2 := v2; sc_V1 := v1; sc_V0 := v0; sc_alpha := al; sc_precision := pr |}.

(* ---- SparseDrugComboInteractionMCMCSample ---- *)
(* single_effect_lookup: a dict (sample id, treatment id) -> float, as the insertion-ordered list of its items *)
Definition table := list ((Z * Z) * F).
Record in_sample := { in_W : A; in_V2 : A; in_precision : F; in_lookup : table }.

Definition in_private (t : in_sample) : pdict :=
  [(key "W", PArr (in_W t)); (key "V2", PArr (in_V2 t)); (key "precision", PNum (in_precision t))].

(* the table exported column by column, rows in the dict's iteration order *)
Definition in_shared (t : in_sample) : pdict :=
  [(key "single_effect_lookup_keys1", PInts (map (fun x => fst (fst x)) (in_lookup t)));
   (key "single_effect_lookup_keys2", PInts (map (fun x => snd (fst x)) (in_lookup t)));
   (key "single_effect_lookup_vals", PNums (map (fun x => snd x) (in_lookup t)))].

(* zip(a, b) of two id columns / of the key pairs and the value column: pairs up to the shorter one *)
Definition zip_ids (a b : pval) : result (list (Z * Z)) := dor x <- as_ints a; dor y <- as_ints b; Ok (combine x y).
Definition zip_vals (ks : list (Z * Z)) (v : pval) : result (list ((Z * Z) * F)) := dor y <- as_nums v; Ok (combine ks y).
(* dict(pairs): inserted from the left (a repeated key keeps its first place and gets the last value) *)
Definition table_of_pairs (l : list ((Z * Z) * F)) : table :=
  fold_left (fun d kv => pdict_set d (fst (fst kv)) (snd (fst kv)) (snd kv)) l [].

Definition in_from_dicts (p s : pdict) : result in_sample :=
  dor k1 <- sdict_read 94 s (key "single_effect_lookup_keys1");
  dor k2 <- sdict_read 94 s (key "single_effect_lookup_keys2");
  dor ks <- zip_ids k1 k2;
  dor vs <- sdict_read 94 s (key "single_effect_lookup_vals");
  dor kv <- zip_vals ks vs;
  if negb (keys_among [key "W"; key "V2"; key "precision"] p) then Err 93 else
  dor w <- kwarg p (key "W"); dor v2 <- kwarg p (key "V2"); dor pr <- kwarg p (key "precision");
  dor w <- as_arr w; dor v2 <- as_arr v2; dor pr <- as_num pr;
  Ok {| in_W := w; in_V2 := v2; in_precision := pr; in_lookup := table_of_pairs kv |}.

(* ---- Theta.equals ---- *)
(* aeqb = np.array_equal on two float arrays (same shape and all elements ==), feqb = float == (false on NaN) *)
Variables (aeqb : A -> A -> bool) (feqb : F -> F -> bool).

(* isinstance(v, Number) / isinstance(v, ArrayType) on a dict value *)
Definition pval_is_number (v : pval) : bool := match v with PNum _ => true | _ => false end.
Definition pval_is_array (v : pval) : bool := match v with PNum _ => false | _ => true end.
Fixpoint list_eqb {X : Type} (e : X -> X -> bool) (a b : list X) : bool :=
  match a, b with
  | [], [] => true
  | x :: a', y :: b' => e x y && list_eqb e a' b'
  | _, _ => false
  end.
(* v != w on two scalars; np.array_equal(v, w) on two arrays of one kind (Err 95: mixed kinds, see the header) *)
Definition py_ne (v w : pval) : result bool :=
  match v, w with PNum x, PNum y => Ok (negb (feqb x y)) | _, _ => Err 95 end.
Definition np_array_equal (v w : pval) : result bool :=
  match v, w with
  | PArr x, PArr y => Ok (aeqb x y)
  | PInts x, PInts y => Ok (list_eqb Z.eqb x y)
  | PNums x, PNums y => Ok (list_eqb feqb x y)
  | _, _ => Err 95
  end.

(* the test equals applies to the value v of d1 and the value w found under the same key in d2 *)
Definition pval_equal (v w : pval) : result bool :=
  if pval_is_number v then dor ne <- py_ne v w; Ok (negb ne) else np_array_equal v w.

(* every entry of d1 has an equal entry under the same key in d2 (entries of d1 in order, first failure decides) *)
Fixpoint dict_included (d1 d2 : pdict) : result bool :=
  match d1 with
  | [] => Ok true
  | (k, v) :: r =>
      match sdict_get d2 k with
      | None => Ok false
      | Some w => dor e <- pval_equal v w; if e then dict_included r d2 else Ok false
      end
  end.

(* equals, for ANY class of samples T given by its class test and its two dict methods *)
Definition theta_equals {T : Type} (same_class : T -> T -> bool) (priv shar : T -> result pdict) (a b : T) : result bool :=
  if negb (same_class a b) then Ok false else
  dor p1 <- priv a; dor p2 <- priv b; dor s1 <- shar a; dor s2 <- shar b;
  dor e <- dict_included p1 p2;
  if e then dict_included s1 s2 else Ok false.

(* the model equalities of the two classes: field by field; the tables row by row, in iteration order *)
Definition sc_eqb (a b : sc_sample) : bool :=
  aeqb (sc_W a) (sc_W b) && aeqb (sc_W0 a) (sc_W0 b) && aeqb (sc_V2 a) (sc_V2 b) && aeqb (sc_V1 a) (sc_V1 b)
  && aeqb (sc_V0 a) (sc_V0 b) && feqb (sc_alpha a) (sc_alpha b) && feqb (sc_precision a) (sc_precision b).
Definition table_eqb (x y : table) : bool :=
  list_eqb Z.eqb (map (fun r => fst (fst r)) x) (map (fun r => fst (fst r)) y)
  && list_eqb Z.eqb (map (fun r => snd (fst r)) x) (map (fun r => snd (fst r)) y)
  && list_eqb feqb (map (fun r => snd r) x) (map (fun r => snd r) y).
Definition in_eqb (a b : in_sample) : bool :=
  aeqb (in_W a) (in_W b) && aeqb (in_V2 a) (in_V2 b) && feqb (in_precision a) (in_precision b)
  && table_eqb (in_lookup a) (in_lookup b).

(* any shipped sample: the class is the constructor *)
Inductive sample := SCombo (t : sc_sample) | SInter (t : in_sample).
Definition same_class (a b : sample) : bool :=
  match a, b with SCombo _, SCombo _ => true | SInter _, SInter _ => true | _, _ => false end.
Definition sample_private (t : sample) : pdict := match t with SCombo c => sc_private c | SInter i => in_private i end.
Definition sample_shared (t : sample) : pdict := match t with SCombo _ => no_shared | SInter i => in_shared i end.
Definition sample_eqb (a b : sample) : bool :=
  match a, b with SCombo x, SCombo y => sc_eqb x y | SInter x, SInter y => in_eqb x y | _, _ => false end.

(* the representation of a sample in Model/Thetas.v: theta P S at P = S = pdict *)
Definition sample_theta (t : sample) : pdict * pdict := (sample_private t, sample_shared t).

(* two dicts that are the same finite map (any order of the entries): what from_dicts is sensitive to.  Reading an HDF5
   group gives the attributes first and then the datasets by name - another order than the one written *)
Definition dict_equiv (d1 d2 : pdict) : Prop := forall k, sdict_get d1 k = sdict_get d2 k.

(* two dict values / dicts that agree as equals compares them: entry by entry under the same key, arrays by aeqb, scalars and
   the float column by feqb, the id columns exactly *)
Inductive pval_agree : pval -> pval -> Prop :=
| AgArr : forall a b, aeqb a b = true -> pval_agree (PArr a) (PArr b)
| AgNum : forall x y, feqb x y = true -> pval_agree (PNum x) (PNum y)
| AgInts : forall l, pval_agree (PInts l) (PInts l)
| AgNums : forall l l', Forall2 (fun x y => feqb x y = true) l l' -> pval_agree (PNums l) (PNums l').
Definition pdict_agree (d1 d2 : pdict) : Prop :=
  Forall2 (fun e1 e2 => fst e1 = fst e2 /\ pval_agree (snd e1) (snd e2)) d1 d2.

End Samples.

Arguments PArr {A F}.
Arguments PNum {A F}.
Arguments PInts {A F}.
Arguments PNums {A F}.
Arguments sc_W {A F}.
Arguments sc_W0 {A F}.
Arguments sc_V2 {A F}.
Arguments sc_V1 {A F}.
Arguments sc_V0 {A F}.
Arguments sc_alpha {A F}.
Arguments sc_precision {A F}.
Arguments in_W {A F}.
Arguments in_V2 {A F}.
Arguments in_precision {A F}.
Arguments in_lookup {A F}.
Arguments as_arr {A F}.
Arguments as_num {A F}.
Arguments as_ints {A F}.
Arguments as_nums {A F}.
Arguments sc_private {A F}.
Arguments in_private {A F}.
Arguments in_shared {A F}.
Arguments zip_ids {A F}.
Arguments zip_vals {A F}.
Arguments table_of_pairs {F}.
Arguments pval_is_number {A F}.
Arguments pval_is_array {A F}.
Arguments py_ne {A F}.
Arguments np_array_equal {A F}.
Arguments SCombo {A F}.
Arguments SInter {A F}.
