(* C07 model, part 1: lower-triangular index enumeration and the chunk arithmetic of
   batchie.distance_calculation.get_lower_triangular_indices_chunk.  No proofs here. *)
From Coq Require Import ZArith List.
Import ListNotations.
Open Scope Z_scope.

(* lower_triangular_indices(n): for i in range(n): for j in range(i): yield i, j *)
Definition lower_tri (n : nat) : list (nat * nat) :=
  flat_map (fun i => map (fun j => (i, j)) (seq 0 i)) (seq 0 n).

(* get_number_of_lower_triangular_indices: n * (n - 1) // 2 *)
Definition n_lower (n : Z) : Z := n * (n - 1) / 2.

(* start/end arithmetic, statement by statement *)
Definition chunk_bounds (n_indices chunk_index n_chunks : Z) : Z * Z :=
  let chunk_size := n_indices / n_chunks in
  let remainder := n_indices mod n_chunks in
  let start_index := chunk_index * chunk_size in
  let end_index := start_index + chunk_size in
  if chunk_index <? remainder
  then (start_index + chunk_index, end_index + chunk_index + 1)
  else (start_index + remainder, end_index + remainder).

(* consume(g, start); list(islice(g, end - start)) *)
Definition slice {A} (l : list A) (s e : Z) : list A :=
  firstn (Z.to_nat (e - s)) (skipn (Z.to_nat s) l).

Definition chunk (n : nat) (chunk_index n_chunks : Z) : list (nat * nat) :=
  let '(s, e) := chunk_bounds (n_lower (Z.of_nat n)) chunk_index n_chunks in
  slice (lower_tri n) s e.

Definition all_chunks (n : nat) (n_chunks : nat) : list (list (nat * nat)) :=
  map (fun k => chunk n (Z.of_nat k) (Z.of_nat n_chunks)) (seq 0 n_chunks).

(* ---- vocabulary of the whole-function translations of distance_calculation.py (harness/src_functions.py, entries C07_...)
   and the checked form of [chunk] they are linked to.  No proofs here.
   An iterator over a generator is the list of the items it has not produced yet.
   Error tags: 8 ValueError of islice (negative count), 9 AssertionError, 10 ZeroDivisionError. *)
From Batchie Require Import Lib.Sexp.

(* collections.deque(islice(it, k), maxlen=0): k items are consumed and thrown away (fewer if the iterator ends);
   islice refuses a negative k *)
Definition islice_drop {A : Type} (it : list A) (k : Z) : result (list A) :=
  if k <? 0 then Err 8 else Ok (skipn (Z.to_nat k) it).
(* list(islice(it, k)): the next k items (fewer if the iterator ends) *)
Definition islice_take {A : Type} (it : list A) (k : Z) : result (list A) :=
  if k <? 0 then Err 8 else Ok (firstn (Z.to_nat k) it).

(* get_lower_triangular_indices_chunk for ALL integer arguments: the assert, the division by n_chunks, the two
   islice calls may fail; otherwise it is the slice of the enumeration [chunk] takes (for n < 0 the enumeration is empty) *)
Definition chunk_checked (n chunk_index n_chunks : Z) : result (list (Z * Z)) :=
  if negb (chunk_index <? n_chunks) then Err 9
  else if n_chunks =? 0 then Err 10
  else
    let '(s, e) := chunk_bounds (n_lower n) chunk_index n_chunks in
    if s <? 0 then Err 8
    else if e - s <? 0 then Err 8
    else Ok (map (fun p => (Z.of_nat (fst p), Z.of_nat (snd p))) (slice (lower_tri (Z.to_nat n)) s e)).
