(* C07 model, part 1: lower-triangular index enumeration and the chunk arithmetic of
   batchie.distance_calculation.get_lower_triangular_indices_chunk.  No proofs here. *)
From Coq Require Import ZArith List.
Import ListNotations.
Open Scope Z_scope.

(* lower_triangular_indices(n): for i in range(n): for j in range(i): yield i, j *)
Definition lower_tri (n : nat) : list (nat * nat) :=
  flat_map (fun i => map (fun j => (i, j)) (seq 0 i)) (seq 0 n).

(* get_number_of_lower_triangular_indices: n * (n - 1) // 2 *)
Definition n_lower (n : Z) : Z := n * (n - 1) / 2.

(* start/end arithmetic, statement by statement *)
Definition chunk_bounds (n_indices chunk_index n_chunks : Z) : Z * Z :=
  let chunk_size := n_indices / n_chunks in
  let remainder := n_indices mod n_chunks in
  let start_index := chunk_index * chunk_size in
  let end_index := start_index + chunk_size in
  if chunk_index <? remainder
  then (start_index + chunk_index, end_index + chunk_index + 1)
  else (start_index + remainder, end_index + remainder).

(* consume(g, start); list(islice(g, end - start)) *)
Definition slice {A} (l : list A) (s e : Z) : list A :=
  firstn (Z.to_nat (e - s)) (skipn (Z.to_nat s) l).

Definition chunk (n : nat) (chunk_index n_chunks : Z) : list (nat * nat) :=
  let '(s, e) := chunk_bounds (n_lower (Z.of_nat n)) chunk_index n_chunks in
  slice (lower_tri n) s e.

Definition all_chunks (n : nat) (n_chunks : nat) : list (list (nat * nat)) :=
  map (fun k => chunk n (Z.of_nat k) (Z.of_nat n_chunks)) (seq 0 n_chunks).
