(* C10 model: batchie.core.ThetaHolder (core.py:100-263) and the chain labelling of
   batchie.cli.evaluate_model.main (evaluate_model.py:57-82).  No proofs here.

   A posterior sample (Theta) is a pair (private, shared) of two opaque values:
     private = what private_parameters_dict() returns (W, V2, precision, ... : written as one
               HDF5 group per sample, arrays as datasets, scalars as attrs, read back by
               from_dicts, i.e. cls(private_params as keyword arguments)),
     shared  = what shared_parameters_dict() returns (the single-effect table of
               SparseDrugComboInteractionMCMCSample; the empty dict = tt for
               SparseDrugComboMCMCSample).
   Abstracted (validated bit-for-bit by the correspondence harness on every case): an HDF5
   dataset / attribute read returns the array / scalar that was written, and from_dicts rebuilds
   the sample from its two dicts.  Also abstracted: the `type(self) != type(other)` guards of
   combine/concat (the tree has a single holder class; load_h5 and combine both return a plain
   ThetaHolder).

   holder    = (declared size n_thetas : Z, thetas : list)            ThetaHolder.__init__
   add_theta                                                          core.py:213-223
   get_theta                                                          core.py:110-118
   combine, concat                                                    core.py:120-133, 242-263
   file      = (n_thetas attr, shared_params of sample 0, groups)     save_h5 core.py:135-172
               a group is (key, private) where key = str(i) is the DECIMAL STRING of the
               sample index (Decimal.uint, most significant digit first); the list of groups is
               held in the order in which h5py iterates `private_grp.keys()`: lexicographic by
               name ("0" "1" "10" "11" "2" ...), hence lexsort.
   load      = sorted(keys, key=int), then add_theta one by one       load_h5 core.py:174-211
   chain_ids = for i, t in enumerate(holders): [i] * t.n_thetas       evaluate_model.py:65-69
   evaluate  = concat; chain_ids; predict_viability_all's loop
               `for k in range(thetas.n_thetas): thetas.get_theta(k)` (models/main.py:156-158);
               ModelEvaluation's length check (models/main.py:48)  -> list of (chain id, sample)

   Error tags: 1 add beyond declared size, 2 get out of range, 3 concat of nothing,
               4 save of an empty holder, 5 chain_ids / prediction columns length mismatch. *)
From Coq Require Import ZArith List Bool Decimal DecimalNat.
From Batchie Require Import Lib.Sexp.
Import ListNotations.
Open Scope Z_scope.

(* ---- decimal strings and their two orders -------------------------------------------- *)

(* the characters of a decimal string, as digit values (ASCII order of '0'..'9' = digit order) *)
Fixpoint digits (u : Decimal.uint) : list nat :=
  match u with
  | Decimal.Nil => []
  | Decimal.D0 r => 0%nat :: digits r
  | Decimal.D1 r => 1%nat :: digits r
  | Decimal.D2 r => 2%nat :: digits r
  | Decimal.D3 r => 3%nat :: digits r
  | Decimal.D4 r => 4%nat :: digits r
  | Decimal.D5 r => 5%nat :: digits r
  | Decimal.D6 r => 6%nat :: digits r
  | Decimal.D7 r => 7%nat :: digits r
  | Decimal.D8 r => 8%nat :: digits r
  | Decimal.D9 r => 9%nat :: digits r
  end.

(* str(i) *)
Definition key_of_index (i : nat) : Decimal.uint := Nat.to_uint i.
(* int(key) *)
Definition index_of_key (k : Decimal.uint) : nat := Nat.of_uint k.

(* a <= b as strings: first differing character decides, a proper prefix is smaller *)
Fixpoint lex_leb (a b : list nat) : bool :=
  match a, b with
  | [], _ => true
  | _ :: _, [] => false
  | x :: a', y :: b' => if Nat.ltb x y then true else if Nat.ltb y x then false else lex_leb a' b'
  end.

(* stable insertion sort by a key and a <= test on keys *)
Section Sort.
Context {A K : Type} (key : A -> K) (leb : K -> K -> bool).
Fixpoint sort_insert (x : A) (l : list A) : list A :=
  match l with
  | [] => [x]
  | y :: r => if leb (key x) (key y) then x :: l else y :: sort_insert x r
  end.
Definition sort_by (l : list A) : list A := fold_right sort_insert [] l.
End Sort.

Definition enumerate {A} (l : list A) : list (nat * A) := combine (seq 0 (length l)) l.

Section Thetas.
Variables P S : Type.          (* private and shared parameters of one sample *)
Definition theta := (P * S)%type.

Record holder := { h_declared : Z; h_thetas : list theta }.

Definition empty_holder (n : Z) : holder := {| h_declared := n; h_thetas := [] |}.

Definition is_complete (h : holder) : bool := Z.of_nat (length (h_thetas h)) =? h_declared h.

Definition add_theta (h : holder) (t : theta) : result holder :=
  if Z.of_nat (length (h_thetas h)) >=? h_declared h then Err 1
  else Ok {| h_declared := h_declared h; h_thetas := h_thetas h ++ [t] |}.

Definition get_theta (h : holder) (i : Z) : result theta :=
  if (i >? Z.of_nat (length (h_thetas h)) - 1) || (i <? 0) then Err 2
  else match nth_error (h_thetas h) (Z.to_nat i) with Some t => Ok t | None => Err 2 end.

Definition combine_holders (a b : holder) : holder :=
  {| h_declared := h_declared a + h_declared b; h_thetas := h_thetas a ++ h_thetas b |}.

Definition concat_holders (hs : list holder) : result holder :=
  match hs with
  | [] => Err 3
  | [h] => Ok h
  | h :: r => Ok (fold_left combine_holders r h)
  end.

(* ---- persistence ------------------------------------------------------------------- *)

Record file := { f_n : Z; f_shared : S; f_groups : list (Decimal.uint * P) }.

(* h5py's iteration order over the groups that save_h5 created *)
Definition lexsort (gs : list (Decimal.uint * P)) : list (Decimal.uint * P) :=
  sort_by (fun g => digits (fst g)) lex_leb gs.

Definition save (h : holder) : result file :=
  match h_thetas h with
  | [] => Err 4
  | t0 :: _ =>
      Ok {| f_n := h_declared h;
            f_shared := snd t0;
            f_groups := lexsort (map (fun it => (key_of_index (fst it), fst (snd it)))
                                     (enumerate (h_thetas h))) |}
  end.

(* sorted(list(private_grp.keys()), key=int) *)
Definition numsort (gs : list (Decimal.uint * P)) : list (Decimal.uint * P) :=
  sort_by (fun g => index_of_key (fst g)) Nat.leb gs.

Fixpoint add_all (h : holder) (ts : list theta) : result holder :=
  match ts with
  | [] => Ok h
  | t :: r => dor h' <- add_theta h t; add_all h' r
  end.

Definition load (f : file) : result holder :=
  add_all (empty_holder (f_n f)) (map (fun g => (snd g, f_shared f)) (numsort (f_groups f))).

Definition save_load (h : holder) : result holder := dor f <- save h; load f.

(* ---- evaluate_model ------------------------------------------------------------------ *)

Definition chain_ids (hs : list holder) : list Z :=
  concat (map (fun ih => repeat (Z.of_nat (fst ih)) (Z.to_nat (h_declared (snd ih)))) (enumerate hs)).

(* main(): the labelled prediction columns, column k = (chain_ids[k], sample used for column k) *)
Definition evaluate (hs : list holder) : result (list (Z * theta)) :=
  dor h <- concat_holders hs;
  let ids := chain_ids hs in
  dor cols <- res_map_all (fun k => get_theta h (Z.of_nat k)) (seq 0 (Z.to_nat (h_declared h)));
  if negb (Nat.eqb (length ids) (length cols)) then Err 5
  else Ok (combine ids cols).

(* the whole command line: every chain is saved, the files are loaded in argument order *)
Definition evaluate_files (hs : list holder) : result (list (Z * theta)) :=
  dor loaded <- res_map_all save_load hs;
  evaluate loaded.

End Thetas.

Arguments h_declared {P S}.
Arguments h_thetas {P S}.
Arguments f_n {P S}.
Arguments f_shared {P S}.
Arguments f_groups {P S}.

(* ---- vocabulary of the source translation ------------------------------------------------
   (harness/src_functions.py C10_*, Generated/SrcThetas.v, Proofs/C10Source.v)

   A holder OBJECT as the translated methods of ThetaHolder see it: (class id, attribute values).
   Class id 0 is ThetaHolder itself, any other id stands for a subclass (there is none in the
   tree); `type(a) != type(b)` compares class ids.  The two attributes are the fields of the
   model's holder: self._n_thetas = h_declared, self.thetas = h_thetas.  An attribute store
   rebuilds the object with one field replaced.  py_blank c is what object.__new__ hands to
   __init__: an instance of class c whose attributes do not exist yet; the placeholder values are
   both overwritten by __init__ (Proofs/C10Source.v src_init_is_model: the result does not depend
   on them).  as_obj is the representation map of the linking theorems: a model holder seen as an
   instance of ThetaHolder itself. *)
Section PyObjects.
Variables P S : Type.
Definition pyobj := (Z * holder P S)%type.
Definition py_class (o : pyobj) : Z := fst o.
Definition attr_thetas (o : pyobj) : list (theta P S) := h_thetas (snd o).
Definition attr_n_thetas (o : pyobj) : Z := h_declared (snd o).
Definition set_attr_thetas (o : pyobj) (l : list (theta P S)) : pyobj :=
  (fst o, {| h_declared := h_declared (snd o); h_thetas := l |}).
Definition set_attr_n_thetas (o : pyobj) (n : Z) : pyobj :=
  (fst o, {| h_declared := n; h_thetas := h_thetas (snd o) |}).
Definition py_blank (c : Z) : pyobj := (c, empty_holder P S 0).
Definition as_obj (h : holder P S) : pyobj := (0, h).
End PyObjects.

Arguments py_class {P S}.
Arguments attr_thetas {P S}.
Arguments attr_n_thetas {P S}.
Arguments set_attr_thetas {P S}.
Arguments set_attr_n_thetas {P S}.
Arguments py_blank {P S}.
Arguments as_obj {P S}.

(* vocabulary of the translation of ThetaHolder.load_h5 / save_h5: the HDF5 file is the model's `file`
   (n_thetas attribute, content of the shared_params group, the members of the private_params group
   in h5py's iteration order, each with the content P of the group = the dict that reading its
   attributes and datasets gives).  Not modelled: which sample class the file names. *)
Definition sample_class := unit.
Definition h5name := Decimal.uint.
Section PyH5.
Variable P : Type.
Definition h5groups := list (h5name * P).
(* g.keys(): the names of the members, in iteration order *)
Definition group_names (gs : h5groups) : list h5name := map fst gs.
(* sorted(names, key=int): Python's sort is stable *)
Definition sorted_by_int (ks : list h5name) : list h5name := sort_by index_of_key Nat.leb ks.
(* g[name]: the member of that name; KeyError (Err 97) if there is none *)
Fixpoint group_member (gs : h5groups) (k : h5name) : result P :=
  match gs with
  | [] => Err 97
  | (k', p) :: r => if Decimal.uint_beq k' k then Ok p else group_member r k
  end.
End PyH5.

Arguments group_names {P}.
Arguments group_member {P}.

(* save_h5 writes a file step by step; h5w is what has been created so far (members of the
   private_params group in creation order).  h5_close is the representation map of the linking
   theorem: the file as load_h5 will see it - all three parts must have been written, and the
   members iterate in h5py's name order (lexsort).  h5handle is the group object that
   f.create_group("private_params") returns: groups created through it are members of that group
   of f (the handle itself carries no data in the model).  Not modelled: h5py refuses to create a
   second member of the same name (the names str(i) of distinct i are distinct). *)
Definition h5handle := unit.
Section PyH5Write.
Variables P S : Type.
Record h5w := { w_n : option Z; w_shared : option S; w_groups : option (list (h5name * P)) }.
Definition h5_new : h5w := {| w_n := None; w_shared := None; w_groups := None |}.
(* f.attrs.create("n_thetas", n) *)
Definition h5_set_n (w : h5w) (n : Z) : h5w :=
  {| w_n := Some n; w_shared := w_shared w; w_groups := w_groups w |}.
(* the shared_params group created and filled from the dict s *)
Definition h5_write_shared (w : h5w) (s : S) : h5w :=
  {| w_n := w_n w; w_shared := Some s; w_groups := w_groups w |}.
(* the (empty) private_params group created *)
Definition h5_create_private (w : h5w) : h5w :=
  {| w_n := w_n w; w_shared := w_shared w; w_groups := Some [] |}.
(* a member group `name` created under private_params and filled from the dict p *)
Definition h5_add_group (w : h5w) (name : h5name) (p : P) : h5w :=
  {| w_n := w_n w; w_shared := w_shared w;
     w_groups := match w_groups w with Some g => Some (g ++ [(name, p)]) | None => None end |}.
Definition h5_close (w : h5w) : result (file P S) :=
  match w_n w, w_shared w, w_groups w with
  | Some n, Some s, Some g => Ok {| f_n := n; f_shared := s; f_groups := lexsort P g |}
  | _, _, _ => Err 96
  end.
End PyH5Write.

Arguments h5_new {P S}.
Arguments h5_set_n {P S}.
Arguments h5_write_shared {P S}.
Arguments h5_create_private {P S}.
Arguments h5_add_group {P S}.
Arguments h5_close {P S}.
