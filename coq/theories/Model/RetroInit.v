(* C13 model, part 4:
     batchie.retrospective.SparseCoverPlateGenerator (generate_and_unmask_initial_plate) -> [sparse_cover]
     batchie.data.filter_dataset_to_treatments_that_appear_in_at_least_one_combo         -> [combo_filter]
   A treatment id is modelled by what the code compares: [None] for every control
   (CONTROL_SENTINEL_VALUE: dose <= 0 or the control name), [Some (name, dose key)] otherwise
   (two non-control treatments have the same id iff name and dose are equal).
   Oracle inputs: each rng.choice(selection_indices, size=1) answer.  The offered array depends on
   the earlier answers, so the model itself refuses an answer that is not in the offered array
   (tag 94; numpy's choice always answers from the array) - "returns Ok" therefore includes the
   numpy contract.  The while loop recurses on the recorded answers (one per iteration).
   np.array(["initial_plate"]*n, dtype=str) is a '<U13' array: assigning "unobserved_plate" into it
   truncates to 13 characters, so the unobserved plate is called "unobserved_pl".
   Tags: 7 arity < 2, 8 screen not fully observed, 90/91/94 oracle.  No proofs here. *)
From Coq Require Import ZArith List Bool Arith.
From Batchie Require Import Lib.Sexp Model.Encode Model.Screen Model.Retro.
Import ListNotations.
Open Scope nat_scope.

Definition tid := option tkey.
Definition tid_of (ctrl : name) (k : tkey) : tid := if is_control ctrl k then None else Some k.
Definition tid_eqb (a b : tid) : bool :=
  match a, b with
  | None, None => true
  | Some x, Some y => tkey_eqb x y
  | _, _ => false
  end.
Definition tid_mem (x : tid) (l : list tid) : bool := existsb (tid_eqb x) l.
Definition row_tids (ctrl : name) (r : row) : list tid := map (tid_of ctrl) (r_treats r).
Definition all_tids (ctrl : name) (rows : list row) : list tid := concat (map (row_tids ctrl) rows).
(* set(screen.treatment_ids[chosen].flatten()) *)
Definition tids_at (ctrl : name) (rows : list row) (chosen : list nat) : list tid :=
  concat (map (fun i => match nth_error rows i with Some r => row_tids ctrl r | None => [] end) chosen).

Definition initial_plate : name := [105; 110; 105; 116; 105; 97; 108; 95; 112; 108; 97; 116; 101]%Z.
Definition unobserved_plate : name := [117; 110; 111; 98; 115; 101; 114; 118; 101; 100; 95; 112; 108]%Z.

(* the array offered to rng.choice for sample [s] *)
Definition sc_offer_sample (ctrl : name) (rows : list row) (s : name) (chosen : list nat) : list nat :=
  let covered := tids_at ctrl rows chosen in
  let sel1 := idx_where (fun r => in_sample s r
                                  && existsb (fun t => negb (tid_mem t covered)) (row_tids ctrl r)) rows in
  if is_nil sel1 then idx_where (in_sample s) rows else sel1.

Fixpoint sc_samples (ctrl : name) (rows : list row) (samples : list name) (chosen : list nat)
         (ds : list draw) : result (list nat * list draw) :=
  match samples with
  | [] => Ok (chosen, ds)
  | s :: rest =>
      match ds with
      | DInts [i] :: ds1 =>
          if memb i (sc_offer_sample ctrl rows s chosen)
          then sc_samples ctrl rows rest (chosen ++ [i]) ds1
          else Err 94%Z
      | DInts _ :: _ => Err 91%Z
      | _ => Err 90%Z
      end
  end.

(* np.setdiff1d(screen.treatment_ids, covered) *)
Definition sc_remaining (ctrl : name) (rows : list row) (chosen : list nat) : list tid :=
  filter (fun t => negb (tid_mem t (tids_at ctrl rows chosen))) (all_tids ctrl rows).
Definition sc_offer_loop (ctrl : name) (rows : list row) (chosen : list nat) : list nat :=
  let rem := sc_remaining ctrl rows chosen in
  idx_where (fun r => existsb (fun t => tid_mem t rem) (row_tids ctrl r)) rows.

Fixpoint sc_loop (ctrl : name) (rows : list row) (chosen : list nat) (ds : list draw)
  : result (list nat * list draw) :=
  if is_nil (sc_remaining ctrl rows chosen) then Ok (chosen, ds)
  else
    match ds with
    | DInts [i] :: ds1 =>
        if memb i (sc_offer_loop ctrl rows chosen)
        then sc_loop ctrl rows (chosen ++ [i]) ds1
        else Err 94%Z
    | DInts _ :: _ => Err 91%Z
    | _ => Err 90%Z
    end.

Definition sparse_cover (ctrl : name) (reveal : bool) (rows : list row) (ds : list draw)
  : result (list row * list draw) :=
  if negb (forallb r_mask rows) then Err 8%Z
  else
    dor a <- sc_samples ctrl rows (sample_names rows) [] ds;
    let '(chosen1, ds1) := a in
    dor b <- sc_loop ctrl rows chosen1 ds1;
    let '(chosen, ds2) := b in
    let final0 := vof_idx (length rows) chosen in
    let final :=
      if reveal then vor final0 (map (fun r => tid_mem None (row_tids ctrl r)) rows) else final0 in
    dor c <- construct (map (fun br => set_mask (fst br)
                                         (set_plate (if fst br then initial_plate else unobserved_plate) (snd br)))
                            (combine final rows));
    Ok (c, ds2).

(* ---- filter_dataset_to_treatments_that_appear_in_at_least_one_combo ---- *)
Definition full_combo (ctrl : name) (r : row) : bool :=
  forallb (fun t => negb (tid_eqb t None)) (row_tids ctrl r).
Definition combo_tids (ctrl : name) (rows : list row) : list tid :=
  all_tids ctrl (filter (full_combo ctrl) rows).
Definition combo_filter (ctrl : name) (arity : nat) (rows : list row) : result (list row) :=
  if arity <? 2 then Err 7%Z
  else
    let sel := combo_tids ctrl rows in
    construct (filter (fun r => forallb (fun t => tid_eqb t None || tid_mem t sel) (row_tids ctrl r)) rows).

(* ---- vocabulary of the source translations of SparseCoverPlateGenerator._generate_and_unmask_initial_plate,
   InitialRetrospectivePlateGenerator.generate_and_unmask_initial_plate and
   filter_dataset_to_treatments_that_appear_in_at_least_one_combo (harness/src_functions.py -> Generated/SrcRetroGen.v).
   One definition per primitive (one numpy / Generator / batchie.data call).  A set of treatment ids is ANY list of its
   elements (the functions only test membership and emptiness). ---- *)
(* screen.treatment_ids: one row of ids per experiment (None = CONTROL_SENTINEL_VALUE) *)
Definition treatment_ids (ctrl : name) (s : screen_t) : list (list tid) := map (row_tids ctrl) s.
(* np.isin(a, l) / np.in1d(a, l).reshape(a.shape), a 2-d *)
Definition isin2 (a : list (list tid)) (l : list tid) : list bvec := map (map (fun t => tid_mem t l)) a.
(* ~m, m 2-d *)
Definition not2 (m : list bvec) : list bvec := map (map negb) m.
(* np.any(m, axis=1) / np.all(m, axis=1) *)
Definition any_rows (m : list bvec) : bvec := map (existsb (fun b => b)) m.
Definition all_rows (m : list bvec) : bvec := map (forallb (fun b => b)) m.
(* a & b on selection vectors of equal length *)
Fixpoint vand (a b : bvec) : bvec :=
  match a, b with x :: a', y :: b' => (x && y) :: vand a' b' | _, _ => [] end.
(* np.arange(n)[m]: the positions of the true entries; IndexError (tag 92) unless m has n entries *)
Definition positions_of (n : nat) (m : bvec) : result (list nat) :=
  if length m =? n then Ok (vec_positions m) else Err 92%Z.
(* rng.choice(a, size=1): the recorded answer [i], as i; refused (tag 94) unless i is an element of a (numpy answers from the
   array), tag 91 for an answer that is not one index, 90 when the recorded answers are exhausted *)
Definition choose_one (a : list nat) (ds : list draw) : result (nat * list draw) :=
  match ds with
  | DInts [i] :: ds1 => if memb i a then Ok (i, ds1) else Err 94%Z
  | DInts _ :: _ => Err 91%Z
  | _ => Err 90%Z
  end.
(* a[idx], a 2-d, idx a list of row numbers: IndexError (tag 92) for a row number outside a *)
Definition rows_at (a : list (list tid)) (idx : list nat) : result (list (list tid)) :=
  res_map_all (fun i => match nth_error a i with Some r => Ok r | None => Err 92%Z end) idx.
(* np.setdiff1d(a, l): the ids of a that are not in l (numpy also sorts and de-duplicates: not observed) *)
Definition setdiff_ids (a : list (list tid)) (l : list tid) : list tid := filter (fun t => negb (tid_mem t l)) (concat a).
(* names[~v] = "unobserved_plate" on np.array(["initial_plate"] * n, dtype=str), a '<U13' array: the stored value is truncated
   to 13 characters ([unobserved_plate]); IndexError (tag 92) unless v has one entry per name *)
Definition label_unobserved (names : list name) (v : bvec) : result (list name) :=
  if length v =? length names
  then Ok (map (fun nb : name * bool => if snd nb then fst nb else unobserved_plate) (combine names v))
  else Err 92%Z.
(* Screen(<treatment names, doses, sample names of s>, observations = o, plate_names = p, observation_mask = m):
   ValueError (tag 91) unless every array has one entry per experiment *)
Definition screen_with (s : screen_t) (o : list Z) (p : list name) (m : bvec) : result screen_t :=
  if (length o =? length s) && (length p =? length s) && (length m =? length s)
  then construct (map (fun x : row * Z * name * bool => {| r_sample := r_sample (fst (fst (fst x))); r_plate := snd (fst x);
                                    r_treats := r_treats (fst (fst (fst x))); r_obs := snd (fst (fst x)); r_mask := snd x |})
                      (combine (combine (combine s o) p) m))
  else Err 91%Z.
(* self._generate_and_unmask_initial_plate(screen, rng): any function of the screen and of the recorded answers still unread *)
Definition initial_inner := screen_t -> list draw -> result (screen_t * list draw).
(* screen.treatment_arity *)
Definition screen_arity (arity : nat) : Z := Z.of_nat arity.
(* a == CONTROL_SENTINEL_VALUE, a 2-d (the reshape to a.shape changes nothing) *)
Definition is_sentinel2 (a : list (list tid)) : list bvec := map (map (fun t => tid_eqb t None)) a.
(* a[v], a 2-d, v a selection vector over its rows *)
Definition rows_where (a : list (list tid)) (v : bvec) : list (list tid) := vselect v a.
(* np.unique(s.treatment_names[v].flatten()): the sorted distinct treatment names of the selected experiments (only logged) *)
Definition unique_treatment_names (s : screen_t) (v : bvec) : list name :=
  sort_uniq name_cmp (concat (map (fun r => map fst (r_treats r)) (vselect v s))).
