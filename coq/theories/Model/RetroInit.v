(* C13 model, part 4:
     batchie.retrospective.SparseCoverPlateGenerator (generate_and_unmask_initial_plate) -> [sparse_cover]
     batchie.data.filter_dataset_to_treatments_that_appear_in_at_least_one_combo         -> [combo_filter]
   A treatment id is modelled by what the code compares: [None] for every control
   (CONTROL_SENTINEL_VALUE: dose <= 0 or the control name), [Some (name, dose key)] otherwise
   (two non-control treatments have the same id iff name and dose are equal).
   Oracle inputs: each rng.choice(selection_indices, size=1) answer.  The offered array depends on
   the earlier answers, so the model itself refuses an answer that is not in the offered array
   (tag 94; numpy's choice always answers from the array) - "returns Ok" therefore includes the
   numpy contract.  The while loop recurses on the recorded answers (one per iteration).
   np.array(["initial_plate"]*n, dtype=str) is a '<U13' array: assigning "unobserved_plate" into it
   truncates to 13 characters, so the unobserved plate is called "unobserved_pl".
   Tags: 7 arity < 2, 8 screen not fully observed, 90/91/94 oracle.  No proofs here. *)
From Coq Require Import ZArith List Bool Arith.
From Batchie Require Import Lib.Sexp Model.Encode Model.Screen Model.Retro.
Import ListNotations.
Open Scope nat_scope.

Definition tid := option tkey.
Definition tid_of (ctrl : name) (k : tkey) : tid := if is_control ctrl k then None else Some k.
Definition tid_eqb (a b : tid) : bool :=
  match a, b with
  | None, None => true
  | Some x, Some y => tkey_eqb x y
  | _, _ => false
  end.
Definition tid_mem (x : tid) (l : list tid) : bool := existsb (tid_eqb x) l.
Definition row_tids (ctrl : name) (r : row) : list tid := map (tid_of ctrl) (r_treats r).
Definition all_tids (ctrl : name) (rows : list row) : list tid := concat (map (row_tids ctrl) rows).
(* set(screen.treatment_ids[chosen].flatten()) *)
Definition tids_at (ctrl : name) (rows : list row) (chosen : list nat) : list tid :=
  concat (map (fun i => match nth_error rows i with Some r => row_tids ctrl r | None => [] end) chosen).

Definition initial_plate : name := [105; 110; 105; 116; 105; 97; 108; 95; 112; 108; 97; 116; 101]%Z.
Definition unobserved_plate : name := [117; 110; 111; 98; 115; 101; 114; 118; 101; 100; 95; 112; 108]%Z.

(* the array offered to rng.choice for sample [s] *)
Definition sc_offer_sample (ctrl : name) (rows : list row) (s : name) (chosen : list nat) : list nat :=
  let covered := tids_at ctrl rows chosen in
  let sel1 := idx_where (fun r => in_sample s r
                                  && existsb (fun t => negb (tid_mem t covered)) (row_tids ctrl r)) rows in
  if is_nil sel1 then idx_where (in_sample s) rows else sel1.

Fixpoint sc_samples (ctrl : name) (rows : list row) (samples : list name) (chosen : list nat)
         (ds : list draw) : result (list nat * list draw) :=
  match samples with
  | [] => Ok (chosen, ds)
  | s :: rest =>
      match ds with
      | DInts [i] :: ds1 =>
          if memb i (sc_offer_sample ctrl rows s chosen)
          then sc_samples ctrl rows rest (chosen ++ [i]) ds1
          else Err 94%Z
      | DInts _ :: _ => Err 91%Z
      | _ => Err 90%Z
      end
  end.

(* np.setdiff1d(screen.treatment_ids, covered) *)
Definition sc_remaining (ctrl : name) (rows : list row) (chosen : list nat) : list tid :=
  filter (fun t => negb (tid_mem t (tids_at ctrl rows chosen))) (all_tids ctrl rows).
Definition sc_offer_loop (ctrl : name) (rows : list row) (chosen : list nat) : list nat :=
  let rem := sc_remaining ctrl rows chosen in
  idx_where (fun r => existsb (fun t => tid_mem t rem) (row_tids ctrl r)) rows.

Fixpoint sc_loop (ctrl : name) (rows : list row) (chosen : list nat) (ds : list draw)
  : result (list nat * list draw) :=
  if is_nil (sc_remaining ctrl rows chosen) then Ok (chosen, ds)
  else
    match ds with
    | DInts [i] :: ds1 =>
        if memb i (sc_offer_loop ctrl rows chosen)
        then sc_loop ctrl rows (chosen ++ [i]) ds1
        else Err 94%Z
    | DInts _ :: _ => Err 91%Z
    | _ => Err 90%Z
    end.

Definition sparse_cover (ctrl : name) (reveal : bool) (rows : list row) (ds : list draw)
  : result (list row * list draw) :=
  if negb (forallb r_mask rows) then Err 8%Z
  else
    dor a <- sc_samples ctrl rows (sample_names rows) [] ds;
    let '(chosen1, ds1) := a in
    dor b <- sc_loop ctrl rows chosen1 ds1;
    let '(chosen, ds2) := b in
    let final0 := vof_idx (length rows) chosen in
    let final :=
      if reveal then vor final0 (map (fun r => tid_mem None (row_tids ctrl r)) rows) else final0 in
    dor c <- construct (map (fun br => set_mask (fst br)
                                         (set_plate (if fst br then initial_plate else unobserved_plate) (snd br)))
                            (combine final rows));
    Ok (c, ds2).

(* ---- filter_dataset_to_treatments_that_appear_in_at_least_one_combo ---- *)
Definition full_combo (ctrl : name) (r : row) : bool :=
  forallb (fun t => negb (tid_eqb t None)) (row_tids ctrl r).
Definition combo_tids (ctrl : name) (rows : list row) : list tid :=
  all_tids ctrl (filter (full_combo ctrl) rows).
Definition combo_filter (ctrl : name) (arity : nat) (rows : list row) : result (list row) :=
  if arity <? 2 then Err 7%Z
  else
    let sel := combo_tids ctrl rows in
    construct (filter (fun r => forallb (fun t => tid_eqb t None || tid_mem t sel) (row_tids ctrl r)) rows).
