(* C14 model: subset / plate views of a screen (batchie.data.ScreenSubset, Plate, the view-producing
   methods of Screen, filter_dataset_to_unique_treatments, common.select_unique_zipped_numpy_arrays).

   A view is (parent tag, parent screen, selection vector).  The tag stands for the *identity* of the
   parent object (`other.screen is not self.screen`): two parents with equal contents but different
   tags are different parents.  Boolean numpy arrays are [list bool]; the flag [isbool] that travels
   with a selection argument says whether the array has a bool dtype.

   Transcribed (data.py unless noted):
     ScreenSubset.__init__                       mk_view
     attribute properties  parent.attr[sel]      view_pids, view_sids, view_tids, view_rows (names, doses,
                                                 observations, mask, plate names), view_size
     ScreenSubset.subset                         view_subset  (copy, np.where, fancy-index scatter, new view)
     ScreenSubset.combine / invert / concat      view_combine / view_invert / view_concat (incl. the
                                                 single-element "return the argument itself" and empty cases)
     ScreenSubset.to_screen                      to_screen = mk_screen with the arguments that site passes
                                                 (selected rows, parent's arity and control name, NO mappings,
                                                 observations and mask given)
     Screen.subset / subset_observed / subset_unobserved / get_plate / plates
                                                 screen_subset / subset_observed / subset_unobserved / get_plate / plates
     common.select_unique_zipped_numpy_arrays    select_unique  (np.vstack(arrs).T -> zip_cols;
                                                 np.unique(axis=0, return_index=True) -> sorted distinct rows and,
                                                 for each, the index of its FIRST occurrence; result[idx] = True)
     filter_dataset_to_unique_treatments         filter_unique_view / filter_unique_screen
   Abstracted: numpy storage (a view's attribute arrays are recomputed on each access from the parent, as in
   the code); in-place mutation is not expressible here - every function returns a new value, the harness
   checks on the real objects that the arguments are left untouched.  Plate.merge (which DOES mutate: it returns the
   new value of self, parent included), Plate.plate_id / plate_name / __lt__, the one-line ScreenBase properties and Screen.combine
   are modelled in the last sections of this file; single_treatment_effects only as the row selection of an opaque parent value (end of this file).  `a | b` on vectors of different length (numpy raises) cannot
   arise from views of one parent; [bor_vec] truncates and the constructor's length check then refuses.

   Also here: op trees over views ([vexpr]), their evaluator [eval] through the functions above, and the
   reference semantics [ref] of a tree as the ascending list of selected parent row indices, computed with
   index sets only (no selection vectors, no scatter).

   Error tags (continuing Model/Encode.v): 21 selection not bool, 22 selection has the wrong length,
   23 views of different parents, 24 concat of the empty list, 25 subset_observed/unobserved returned None,
   26 no such parent (op trees only), 27 arrays of different length (select_unique).
   No proofs here. *)
From Coq Require Import ZArith List Bool Arith.
From Batchie Require Import Lib.Sexp Generated.Consts Model.Encode Model.Screen.
Import ListNotations.
Open Scope Z_scope.

Record view := {
  v_tag : Z;                     (* identity of the parent object *)
  v_parent : screen;
  v_sel : list bool              (* selection_vector *)
}.

(* a[sel] for a boolean index array *)
Fixpoint select {A} (sel : list bool) (l : list A) : list A :=
  match sel, l with
  | b :: sel', x :: l' => if b then x :: select sel' l' else select sel' l'
  | _, _ => []
  end.

(* Screen.size = treatment_ids.shape[0] *)
Definition screen_size (s : screen) : nat := length (s_tids s).

(* ScreenSubset.__init__ / Plate.__init__ *)
Definition mk_view (tag : Z) (p : screen) (isbool : bool) (sel : list bool) : result view :=
  if negb isbool then Err 21
  else if negb (Nat.eqb (length sel) (screen_size p)) then Err 22
  else Ok {| v_tag := tag; v_parent := p; v_sel := sel |}.

(* ---- attribute properties: parent.attr[self.selection_vector] ---- *)
Definition view_pids (v : view) : list Z := select (v_sel v) (s_pids (v_parent v)).
Definition view_sids (v : view) : list Z := select (v_sel v) (s_sids (v_parent v)).
Definition view_tids (v : view) : list (list Z) := select (v_sel v) (s_tids (v_parent v)).
Definition view_sample_names (v : view) : list name := select (v_sel v) (map r_sample (s_rows (v_parent v))).
Definition view_plate_names (v : view) : list name := select (v_sel v) (map r_plate (s_rows (v_parent v))).
Definition view_treats (v : view) : list (list tkey) := select (v_sel v) (map r_treats (s_rows (v_parent v))).
Definition view_obs (v : view) : list Z := select (v_sel v) (map r_obs (s_rows (v_parent v))).
Definition view_mask (v : view) : list bool := select (v_sel v) (map r_mask (s_rows (v_parent v))).
Definition view_rows (v : view) : list row := select (v_sel v) (s_rows (v_parent v)).
(* ScreenBase.size = self.treatment_ids.shape[0] *)
Definition view_size (v : view) : nat := length (view_tids v).

(* ---- numpy primitives used by subset / select_unique ---- *)
(* np.where(a)[0] *)
Fixpoint where_from (i : nat) (sel : list bool) : list nat :=
  match sel with
  | [] => []
  | b :: r => if b then i :: where_from (S i) r else where_from (S i) r
  end.
Definition np_where (sel : list bool) : list nat := where_from 0 sel.

Fixpoint set_nth {A} (i : nat) (x : A) (l : list A) : list A :=
  match l, i with
  | [], _ => []
  | _ :: r, O => x :: r
  | y :: r, S i' => y :: set_nth i' x r
  end.

(* a[idx] = vals : one write per index, in order *)
Fixpoint scatter {A} (l : list A) (idx : list nat) (vals : list A) : list A :=
  match idx, vals with
  | i :: idx', x :: vals' => scatter (set_nth i x l) idx' vals'
  | _, _ => l
  end.

(* a | b *)
Definition bor_vec (a b : list bool) : list bool := map (fun p => orb (fst p) (snd p)) (combine a b).

(* ---- Screen.subset ---- *)
Definition screen_subset (tag : Z) (p : screen) (isbool : bool) (sel : list bool) : result view :=
  if negb isbool then Err 21
  else if negb (Nat.eqb (length sel) (screen_size p)) then Err 22
  else mk_view tag p isbool sel.

(* ---- ScreenSubset.subset ---- *)
Definition view_subset (v : view) (isbool : bool) (inner : list bool) : result view :=
  if negb isbool then Err 21
  else if negb (Nat.eqb (length inner) (view_size v)) then Err 22
  else
    let original := v_sel v in                    (* self.selection_vector.copy() *)
    let indexes := np_where original in
    mk_view (v_tag v) (v_parent v) true (scatter original indexes inner).

(* ---- invert / combine / concat ---- *)
Definition view_invert (v : view) : result view :=
  mk_view (v_tag v) (v_parent v) true (map negb (v_sel v)).

Definition view_combine (a b : view) : result view :=
  if negb (v_tag b =? v_tag a) then Err 23
  else mk_view (v_tag a) (v_parent a) true (bor_vec (v_sel a) (v_sel b)).

Fixpoint concat_loop (tag0 : Z) (acc : option (list bool)) (vs : list view) : result (option (list bool)) :=
  match vs with
  | [] => Ok acc
  | v :: r =>
      if negb (v_tag v =? tag0) then Err 23
      else concat_loop tag0 (Some (match acc with None => v_sel v | Some s => bor_vec s (v_sel v) end)) r
  end.

Definition view_concat (vs : list view) : result view :=
  match vs with
  | [v] => Ok v                                   (* the argument itself *)
  | [] => Err 24
  | v0 :: _ =>
      dor acc <- concat_loop (v_tag v0) None vs;
      match acc with
      | Some s => mk_view (v_tag v0) (v_parent v0) true s
      | None => Err 24
      end
  end.

(* ---- to_screen ---- *)
Definition to_screen (v : view) : result screen :=
  mk_screen (view_rows v) (s_arity (v_parent v)) (s_ctrl (v_parent v)) None None true true.

(* ---- subset_observed / subset_unobserved / get_plate / plates ---- *)
Definition screen_mask (p : screen) : list bool := map r_mask (s_rows p).

Definition subset_observed (tag : Z) (p : screen) : option (result view) :=
  if existsb (fun b => b) (screen_mask p) then Some (screen_subset tag p true (screen_mask p)) else None.

Definition subset_unobserved (tag : Z) (p : screen) : option (result view) :=
  if existsb (fun b => b) (map negb (screen_mask p))
  then Some (screen_subset tag p true (map negb (screen_mask p))) else None.

Definition get_plate (tag : Z) (p : screen) (pid : Z) : result view :=
  mk_view tag p true (map (fun x => x =? pid) (s_pids p)).

(* [self.get_plate(x) for x in np.unique(self.plate_ids)] *)
Definition plates (tag : Z) (p : screen) : result (list view) :=
  res_map_all (get_plate tag p) (sort_uniq Z.compare (s_pids p)).

(* ---- select_unique_zipped_numpy_arrays ---- *)
(* np.vstack(arrs).T : row j = [a[j] for a in arrs], len(arrs[0]) rows *)
Definition zip_cols (cols : list (list Z)) : list (list Z) :=
  map (fun j => map (fun c => nth j c 0) cols) (seq 0 (length (hd [] cols))).

(* index of the first row equal to k *)
Fixpoint first_index (k : list Z) (keys : list (list Z)) : nat :=
  match keys with
  | [] => O
  | x :: r => if name_eqb k x then O else S (first_index k r)
  end.

(* _, idx = np.unique(rows, axis=0, return_index=True); result = zeros(bool); result[idx] = True *)
Definition unique_mask (keys : list (list Z)) : list bool :=
  let uniq := sort_uniq name_cmp keys in           (* rows are compared lexicographically *)
  let idx := map (fun k => first_index k keys) uniq in
  scatter (repeat false (length keys)) idx (repeat true (length idx)).

Definition select_unique (cols : list (list Z)) : result (list bool) :=
  if negb (forallb (fun c => Nat.eqb (length c) (length (hd [] cols))) cols) then Err 27
  else Ok (unique_mask (zip_cols cols)).

(* arrs = [sample_ids] + [treatment_ids[:, i] for i in range(treatment_arity)] *)
Definition unique_cols (arity : nat) (sids : list Z) (tids : list (list Z)) : list (list Z) :=
  sids :: map (fun i => column 0 i tids) (seq 0 arity).

Definition filter_unique_view (v : view) : result view :=
  dor m <- select_unique (unique_cols (s_arity (v_parent v)) (view_sids v) (view_tids v));
  view_subset v true m.

Definition filter_unique_screen (tag : Z) (p : screen) : result view :=
  dor m <- select_unique (unique_cols (s_arity p) (s_sids p) (s_tids p));
  screen_subset tag p true m.

(* ======================= op trees ======================= *)
(* parents are numbered; parent k has tag k *)
Inductive vexpr : Type :=
| Base (k : nat) (isbool : bool) (sel : list bool)        (* screens[k].subset(sel) *)
| Observed (k : nat)                                       (* screens[k].subset_observed() *)
| Unobserved (k : nat)
| GetPlate (k : nat) (pid : Z)                             (* screens[k].get_plate(pid) *)
| UniqueS (k : nat)                                        (* filter_dataset_to_unique_treatments(screens[k]) *)
| Subset (e : vexpr) (isbool : bool) (inner : list bool)  (* e.subset(inner) *)
| Combine (a b : vexpr)                                    (* a.combine(b) *)
| Invert (e : vexpr)
| Concat (es : list vexpr)                                 (* ScreenSubset.concat([...]) *)
| Unique (e : vexpr).                                      (* filter_dataset_to_unique_treatments(e) *)

Definition get_parent (ps : list screen) (k : nat) : result screen :=
  match nth_error ps k with Some p => Ok p | None => Err 26 end.

Definition unopt (o : option (result view)) : result view :=
  match o with Some r => r | None => Err 25 end.

Fixpoint eval (ps : list screen) (e : vexpr) : result view :=
  match e with
  | Base k isb sel => dor p <- get_parent ps k; screen_subset (Z.of_nat k) p isb sel
  | Observed k => dor p <- get_parent ps k; unopt (subset_observed (Z.of_nat k) p)
  | Unobserved k => dor p <- get_parent ps k; unopt (subset_unobserved (Z.of_nat k) p)
  | GetPlate k pid => dor p <- get_parent ps k; get_plate (Z.of_nat k) p pid
  | UniqueS k => dor p <- get_parent ps k; filter_unique_screen (Z.of_nat k) p
  | Subset e isb inner => dor v <- eval ps e; view_subset v isb inner
  | Combine a b => dor va <- eval ps a; dor vb <- eval ps b; view_combine va vb
  | Invert e => dor v <- eval ps e; view_invert v
  | Concat es =>
      dor vs <- (fix go (l : list vexpr) : result (list view) :=
                   match l with
                   | [] => Ok []
                   | x :: r => dor a <- eval ps x; dor b <- go r; Ok (a :: b)
                   end) es;
      view_concat vs
  | Unique e => dor v <- eval ps e; filter_unique_view v
  end.

(* ---- reference semantics: ascending list of selected parent row indices ---- *)
Fixpoint parent_of (e : vexpr) : nat :=
  match e with
  | Base k _ _ | Observed k | Unobserved k | GetPlate k _ | UniqueS k => k
  | Subset e _ _ | Invert e | Unique e => parent_of e
  | Combine a _ => parent_of a
  | Concat es => match es with e :: _ => parent_of e | [] => O end
  end.

Definition mem_nat (i : nat) (l : list nat) : bool := existsb (Nat.eqb i) l.

Definition row_observed (p : screen) (i : nat) : bool :=
  match nth_error (s_rows p) i with Some r => r_mask r | None => false end.
Definition row_on_plate (p : screen) (pid : Z) (i : nat) : bool :=
  match nth_error (s_pids p) i with Some x => x =? pid | None => false end.
(* (sample id, treatment ids) of parent row i *)
Definition row_key (p : screen) (i : nat) : list Z := nth i (s_sids p) 0 :: nth i (s_tids p) [].

(* keep an index iff no earlier kept index has the same key *)
Fixpoint keep_first (key : nat -> list Z) (seen : list (list Z)) (l : list nat) : list nat :=
  match l with
  | [] => []
  | i :: r =>
      if existsb (name_eqb (key i)) seen then keep_first key seen r
      else i :: keep_first key (key i :: seen) r
  end.

Definition empty_screen : screen :=
  {| s_rows := []; s_arity := O; s_ctrl := []; s_tmap := []; s_smap := []; s_pmap := [];
     s_tids := []; s_sids := []; s_pids := [] |}.

Fixpoint ref (ps : list screen) (e : vexpr) : list nat :=
  let p := nth (parent_of e) ps empty_screen in
  let all := seq 0 (screen_size p) in
  match e with
  | Base _ _ sel => filter (fun i => nth i sel false) all
  | Observed _ => filter (row_observed p) all
  | Unobserved _ => filter (fun i => negb (row_observed p i)) all
  | GetPlate _ pid => filter (row_on_plate p pid) all
  | UniqueS _ => keep_first (row_key p) [] all
  | Subset e _ inner => select inner (ref ps e)
  | Combine a b => filter (fun i => mem_nat i (ref ps a) || mem_nat i (ref ps b)) all
  | Invert e => filter (fun i => negb (mem_nat i (ref ps e))) all
  | Concat es => filter (fun i => existsb (mem_nat i) (map (ref ps) es)) all
  | Unique e => keep_first (row_key p) [] (ref ps e)
  end.

(* ======================= vocabulary of the source-translation link =======================
   (harness/src_functions.py C14_*: the types and primitive meanings the translations in Generated/SrcViews.v use)
   A Screen OBJECT is its identity (tag) and its contents; `a is b` on Screen objects compares identities.
   A ScreenSubset / Plate OBJECT is a [view]: its two instance attributes `screen` and `selection_vector`
   (the class, ScreenSubset or Plate, is not modelled: Plate defines no __init__ and no view-producing method). *)
Definition pyscreen : Type := Z * screen.
Definition same_object (a b : pyscreen) : bool := fst a =? fst b.
Definition view_screen (v : view) : pyscreen := (v_tag v, v_parent v).                       (* v.screen *)
Definition set_view_screen (v : view) (s : pyscreen) : view :=                               (* v.screen = s *)
  {| v_tag := fst s; v_parent := snd s; v_sel := v_sel v |}.
Definition set_view_sel (v : view) (sel : list bool) : view :=                               (* v.selection_vector = sel *)
  {| v_tag := v_tag v; v_parent := v_parent v; v_sel := sel |}.
(* object.__new__(ScreenSubset): the instance before __init__ has set its attributes *)
Definition blank_view : view := {| v_tag := 0; v_parent := empty_screen; v_sel := [] |}.
(* a numpy array of unknown dtype handed in as a selection: (its dtype is bool, the truth values of its elements);
   an array known to be of dtype bool is a plain [list bool] *)
Definition anyarray : Type := bool * list bool.
(* a bool array the function itself has created (`.copy()`): the only arrays an in-place store is declared for *)
Definition own_bools : Type := list bool.
(* a 2-d per-row array (treatment_names, treatment_doses): (number of columns, rows) *)
Definition arr2 (A : Type) : Type := nat * list (list A).
Definition select2 {A} (sel : list bool) (a : arr2 A) : arr2 A := (fst a, select sel (snd a)).   (* a[sel] keeps the columns *)
Definition screen_treatment_names (p : screen) : arr2 name := (s_arity p, map (fun r => map fst (r_treats r)) (s_rows p)).
Definition screen_treatment_doses (p : screen) : arr2 Z := (s_arity p, map (fun r => map snd (r_treats r)) (s_rows p)).

(* the row list Model/Screen.mk_screen takes, from the per-row arrays Screen(...) takes *)
Fixpoint rows_of_arrays (tn : list (list name)) (td : list (list Z)) (obs : list Z) (mask : list bool)
         (sn pn : list name) : list row :=
  match tn, td, obs, mask, sn, pn with
  | a :: tn', d :: td', o :: obs', m :: mask', s :: sn', p :: pn' =>
      {| r_sample := s; r_plate := p; r_treats := combine a d; r_obs := o; r_mask := m |}
      :: rows_of_arrays tn' td' obs' mask' sn' pn'
  | _, _, _, _, _, _ => []
  end.
(* Screen(treatment_names=, treatment_doses=, observations=, observation_mask=, sample_names=, plate_names=,
          control_treatment_name=): the constructor with exactly these arguments - observations and mask given,
   no mappings, arity = treatment_names.shape[1] *)
Definition screen_of_arrays (tn : arr2 name) (td : arr2 Z) (obs : list Z) (mask : list bool) (sn pn : list name)
           (ctrl : name) : result screen :=
  mk_screen (rows_of_arrays (snd tn) (snd td) obs mask sn pn) (fst tn) ctrl None None true true.

(* subset_observed / subset_unobserved return Optional[ScreenSubset] and may raise: the translation's
   `result (option view)` from the model's `option (result view)` *)
Definition opt_result {A} (o : option (result A)) : result (option A) :=
  match o with None => Ok None | Some r => dor a <- r; Ok (Some a) end.

(* ScreenSubset.single_treatment_effects, given the value of the parent's (computed) property: None propagates *)
Definition view_single_effects {E} (v : view) (parent_value : option (list E)) : option (list E) :=
  option_map (select (v_sel v)) parent_value.

(* ======================= the small helpers of data.py every other function is built on =======================
   (harness/src_functions.py H14_*, generated file Generated/SrcPlates.v, proofs Proofs/C14SourceHelpers.v)
   Models of: Plate.plate_id / plate_name / __lt__ / merge, the one-line properties of ScreenBase (is_observed, n_plates,
   unique_plate_ids, unique_sample_ids, n_unique_samples, unique_treatments, n_unique_treatments, treatment_arity) on a
   Screen object and on a ScreenSubset / Plate object, Screen.combine, and the vocabulary their translations use.
   Error tags (continuing the list above): 28 merge of plates of different parents, 29 plate_id of a view with other than
   one plate id, 30 boolean mask of the wrong length (numpy IndexError), 31 Screen.combine with another control name,
   32 np.concatenate of 2-d arrays with different column counts (numpy ValueError); 98 = PyRt.list_get's IndexError
   (`a[0]` on an empty array), 99 = an id array with a NaN stored where the model keeps integers. *)
Definition with_plate (nm : name) (r : row) : row :=
  {| r_sample := r_sample r; r_plate := nm; r_treats := r_treats r; r_obs := r_obs r; r_mask := r_mask r |}.
Definition with_rows_pids (s : screen) (rows : list row) (pids : list Z) : screen :=
  {| s_rows := rows; s_arity := s_arity s; s_ctrl := s_ctrl s; s_tmap := s_tmap s; s_smap := s_smap s; s_pmap := s_pmap s;
     s_tids := s_tids s; s_sids := s_sids s; s_pids := pids |}.

(* ---- vocabulary: one attribute / numpy call each ---- *)
(* a[m] = x, m a boolean mask, x a scalar: IndexError (tag 30) unless the mask has the array's length; the positions
   where m is True get x *)
Definition mask_fill {A} (a : list A) (m : list bool) (x : A) : result (list A) :=
  if negb (Nat.eqb (length m) (length a)) then Err 30
  else Ok (map (fun p : bool * A => if fst p then x else snd p) (combine m a)).
(* s.plate_names = l (the model keeps rows, not columns: row i gets l[i]; an array of another length has no meaning here) *)
Definition set_screen_plate_names (s : pyscreen) (l : list name) : pyscreen :=
  (fst s, with_rows_pids (snd s) (map (fun p : name * row => with_plate (fst p) (snd p)) (combine l (s_rows (snd s)))) (s_pids (snd s))).
(* s._plate_ids = ids, ids an id column as encode_1d_array_to_0_indexed_ids returns it (option = NaN, Model/Screen.v):
   the model stores integers, an array holding a NaN cannot be stored (tag 99; the encoder raises instead of returning one) *)
Definition ids_of_column (ids : list (option Z)) : result (list Z) :=
  res_map_all (fun o => match o with Some z => Ok z | None => Err 99 end) ids.
Definition store_plate_ids (s : pyscreen) (ids : list (option Z)) : result pyscreen :=
  dor l <- ids_of_column ids; Ok (fst s, with_rows_pids (snd s) (s_rows (snd s)) l).
(* np.all(a) *)
Definition np_all (a : list bool) : bool := forallb (fun b => b) a.
(* np.unique(a), a a 2-d integer array: the sorted distinct entries *)
Definition np_unique2 (a : arr2 Z) : list Z := sort_uniq Z.compare (concat (snd a)).
(* np.concatenate([a, b]), 2-d arrays: ValueError (tag 32) unless they have the same number of columns *)
Definition concat2 {A} (a b : arr2 A) : result (arr2 A) :=
  if Nat.eqb (fst a) (fst b) then Ok (fst a, snd a ++ snd b) else Err 32.
(* s.treatment_ids of a Screen object as a 2-d array (its column count is the screen's arity) *)
Definition screen_tids2 (s : screen) : arr2 Z := (s_arity s, s_tids s).

(* ---- models ---- *)
(* ScreenBase.is_observed / unique_plate_ids / n_plates / unique_sample_ids / n_unique_samples / unique_treatments /
   n_unique_treatments / treatment_arity: on a Screen object ... *)
Definition screen_is_observed (s : screen) : bool := forallb r_mask (s_rows s).
Definition screen_unique_pids (s : screen) : list Z := sort_uniq Z.compare (s_pids s).
Definition screen_unique_sids (s : screen) : list Z := sort_uniq Z.compare (s_sids s).
Definition unique_treatments_of (tids : list (list Z)) : list Z :=
  filter (fun x => negb (x =? CONTROL_SENTINEL_VALUE)) (sort_uniq Z.compare (concat tids)).
Definition screen_unique_treatments (s : screen) : list Z := unique_treatments_of (s_tids s).
(* ... and on a ScreenSubset / Plate object *)
Definition view_is_observed (v : view) : bool := forallb (fun b => b) (view_mask v).
Definition view_unique_pids (v : view) : list Z := sort_uniq Z.compare (view_pids v).
Definition view_unique_sids (v : view) : list Z := sort_uniq Z.compare (view_sids v).
Definition view_unique_treatments (v : view) : list Z := unique_treatments_of (view_tids v).

(* Plate.plate_id: the single plate id of the selected rows *)
Definition view_plate_id (v : view) : result Z :=
  match view_unique_pids v with [x] => Ok x | _ => Err 29 end.
(* Plate.plate_name: the plate NAME of the first selected row *)
Definition view_plate_name (v : view) : result name :=
  match view_plate_names v with x :: _ => Ok x | [] => Err 98 end.
(* Plate.__lt__: by size (the order heapq uses) *)
Definition view_lt (a b : view) : bool := Nat.ltb (view_size a) (view_size b).

(* plate_names[sel] = nm on the rows *)
Definition relabel (sel : list bool) (nm : name) (rows : list row) : list row :=
  map (fun p : bool * row => if fst p then with_plate nm (snd p) else snd p) (combine sel rows).
(* Plate.merge: self.merge(other).  The union becomes self's selection; every row of the union gets the plate name of the
   union's FIRST row (in the parent); the parent's plate ids are re-encoded from the new names (the parent's plate_mapping is
   NOT refreshed by the code and keeps its old value); returns self.  Refused: different parents (28), empty union (98),
   selection vectors that are not of the parent's length (30). *)
Definition view_merge (self other : view) : result view :=
  if negb (v_tag other =? v_tag self) then Err 28
  else
    let sel := bor_vec (v_sel self) (v_sel other) in
    let p := v_parent self in
    match select sel (s_rows p) with
    | [] => Err 98
    | r0 :: _ =>
        if negb (Nat.eqb (length sel) (length (s_rows p))) then Err 30
        else
          let rows' := relabel sel (r_plate r0) (s_rows p) in
          dor e <- encode_names (map r_plate rows') None 6;
          Ok {| v_tag := v_tag self; v_parent := with_rows_pids p rows' (fst e); v_sel := sel |}
    end.

(* Screen.combine: the constructor on the two row lists one after the other - observations and masks given, no mappings, the
   control name and arity of self; refused when the control names differ (31) or the arities differ (32) *)
Definition screen_combine (a b : screen) : result screen :=
  if negb (name_eqb (s_ctrl b) (s_ctrl a)) then Err 31
  else if negb (Nat.eqb (s_arity a) (s_arity b)) then Err 32
  else mk_screen (s_rows a ++ s_rows b) (s_arity a) (s_ctrl a) None None true true.

(* ---- vocabulary of the translation of common.select_unique_zipped_numpy_arrays ---- *)
(* np.unique(a, axis=0, return_index=True) on a 2-d integer array: the distinct rows in lexicographic order and, for each,
   the index of its FIRST occurrence in a (numpy sorts stably when return_index is set) *)
Definition unique_rows2 (a : arr2 Z) : arr2 Z := (fst a, sort_uniq name_cmp (snd a)).
Definition first_indices (a : arr2 Z) : list nat := map (fun k => first_index k (snd a)) (sort_uniq name_cmp (snd a)).
(* a[idx] = True, idx an array of positions: IndexError (tag 34) when a position is outside the array *)
Definition set_true_at (a : list bool) (idx : list nat) : result (list bool) :=
  if forallb (fun i => Nat.ltb i (length a)) idx then Ok (scatter a idx (repeat true (length idx))) else Err 34.

(* ---- Screen.concat, Screen.single_treatment_effects (data.py; links in Proofs/C14SourceLeftovers.v) ---- *)
(* Screen.concat: an empty list is refused (24), ONE screen is returned as it is (the same object), otherwise the screens are
   combined from the left by Screen.combine (each step a new Screen) *)
Fixpoint screen_concat_from (acc : screen) (r : list screen) : result screen :=
  match r with
  | [] => Ok acc
  | x :: r' => dor a <- screen_combine acc x; screen_concat_from a r'
  end.
Definition screen_concat (ss : list screen) : result screen :=
  match ss with
  | [] => Err 24
  | s :: r => screen_concat_from s r
  end.
(* Screen.single_treatment_effects: the effect array built from the screen's sample ids, treatment ids and observations by
   create_single_treatment_effect_array (any function effect_array here; E = its row type); a KeyError of that construction
   (tag key_error: a (sample, treatment) pair without an entry in the effect map) is caught and the property is None, any
   other exception passes *)
Definition screen_single_effects {E : Type} (key_error : Z)
    (effect_array : list Z -> list (list Z) -> list Z -> result (list E)) (s : screen) : result (option (list E)) :=
  match effect_array (s_sids s) (s_tids s) (map r_obs (s_rows s)) with
  | Ok a => Ok (Some a)
  | Err t => if t =? key_error then Ok None else Err t
  end.
