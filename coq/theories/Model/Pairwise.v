(* C11 / C13 model, part 3: batchie.retrospective.PairwisePlateGenerator._generate_plates
   and the dispatch over the shipped generators ([generate_plates]).
   Treatment ids are those of the combo sub-screen (to_screen re-encodes): rank of the
   (name, dose) key among the sorted unique non-control keys ([Encode.build_tmapping]).
   Oracle inputs ([draw] stream, call order): the answer of np.argsort(-counts) (only when
   anchor_size > 0; its tie-break is implementation-defined), every rng.permutation(ids)
   answer (ids), the (empty) rng.choice for control group ids, and every
   rng.choice(eligible_plate_names, n, replace=True) answer (names).
   The array offered to the last kind of choice depends on the earlier answers, so the model itself
   refuses an answer outside the offered array (tag 94; numpy's choice always answers from it).
   Tags: 3 numpy ValueError / ZeroDivisionError (no group can be formed), 6 "single treatment
   experiments ... should be filtered" ValueError, 90-92 oracle stream problems (see Retro.v).
   No proofs here. *)
From Coq Require Import ZArith List Bool Arith.
From Batchie Require Import Lib.Sexp Model.Encode Model.Screen Model.Retro.
Import ListNotations.
Open Scope nat_scope.

Definition is_combo (ctrl : name) (r : row) : bool := negb (existsb (is_control ctrl) (r_treats r)).

(* groupings: list of id groups *)
Definition pw_groupings (subset anchor : Z) (uniq : list nat) (ds : list draw)
  : result (list (list nat) * list draw) :=
  if (subset =? 0)%Z then Err 3%Z
  else if (anchor >? 0)%Z then
    dor o <- take_ints ds;
    let '(order, ds0) := o in
    let anchor_dds := map (fun i => nth i uniq 0) (firstn (Z.to_nat anchor) order) in
    let na := (Z.of_nat (length anchor_dds) / subset)%Z in
    dor p1 <- take_ints ds0;
    let '(perm1, ds1) := p1 in
    if (na <=? 0)%Z then Err 3%Z
    else
      let remain := filter (fun u => negb (memb u anchor_dds)) uniq in
      let nr := (Z.of_nat (length remain) / subset)%Z in
      dor p2 <- take_ints ds1;
      let '(perm2, ds2) := p2 in
      if (nr <=? 0)%Z then Err 3%Z
      else Ok (array_split perm1 (Z.to_nat na) ++ array_split perm2 (Z.to_nat nr), ds2)
  else
    let ng := (Z.of_nat (length uniq) / subset)%Z in
    dor p <- take_ints ds;
    let '(perm, ds1) := p in
    if (ng <=? 0)%Z then Err 3%Z else Ok (array_split perm (Z.to_nat ng), ds1).

(* group_lookup: later groups overwrite earlier ones *)
Definition group_of (gs : list (list nat)) (id : nat) : option nat :=
  fold_left (fun acc kg => if memb id (snd kg) then Some (fst kg) else acc) (enum_from 0 gs) None.

(* grouping tuple of a combo row: sample id, then its group ids sorted *)
Definition pw_tuple (samples : list name) (gs : list (list nat)) (ids : list nat) (r : row)
  : option (list Z) :=
  do g <- opt_map_all (group_of gs) ids;
  Some (Z.of_nat (index_of (r_sample r) samples) :: map Z.of_nat (sort_nat g)).

(* new_plate_names[mask] = assignments *)
Fixpoint assign_v (v : bvec) (vals names : list name) : list name :=
  match v, names with
  | b :: v', x :: names' =>
      if b then
        match vals with
        | y :: vals' => y :: assign_v v' vals' names'
        | [] => x :: assign_v v' [] names'
        end
      else x :: assign_v v' vals names'
  | _, _ => names
  end.

Fixpoint pw_singles (samples : list name) (srows crows_out : list row) (names : list name)
         (ds : list draw) : result (list name * list draw) :=
  match samples with
  | [] => Ok (names, ds)
  | s :: rest =>
      let v := map (in_sample s) srows in
      let eligible := sort_uniq name_cmp (map r_plate (filter (in_sample s) crows_out)) in
      if is_nil eligible then Err 6%Z
      else
        dor d <- take_names ds;
        let '(asg, ds1) := d in
        if negb (length asg =? vcount v) then Err 91%Z
        else if negb (forallb (fun a => name_mem a eligible) asg) then Err 94%Z
        else pw_singles rest srows crows_out (assign_v v asg names) ds1
  end.

Definition row_ids (tm : tmapping) (r : row) : list nat :=
  map (fun k => match tlookup tm k with Some i => Z.to_nat i | None => 0 end) (r_treats r).

Definition pairwise (ctrl : name) (subset anchor : Z) (rows : list row) (ds : list draw)
  : result (list row * list draw) :=
  let crows := filter (is_combo ctrl) rows in
  let srows := filter (fun r => negb (is_combo ctrl r)) rows in
  let tm := build_tmapping ctrl (concat (map r_treats crows)) in
  let uniq := sort_uniq Nat.compare (concat (map (row_ids tm) crows)) in
  dor g <- pw_groupings subset anchor uniq ds;
  let '(gs, ds1) := g in
  (* rng.choice(range(num_groups), size=n_control, replace=True): combo rows hold no control *)
  dor c <- take_ints ds1;
  let '(ctl, ds2) := c in
  if negb (is_nil ctl) then Err 91%Z
  else
    match opt_map_all (fun r => pw_tuple (sample_names crows) gs (row_ids tm r) r) crows with
    | None => Err 92%Z
    | Some tuples =>
        let uniq_tuples := sort_uniq name_cmp tuples in
        let crows_out :=
          map (fun tr => set_mask false (set_plate (gen_name (index_of (fst tr) uniq_tuples)) (snd tr)))
              (combine tuples crows) in
        dor co <- construct crows_out;
        if is_nil srows then Ok (co, ds2)
        else
          dor sn <- pw_singles (sample_names srows) srows co (map (fun _ => []) srows) ds2;
          let '(names, ds3) := sn in
          let srows_out := map (fun nr => set_mask false (set_plate (fst nr) (snd nr))) (combine names srows) in
          dor so <- construct srows_out;
          dor all <- construct (co ++ so);
          Ok (all, ds3)
    end.

(* ---- shipped generators ---- *)
Inductive generator : Type :=
| GPerm (force : list name)
| GSampleSeg (fixed : bool) (mx : Z)
| GPairwise (ctrl : name) (subset anchor : Z).

Definition generate_inner (g : generator) : list row -> list draw -> result (list row * list draw) :=
  match g with
  | GPerm force => plate_perm force
  | GSampleSeg fx mx => sample_seg fx mx
  | GPairwise ctrl subset anchor => pairwise ctrl subset anchor
  end.
Definition generate_plates (g : generator) := wrap (generate_inner g).
