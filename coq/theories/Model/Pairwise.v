(* C11 / C13 model, part 3: batchie.retrospective.PairwisePlateGenerator._generate_plates
   and the dispatch over the shipped generators ([generate_plates]).
   Treatment ids are those of the combo sub-screen (to_screen re-encodes): rank of the
   (name, dose) key among the sorted unique non-control keys ([Encode.build_tmapping]).
   Oracle inputs ([draw] stream, call order): the answer of np.argsort(-counts) (only when
   anchor_size > 0; its tie-break is implementation-defined), every rng.permutation(ids)
   answer (ids), the (empty) rng.choice for control group ids, and every
   rng.choice(eligible_plate_names, n, replace=True) answer (names).
   The array offered to the last kind of choice depends on the earlier answers, so the model itself
   refuses an answer outside the offered array (tag 94; numpy's choice always answers from it).
   Tags: 3 numpy ValueError / ZeroDivisionError (no group can be formed), 6 "single treatment
   experiments ... should be filtered" ValueError, 90-92 oracle stream problems (see Retro.v).
   No proofs here. *)
From Coq Require Import ZArith List Bool Arith.
From Batchie Require Import Lib.Sexp Model.Encode Model.Screen Model.Retro.
Import ListNotations.
Open Scope nat_scope.

Definition is_combo (ctrl : name) (r : row) : bool := negb (existsb (is_control ctrl) (r_treats r)).

(* groupings: list of id groups *)
Definition pw_groupings (subset anchor : Z) (uniq : list nat) (ds : list draw)
  : result (list (list nat) * list draw) :=
  if (subset =? 0)%Z then Err 3%Z
  else if (anchor >? 0)%Z then
    dor o <- take_ints ds;
    let '(order, ds0) := o in
    let anchor_dds := map (fun i => nth i uniq 0) (firstn (Z.to_nat anchor) order) in
    let na := (Z.of_nat (length anchor_dds) / subset)%Z in
    dor p1 <- take_ints ds0;
    let '(perm1, ds1) := p1 in
    if (na <=? 0)%Z then Err 3%Z
    else
      let remain := filter (fun u => negb (memb u anchor_dds)) uniq in
      let nr := (Z.of_nat (length remain) / subset)%Z in
      dor p2 <- take_ints ds1;
      let '(perm2, ds2) := p2 in
      if (nr <=? 0)%Z then Err 3%Z
      else Ok (array_split perm1 (Z.to_nat na) ++ array_split perm2 (Z.to_nat nr), ds2)
  else
    let ng := (Z.of_nat (length uniq) / subset)%Z in
    dor p <- take_ints ds;
    let '(perm, ds1) := p in
    if (ng <=? 0)%Z then Err 3%Z else Ok (array_split perm (Z.to_nat ng), ds1).

(* group_lookup: later groups overwrite earlier ones *)
Definition group_of (gs : list (list nat)) (id : nat) : option nat :=
  fold_left (fun acc kg => if memb id (snd kg) then Some (fst kg) else acc) (enum_from 0 gs) None.

(* grouping tuple of a combo row: sample id, then its group ids sorted *)
Definition pw_tuple (samples : list name) (gs : list (list nat)) (ids : list nat) (r : row)
  : option (list Z) :=
  do g <- opt_map_all (group_of gs) ids;
  Some (Z.of_nat (index_of (r_sample r) samples) :: map Z.of_nat (sort_nat g)).

(* new_plate_names[mask] = assignments *)
Fixpoint assign_v (v : bvec) (vals names : list name) : list name :=
  match v, names with
  | b :: v', x :: names' =>
      if b then
        match vals with
        | y :: vals' => y :: assign_v v' vals' names'
        | [] => x :: assign_v v' [] names'
        end
      else x :: assign_v v' vals names'
  | _, _ => names
  end.

Fixpoint pw_singles (samples : list name) (srows crows_out : list row) (names : list name)
         (ds : list draw) : result (list name * list draw) :=
  match samples with
  | [] => Ok (names, ds)
  | s :: rest =>
      let v := map (in_sample s) srows in
      let eligible := sort_uniq name_cmp (map r_plate (filter (in_sample s) crows_out)) in
      if is_nil eligible then Err 6%Z
      else
        dor d <- take_names ds;
        let '(asg, ds1) := d in
        if negb (length asg =? vcount v) then Err 91%Z
        else if negb (forallb (fun a => name_mem a eligible) asg) then Err 94%Z
        else pw_singles rest srows crows_out (assign_v v asg names) ds1
  end.

Definition row_ids (tm : tmapping) (r : row) : list nat :=
  map (fun k => match tlookup tm k with Some i => Z.to_nat i | None => 0 end) (r_treats r).

Definition pairwise (ctrl : name) (subset anchor : Z) (rows : list row) (ds : list draw)
  : result (list row * list draw) :=
  let crows := filter (is_combo ctrl) rows in
  let srows := filter (fun r => negb (is_combo ctrl r)) rows in
  let tm := build_tmapping ctrl (concat (map r_treats crows)) in
  let uniq := sort_uniq Nat.compare (concat (map (row_ids tm) crows)) in
  dor g <- pw_groupings subset anchor uniq ds;
  let '(gs, ds1) := g in
  (* rng.choice(range(num_groups), size=n_control, replace=True): combo rows hold no control *)
  dor c <- take_ints ds1;
  let '(ctl, ds2) := c in
  if negb (is_nil ctl) then Err 91%Z
  else
    match opt_map_all (fun r => pw_tuple (sample_names crows) gs (row_ids tm r) r) crows with
    | None => Err 92%Z
    | Some tuples =>
        let uniq_tuples := sort_uniq name_cmp tuples in
        let crows_out :=
          map (fun tr => set_mask false (set_plate (gen_name (index_of (fst tr) uniq_tuples)) (snd tr)))
              (combine tuples crows) in
        dor co <- construct crows_out;
        if is_nil srows then Ok (co, ds2)
        else
          dor sn <- pw_singles (sample_names srows) srows co (map (fun _ => []) srows) ds2;
          let '(names, ds3) := sn in
          let srows_out := map (fun nr => set_mask false (set_plate (fst nr) (snd nr))) (combine names srows) in
          dor so <- construct srows_out;
          dor all <- construct (co ++ so);
          Ok (all, ds3)
    end.

(* ---- shipped generators ---- *)
Inductive generator : Type :=
| GPerm (force : list name)
| GSampleSeg (fixed : bool) (mx : Z)
| GPairwise (ctrl : name) (subset anchor : Z).

Definition generate_inner (g : generator) : list row -> list draw -> result (list row * list draw) :=
  match g with
  | GPerm force => plate_perm force
  | GSampleSeg fx mx => sample_seg fx mx
  | GPairwise ctrl subset anchor => pairwise ctrl subset anchor
  end.
Definition generate_plates (g : generator) := wrap (generate_inner g).

(* ---- vocabulary of the source translation of PairwisePlateGenerator._generate_plates (harness/src_functions.py,
   configuration C13_PAIRWISE -> Generated/SrcRetroGen.v).  One definition per primitive.  Treatment ids of a screen made by
   to_screen() are `nat` (ranks of its non-control keys, [row_ids] of its own [build_tmapping]); group ids and sample ids are
   ints; the dict group_lookup has int keys (ids as Z.of_nat, and the sentinel). ---- *)
(* s.treatment_ids for a screen s built by to_screen() (re-encoded), one row of ids per experiment *)
Definition screen_ids (ctrl : name) (s : screen_t) : list (list nat) :=
  map (row_ids (build_tmapping ctrl (concat (map r_treats s)))) s.
(* np.unique(s.treatment_ids, return_counts=True): the sorted distinct ids, and how often each occurs *)
Definition unique_ids (ctrl : name) (s : screen_t) : list nat := sort_uniq Nat.compare (concat (screen_ids ctrl s)).
Definition id_counts (ctrl : name) (s : screen_t) : list nat :=
  map (fun u => length (filter (Nat.eqb u) (concat (screen_ids ctrl s)))) (unique_ids ctrl s).
(* screen.treatment_ids == CONTROL_SENTINEL_VALUE, row by row: which treatment entries are controls *)
Definition control_entries (ctrl : name) (s : screen_t) : list bvec := map (fun r => map (is_control ctrl) (r_treats r)) s.
(* np.any(m, axis=1) *)
Definition any_in_rows (m : list bvec) : bvec := map (existsb (fun b => b)) m.
(* np.argsort(-counts): the recorded answer (positions; the order among equal counts is implementation-defined) *)
Definition argsort_desc (counts : list nat) (ds : list draw) : result (list nat * list draw) := take_ints ds.
(* a[:n] *)
Definition slice_to {A} (a : list A) (n : Z) : list A :=
  if (n <? 0)%Z then firstn (length a - Z.to_nat (- n)) a else firstn (Z.to_nat n) a.
(* u[idx], idx an array of positions: IndexError (tag 92) for a position outside u *)
Definition take_at (u : list nat) (idx : list nat) : result (list nat) :=
  res_map_all (fun i => match nth_error u i with Some x => Ok x | None => Err 92%Z end) idx.
(* len(a) // b: ZeroDivisionError (tag 3) for b = 0 *)
Definition floor_div (a b : Z) : result Z := if (b =? 0)%Z then Err 3%Z else Ok (a / b)%Z.
(* np.setdiff1d(a, b), a sorted and duplicate-free (an np.unique result) *)
Definition setdiff_sorted (a b : list nat) : list nat := filter (fun u => negb (memb u b)) a.
(* d.get(k) on a dict with int keys: None when the key is absent *)
Fixpoint dict_find (d : list (Z * Z)) (k : Z) : option Z :=
  match d with [] => None | (k', v) :: r => if (k' =? k)%Z then Some v else dict_find r k end.
(* np.vectorize(d.get)(ids) *)
Definition lookup_all (d : list (Z * Z)) (ids : list (list nat)) : list (list (option Z)) :=
  map (map (fun i => dict_find d (Z.of_nat i))) ids.
(* np.sum(g == CONTROL_SENTINEL_VALUE) *)
Definition is_sentinel (o : option Z) : bool := match o with Some v => (v =? Generated.Consts.CONTROL_SENTINEL_VALUE)%Z | None => false end.
Definition count_sentinel (g : list (list (option Z))) : Z := Z.of_nat (length (filter is_sentinel (concat g))).
(* rng.choice(range(n), size=k, replace=True): the recorded answer; refused (tag 91) unless it has k entries *)
Definition choice_range (n k : Z) (ds : list draw) : result (list nat * list draw) :=
  dor d <- take_ints ds;
  let '(l, ds') := d in
  if negb (Z.of_nat (length l) =? k)%Z then Err 91%Z else Ok (l, ds').
(* g[g == CONTROL_SENTINEL_VALUE] = vals: the sentinel entries, in row-major order, take the values in turn;
   ValueError (tag 91) unless there are as many values as sentinel entries *)
Fixpoint fill_row (row : list (option Z)) (vals : list nat) : list (option Z) * list nat :=
  match row with
  | [] => ([], vals)
  | o :: r =>
      if is_sentinel o then
        match vals with
        | v :: vals' => let '(r', rest) := fill_row r vals' in (Some (Z.of_nat v) :: r', rest)
        | [] => let '(r', rest) := fill_row r [] in (o :: r', rest)
        end
      else let '(r', rest) := fill_row r vals in (o :: r', rest)
  end.
Fixpoint fill_rows (g : list (list (option Z))) (vals : list nat) : list (list (option Z)) :=
  match g with
  | [] => []
  | row :: g' => let '(row', rest) := fill_row row vals in row' :: fill_rows g' rest
  end.
Definition store_at_sentinel (g : list (list (option Z))) (vals : list nat) : result (list (list (option Z))) :=
  if (count_sentinel g =? Z.of_nat (length vals))%Z then Ok (fill_rows g vals) else Err 91%Z.
(* np.sort(g, axis=1): TypeError (tag 92) when an entry is None (an id without a group) *)
Definition sort_rows (g : list (list (option Z))) : result (list (list Z)) :=
  match opt_map_all (fun row => opt_map_all (fun o => o) row) g with
  | Some m => Ok (map sort_z m)
  | None => Err 92%Z
  end.
(* s.sample_ids[:, np.newaxis]: one 1-element row per experiment (ids = ranks of the sorted unique sample names of s) *)
Definition sample_id_column (s : screen_t) : list (list Z) := map (fun r => [sample_id_z s (r_sample r)]) s.
(* np.hstack([a, b]), a and b 2-d with the same number of rows *)
Definition hstack2 (a b : list (list Z)) : list (list Z) := map (fun p => fst p ++ snd p) (combine a b).
(* np.unique(a, axis=0): the sorted distinct rows (lexicographic) *)
Definition unique_rows (a : list (list Z)) : list (list Z) := sort_uniq name_cmp a.
(* (a == t).all(axis=1) *)
Definition rows_equal (a : list (list Z)) (t : list Z) : bvec := map (fun x => name_eqb x t) a.
(* names[m] = v, m a boolean mask, v one string: IndexError (tag 92) unless m has one entry per name *)
Definition set_where (names : list name) (m : bvec) (v : name) : result (list name) :=
  if length m =? length names then Ok (map (fun nb : name * bool => if snd nb then v else fst nb) (combine names m))
  else Err 92%Z.
(* names[m] = vals, vals an array: IndexError / ValueError (tag 92) unless m has one entry per name and vals one per true entry *)
Definition store_where (names : list name) (m : bvec) (vals : list name) : result (list name) :=
  if (length m =? length names) && (vcount m =? length vals) then Ok (assign_v m vals names) else Err 92%Z.
(* rng.choice(a, size=n, replace=True), a an array of plate names: the recorded answer; refused unless it has n entries
   (tag 91), all elements of a (tag 94: numpy answers from the array) *)
Definition choice_names (a : list name) (n : Z) (ds : list draw) : result (list name * list draw) :=
  dor d <- take_names ds;
  let '(asg, ds') := d in
  if negb (Z.of_nat (length asg) =? n)%Z then Err 91%Z
  else if negb (forallb (fun x => name_mem x a) asg) then Err 94%Z
  else Ok (asg, ds').
(* np.unique(s.plate_names[s.sample_names == nm]) *)
Definition plates_of_sample_named (s : screen_t) (nm : name) : list name :=
  sort_uniq name_cmp (map r_plate (filter (in_sample nm) s)).
