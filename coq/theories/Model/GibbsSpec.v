(* C08 independent specification: energy = -2 log joint density (up to additive constants) of
   the documented generative model of the sparse combination sampler, written from the model
   description and NOT from the block code:
     y_i ~ N(mean_i, 1/prec),
     mean_i = alpha + W0[c] + V0[t1] + V0[t2] + sum_k W[c,k] (V1[t1,k] + V1[t2,k])
                    + sum_k W[c,k] V2[t1,k] V2[t2,k]        (a control treatment contributes nothing)
     W0[c] ~ N(0, 1/tau0)            V0[m] ~ N(0, 1/(phi0[m] eta0))
     W[c,k] ~ N(0, 1/tau[k])         V2[m,k] ~ N(0, 1/(phi2[m,k] eta2[k]))   (V1 likewise)
     prec, tau0 ~ Gamma(a0, b0 + jitter)   (the 0.001 the code adds to every rate)
     gam[0] ~ Gamma(2, 1 + jitter), gam[l] ~ Gamma(3, 1 + jitter)   (multiplicative gamma process,
                                                                      tau[k] = prod_{l<=k} gam[l])
   conditionally on the horseshoe scales phi, eta (their hyper-priors are not part of the
   statements proved).  [ln] is an arbitrary function: the statements hold for every such
   function, so a coefficient of [ln x] in a difference is identified exactly.
   Plain (non-python) indexing: sample c >= 0, treatment t >= 0 or control t < 0. *)
From Coq Require Import ZArith List QArith Qcanon.
From Batchie Require Import Lib.Num Model.Gibbs.
Import ListNotations.
Open Scope Qc_scope.

Definition emb_v (v : list Qc) (t : Z) : Qc := if (t <? 0)%Z then 0 else vnth v (Z.to_nat t).
Definition emb_r (M : list (list Qc)) (t : Z) : list Qc := if (t <? 0)%Z then [] else rnth M (Z.to_nat t).

Section Spec.
Variable ln : Qc -> Qc.
Variable g : cfg.
Variable d : data.

Definition spec_mean (s : st) (i : nat) : Qc :=
  let c := Z.to_nat (znth (d_cl d) i) in
  let t1 := znth (d_dd1 d) i in
  let t2 := znth (d_dd2 d) i in
  alpha s + vnth (W0 s) c + emb_v (V0 s) t1 + emb_v (V0 s) t2
  + sumn (c_D g) (fun k => vnth (rnth (W s) c) k * (vnth (emb_r (V1 s) t1) k + vnth (emb_r (V1 s) t2) k))
  + sumn (c_D g) (fun k => vnth (rnth (W s) c) k * vnth (emb_r (V2 s) t1) k * vnth (emb_r (V2 s) t2) k).

Definition sse (s : st) : Qc := sumn (nobs d) (fun i => qsq (yi d i - spec_mean s i)).
Definition e_lik (s : st) : Qc := prec s * sse s - qnat (nobs d) * ln (prec s).
Definition e_W0 (s : st) : Qc :=
  tau0 s * sumn (c_ncl g) (fun c => qsq (vnth (W0 s) c)) - qnat (c_ncl g) * ln (tau0 s).
Definition e_V0 (s : st) : Qc :=
  sumn (c_ndd g) (fun m => vnth (phi0 s) m * eta0 s * qsq (vnth (V0 s) m))
  - sumn (c_ndd g) (fun m => ln (vnth (phi0 s) m * eta0 s)).
Definition e_W (s : st) : Qc :=
  sumn (c_ncl g) (fun c => sumn (c_D g) (fun k => vnth (tau s) k * qsq (vnth (rnth (W s) c) k)))
  - qnat (c_ncl g) * sumn (c_D g) (fun k => ln (vnth (tau s) k)).
Definition e_Vk (V phi : list (list Qc)) (eta : list Qc) : Qc :=
  sumn (c_ndd g) (fun m => sumn (c_D g) (fun k => vnth (rnth phi m) k * vnth eta k * qsq (vnth (rnth V m) k)))
  - sumn (c_ndd g) (fun m => sumn (c_D g) (fun k => ln (vnth (rnth phi m) k * vnth eta k))).
(* -2 log Gamma(x; shape a, rate r) up to constants *)
Definition e_gamma (x a r : Qc) : Qc := - (qofZ 2 * (a - 1) * ln x) + qofZ 2 * r * x.
Definition e_hyper (s : st) : Qc :=
  e_gamma (prec s) (c_a0 g) (c_b0 g + jitter) + e_gamma (tau0 s) (c_a0 g) (c_b0 g + jitter)
  + sumn (c_D g) (fun l => e_gamma (vnth (gam s) l) (match l with O => qofZ 2 | _ => qofZ 3 end) (1 + jitter)).
Definition energy (s : st) : Qc :=
  e_lik s + e_W0 s + e_V0 s + e_W s + e_Vk (V2 s) (phi2 s) (eta2 s) + e_Vk (V1 s) (phi1 s) (eta1 s) + e_hyper s.
End Spec.

(* hypotheses of the theorems *)
Definition ValidData (d : data) : Prop :=
  length (d_cl d) = nobs d /\ length (d_dd1 d) = nobs d /\ length (d_dd2 d) = nobs d /\
  (forall i, (0 <= znth (d_cl d) i)%Z) /\ (forall i, (-1 <= znth (d_dd1 d) i)%Z) /\ (forall i, (-1 <= znth (d_dd2 d) i)%Z).
(* no observation has the same non-control treatment in both columns *)
Definition NoSelfCombo (d : data) : Prop :=
  forall i, (i < nobs d)%nat -> znth (d_dd1 d) i = (-1)%Z \/ znth (d_dd1 d) i <> znth (d_dd2 d) i.
Definition cache_ok (g : cfg) (d : data) (s : st) : Prop := Mu s = reconstruct g d s.
