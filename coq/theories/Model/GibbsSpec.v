(* C08 independent specification: energy = -2 log joint density (up to additive constants) of
   the documented generative model of the sparse combination sampler, written from the model
   description and NOT from the block code:
     y_i ~ N(mean_i, 1/prec),
     mean_i = alpha + W0[c] + V0[t1] + V0[t2] + sum_k W[c,k] (V1[t1,k] + V1[t2,k])
                    + sum_k W[c,k] V2[t1,k] V2[t2,k]        (a control treatment contributes nothing)
     W0[c] ~ N(0, 1/tau0)            V0[m] ~ N(0, 1/(phi0[m] eta0))
     W[c,k] ~ N(0, 1/tau[k])         V2[m,k] ~ N(0, 1/(phi2[m,k] eta2[k]))   (V1 likewise)
     prec, tau0 ~ Gamma(a0, b0 + jitter)   (the 0.001 the code adds to every rate)
     gam[0] ~ Gamma(2, 1 + jitter), gam[l] ~ Gamma(3, 1 + jitter)   (multiplicative gamma process,
                                                                      tau[k] = prod_{l<=k} gam[l])
   conditionally on the horseshoe precisions phi, eta ([energy]); their hyper-priors are the
   second part of this file ([e_hs], [energy_hs] = -2 log of the complete joint).
   [ln] is an arbitrary function: the statements hold for every such
   function, so a coefficient of [ln x] in a difference is identified exactly.
   Plain (non-python) indexing: sample c >= 0, treatment t >= 0 or control t < 0. *)
From Coq Require Import ZArith List QArith Qcanon.
From Batchie Require Import Lib.Num Model.Gibbs.
Import ListNotations.
Open Scope Qc_scope.

Definition emb_v (v : list Qc) (t : Z) : Qc := if (t <? 0)%Z then 0 else vnth v (Z.to_nat t).
Definition emb_r (M : list (list Qc)) (t : Z) : list Qc := if (t <? 0)%Z then [] else rnth M (Z.to_nat t).

Section Spec.
Variable ln : Qc -> Qc.
Variable g : cfg.
Variable d : data.

Definition spec_mean (s : st) (i : nat) : Qc :=
  let c := Z.to_nat (znth (d_cl d) i) in
  let t1 := znth (d_dd1 d) i in
  let t2 := znth (d_dd2 d) i in
  alpha s + vnth (W0 s) c + emb_v (V0 s) t1 + emb_v (V0 s) t2
  + sumn (c_D g) (fun k => vnth (rnth (W s) c) k * (vnth (emb_r (V1 s) t1) k + vnth (emb_r (V1 s) t2) k))
  + sumn (c_D g) (fun k => vnth (rnth (W s) c) k * vnth (emb_r (V2 s) t1) k * vnth (emb_r (V2 s) t2) k).

Definition sse (s : st) : Qc := sumn (nobs d) (fun i => qsq (yi d i - spec_mean s i)).
Definition e_lik (s : st) : Qc := prec s * sse s - qnat (nobs d) * ln (prec s).
Definition e_W0 (s : st) : Qc :=
  tau0 s * sumn (c_ncl g) (fun c => qsq (vnth (W0 s) c)) - qnat (c_ncl g) * ln (tau0 s).
Definition e_V0 (s : st) : Qc :=
  sumn (c_ndd g) (fun m => vnth (phi0 s) m * eta0 s * qsq (vnth (V0 s) m))
  - sumn (c_ndd g) (fun m => ln (vnth (phi0 s) m * eta0 s)).
Definition e_W (s : st) : Qc :=
  sumn (c_ncl g) (fun c => sumn (c_D g) (fun k => vnth (tau s) k * qsq (vnth (rnth (W s) c) k)))
  - qnat (c_ncl g) * sumn (c_D g) (fun k => ln (vnth (tau s) k)).
Definition e_Vk (V phi : list (list Qc)) (eta : list Qc) : Qc :=
  sumn (c_ndd g) (fun m => sumn (c_D g) (fun k => vnth (rnth phi m) k * vnth eta k * qsq (vnth (rnth V m) k)))
  - sumn (c_ndd g) (fun m => sumn (c_D g) (fun k => ln (vnth (rnth phi m) k * vnth eta k))).
(* -2 log Gamma(x; shape a, rate r) up to constants *)
Definition e_gamma (x a r : Qc) : Qc := - (qofZ 2 * (a - 1) * ln x) + qofZ 2 * r * x.
Definition e_hyper (s : st) : Qc :=
  e_gamma (prec s) (c_a0 g) (c_b0 g + jitter) + e_gamma (tau0 s) (c_a0 g) (c_b0 g + jitter)
  + sumn (c_D g) (fun l => e_gamma (vnth (gam s) l) (match l with O => qofZ 2 | _ => qofZ 3 end) (1 + jitter)).
Definition energy (s : st) : Qc :=
  e_lik s + e_W0 s + e_V0 s + e_W s + e_Vk (V2 s) (phi2 s) (eta2 s) + e_Vk (V1 s) (phi1 s) (eta1 s) + e_hyper s.
End Spec.

(* ---------------------------------------------------------------- horseshoe hyper-priors
   Documented model ("parameters for horseshoe priors"): every V-coefficient has a horseshoe
   prior, V ~ N(0, lambda^2 * tau^2) with a local scale lambda ~ C+(0,1) (one per coefficient)
   and a global scale tau ~ C+(0,1) (one per embedding dimension, one for V0); the sampler's
   phi and eta are the PRECISIONS  phi = 1/lambda^2, eta = 1/tau^2  (V ~ N(0, 1/(phi eta)),
   which is how [e_V0]/[e_Vk] above use them).
   The half-Cauchy law enters through its inverse-gamma mixture (Makalic & Schmidt 2016):
       lambda ~ C+(0,1)   <=>   lambda^2 | nu ~ InvGamma(1/2, 1/nu),  nu ~ InvGamma(1/2, 1).
   X ~ InvGamma(a, b) <=> 1/X ~ Gamma(a, rate b); so with the precision p = 1/lambda^2 and the
   auxiliary RATE a = 1/nu (the quantity the sampler calls phiaux / etaaux - nothing is inverted
   in the code, both draws are plain gamma draws of p and of a):
       p | a ~ Gamma(1/2, rate a),      a ~ Gamma(1/2, rate 1).
   -2 log of a normalised Gamma(shape c, rate r) density at x is
       -2 (c - 1) ln x + 2 r x - 2 c ln r       (+ 2 ln Gamma(c), a constant)
   and the term -2 c ln r matters here because the rate of p is itself the random a.
   Stability term: the sampler adds 0.001 to the rate of every precision draw; as for prec, tau0
   and gam above it is part of the specified model, as the factor exp(-j p) on every horseshoe
   precision p (an exponential tilt of the half-Cauchy prior; it does not involve a).  The
   specification is parameterised by j: j = jitter is the model the sampler is exact for,
   j = 0 is the plain horseshoe.  Written from this description, not from the update formulas. *)
Record aux := { a_phi0 : list Qc; a_eta0 : Qc; a_phi2 : list (list Qc); a_eta2 : list Qc;
                a_phi1 : list (list Qc); a_eta1 : list Qc }.
Definition set_a_phi0 u x := {| a_phi0 := x; a_eta0 := a_eta0 u; a_phi2 := a_phi2 u; a_eta2 := a_eta2 u; a_phi1 := a_phi1 u; a_eta1 := a_eta1 u |}.
Definition set_a_eta0 u x := {| a_phi0 := a_phi0 u; a_eta0 := x; a_phi2 := a_phi2 u; a_eta2 := a_eta2 u; a_phi1 := a_phi1 u; a_eta1 := a_eta1 u |}.
Definition set_a_phi2 u x := {| a_phi0 := a_phi0 u; a_eta0 := a_eta0 u; a_phi2 := x; a_eta2 := a_eta2 u; a_phi1 := a_phi1 u; a_eta1 := a_eta1 u |}.
Definition set_a_eta2 u x := {| a_phi0 := a_phi0 u; a_eta0 := a_eta0 u; a_phi2 := a_phi2 u; a_eta2 := x; a_phi1 := a_phi1 u; a_eta1 := a_eta1 u |}.
Definition set_a_phi1 u x := {| a_phi0 := a_phi0 u; a_eta0 := a_eta0 u; a_phi2 := a_phi2 u; a_eta2 := a_eta2 u; a_phi1 := x; a_eta1 := a_eta1 u |}.
Definition set_a_eta1 u x := {| a_phi0 := a_phi0 u; a_eta0 := a_eta0 u; a_phi2 := a_phi2 u; a_eta2 := a_eta2 u; a_phi1 := a_phi1 u; a_eta1 := x |}.

Section SpecHS.
Variable ln : Qc -> Qc.
Variable j : Qc.
Variable g : cfg.

(* -2 log of the normalised Gamma(shape c, rate r) density at x, up to the constant 2 ln Gamma(c) *)
Definition e_gamma_n (x c r : Qc) : Qc := e_gamma ln x c r - qofZ 2 * c * ln r.
(* one half-Cauchy scale: precision p with auxiliary rate a, and the stability tilt *)
Definition e_hc (p a : Qc) : Qc := e_gamma_n p half a + e_gamma_n a half 1 + qofZ 2 * j * p.
Definition e_hs_vec (n : nat) (p a : list Qc) : Qc := sumn n (fun i => e_hc (vnth p i) (vnth a i)).
Definition e_hs_mat (p a : list (list Qc)) : Qc :=
  sumn (c_ndd g) (fun m => e_hs_vec (c_D g) (rnth p m) (rnth a m)).
Definition e_hs (s : st) (u : aux) : Qc :=
  e_hs_vec (c_ndd g) (phi0 s) (a_phi0 u) + e_hc (eta0 s) (a_eta0 u)
  + e_hs_mat (phi2 s) (a_phi2 u) + e_hs_vec (c_D g) (eta2 s) (a_eta2 u)
  + e_hs_mat (phi1 s) (a_phi1 u) + e_hs_vec (c_D g) (eta1 s) (a_eta1 u).
(* -2 log of the complete joint density: all parameters, horseshoe precisions and auxiliaries *)
Definition energy_hs (d : data) (s : st) (u : aux) : Qc := energy ln g d s + e_hs s u.

(* what "x is drawn from Gamma(shape c, rate r)" means for an energy E as a function of x:
   E(t) - E(t') = gform c r t t', i.e. c - 1 and r are the coefficients of -2 ln x and 2 x *)
Definition gform (c r t t' : Qc) : Qc := - (qofZ 2 * (c - 1) * (ln t - ln t')) + qofZ 2 * r * (t - t').
(* the sum of all horseshoe precisions (what the stability tilt multiplies) *)
Definition hs_total (s : st) : Qc :=
  sumn (c_ndd g) (fun m => vnth (phi0 s) m) + eta0 s
  + sumn (c_ndd g) (fun m => sumn (c_D g) (fun k => vnth (rnth (phi2 s) m) k)) + sumn (c_D g) (fun k => vnth (eta2 s) k)
  + sumn (c_ndd g) (fun m => sumn (c_D g) (fun k => vnth (rnth (phi1 s) m) k)) + sumn (c_D g) (fun k => vnth (eta1 s) k).
End SpecHS.

(* hypotheses of the theorems *)
Definition ValidData (d : data) : Prop :=
  length (d_cl d) = nobs d /\ length (d_dd1 d) = nobs d /\ length (d_dd2 d) = nobs d /\
  (forall i, (0 <= znth (d_cl d) i)%Z) /\ (forall i, (-1 <= znth (d_dd1 d) i)%Z) /\ (forall i, (-1 <= znth (d_dd2 d) i)%Z).
(* no observation has the same non-control treatment in both columns *)
Definition NoSelfCombo (d : data) : Prop :=
  forall i, (i < nobs d)%nat -> znth (d_dd1 d) i = (-1)%Z \/ znth (d_dd1 d) i <> znth (d_dd2 d) i.
Definition cache_ok (g : cfg) (d : data) (s : st) : Prop := Mu s = reconstruct g d s.
