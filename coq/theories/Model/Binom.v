(* C15 specification-side definitions (no Python counterpart except where said; no proofs here).
     binom n k        binomial coefficient on nat by Pascal's recursion (the definition the
                      theorems are stated against; C(n,0)=1, C(0,k+1)=0, C(n+1,k+1)=C(n,k)+C(n,k+1))
     Cz n k           the same lifted to Z arguments/values (n clamped at 0 below)
     rank c           combinatorial-number-system rank of a tuple c1 > c2 > ... > ck :
                      sum_j C(c_j, k-j+1)
     desc_below n c   c is strictly descending with all entries in [0, n)
                      (a k-element subset of {0..n-1} written as a descending tuple)
     lex_lt a b       Python's tuple order a < b (lexicographic)
   Use site (batchie.scoring.gaussian_dbal.dbal_fast_gauss_scoring_vectorized, lines 205-218):
     dbal_triples n_thetas max_combos draw
                      n_theta_combinations = comb(n_thetas, 3, exact=True); ValueError when 0;
                      n_combos = min(n_theta_combinations, max_combos);
                      unpacked_indices = rng.choice(n_theta_combinations, size=n_combos, replace=False)
                      -- the draw is an explicit argument (recorded by the harness) --
                      [get_combination_at_sorted_index(ind, n_thetas, 3) for ind in unpacked_indices].
                      scipy's exact comb is modelled by the multiplicative formula init_nck
                      (proved equal to Cz).  Error tag 7: fewer than 3 thetas; 6: empty draw
                      (the star-zip of an empty list cannot be unpacked into three names). *)
From Coq Require Import ZArith List.
From Batchie Require Import Lib.Sexp Model.Unrank.
Import ListNotations.
Open Scope Z_scope.

Fixpoint binom (n k : nat) {struct n} : nat :=
  match n, k with
  | _, O => 1%nat
  | O, S _ => 0%nat
  | S n', S k' => (binom n' k' + binom n' k)%nat
  end.

Definition Cz (n : Z) (k : nat) : Z := Z.of_nat (binom (Z.to_nat n) k).

Fixpoint rank (c : list Z) : Z :=
  match c with
  | [] => 0
  | x :: r => Cz x (S (length r)) + rank r
  end.

Fixpoint desc_below (n : Z) (c : list Z) : Prop :=
  match c with
  | [] => True
  | x :: r => 0 <= x < n /\ desc_below x r
  end.

Fixpoint desc_belowb (n : Z) (c : list Z) : bool :=
  match c with
  | [] => true
  | x :: r => (0 <=? x) && (x <? n) && desc_belowb x r
  end.

Fixpoint lex_lt (a b : list Z) : Prop :=
  match a, b with
  | _, [] => False
  | [], _ :: _ => True
  | x :: a', y :: b' => x < y \/ (x = y /\ lex_lt a' b')
  end.

(* all unrankings 0 .. C(n,k)-1 in index order (C(n,k) computed as the code computes it) *)
Definition enum_all (n : Z) (k : nat) : list (result (list Z)) :=
  map (fun i => unrank (Z.of_nat i) n k) (seq 0 (Z.to_nat (init_nck n k))).

Definition triples (n : Z) (idxs : list Z) : result (list (list Z)) :=
  res_map_all (fun i => unrank i n 3) idxs.

Definition dbal_triples (n_thetas max_combos : Z) (draw : Z -> Z -> list Z)
  : result (Z * Z * list (list Z)) :=
  let ncomb := init_nck n_thetas 3 in
  if ncomb =? 0 then Err 7
  else
    let size := Z.min ncomb max_combos in
    match draw ncomb size with
    | [] => Err 6
    | idxs => dor ts <- triples n_thetas idxs; Ok (ncomb, size, ts)
    end.

(* numpy contract of Generator.choice(N, size=m, replace=False) used by the theorems about
   dbal_triples: m distinct values of range(N).  The harness checks every recorded draw
   against it. *)
Definition choice_contract (draw : Z -> Z -> list Z) : Prop :=
  forall N m, 0 <= m <= N ->
    NoDup (draw N m) /\ Z.of_nat (length (draw N m)) = m /\ forall i, In i (draw N m) -> 0 <= i < N.
