(* Shared model of batchie.data.Screen (constructor, accessors, ExperimentSpace sizes).
   Used by C01-C04, C06, C11-C14.  No proofs here.
   A row is one experiment.  Observation values are opaque integers (the harness sends the
   IEEE-754 bit pattern of the float64, so equality is bit-for-bit); the two predicates the
   code applies to them (== 0, isnan) are computed from the bits.
   Every constructor call site of the code (reveal, mask, unmask, hold-out, to_screen, combine,
   load_h5, generators, smoothers) is a call of [mk_screen] with the arguments that site passes.
   Error tags: see Model/Encode.v. *)
From Coq Require Import ZArith List Bool.
From Batchie Require Import Lib.Sexp Generated.Consts Model.Encode.
Import ListNotations.
Open Scope Z_scope.

Record row := {
  r_sample : name;
  r_plate : name;
  r_treats : list tkey;          (* (name, dose key) per treatment column *)
  r_obs : Z;                     (* float64 bit pattern *)
  r_mask : bool                  (* observed? *)
}.

Record screen := {
  s_rows : list row;
  s_arity : nat;
  s_ctrl : name;
  s_tmap : tmapping;             (* treatment_mapping, in stored order *)
  s_smap : nmapping;             (* sample_mapping *)
  s_pmap : nmapping;             (* plate_mapping *)
  s_tids : list (list Z);        (* treatment_ids, one list per row *)
  s_sids : list Z;
  s_pids : list Z
}.

(* float64 bit-pattern predicates *)
Definition two63 : Z := 9223372036854775808.
Definition obs_is_zero (b : Z) : bool := (b =? 0) || (b =? two63).
Definition obs_is_nan (b : Z) : bool :=
  let e := (b / 4503599627370496) mod 2048 in      (* bits 52..62 *)
  let m := b mod 4503599627370496 in               (* bits 0..51 *)
  (e =? 2047) && negb (m =? 0).

(* column-major flatten:  np.concatenate([names[:, i] for i in range(arity)]) *)
Definition column {A} (d : A) (i : nat) (rows : list (list A)) : list A :=
  map (fun r => nth i r d) rows.
Definition flatten_cols {A} (d : A) (arity : nat) (rows : list (list A)) : list A :=
  concat (map (fun i => column d i rows) (seq 0 arity)).

(* np.vstack(np.split(flat, arity)).T : row j = [flat[i*n + j] for i < arity] *)
Definition unflatten_cols (arity n : nat) (flat : list Z) : list (list Z) :=
  map (fun j => map (fun i => nth (i * n + j) flat 0) (seq 0 arity)) (seq 0 n).

(* per-plate mask uniformity: for each plate name, all masks equal that of its first row *)
Fixpoint first_mask (p : name) (rows : list row) : option bool :=
  match rows with
  | [] => None
  | r :: rs => if name_eqb (r_plate r) p then Some (r_mask r) else first_mask p rs
  end.
Definition plate_uniform (rows : list row) : bool :=
  forallb (fun r => match first_mask (r_plate r) rows with
                    | Some b => Bool.eqb b (r_mask r)
                    | None => false
                    end) rows.

(* arguments of Screen(...): rows carry obs/mask; [obs_given]/[mask_given] say whether the
   call site passes observations / observation_mask.  Supplied mappings come with the flag
   "ids array has an integer dtype". *)
Definition mk_screen (rows : list row) (arity : nat) (ctrl : name)
           (tmap : option (tmapping * bool)) (smap : option (nmapping * bool))
           (obs_given mask_given : bool) : result screen :=
  if negb (forallb (fun r => Nat.eqb (length (r_treats r)) arity) rows) then Err 1
  else if negb obs_given && mask_given then Err 7
  else
    let rows :=
      if obs_given then
        (if mask_given then rows
         else map (fun r => {| r_sample := r_sample r; r_plate := r_plate r; r_treats := r_treats r;
                               r_obs := r_obs r; r_mask := true |}) rows)
      else map (fun r => {| r_sample := r_sample r; r_plate := r_plate r; r_treats := r_treats r;
                            r_obs := 0; r_mask := false |}) rows in
    if negb (plate_uniform rows) then Err 2
    else if match tmap with Some (m, isint) => negb (zero_indexed isint (map snd m)) | None => false end then Err 3
    else if match smap with Some (m, isint) => negb (zero_indexed isint (map snd m)) | None => false end then Err 4
    else
      let flat := flatten_cols ([], 0) arity (map r_treats rows) in
      dor te <- encode_treatments flat ctrl (option_map fst tmap);
      let '(tflat, tm) := te in
      dor se <- encode_names (map r_sample rows) (option_map fst smap) 6;
      let '(sids, sm) := se in
      dor pe <- encode_names (map r_plate rows) None 6;
      let '(pids, pm) := pe in
      Ok {| s_rows := rows; s_arity := arity; s_ctrl := ctrl;
            s_tmap := tm; s_smap := sm; s_pmap := pm;
            s_tids := unflatten_cols arity (length rows) tflat;
            s_sids := sids; s_pids := pids |}.

(* ExperimentSpace.from_screen(...).n_unique_samples / n_unique_treatments *)
Definition space_n_samples (s : screen) : Z :=
  Z.of_nat (length (sort_uniq name_cmp (map fst (s_smap s)))).
Definition space_n_treatments (s : screen) : Z :=
  Z.of_nat (length (sort_uniq Z.compare
                      (filter (fun i => negb (i =? CONTROL_SENTINEL_VALUE)) (map snd (s_tmap s))))).

(* ==== vocabulary of the source-translation link for C01: the id-encoding statements of Screen.__init__ ====
   (harness/src_functions.py C01_INIT_*, generated file Generated/SrcScreenIds.v, proofs Proofs/C01Source.v)
   A 2-d numpy array is (shape[1], its rows); every row of a numpy array has that length (a value with a row of
   another length is not an array: reading past a short row yields the default).  An id array that went through a
   pandas left merge holds `option Z` (None = NaN).  Each definition is the meaning of ONE numpy call. *)
Definition arr2 (A : Type) : Type := (nat * list (list A))%type.
Definition arr2_shape1 {A} (a : arr2 A) : Z := Z.of_nat (fst a).                       (* a.shape[1] *)
(* a[:, i]: column i; a negative index counts from the end, IndexError (tag 18) outside -shape[1] .. shape[1]-1 *)
Definition arr2_col {A} (d : A) (a : arr2 A) (i : Z) : result (list A) :=
  let j := if i <? 0 then i + Z.of_nat (fst a) else i in
  if (0 <=? j) && (j <? Z.of_nat (fst a)) then Ok (column d (Z.to_nat j) (snd a)) else Err 18.
(* np.concatenate(l), l a list of 1-d arrays: ValueError (tag 17) for the empty list *)
Definition np_concat {A} (l : list (list A)) : result (list A) :=
  match l with [] => Err 17 | _ => Ok (concat l) end.
(* np.split(a, n), a 1-d: n equal consecutive parts; n = 0 is a ZeroDivisionError, an unequal division or n < 0 a
   ValueError (tag 19) *)
Definition np_split {A} (a : list A) (n : Z) : result (list (list A)) :=
  if n <=? 0 then Err 19
  else if negb (Z.of_nat (length a) mod n =? 0) then Err 19
  else let k := Z.to_nat (Z.of_nat (length a) / n) in
       Ok (map (fun i => firstn k (skipn (i * k) a)) (seq 0 (Z.to_nat n))).
(* np.vstack(l), l a list of 1-d arrays: they become the rows; ValueError (tag 17 / 20) for no array / unequal lengths *)
Definition np_vstack {A} (l : list (list A)) : result (arr2 A) :=
  match l with
  | [] => Err 17
  | r :: rest => if forallb (fun x => Nat.eqb (length x) (length r)) rest then Ok (length r, l) else Err 20
  end.
(* a.T *)
Definition arr2_T {A} (d : A) (a : arr2 A) : arr2 A :=
  (length (snd a), map (fun j => column d j (snd a)) (seq 0 (fst a))).

(* what the id statements of Screen.__init__ store, read back from a constructed screen *)
Definition tmap_cols3 (m : tmapping) : list name * list Z * list Z :=
  (map (fun e => fst (fst e)) m, map (fun e => snd (fst e)) m, map snd m).
Definition nmap_cols2 (m : nmapping) : list name * list Z := (map fst m, map snd m).
Definition stored_ids (s : screen)
  : (list name * list Z * list Z) * arr2 (option Z) * list (option Z) * (list name * list Z) * list (option Z) * (list name * list Z) :=
  (tmap_cols3 (s_tmap s), (s_arity s, map (map Some) (s_tids s)), map Some (s_sids s), nmap_cols2 (s_smap s),
   map Some (s_pids s), nmap_cols2 (s_pmap s)).
(* the arguments of a constructor call on rows, as the arrays / mapping tuples Python passes *)
Definition names_arr (a : nat) (rows : list row) : arr2 name := (a, map (fun r => map fst (r_treats r)) rows).
Definition doses_arr (a : nat) (rows : list row) : arr2 Z := (a, map (fun r => map snd (r_treats r)) rows).
Definition tmap_arg_py (tm : option (tmapping * bool)) : option tmap_py := option_map (fun mb => tmap_py_of (fst mb) (snd mb)) tm.
Definition smap_arg_py (sm : option (nmapping * bool)) : option smap_py := option_map (fun mb => smap_py_of (fst mb) (snd mb)) sm.
(* np.setdiff1d(a, b): the sorted distinct values of a that are not in b (ExperimentSpace.n_unique_treatments) *)
Definition np_setdiff1d (a b : list Z) : list Z :=
  sort_uniq Z.compare (filter (fun x => negb (existsb (Z.eqb x) b)) a).
