(* C01 model, part 1: the id encoders of batchie.data
     encode_treatment_arrays_to_0_indexed_ids, encode_1d_array_to_0_indexed_ids,
     numpy_array_is_0_indexed_integers.
   Names are lists of code points, ordered lexicographically (= Python str order = the
   order pandas sort_values / np.unique use).  Doses are order keys (common.float_key:
   an order isomorphism on finite doubles with -0.0 and 0.0 identified, as pandas
   drop_duplicates / merge identify them); dose <= 0  <=>  key <= 0.
   pandas primitives are modelled by their documented effect:
     drop_duplicates().sort_values(by=[name,dose])  -> strictly sorted duplicate-free list
     merge(how="left") on the key columns            -> first matching mapping row, NaN if none
   A supplied mapping is assumed key-unique (batchie's own mappings are); [lookup] takes the
   first match.  No proofs here. *)
From Coq Require Import ZArith List Bool.
From Batchie Require Import Lib.Sexp Generated.Consts.
Import ListNotations.
Open Scope Z_scope.

Definition name := list Z.

Fixpoint name_cmp (a b : name) : comparison :=
  match a, b with
  | [], [] => Eq
  | [], _ :: _ => Lt
  | _ :: _, [] => Gt
  | x :: a', y :: b' =>
      match x ?= y with
      | Eq => name_cmp a' b'
      | c => c
      end
  end.

Definition name_eqb (a b : name) : bool := match name_cmp a b with Eq => true | _ => false end.

(* ---- generic strictly-sorted duplicate-free insertion sort over a comparison ---- *)
Section SortUniq.
Context {K : Type} (cmp : K -> K -> comparison).

Fixpoint insert_uniq (k : K) (l : list K) : list K :=
  match l with
  | [] => [k]
  | x :: r =>
      match cmp k x with
      | Lt => k :: l
      | Eq => l
      | Gt => x :: insert_uniq k r
      end
  end.

Definition sort_uniq (l : list K) : list K := fold_right insert_uniq [] l.
End SortUniq.

(* ---- treatments ---- *)
Definition tkey := (name * Z)%type.            (* (treatment name, dose key) *)

Definition tkey_cmp (a b : tkey) : comparison :=
  match name_cmp (fst a) (fst b) with
  | Eq => snd a ?= snd b
  | c => c
  end.

Definition tkey_eqb (a b : tkey) : bool := match tkey_cmp a b with Eq => true | _ => false end.

(* is_control = (dose <= 0) | (name == control_treatment_name) *)
Definition is_control (ctrl : name) (k : tkey) : bool :=
  (snd k <=? 0) || name_eqb (fst k) ctrl.

(* new_index = index - is_control.cumsum(); new_index[is_control] = SENTINEL.
   [idx] is the position, [cum] the number of controls strictly before it. *)
Fixpoint assign_from (ctrl : name) (idx cum : Z) (l : list tkey) : list (tkey * Z) :=
  match l with
  | [] => []
  | k :: r =>
      let c := is_control ctrl k in
      let cum' := if c then cum + 1 else cum in
      (k, if c then CONTROL_SENTINEL_VALUE else idx - cum') :: assign_from ctrl (idx + 1) cum' r
  end.

Definition tmapping := list (tkey * Z).

Definition build_tmapping (ctrl : name) (keys : list tkey) : tmapping :=
  assign_from ctrl 0 0 (sort_uniq tkey_cmp keys).

Fixpoint tlookup (m : tmapping) (k : tkey) : option Z :=
  match m with
  | [] => None
  | (k', id) :: r => if tkey_eqb k k' then Some id else tlookup r k
  end.

(* Error tags of the encoders / constructor (shared with Model/Screen.v):
   1 ragged rows, 2 mixed plate, 3 invalid treatment mapping, 4 invalid sample mapping,
   5 treatment lookup failed, 6 sample lookup failed, 7 mask without observations *)
Definition encode_treatments (keys : list tkey) (ctrl : name) (existing : option tmapping)
  : result (list Z * tmapping) :=
  let m := match existing with Some m => m | None => build_tmapping ctrl keys end in
  match opt_map_all (tlookup m) keys with
  | Some ids => Ok (ids, m)
  | None => Err 5
  end.

(* ---- 1-d (samples, plates) ---- *)
Fixpoint number_from {A} (idx : Z) (l : list A) : list (A * Z) :=
  match l with
  | [] => []
  | a :: r => (a, idx) :: number_from (idx + 1) r
  end.

Definition nmapping := list (name * Z).

Definition build_nmapping (names : list name) : nmapping :=
  number_from 0 (sort_uniq name_cmp names).

Fixpoint nlookup (m : nmapping) (k : name) : option Z :=
  match m with
  | [] => None
  | (k', id) :: r => if name_eqb k k' then Some id else nlookup r k
  end.

Definition encode_names (names : list name) (existing : option nmapping) (errtag : Z)
  : result (list Z * nmapping) :=
  let m := match existing with Some m => m | None => build_nmapping names end in
  match opt_map_all (nlookup m) names with
  | Some ids => Ok (ids, m)
  | None => Err errtag
  end.

(* ---- numpy_array_is_0_indexed_integers ---- *)
Fixpoint Zlist_eqb (a b : list Z) : bool :=
  match a, b with
  | [], [] => true
  | x :: a', y :: b' => (x =? y) && Zlist_eqb a' b'
  | _, _ => false
  end.

Definition zero_indexed (int_dtype : bool) (ids : list Z) : bool :=
  if negb int_dtype then false
  else
    let u := sort_uniq Z.compare ids in
    if existsb (Z.eqb CONTROL_SENTINEL_VALUE) ids
    then Zlist_eqb u ((-1) :: map Z.of_nat (seq 0 (length u - 1)))
    else Zlist_eqb u (map Z.of_nat (seq 0 (length u))).
