(* C01 model, part 1: the id encoders of batchie.data
     encode_treatment_arrays_to_0_indexed_ids, encode_1d_array_to_0_indexed_ids,
     numpy_array_is_0_indexed_integers.
   Names are lists of code points, ordered lexicographically (= Python str order = the
   order pandas sort_values / np.unique use).  Doses are order keys (common.float_key:
   an order isomorphism on finite doubles with -0.0 and 0.0 identified, as pandas
   drop_duplicates / merge identify them); dose <= 0  <=>  key <= 0.
   pandas primitives are modelled by their documented effect:
     drop_duplicates().sort_values(by=[name,dose])  -> strictly sorted duplicate-free list
     merge(how="left") on the key columns            -> first matching mapping row, NaN if none
   A supplied mapping is assumed key-unique (batchie's own mappings are); [lookup] takes the
   first match.  No proofs here. *)
From Coq Require Import ZArith List Bool.
From Batchie Require Import Lib.Sexp Generated.Consts.
Import ListNotations.
Open Scope Z_scope.

Definition name := list Z.

Fixpoint name_cmp (a b : name) : comparison :=
  match a, b with
  | [], [] => Eq
  | [], _ :: _ => Lt
  | _ :: _, [] => Gt
  | x :: a', y :: b' =>
      match x ?= y with
      | Eq => name_cmp a' b'
      | c => c
      end
  end.

Definition name_eqb (a b : name) : bool := match name_cmp a b with Eq => true | _ => false end.

(* ---- generic strictly-sorted duplicate-free insertion sort over a comparison ---- *)
Section SortUniq.
Context {K : Type} (cmp : K -> K -> comparison).

Fixpoint insert_uniq (k : K) (l : list K) : list K :=
  match l with
  | [] => [k]
  | x :: r =>
      match cmp k x with
      | Lt => k :: l
      | Eq => l
      | Gt => x :: insert_uniq k r
      end
  end.

Definition sort_uniq (l : list K) : list K := fold_right insert_uniq [] l.
End SortUniq.

(* ---- treatments ---- *)
Definition tkey := (name * Z)%type.            (* (treatment name, dose key) *)

Definition tkey_cmp (a b : tkey) : comparison :=
  match name_cmp (fst a) (fst b) with
  | Eq => snd a ?= snd b
  | c => c
  end.

Definition tkey_eqb (a b : tkey) : bool := match tkey_cmp a b with Eq => true | _ => false end.

(* is_control = (dose <= 0) | (name == control_treatment_name) *)
Definition is_control (ctrl : name) (k : tkey) : bool :=
  (snd k <=? 0) || name_eqb (fst k) ctrl.

(* new_index = index - is_control.cumsum(); new_index[is_control] = SENTINEL.
   [idx] is the position, [cum] the number of controls strictly before it. *)
Fixpoint assign_from (ctrl : name) (idx cum : Z) (l : list tkey) : list (tkey * Z) :=
  match l with
  | [] => []
  | k :: r =>
      let c := is_control ctrl k in
      let cum' := if c then cum + 1 else cum in
      (k, if c then CONTROL_SENTINEL_VALUE else idx - cum') :: assign_from ctrl (idx + 1) cum' r
  end.

Definition tmapping := list (tkey * Z).

Definition build_tmapping (ctrl : name) (keys : list tkey) : tmapping :=
  assign_from ctrl 0 0 (sort_uniq tkey_cmp keys).

Fixpoint tlookup (m : tmapping) (k : tkey) : option Z :=
  match m with
  | [] => None
  | (k', id) :: r => if tkey_eqb k k' then Some id else tlookup r k
  end.

(* Error tags of the encoders / constructor (shared with Model/Screen.v):
   1 ragged rows, 2 mixed plate, 3 invalid treatment mapping, 4 invalid sample mapping,
   5 treatment lookup failed, 6 sample lookup failed, 7 mask without observations *)
Definition encode_treatments (keys : list tkey) (ctrl : name) (existing : option tmapping)
  : result (list Z * tmapping) :=
  let m := match existing with Some m => m | None => build_tmapping ctrl keys end in
  match opt_map_all (tlookup m) keys with
  | Some ids => Ok (ids, m)
  | None => Err 5
  end.

(* ---- 1-d (samples, plates) ---- *)
Fixpoint number_from {A} (idx : Z) (l : list A) : list (A * Z) :=
  match l with
  | [] => []
  | a :: r => (a, idx) :: number_from (idx + 1) r
  end.

Definition nmapping := list (name * Z).

Definition build_nmapping (names : list name) : nmapping :=
  number_from 0 (sort_uniq name_cmp names).

Fixpoint nlookup (m : nmapping) (k : name) : option Z :=
  match m with
  | [] => None
  | (k', id) :: r => if name_eqb k k' then Some id else nlookup r k
  end.

Definition encode_names (names : list name) (existing : option nmapping) (errtag : Z)
  : result (list Z * nmapping) :=
  let m := match existing with Some m => m | None => build_nmapping names end in
  match opt_map_all (nlookup m) names with
  | Some ids => Ok (ids, m)
  | None => Err errtag
  end.

(* ---- numpy_array_is_0_indexed_integers ---- *)
Fixpoint Zlist_eqb (a b : list Z) : bool :=
  match a, b with
  | [], [] => true
  | x :: a', y :: b' => (x =? y) && Zlist_eqb a' b'
  | _, _ => false
  end.

Definition zero_indexed (int_dtype : bool) (ids : list Z) : bool :=
  if negb int_dtype then false
  else
    let u := sort_uniq Z.compare ids in
    if existsb (Z.eqb CONTROL_SENTINEL_VALUE) ids
    then Zlist_eqb u ((-1) :: map Z.of_nat (seq 0 (length u - 1)))
    else Zlist_eqb u (map Z.of_nat (seq 0 (length u))).

(* ==== vocabulary of the source-translation link for C01 ====
   (harness/src_functions.py C01_*, generated file Generated/SrcEncode.v, proofs Proofs/C01Source.v)
   numpy: a 1-d array is the list of its values; an ID ARRAY additionally carries "its dtype is an integer
   dtype" (the only thing numpy_array_is_0_indexed_integers asks of the dtype).
   pandas: a DataFrame is the list of its rows IN ORDER, each row with its index label ([frame R], R the tuple
   of the column values; column ORDER is not represented, columns are only ever addressed by name).  A Series is
   the list of its values: Series / Index operators and the assignment of a Series to a column are POSITIONAL,
   which is pandas' meaning when the labels of the operands agree (every Series of the encoders is a column of,
   or the index of, the frame it is combined with; on lists of different lengths - where pandas would align,
   fill or raise - the list operations stop at the shorter one).
   Doses are order keys: the only operation on a dose column is `<= 0` (key <= 0  <=>  dose <= 0) and equality.
   Each definition is the meaning of ONE numpy / pandas call. *)
Definition idarray := (bool * list Z)%type.
Definition arr_is_int (a : idarray) : bool := fst a.                          (* np.issubdtype(a.dtype, int) *)
Definition arr_vals (a : idarray) : list Z := snd a.
Definition np_contains (x : Z) (a : idarray) : bool := existsb (Z.eqb x) (snd a).         (* x in a *)
Definition np_unique_ids (a : idarray) : list Z := sort_uniq Z.compare (snd a).         (* np.unique(a): sorted distinct values *)

(* stable insertion sort over a comparison (np.sort; DataFrame.sort_values: pandas does not promise the order
   among rows with EQUAL keys for its default kind, the encoders sort duplicate-free frames only) *)
Fixpoint insert_sorted {K} (cmp : K -> K -> comparison) (k : K) (l : list K) : list K :=
  match l with
  | [] => [k]
  | x :: r => match cmp k x with Gt => x :: insert_sorted cmp k r | _ => k :: l end
  end.
Definition sort_by {K} (cmp : K -> K -> comparison) (l : list K) : list K := fold_right (insert_sorted cmp) [] l.
Definition np_sort_Z (l : list Z) : list Z := sort_by Z.compare l.                        (* np.sort(l) *)
Definition np_eq_Z (a b : list Z) : list bool := map (fun p => fst p =? snd p) (combine a b).   (* a == b, equal shapes *)
Definition all_true (b : list bool) : bool := forallb (fun x => x) b.                  (* np.all(b); True for no element *)

(* a mapping argument / result as the tuple of aligned arrays Python passes around *)
Definition tmap_py := (list name * list Z * idarray)%type.      (* (names, doses, ids) *)
Definition smap_py := (list name * idarray)%type.                (* (names, ids) *)

(* ---- pandas ---- *)
Definition frame (R : Type) : Type := list (Z * R).             (* (index label, row) in order *)
(* a new frame gets the default RangeIndex 0 .. n-1 *)
Definition df_fresh {R} (rows : list R) : frame R := combine (map Z.of_nat (seq 0 (length rows))) rows.
(* pandas.DataFrame({c1: a1, c2: a2}) / ({c1: a1, c2: a2, c3: a3}): ValueError (tag 15) unless the arrays have one length *)
Definition df_of_cols2 {A B} (a : list A) (b : list B) : result (frame (A * B)) :=
  if Nat.eqb (length a) (length b) then Ok (df_fresh (combine a b)) else Err 15.
Definition df_of_cols3 {A B C} (a : list A) (b : list B) (c : list C) : result (frame (A * B * C)) :=
  if Nat.eqb (length a) (length b) && Nat.eqb (length b) (length c) then Ok (df_fresh (combine (combine a b) c)) else Err 15.
Definition df_index {R} (d : frame R) : list Z := map fst d.                              (* d.index *)
(* d.drop_duplicates(): a row is kept (with its label) iff no earlier row has the same values *)
Fixpoint drop_dups_from {R} (eqb : R -> R -> bool) (seen : list R) (d : frame R) : frame R :=
  match d with
  | [] => []
  | (l, r) :: rest => if existsb (eqb r) seen then drop_dups_from eqb seen rest
                      else (l, r) :: drop_dups_from eqb (r :: seen) rest
  end.
Definition df_drop_duplicates {R} (eqb : R -> R -> bool) (d : frame R) : frame R := drop_dups_from eqb [] d.
(* d.sort_values(by=<the key columns>): rows (with their labels) in ascending key order *)
Definition df_sort_values {R} (cmp : R -> R -> comparison) (d : frame R) : frame R :=
  sort_by (fun a b => cmp (snd a) (snd b)) d.
Definition df_reset_drop {R} (d : frame R) : frame R := df_fresh (map snd d).             (* d.reset_index(drop=True) *)
(* d.reset_index(drop=False): the old labels become the column "index" *)
Definition df_reset_keep {R} (d : frame R) : frame (Z * R) := df_fresh d.
(* d[c] = s, c a new column: positional (see above) *)
Definition df_add_col {R A} (d : frame R) (s : list A) : frame (R * A) :=
  map (fun p => (fst (fst p), (snd (fst p), snd p))) (combine d s).
(* d.loc[labels, c] = v, c the column added last: the rows whose label is in [labels] get v there *)
Definition df_loc_set {R A} (d : frame (R * A)) (labels : list Z) (v : A) : frame (R * A) :=
  map (fun p => if existsb (Z.eqb (fst p)) labels then (fst p, (fst (snd p), v)) else p) d.
(* l.merge(r, on=<key columns>, how="left"): for every row of l in order, one row per row of r with an equal key
   (in r's order) carrying r's value column, or ONE row with NaN (None) when r has none; fresh RangeIndex *)
Definition df_merge_left {K V} (eqb : K -> K -> bool) (l : frame K) (r : frame (K * V)) : frame (K * option V) :=
  df_fresh (flat_map (fun p =>
              match filter (fun q => eqb (snd p) (fst q)) (map snd r) with
              | [] => [(snd p, None)]
              | ms => map (fun q => (snd p, Some (snd q))) ms
              end) l).

(* Series *)
Definition series_le0 (s : list Z) : list bool := map (fun x => x <=? 0) s.                (* s <= 0, s a dose column *)
Definition series_eq_name (s : list name) (c : name) : list bool := map (fun n => name_eqb n c) s.   (* s == c *)
Definition series_or (a b : list bool) : list bool := map (fun p => fst p || snd p) (combine a b).  (* a | b *)
Fixpoint cumsum_from (acc : Z) (s : list bool) : list Z :=
  match s with
  | [] => []
  | b :: r => let acc' := if b then acc + 1 else acc in acc' :: cumsum_from acc' r
  end.
Definition series_cumsum (s : list bool) : list Z := cumsum_from 0 s.                     (* s.cumsum(), s boolean *)
Definition series_sub (a b : list Z) : list Z := map (fun p => fst p - snd p) (combine a b).       (* a - b *)
Definition series_select {A} (m : list bool) (a : list A) : list A := map snd (filter fst (combine m a)).   (* a[m] *)
Definition series_notna {A} (s : list (option A)) : list bool :=                           (* s.notna() *)
  map (fun o => match o with Some _ => true | None => false end) s.

(* the frames of encode_treatment_arrays_to_0_indexed_ids, by their columns *)
Definition kframe := frame tkey.                                 (* name, dose *)
Definition cframe := frame (tkey * bool).                        (* + is_control *)
Definition iframe := frame (Z * (tkey * bool)).                  (* + index *)
Definition nframe := frame (Z * (tkey * bool) * Z).              (* + new_index *)
Definition dframe := frame (tkey * bool * Z).                    (* - index *)
Definition mframe := frame (tkey * Z).                           (* - is_control: name, dose, new_index *)
Definition jframe := frame (tkey * option Z).                    (* df.merge(df_unique): new_index may be NaN *)
Definition mframe_of_cols (a : list name) (b : list Z) (c : idarray) : result mframe := df_of_cols3 a b (snd c).
Definition kcol_name (d : kframe) : list name := map (fun p => fst (snd p)) d.            (* d["name"] *)
Definition kcol_dose (d : kframe) : list Z := map (fun p => snd (snd p)) d.               (* d["dose"] *)
Definition icol_is_control (d : iframe) : list bool := map (fun p => snd (snd (snd p))) d.         (* d.is_control *)
Definition ncol_is_control (d : nframe) : list bool := map (fun p => snd (snd (fst (snd p)))) d.
Definition df_del_index (d : nframe) : dframe :=                                          (* del d["index"] *)
  map (fun p => (fst p, (snd (fst (snd p)), snd (snd p)))) d.
Definition df_del_is_control (d : dframe) : mframe :=                                     (* del d["is_control"] *)
  map (fun p => (fst p, (fst (fst (snd p)), snd (snd p)))) d.
Definition mcol_name (d : mframe) : list name := map (fun p => fst (fst (snd p))) d.      (* d.name *)
Definition mcol_dose (d : mframe) : list Z := map (fun p => snd (fst (snd p))) d.         (* d.dose *)
Definition mcol_new_index (d : mframe) : list Z := map (fun p => snd (snd p)) d.          (* d.new_index *)
Definition jcol_new_index {K} (d : frame (K * option Z)) : list (option Z) := map (fun p => snd (snd p)) d.

(* the frames of encode_1d_array_to_0_indexed_ids *)
Definition vframe := frame name.                                 (* val *)
Definition viframe := frame (Z * name).                          (* index, val *)
Definition vmframe := frame (name * Z).                          (* val, new_index *)
Definition vframe_of_col (a : list name) : vframe := df_fresh a.                          (* pandas.DataFrame({"val": a}) *)
Definition vmframe_of_cols (a : list name) (b : idarray) : result vmframe := df_of_cols2 a (snd b).
(* d.rename(columns={"index": "new_index"}) *)
Definition df_rename_index (d : viframe) : vmframe := map (fun p => (fst p, (snd (snd p), fst (snd p)))) d.
Definition vmcol_val (d : vmframe) : list name := map (fun p => fst (snd p)) d.           (* d.val *)
Definition vmcol_new_index (d : vmframe) : list Z := map (fun p => snd (snd p)) d.        (* d.new_index *)

(* a Python mapping tuple whose arrays have one length, as the rows of the model's mapping, and back *)
Definition tmap_py_aligned (t : tmap_py) : bool :=
  Nat.eqb (length (fst (fst t))) (length (snd (fst t))) && Nat.eqb (length (snd (fst t))) (length (snd (snd t))).
Definition tmap_py_rows (t : tmap_py) : tmapping := combine (combine (fst (fst t)) (snd (fst t))) (snd (snd t)).
Definition tmap_py_of (m : tmapping) (isint : bool) : tmap_py :=
  (map (fun e => fst (fst e)) m, map (fun e => snd (fst e)) m, (isint, map snd m)).
Definition smap_py_aligned (t : smap_py) : bool := Nat.eqb (length (fst t)) (length (snd (snd t))).
Definition smap_py_rows (t : smap_py) : nmapping := combine (fst t) (snd (snd t)).
Definition smap_py_of (m : nmapping) (isint : bool) : smap_py := (map fst m, (isint, map snd m)).
