(* C20 model, part 3: batchie.models.main.generate_full_combinatoric_space and
   correlation_matrix.  No proofs here.

   A treatment mapping is the list of its rows (key, id): [key] is an integer standing for the
   (name, dose) pair of the row (the harness numbers the distinct pairs), [id] the screen's id of
   that row (-1 for every control row).  A sample mapping is a list of (name key, id).
   itertools.combinations(rows, arity) is [combs]; the Screen constructor called with
   treatment_mapping = the screen's own mapping encodes every (name, dose) by a keyed lookup
   (pandas merge how="left"), which is [encode].

   The thetas enter as a function [f theta_index sample_id ids] : the value theta number
   theta_index predicts for one experiment of sample sample_id with treatment ids [ids]
   (predictions are row-wise functions of the ids, property C09; the harness uses such stubs).

   NaN is modelled entry-wise: an entry of the correlation matrix is None when numpy yields NaN
   (0/0: the sample's average predictions equal the across-sample mean everywhere, or there is
   no theta).

   Error tags: 1 ValueError (factorial of a negative number when arity > mapping rows, space
   too large, merge failure, np.stack of nothing), 4 IndexError (arity 0), 5 KeyError
   (sample id not in the mapping). *)
From Coq Require Import ZArith List QArith Qcanon.
From Batchie Require Import Lib.Sexp Lib.Num Model.Metrics Model.Synergy.
Import ListNotations.
Open Scope Qc_scope.

(* itertools.combinations(l, k): lexicographic in positions *)
Fixpoint combs {A} (l : list A) (k : nat) : list (list A) :=
  match k, l with
  | O, _ => [[]]
  | S _, [] => []
  | S k', x :: r => map (cons x) (combs r k') ++ combs r k
  end.

Fixpoint zfact (n : nat) : Z :=
  match n with O => 1%Z | S n' => (Z.of_nat n * zfact n')%Z end.

(* combination_count(n, k) = n! // (k! * (n-k)!) ; math.factorial raises on a negative argument *)
Definition combination_count (n k : nat) : result Z :=
  if Nat.ltb n k then Err E_VALUE
  else Ok (zfact n / (zfact k * zfact (n - k)))%Z.

Definition zlookup (key : Z) (m : list (Z * Z)) : option Z :=
  match find (fun kv => (fst kv =? key)%Z) m with Some kv => Some (snd kv) | None => None end.

(* the keyed lookup of a (name, dose) key in the mapping; a miss is "Mapping of treatments to ids failed" *)
Definition encode (mapping : list (Z * Z)) (key : Z) : result Z :=
  match zlookup key mapping with Some i => Ok i | None => Err E_VALUE end.

Definition swap_pair (p : Z * Z) : Z * Z := (snd p, fst p).

(* generate_full_combinatoric_space(sample_id, screen): (sample ids, treatment ids) of the new screen *)
Definition full_space (mapping : list (Z * Z)) (smap : list (Z * Z)) (arity : nat) (sample_id : Z)
  : result (list Z * list (list Z)) :=
  dor cnt <- combination_count (length mapping) arity;
  if (10000000 <? cnt)%Z then Err E_VALUE
  else if Nat.eqb arity 0 then Err E_INDEX
  else
    let combos := combs mapping arity in
    (* dict(zip(sample_mapping[1], sample_mapping[0]))[sample_id] : the last row with that id *)
    match zlookup sample_id (rev (map swap_pair smap)) with
    | None => Err E_KEY
    | Some name =>
        (* re-encoded through sample_mapping by the Screen constructor *)
        match zlookup name smap with
        | None => Err E_VALUE
        | Some sid =>
            dor tids <- res_map_all (fun combo => res_map_all (fun row => encode mapping (fst row)) combo) combos;
            Ok (map (fun _ => sid) combos, tids)
        end
    end.

Section Corr.
Variable orc : oracle.
Variable f : nat -> Z -> list Z -> Qc.

(* predict_viability_avg on one experiment: (0 + v_0 + ... + v_{T-1}) / T   (T > 0) *)
Definition avg_pred (nthetas : nat) (sid : Z) (ids : list Z) : Qc :=
  qsum (map (fun th => f th sid ids) (seq 0 nthetas)) / qofZ (Z.of_nat nthetas).

(* the numeric core on the stacked prediction matrix P (n_samples x n_combos):
     mu = mean(P, axis=0); X = P - mu; X_ = X / sqrt(sum(X**2, axis=1)); corr = X_ @ X_.T *)
Definition col (P : list (list Qc)) (k : nat) : list Qc := map (fun row => nth k row 0) P.
Definition col_means (P : list (list Qc)) (ncols : nat) : list Qc :=
  map (fun k => qmean (col P k)) (seq 0 ncols).
Definition centered (P : list (list Qc)) (ncols : nat) : list (list Qc) :=
  let mu := col_means P ncols in
  map (fun row => map (fun pm => fst pm - snd pm) (combine row mu)) P.
Definition sumsq (x : list Qc) : Qc := qsum (map qsq x).
(* a row of X_: None when the row of X is all zero (0/0) *)
Definition normalised (x : list Qc) : option (list Qc) :=
  let s := sumsq x in
  if qeqb s 0 then None else Some (map (fun v => v / orc ORC_SQRT s) x).
Definition corr_entry (a b : option (list Qc)) : option Qc :=
  match a, b with
  | Some a, Some b => Some (qdot a b)
  | _, _ => None
  end.
Definition corr_of (P : list (list Qc)) (ncols : nat) : list (list (option Qc)) :=
  let Xn := map normalised (centered P ncols) in
  map (fun a => map (fun b => corr_entry a b) Xn) Xn.

(* correlation_matrix(screen, thetas): [rows] are the (sample id, sample name key) pairs of the
   screen's experiments; returns the DataFrame index (name keys) and the matrix *)
Definition correlation_matrix (mapping smap : list (Z * Z)) (arity nthetas : nat) (rows : list (Z * Z))
  : result (list Z * list (list (option Qc))) :=
  let sids := sorted_unique (map fst rows) in
  dor spaces <- res_map_all (fun s => full_space mapping smap arity s) sids;
  match sids with
  | [] => Err E_VALUE
  | _ =>
      let index := map (fun s => match zlookup s (rev rows) with Some nm => nm | None => 0%Z end) sids in
      match nthetas with
      | O => Ok (index, map (fun _ => map (fun _ => None) sids) sids)
      | _ =>
          let P := map (fun sp => map (fun st => avg_pred nthetas (fst st) (snd st))
                                      (combine (fst sp) (snd sp))) spaces in
          let ncols := match spaces with sp :: _ => length (snd sp) | [] => O end in
          Ok (index, corr_of P ncols)
      end
  end.
End Corr.

(* ---- vocabulary of the source translations of combination_count / generate_full_combinatoric_space
   (harness/src_functions.py C20_SPACE*; Generated/SrcSpace.v) ----
   In the translation a treatment mapping is the list of its rows ((name, dose), id) with the name and the dose
   integers standing for the string and the float ([tmap3]): the three arrays treatment_mapping[0], [1], [2] are its
   columns.  [key_rows key m] is the mapping of the model above for a numbering [key] of the (name, dose) pairs. *)
Definition tmap3 : Type := list ((Z * Z) * Z).
Definition key_rows (key : Z * Z -> Z) (m : tmap3) : list (Z * Z) := map (fun r => (key (fst r), snd r)) m.
Definition tm_names (m : tmap3) : list Z := map (fun r => fst (fst r)) m.      (* treatment_mapping[0] *)
Definition tm_doses (m : tmap3) : list Z := map (fun r => snd (fst r)) m.      (* treatment_mapping[1] *)
Definition sm_names (s : list (Z * Z)) : list Z := map fst s.                  (* sample_mapping[0] *)
Definition sm_ids (s : list (Z * Z)) : list Z := map snd s.                    (* sample_mapping[1] *)
(* math.factorial(n): ValueError on a negative argument *)
Definition py_factorial (n : Z) : result Z := if (n <? 0)%Z then Err E_VALUE else Ok (zfact (Z.to_nat n)).
(* itertools.combinations(l, k): ValueError on a negative k *)
Definition py_combinations {A} (l : list A) (k : Z) : result (list (list A)) :=
  if (k <? 0)%Z then Err E_VALUE else Ok (combs l (Z.to_nat k)).
(* c[:, :, j] on np.array(<list of k-tuples of pairs>, dtype=object): that array is 3-d exactly when the list is not
   empty and k >= 1; otherwise "too many indices" (IndexError) *)
Definition cube_proj {B} (k : nat) (proj : Z * Z -> B) (c : list (list (Z * Z))) : result (list (list B)) :=
  if Nat.eqb k 0 || (match c with [] => true | _ => false end) then Err E_INDEX else Ok (map (map proj) c).
(* ["1"] * n : n equal plate names (plate names are not part of the model's result) *)
Definition platecol : Type := nat.
(* dict(pairs): a later pair with the same key replaces the value, the key keeps its place *)
Fixpoint zdict_set (d : list (Z * Z)) (k v : Z) : list (Z * Z) :=
  match d with
  | [] => [(k, v)]
  | (k', v') :: r => if (k' =? k)%Z then (k', v) :: r else (k', v') :: zdict_set r k v
  end.
Definition dict_of_pairs (p : list (Z * Z)) : list (Z * Z) :=
  fold_left (fun d kv => zdict_set d (fst kv) (snd kv)) p [].
(* d[k]: KeyError *)
Definition dict_read (d : list (Z * Z)) (k : Z) : result Z :=
  match zlookup k d with Some v => Ok v | None => Err E_KEY end.
(* Screen(treatment_names, treatment_doses, sample_names, plate_names, sample_mapping, treatment_mapping) with BOTH mappings
   supplied: every sample name and every (name, dose) is encoded by a keyed lookup in the supplied mapping (pandas merge
   how="left" on unique keys; a miss is a ValueError).  The result is (sample_ids, treatment_ids) of the new screen. *)
Definition pair_eqb (a b : Z * Z) : bool := ((fst a =? fst b) && (snd a =? snd b))%Z.
Definition lookup3 (m : tmap3) (nd : Z * Z) : result Z :=
  match find (fun r => pair_eqb (fst r) nd) m with Some r => Ok (snd r) | None => Err E_VALUE end.
Definition space_screen (tm : tmap3) (sm : list (Z * Z)) (names doses : list (list Z)) (samples : list Z)
  : result (list Z * list (list Z)) :=
  dor sids <- res_map_all (fun nm => match zlookup nm sm with Some i => Ok i | None => Err E_VALUE end) samples;
  dor tids <- res_map_all (fun nd => res_map_all (lookup3 tm) (combine (fst nd) (snd nd))) (combine names doses);
  Ok (sids, tids).

(* ==== vocabulary of the source translations of correlation_matrix and, once more, of predict_viability_avg - here with NaN
   as a VALUE (harness/src_functions.py C20_CORR, C20_PREDICT_AVG_NAN; Generated/SrcCorr.v; proofs Proofs/C20SourceCorr.v) ====
   A float is [nq] = option Qc, None = NaN (the model above uses option for the NaN entries of the result); infinities are
   not modelled (x / 0 with x <> 0 is Err E_UNMODELLED; the link proves it does not occur).  Every numpy operator below
   is lifted: a NaN operand gives NaN.  A 2-d array is the list of its rows [list nvec]; a (1, m) array (keepdims over
   axis 0) is the row [nvec], an (n, 1) array (keepdims over axis 1) the column [ncol] - two type NAMES for the translator.
   The thetas are the function [f] of the Section above (theta index, sample id, treatment ids of one experiment); the
   prediction vector of theta th on a screen (sample_ids, treatment_ids) is [theta_on f th screen] (row-wise: property C09). *)
Definition nq : Type := option Qc.
Definition nvec : Type := list nq.
Definition ncol : Type := list nq.
Definition nq_lift2 (op : Qc -> Qc -> Qc) (a b : nq) : nq :=
  match a, b with Some x, Some y => Some (op x y) | _, _ => None end.
Definition nq_add : nq -> nq -> nq := nq_lift2 Qcplus.
Definition nq_sub : nq -> nq -> nq := nq_lift2 Qcminus.
Definition nq_mul : nq -> nq -> nq := nq_lift2 Qcmult.
(* x / y: 0 / 0 = NaN; x / 0 = +-inf for x <> 0, not modelled *)
Definition nq_div (a b : nq) : result nq :=
  match a, b with
  | Some x, Some y => if qeqb y 0 then (if qeqb x 0 then Ok None else Err E_UNMODELLED) else Ok (Some (x / y))
  | _, _ => Ok None
  end.
Definition nq_sum (l : list nq) : nq := fold_right nq_add (Some 0) l.
(* the mean of a 1-d selection: NaN when there is no element *)
Definition nq_mean (l : list nq) : nq :=
  match l with [] => None | _ => nq_lift2 Qcdiv (nq_sum l) (Some (qlen l)) end.
Definition is_nan (x : nq) : bool := match x with None => true | Some _ => false end.

(* -- predict_viability_avg with NaN as a value: a theta is the vector it predicts on the screen at hand -- *)
Definition theta_n : Type := nvec.
(* np.zeros((n,), dtype=float) *)
Definition nv_zeros (n : Z) : nvec := repeat (Some 0) (Z.to_nat n).
(* np.isnan(x) *)
Definition nv_isnan (x : nvec) : list bool := map is_nan x.
(* a + b on 1-d arrays of one length (other lengths: broadcast of a single entry, else ValueError - refused) *)
Definition nv_add (a b : nvec) : result nvec :=
  if Nat.eqb (length a) (length b) then Ok (map (fun p => nq_add (fst p) (snd p)) (combine a b)) else Err E_VALUE.
(* v / n, n an int: entrywise *)
Definition nv_div_int (v : nvec) (n : Z) : result nvec := res_map_all (fun x => nq_div x (Some (qofZ n))) v.
(* the prediction vectors of thetas 0 .. nthetas-1 on the screen (sample_ids, treatment_ids) *)
Definition theta_on (f : nat -> Z -> list Z -> Qc) (th : nat) (screen : list Z * list (list Z)) : theta_n :=
  map (fun st => Some (f th (fst st) (snd st))) (combine (fst screen) (snd screen)).
Definition thetas_on (f : nat -> Z -> list Z -> Qc) (nthetas : nat) (screen : list Z * list (list Z)) : list theta_n :=
  map (fun th => theta_on f th screen) (seq 0 nthetas).

(* -- the numeric core of correlation_matrix, one numpy call each -- *)
(* np.stack(l) of a list of 1-d arrays: ValueError when the list is empty or the lengths differ, else the rows *)
Definition nm_stack (l : list nvec) : result (list nvec) :=
  match l with
  | [] => Err E_VALUE
  | r :: t => if forallb (fun x => Nat.eqb (length x) (length r)) t then Ok l else Err E_VALUE
  end.
Definition ncolumn (P : list nvec) (k : nat) : list nq := map (fun row => nth k row None) P.
(* np.mean(P, axis=0, keepdims=True) of an (n, m) matrix with n >= 1: the mean of every column, as a (1, m) row.  A matrix
   without rows does not carry its shape[1] in this representation (np.stack never returns one): not modelled *)
Definition nm_mean0 (P : list nvec) : result nvec :=
  match P with
  | [] => Err E_UNMODELLED
  | r :: _ => Ok (map (fun k => nq_mean (ncolumn P k)) (seq 0 (length r)))
  end.
(* P - mu, mu a (1, m) row: subtracted from every row (rows of another length: broadcast of a single entry, else ValueError - refused) *)
Definition nm_sub_row (P : list nvec) (mu : nvec) : result (list nvec) :=
  if forallb (fun r => Nat.eqb (length r) (length mu)) P
  then Ok (map (fun r => map (fun pm => nq_sub (fst pm) (snd pm)) (combine r mu)) P) else Err E_VALUE.
(* np.square(X), elementwise *)
Definition nm_square (X : list nvec) : list nvec := map (map (fun x => nq_mul x x)) X.
(* np.sum(X, axis=1, keepdims=True): the sum of every row, as an (n, 1) column (0 for a row without entries) *)
Definition nm_sum1 (X : list nvec) : ncol := map nq_sum X.
(* np.sqrt on a column: NaN for a negative entry, the oracle elsewhere *)
Definition nq_sqrt (orc : oracle) (x : nq) : nq :=
  match x with Some v => if qltb v 0 then None else Some (orc ORC_SQRT v) | None => None end.
Definition nc_sqrt (orc : oracle) (c : ncol) : ncol := map (nq_sqrt orc) c.
(* X / c, c an (n, 1) column: every row divided by its entry of the column (another number of rows: refused) *)
Definition nm_div_col (X : list nvec) (c : ncol) : result (list nvec) :=
  if Nat.eqb (length X) (length c)
  then res_map_all (fun rc => res_map_all (fun x => nq_div x (snd rc)) (fst rc)) (combine X c) else Err E_VALUE.
(* np.einsum("ik, jk->ij", A, B): entry (i, j) = sum_k A[i][k] * B[j][k]; the two k dimensions must agree *)
Definition nq_dot (a b : nvec) : nq := nq_sum (map (fun p => nq_mul (fst p) (snd p)) (combine a b)).
Definition nm_einsum_ik_jk (A B : list nvec) : result (list nvec) :=
  if forallb (fun a => forallb (fun b => Nat.eqb (length a) (length b)) B) A
  then Ok (map (fun a => map (fun b => nq_dot a b) B) A) else Err E_VALUE.
(* pandas.DataFrame(values, index=i, columns=c): the three as they are (sample name keys as labels) *)
Definition corr_frame : Type := (list Z * list Z * list (list (option Qc)))%type.
Definition mk_frame (values : list nvec) (index columns : list Z) : corr_frame := (index, columns, values).
