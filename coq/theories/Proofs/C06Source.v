(* C06: the hand-written models of Model/Scores.v equal the translations of the functions of
   batchie/scoring/main.py regenerated from /repo on every run (Generated/SrcScoring.v, by
   harness/py2gal.py with the configurations of harness/src_functions.py), for all inputs. *)
From Coq Require Import ZArith List Bool Lia.
From Batchie Require Import Lib.Sexp Lib.PyRt Model.Scores Generated.SrcScoring Proofs.PyRtLemmas
  Proofs.C06Split Proofs.C06Rows.
Import ListNotations.
Open Scope Z_scope.

(* ---- select_next_plate ---- *)
Lemma filter_filter {A} (f g : A -> bool) l :
  filter f (filter g l) = filter (fun x => g x && f x) l.
Proof.
  induction l as [|a l IH]; cbn [filter]; [reflexivity|].
  destruct (g a); cbn [filter andb]; [destruct (f a)|]; now rewrite IH.
Qed.

Lemma existsb_map_filter {A B} (f : B -> bool) (g : A -> B) l :
  existsb f (map g l) = negb (is_nil (filter (fun x => f (g x)) l)).
Proof.
  induction l as [|a l IH]; cbn [map existsb filter]; [reflexivity|].
  destruct (f (g a)); cbn [orb is_nil negb]; [reflexivity | exact IH].
Qed.

(* screen.get_plate(i).plate_name raises exactly when i is not a plate id of the screen *)
Lemma plate_name_get_plate s pid :
  (exists n, plate_name (get_plate s pid) = Ok n /\ zmem pid (map r_plate s) = true) \/
  (plate_name (get_plate s pid) = Err 7 /\ zmem pid (map r_plate s) = false).
Proof.
  unfold plate_name, get_plate, zmem. cbn [p_rows]. rewrite existsb_map_filter.
  rewrite <- (sub_rows_snd s (Z.eqb pid)).
  destruct (sub_rows s (Z.eqb pid)) as [|ir rest]; cbn [map is_nil negb]; [right; split; reflexivity|].
  left. exists (fst ir). split; reflexivity.
Qed.

Theorem src_select_next_plate_is_model : forall (scores : holder) (s : screen) (policy : option policy_t)
    (batch : option (list Z)) (rng : option rng_t),
  src_select_next_plate scores s policy batch rng
  = dor r <- select_next policy s (match batch with Some b => b | None => [] end) scores;
    Ok (option_map (get_plate s) r).
Proof.
  intros h s policy batch rng. unfold src_select_next_plate, select_next, eligible_plates, candidates.
  set (b := match batch with Some v => v | None => [] end).
  rewrite filter_filter.
  set (bp := filter (fun p => zmem (p_id p) b) (plates s)).
  set (cands := sorted_by_id (filter (fun x => negb (is_observed x) && negb (zmem (p_id x) b)) (plates s))).
  destruct policy as [f|]; cbn [is_none unwrap res_bind].
  - destruct (f bp cands) as [|p el]; cbn [is_nil negb]; [reflexivity|].
    fold (map p_id (p :: el)).
    destruct (min_plate h (Some (map p_id (p :: el)))) as [best|t]; cbn [res_bind]; [|reflexivity].
    destruct (plate_name_get_plate s best) as [[n [-> ->]]|[-> ->]]; reflexivity.
  - destruct cands as [|p el]; cbn [is_nil negb]; [reflexivity|].
    fold (map p_id (p :: el)).
    destruct (min_plate h (Some (map p_id (p :: el)))) as [best|t]; cbn [res_bind]; [|reflexivity].
    destruct (plate_name_get_plate s best) as [[n [-> ->]]|[-> ->]]; reflexivity.
Qed.
