(* C06: the hand-written models of Model/Scores.v equal the translations of the functions of
   batchie/scoring/main.py regenerated from /repo on every run (Generated/SrcScoring.v, by
   harness/py2gal.py with the configurations of harness/src_functions.py), for all inputs. *)
From Coq Require Import ZArith List Bool Lia.
From Batchie Require Import Lib.Sexp Lib.PyRt Model.Scores Generated.SrcScoring Proofs.PyRtLemmas
  Proofs.C06Split Proofs.C06Rows.
Import ListNotations.
Open Scope Z_scope.

(* ---- select_next_plate ---- *)
Lemma filter_filter {A} (f g : A -> bool) l :
  filter f (filter g l) = filter (fun x => g x && f x) l.
Proof.
  induction l as [|a l IH]; cbn [filter]; [reflexivity|].
  destruct (g a); cbn [filter andb]; [destruct (f a)|]; now rewrite IH.
Qed.

Lemma existsb_map_filter {A B} (f : B -> bool) (g : A -> B) l :
  existsb f (map g l) = negb (is_nil (filter (fun x => f (g x)) l)).
Proof.
  induction l as [|a l IH]; cbn [map existsb filter]; [reflexivity|].
  destruct (f (g a)); cbn [orb is_nil negb]; [reflexivity | exact IH].
Qed.

(* screen.get_plate(i).plate_name raises exactly when i is not a plate id of the screen *)
Lemma plate_name_get_plate s pid :
  (exists n, plate_name (get_plate s pid) = Ok n /\ zmem pid (map r_plate s) = true) \/
  (plate_name (get_plate s pid) = Err 7 /\ zmem pid (map r_plate s) = false).
Proof.
  unfold plate_name, get_plate, zmem. cbn [p_rows]. rewrite existsb_map_filter.
  rewrite <- (sub_rows_snd s (Z.eqb pid)).
  destruct (sub_rows s (Z.eqb pid)) as [|ir rest]; cbn [map is_nil negb]; [right; split; reflexivity|].
  left. exists (fst ir). split; reflexivity.
Qed.

Theorem src_select_next_plate_is_model : forall (scores : holder) (s : screen) (policy : option policy_t)
    (batch : option (list Z)) (rng : option rng_t),
  src_select_next_plate scores s policy batch rng
  = dor r <- select_next policy s (match batch with Some b => b | None => [] end) scores;
    Ok (option_map (get_plate s) r).
Proof.
  intros h s policy batch rng. unfold src_select_next_plate, select_next, eligible_plates, candidates.
  set (b := match batch with Some v => v | None => [] end).
  rewrite filter_filter.
  set (bp := filter (fun p => zmem (p_id p) b) (plates s)).
  set (cands := sorted_by_id (filter (fun x => negb (is_observed x) && negb (zmem (p_id x) b)) (plates s))).
  destruct policy as [f|]; cbn [is_none unwrap res_bind].
  - destruct (f bp cands) as [|p el]; cbn [is_nil negb]; [reflexivity|].
    fold (map p_id (p :: el)).
    destruct (min_plate h (Some (map p_id (p :: el)))) as [best|t]; cbn [res_bind]; [|reflexivity].
    destruct (plate_name_get_plate s best) as [[n [-> ->]]|[-> ->]]; reflexivity.
  - destruct cands as [|p el]; cbn [is_nil negb]; [reflexivity|].
    fold (map p_id (p :: el)).
    destruct (min_plate h (Some (map p_id (p :: el)))) as [best|t]; cbn [res_bind]; [|reflexivity].
    destruct (plate_name_get_plate s best) as [[n [-> ->]]|[-> ->]]; reflexivity.
Qed.

(* ---- score_chunk ---- *)
Lemma filter_all {A} (f : A -> bool) l : (forall x, f x = true) -> filter f l = l.
Proof. intros H. induction l as [|a l IH]; cbn [filter]; [reflexivity|]. now rewrite H, IH. Qed.

Lemma existsb_filter {A} (f : A -> bool) l : existsb f l = negb (is_nil (filter f l)).
Proof.
  induction l as [|a l IH]; cbn [existsb filter]; [reflexivity|].
  destruct (f a); cbn [orb is_nil negb]; [reflexivity | exact IH].
Qed.

Lemma NoDup_skipn {A} n : forall (l : list A), NoDup l -> NoDup (skipn n l).
Proof.
  induction n as [|n IH]; intros l H; [exact H|]. destruct l as [|a l]; [exact H|].
  cbn [skipn]. apply IH. now inversion H.
Qed.

Lemma NoDup_firstn {A} n : forall (l : list A), NoDup l -> NoDup (firstn n l).
Proof.
  induction n as [|n IH]; intros l H; [constructor|]. destruct l as [|a l]; [constructor|].
  cbn [firstn]. inversion H as [|? ? Hn Hd]; subst. constructor; [|now apply IH].
  intros X. apply Hn. eapply ListX.In_firstn, X.
Qed.

Lemma py_index_In {A} (l : list A) i c : py_index l i = Some c -> In c l.
Proof.
  unfold py_index. destruct (_ && _); [apply nth_error_In|]. destruct (_ && _); [apply nth_error_In|discriminate].
Qed.

(* a chunk is a contiguous piece of the candidate list: its plates are candidates with distinct ids *)
Lemma chunk_of_candidates s batch n i chunk :
  py_index (array_split (candidates s batch) n) i = Some chunk ->
  NoDup (map p_id chunk) /\ forall p, In p chunk -> In p (candidates s batch).
Proof.
  intros H. apply py_index_In in H. unfold array_split in H. apply in_map_iff in H.
  destruct H as (k & <- & _). split.
  - rewrite <- firstn_map, <- skipn_map. apply NoDup_firstn, NoDup_skipn.
    rewrite candidate_ids_map. apply StronglySorted_lt_NoDup, candidate_ids_sorted.
  - intros p Hp. eapply ListX.In_skipn, ListX.In_firstn, Hp.
Qed.

(* positions identify the rows of a screen *)
Lemma indexed_fst_inj s ir ir' : In ir (indexed s) -> In ir' (indexed s) -> fst ir = fst ir' -> ir = ir'.
Proof.
  destruct ir as [i r], ir' as [i' r']. cbn [fst]. intros H H' <-.
  apply indexed_In in H, H'. rewrite H in H'. now injection H' as <-.
Qed.

(* the selection vector of "the rows of the screen satisfying g" *)
Lemma selects_filter s (g : irow -> bool) ir :
  In ir (indexed s) -> selects (filter g (indexed s)) ir = g ir.
Proof.
  intros Hin. unfold selects. destruct (g ir) eqn:E.
  - apply existsb_exists. exists (fst ir). split; [|apply Nat.eqb_refl].
    apply in_map. apply filter_In. now split.
  - destruct (existsb _ _) eqn:X; [|reflexivity]. apply existsb_exists in X.
    destruct X as (j & Hj & Ej). apply Nat.eqb_eq in Ej. apply in_map_iff in Hj.
    destruct Hj as (ir' & <- & Hf). apply filter_In in Hf. destruct Hf as [Hin' Hg].
    rewrite (indexed_fst_inj s ir ir' Hin Hin' Ej) in E. congruence.
Qed.

Lemma selects_sub_rows s f ir :
  In ir (indexed s) -> selects (sub_rows s f) ir = f (r_plate (snd ir)).
Proof. intros H. unfold sub_rows. now rewrite selects_filter. Qed.

(* which rows the batch plates select together *)
Lemma batch_plates_select s batch ir :
  In ir (indexed s) ->
  existsb (fun a => selects a ir) (map p_rows (filter (fun p => zmem (p_id p) batch) (plates s)))
  = zmem (r_plate (snd ir)) batch.
Proof.
  intros Hin. destruct (zmem (r_plate (snd ir)) batch) eqn:E.
  - apply existsb_exists. exists (p_rows (get_plate s (r_plate (snd ir)))). split.
    + apply in_map. apply filter_In. split; [|exact E].
      unfold plates. apply in_map. unfold unique_plate_ids. apply sort_uniq_In. apply in_map.
      rewrite <- (indexed_snd s). now apply in_map.
    + cbn [get_plate p_rows]. rewrite selects_sub_rows by exact Hin. apply Z.eqb_refl.
  - destruct (existsb _ _) eqn:X; [|reflexivity]. apply existsb_exists in X.
    destruct X as (a & Ha & Hs). apply in_map_iff in Ha. destruct Ha as (p & <- & Hp).
    apply filter_In in Hp. destruct Hp as [Hp Hz]. unfold plates in Hp. apply in_map_iff in Hp.
    destruct Hp as (q & <- & _). cbn [get_plate p_rows p_id] in Hs, Hz.
    rewrite selects_sub_rows in Hs by exact Hin. apply Z.eqb_eq in Hs. subst q. congruence.
Qed.

(* ScreenSubset.concat of the batch plates selects exactly the rows whose plate id is in the batch *)
Lemma batch_concat_selects s batch c :
  subset_concat s (map p_rows (filter (fun p => zmem (p_id p) batch) (plates s))) = Ok c ->
  forall ir, In ir (indexed s) -> selects c ir = zmem (r_plate (snd ir)) batch.
Proof.
  intros H ir Hin. rewrite <- (batch_plates_select s batch ir Hin).
  destruct (map p_rows _) as [|a [|a' l]]; cbn [subset_concat] in H; [discriminate| |]; injection H as <-.
  - cbn [existsb]. now rewrite orb_false_r.
  - now rewrite selects_filter.
Qed.

(* plate.combine(concat(batch plates)) for a plate of the screen = the model's union *)
Lemma union_is_model s batch c pid :
  subset_concat s (map p_rows (filter (fun p => zmem (p_id p) batch) (plates s))) = Ok c ->
  subset_union s (p_rows (get_plate s pid)) c = union_rows s batch pid.
Proof.
  intros H. unfold subset_union, union_rows, sub_rows. apply filter_ext_in. intros ir Hin.
  cbn [get_plate p_rows]. rewrite selects_sub_rows by exact Hin.
  rewrite (batch_concat_selects s batch c H ir Hin). now rewrite Z.eqb_sym.
Qed.

(* the loop `for k, v in scores.items(): scores_holder.add_score(k, v)` *)
Lemma add_score_loop (f : holder -> Z * Z -> result holder) :
  (forall h kv, f h kv = let '(k, v) := kv in dor h' <- add_score h k v; Ok h') ->
  forall l h, res_fold f l h = add_scores h l.
Proof.
  intros Hf l. induction l as [|[k v] l IH]; intros h; cbn [res_fold add_scores]; [reflexivity|].
  rewrite Hf. destruct (add_score h k v) as [h'|t]; cbn [res_bind]; [apply IH | reflexivity].
Qed.

Theorem src_score_chunk_is_model : forall (scorer : scorer_fn) (s : screen) (rng : option rng_t)
    (n_chunks chunk_index : Z) (batch : option (list Z)),
  src_score_chunk scorer s rng n_chunks chunk_index batch
  = dor ps <- score_chunk s (match batch with Some b => b | None => [] end) n_chunks chunk_index;
    chunk_holder_of_answer ps (scorer ps).
Proof.
  intros scorer s rng n k batch. unfold src_score_chunk, score_chunk.
  set (b := match batch with Some v => v | None => [] end).
  (* the candidate list *)
  match goal with |- res_bind ?x _ = _ =>
    assert (Ex : x = Ok (filter (fun p => negb (zmem (p_id p) b)) (filter (fun p => negb (is_observed p)) (plates s)))) end.
  { unfold b. destruct batch as [b0|]; cbn [is_some unwrap res_bind].
    - rewrite (res_filter_pure _ (fun p => negb (zmem (p_id p) b0))) by reflexivity. reflexivity.
    - rewrite (filter_all (fun p => negb (zmem (p_id p) []))) by reflexivity. reflexivity. }
  rewrite Ex. clear Ex. cbn [res_bind]. fold (candidates s b).
  unfold array_split_at. destruct (n <=? 0); [reflexivity|].
  destruct (py_index (array_split (candidates s b) (Z.to_nat n)) k) as [chunk|] eqn:Ei; [|reflexivity].
  cbn [res_bind]. destruct (chunk_of_candidates _ _ _ _ _ Ei) as [Hnd Hc].
  (* the tail: holder of declared size len(plates_to_score), filled from the scorer's answer *)
  assert (Tail : forall ps : list (Z * subset),
    (let h := holder_new (Z.to_nat (Z.of_nat (length ps))) in
     dor h' <- res_fold (fun (h : holder) '(k, v) => dor h <- add_score h k v; Ok h) (dict_items (scorer ps)) h;
     Ok h') = chunk_holder_of_answer ps (scorer ps)).
  { intros ps. cbn zeta. rewrite Nat2Z.id. unfold dict_items, chunk_holder_of_answer.
    rewrite (add_score_loop _) by (intros h [k0 v0]; reflexivity).
    destruct (add_scores _ _); reflexivity. }
  assert (Eb : opt_list_truthy batch = negb (is_nil b)).
  { unfold b. destruct batch as [[|x l]|]; reflexivity. }
  assert (Eu : b <> [] -> unwrap batch = Ok b).
  { unfold b. destruct batch; [reflexivity | congruence]. }
  rewrite Eb. clear Eb. clearbody b. destruct b as [|x b']; cbn [is_nil negb].
  - (* no batch: every chunk plate is scored on its own rows *)
    cbn [res_bind]. rewrite fold_dict_set_distinct by exact Hnd. cbn [app]. rewrite map_map. cbn [fst snd rows_for].
    apply Tail.
  - (* a batch: every chunk plate is conditioned on the batch plates *)
    specialize (Eu ltac:(discriminate)). set (b := x :: b') in *.
    rewrite (res_filter_pure _ (fun p => zmem (p_id p) b)) by (intros a; rewrite Eu; reflexivity).
    cbn [res_bind]. rewrite existsb_filter.
    destruct (subset_concat s (map (fun c => p_rows c) (filter (fun p => zmem (p_id p) b) (plates s)))) as [c|t] eqn:Econ.
    + assert (Hne : is_nil (filter (fun p => zmem (p_id p) b) (plates s)) = false).
      { destruct (filter _ _); [discriminate | reflexivity]. }
      rewrite Hne. cbn [negb res_bind].
      rewrite (res_fold_pure _ (fun d p => dict_set d (p_id p) (uniq_first [] (subset_union s (p_rows p) c)))) by reflexivity.
      cbn [res_bind]. rewrite fold_dict_set_distinct by exact Hnd. cbn [app].
      rewrite (map_ext_in _ (fun p => (p_id p, rows_for s b p))).
      * apply Tail.
      * intros p Hp. f_equal. unfold rows_for, b at 1. fold b. unfold conditioned.
        rewrite (candidates_are_plates s b p (Hc p Hp)) at 1. cbn [get_plate p_id].
        now rewrite (union_is_model s b c (p_id p) Econ).
    + assert (Hnil : is_nil (filter (fun p => zmem (p_id p) b) (plates s)) = true).
      { destruct (filter _ _) as [|a [|a' l]]; cbn [map subset_concat] in Econ; [reflexivity | discriminate | discriminate]. }
      rewrite Hnil. cbn [negb res_bind].
      destruct (filter _ _) as [|a l]; [|discriminate]. cbn [map subset_concat] in Econ. injection Econ as <-. reflexivity.
Qed.

(* the model's chunk_holder (a scorer returning one score per handed plate, in the order handed) is the translated
   score_chunk run with that scorer *)
Corollary src_score_chunk_chunk_holder : forall (scorer : scorer_t) s rng n k batch,
  src_score_chunk (fun ps => map (fun p => (fst p, scorer (fst p) (snd p))) ps) s rng n k (Some batch)
  = chunk_holder scorer s batch n k.
Proof. intros. rewrite src_score_chunk_is_model. reflexivity. Qed.

(* ---- ChunkedScoresHolder: add_score, combine, plate_id_with_minimum_score, concat ----
   the two numpy arrays are lists; a model holder h is represented by holder_arrays h *)
Lemma list_set_nat {A} tag (l : list A) (c : nat) v :
  list_set tag l (Z.of_nat c) v
  = if (c <? length l)%nat then Ok (firstn c l ++ v :: skipn (S c) l) else Err tag.
Proof.
  unfold list_set. destruct (Z.ltb_spec (Z.of_nat c) 0) as [H|_]; [lia|].
  rewrite Nat2Z.id. destruct (Nat.ltb_spec c (length l)) as [H|H].
  - replace ((0 <=? Z.of_nat c) && (Z.of_nat c <? Z.of_nat (length l))) with true; [reflexivity|].
    symmetry. apply andb_true_iff. split; [apply Z.leb_le | apply Z.ltb_lt]; lia.
  - replace ((0 <=? Z.of_nat c) && (Z.of_nat c <? Z.of_nat (length l))) with false; [reflexivity|].
    symmetry. apply andb_false_iff. right. apply Z.ltb_ge. lia.
Qed.

Theorem src_add_score_is_model : forall (h : holder) (pid sc : Z),
  src_add_score (map snd (h_slots h)) (map fst (h_slots h)) (Z.of_nat (h_cur h)) pid sc
  = dor h' <- add_score h pid sc; Ok (holder_arrays h').
Proof.
  intros [size slots cur] pid sc. unfold src_add_score, add_score, holder_arrays. cbn [h_size h_slots h_cur].
  rewrite !list_set_nat, !map_length. unfold slot in *. destruct (cur <? length slots)%nat; cbn [res_bind]; [|reflexivity].
  cbn [h_slots h_cur]. rewrite !map_app. cbn [map fst snd]. rewrite <- !firstn_map, <- !skipn_map.
  do 3 f_equal. lia.
Qed.

Theorem src_combine_is_model : forall (a b : holder),
  src_combine (map snd (h_slots a)) (map fst (h_slots a)) (Z.of_nat (h_cur a))
              (map snd (h_slots b)) (map fst (h_slots b))
  = Ok (holder_arrays (h_combine a b)).
Proof.
  intros a b. unfold src_combine, h_combine, holder_arrays. cbn [h_slots h_cur].
  rewrite !map_app, map_length. do 3 f_equal. now rewrite Nat2Z.inj_add.
Qed.

(* argmin over the score array = the model's first-minimum slot *)
Lemma argmin_from_first (l : list slot) :
  match argmin_first l, argmin_from (map snd l) with
  | None, None => True
  | Some x, Some (j, y) => nth_error l j = Some x /\ y = snd x
  | _, _ => False
  end.
Proof.
  induction l as [|x l IH]; cbn [argmin_first argmin_from map]; [exact I|].
  destruct (argmin_first l) as [m|], (argmin_from (map snd l)) as [[j y]|]; try contradiction.
  - destruct IH as [Hn ->]. destruct (snd m <? snd x); split; try reflexivity. exact Hn.
  - split; reflexivity.
Qed.

Lemma array_item_nth (l : list slot) j x :
  nth_error l j = Some x -> array_item (map fst l) (Z.of_nat j) = Ok (fst x).
Proof.
  intros H. unfold array_item. assert (Hj : (j < length l)%nat) by (apply nth_error_Some; congruence).
  unfold slot in *. rewrite py_index_in_range by (rewrite map_length; lia).
  rewrite Nat2Z.id, nth_error_map, H. reflexivity.
Qed.

Lemma argmin_then_item (l : list slot) :
  (dor j <- argmin_index (map snd l); array_item (map fst l) j)
  = match argmin_first l with Some sl => Ok (fst sl) | None => Err 6 end.
Proof.
  unfold argmin_index. pose proof (argmin_from_first l) as H.
  destruct (argmin_first l) as [m|], (argmin_from (map snd l)) as [[j y]|]; try contradiction; [|reflexivity].
  destruct H as [Hn _]. cbn [res_bind]. now apply array_item_nth.
Qed.

Lemma mask_select_map (g : slot -> Z) (p : slot -> bool) (l : list slot) :
  mask_select (map g l) (map p l) = Ok (map g (filter p l)).
Proof.
  unfold mask_select. rewrite !map_length, Nat.eqb_refl. f_equal.
  induction l as [|x l IH]; cbn [map combine filter snd]; [reflexivity|].
  destruct (p x); cbn [map fst]; now rewrite IH.
Qed.

Theorem src_plate_id_with_minimum_score_is_model : forall (h : holder) (eligible : option (list Z)),
  src_plate_id_with_minimum_score (map snd (h_slots h)) (map fst (h_slots h)) eligible = min_plate h eligible.
Proof.
  intros h [e|]; unfold src_plate_id_with_minimum_score, min_plate; cbn [is_none unwrap res_bind].
  - unfold isin. rewrite map_map. rewrite !(mask_select_map _ (fun sl => zmem (fst sl) e)). cbn [res_bind].
    pose proof (argmin_then_item (filter (fun sl => zmem (fst sl) e) (h_slots h))) as H.
    destruct (argmin_index _) as [j|t]; cbn [res_bind] in *.
    + destruct (array_item _ j); exact H.
    + exact H.
  - pose proof (argmin_then_item (h_slots h)) as H.
    destruct (argmin_index _) as [j|t]; cbn [res_bind] in *.
    + destruct (array_item _ j); exact H.
    + exact H.
Qed.

Theorem src_concat_is_model : forall hs : list holder, src_concat hs = h_concat hs.
Proof.
  intros [|h t]; unfold src_concat, h_concat; cbn [is_nil negb list_head res_bind tl]; [reflexivity|].
  rewrite (res_fold_pure _ h_combine) by reflexivity. reflexivity.
Qed.
