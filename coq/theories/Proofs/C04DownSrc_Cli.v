(* C04 downstream, source level: the four translated main() functions over file systems that differ only behind the mask.
   See Proofs/C04DownSrc.v. *)
From Coq Require Import ZArith List Bool QArith Qcanon Lia.
From Batchie Require Import Lib.Sexp Lib.Num Lib.PyRt Model.Train Model.Downstream Proofs.C04Train Proofs.C04Down.
From Batchie Require Model.Scores Model.Policy Model.Gibbs Model.DistMat Model.Cli.
From Batchie Require Generated.SrcTrain Generated.SrcDistMat Generated.SrcScoring Generated.SrcCli.
From Batchie Require Proofs.C06SourceCliScores Proofs.C07SourceCli Proofs.C04Source Proofs.C04SourceCli.
Import ListNotations.
Open Scope Z_scope.

(* ================================================================ the four command-line steps *)
(* a file system: what Screen.load_h5 yields at a path, as id-level rows *)
Definition screen_fs : Type := Cli.path -> result (list trow).
Definition fs_agree (fs1 fs2 : screen_fs) : Prop :=
  forall p, match fs1 p, fs2 p with
            | Ok s1, Ok s2 => same_except_masked s1 s2
            | Err a, Err b => a = b
            | _, _ => False
            end.

Lemma fs_agree_load {A} (f : list trow -> A) (fs1 fs2 : screen_fs) :
  (forall s1 s2, same_except_masked s1 s2 -> f s1 = f s2) -> fs_agree fs1 fs2 ->
  forall p, (dor s <- fs1 p; Ok (f s)) = (dor s <- fs2 p; Ok (f s)).
Proof.
  intros Hf H p. specialize (H p). destruct (fs1 p) as [a|a], (fs2 p) as [b|b]; cbn [res_bind]; try contradiction.
  - now rewrite (Hf a b H).
  - now subst.
Qed.

(* ---- train_model.main: the translated wrapper over ANY library whose screen loader is the file system, whose
   subset_observed is Train.train_input and whose ExperimentSpace.from_screen reads the rows' ids; model class, sampler,
   holder arbitrary ---- *)
Definition tm_lib_fs (Sp Pa Mo Th : Type) (fs : screen_fs) (from_ids : list (Z * list Z) -> result Sp)
    (set_space : Pa -> Sp -> Pa) (construct : Pa -> result Mo) (new_holder : Z -> result Th)
    (add_observations : Mo -> list trow -> result Mo)
    (sample : Mo -> Th -> Z -> option Z -> option Z -> option Z -> option Z -> bool -> result Th)
  : Cli.tm_lib (list trow) (list trow) Sp Pa Mo Th :=
  Cli.mk_tm_lib fs (fun s => from_ids (pred_rows_of s)) set_space construct new_holder train_input add_observations sample.

Lemma src_cli_train_model_noninterference Sp Pa Mo Th fs1 fs2 from_ids set_space construct new_holder add_obs sample params a :
  fs_agree fs1 fs2 ->
  SrcCli.src_cli_train_model _ _ Sp Pa Mo Th (tm_lib_fs Sp Pa Mo Th fs1 from_ids set_space construct new_holder add_obs sample) params a
  = SrcCli.src_cli_train_model _ _ Sp Pa Mo Th (tm_lib_fs Sp Pa Mo Th fs2 from_ids set_space construct new_holder add_obs sample) params a.
Proof.
  intros H. rewrite !C04SourceCli.src_cli_train_model_is_model. unfold Cli.cli_train_model, tm_lib_fs.
  cbn [Cli.tm_load_screen Cli.tm_from_screen Cli.tm_set_space Cli.tm_construct Cli.tm_new_holder Cli.tm_subset_observed
       Cli.tm_add_observations Cli.tm_sample].
  specialize (H (Cli.tm_data a)).
  destruct (fs1 (Cli.tm_data a)) as [s1|e1], (fs2 (Cli.tm_data a)) as [s2|e2]; cbn [res_bind]; try contradiction.
  - destruct (views_noninterference s1 s2 H) as (_ & _ & Hp & Ht). now rewrite Hp, Ht.
  - now subst.
Qed.

(* with SparseDrugCombo: the model object is (anything the constructor made, the wrapped legacy object), trained by the
   translated add_observations; what sample(...) is handed holds the model's training trips of the observed rows *)
Lemma src_cli_train_model_sdc_trains Sp Pa X Th fs from_ids set_space (construct : Pa -> result X) new_holder sample orc r32 params a :
  SrcCli.src_cli_train_model _ _ Sp Pa (X * legacy) Th
    (tm_lib_fs Sp Pa (X * legacy) Th fs from_ids set_space (fun pa => dor x <- construct pa; Ok (x, legacy_of [])) new_holder
       (fun m d => dor w <- SrcTrain.src_add_observations legacy (SrcTrain.src_sdc_add_observations orc r32) (snd m) d; Ok (fst m, w))
       sample) params a
  = dor s <- fs (Cli.tm_data a);
    dor sp <- from_ids (pred_rows_of s);
    dor x <- construct (set_space params sp);
    dor holder <- new_holder (Cli.tm_n_samples a);
    dor t <- train_sdc orc r32 s;
    dor results <- sample (x, legacy_of t) holder (Cli.tm_seed a) (Some (Cli.tm_n_chains a)) (Some (Cli.tm_chain_index a))
                     (Some (Cli.tm_n_burnin a)) (Some (Cli.tm_thin a)) (Cli.tm_progress a);
    Ok [(Cli.tm_output a, results)].
Proof.
  rewrite C04SourceCli.src_cli_train_model_is_model. unfold Cli.cli_train_model, tm_lib_fs.
  cbn [Cli.tm_load_screen Cli.tm_from_screen Cli.tm_set_space Cli.tm_construct Cli.tm_new_holder Cli.tm_subset_observed
       Cli.tm_add_observations Cli.tm_sample].
  destruct (fs (Cli.tm_data a)) as [s|e]; cbn [res_bind fst snd]; [|reflexivity].
  destruct (from_ids (pred_rows_of s)) as [sp|e]; cbn [res_bind]; [|reflexivity].
  destruct (construct (set_space params sp)) as [x|e]; cbn [res_bind]; [|reflexivity].
  destruct (new_holder (Cli.tm_n_samples a)) as [hd|e]; cbn [res_bind]; [|reflexivity].
  unfold train_sdc. destruct (train_input s) as [o|]; cbn [res_bind fst snd]; [|reflexivity].
  rewrite C04Source.src_sdc_add_is_model.
  destruct (sdc_add orc r32 [] o) as [t|e]; cbn [res_bind]; reflexivity.
Qed.

(* ---- calculate_distance_matrix.main: the library's calculate_... is the TRANSLATED function, a holder the list of its
   samples, the prediction of a sample ANY function of it and the rows' ids ---- *)
Section CliDist.
Variables (V : Type) (vzero : V) (visz : V -> bool) (T : Type) (dflt : T).
Variable predict : T -> list (Z * list Z) -> list Qc.

Definition cd_lib_fs (fs : screen_fs) (load_thetas : Cli.path -> result (list T)) (mk_metric : result (list Qc -> list Qc -> V))
  : Cli.cd_lib (list trow) (list T) (list Qc -> list Qc -> V) (DistMat.cdm V) :=
  Cli.mk_cd_lib fs load_thetas (fun l => match l with [] => Err 5 | _ => Ok (concat l) end) mk_metric
    (fun th me data k n _ =>
       SrcDistMat.src_calculate_pairwise V vzero visz T (list Qc) (Z.of_nat (length th))
         (fun i => nth (Z.to_nat i) th dflt) (fun t => predict t (pred_rows_of data)) me k n).

Lemma src_cli_calculate_distance_matrix_noninterference fs1 fs2 load_thetas mk_metric a : fs_agree fs1 fs2 ->
  SrcCli.src_cli_calculate_distance_matrix _ _ _ _ (cd_lib_fs fs1 load_thetas mk_metric) a
  = SrcCli.src_cli_calculate_distance_matrix _ _ _ _ (cd_lib_fs fs2 load_thetas mk_metric) a.
Proof.
  intros H. rewrite !C07SourceCli.src_cli_calculate_distance_matrix_is_model.
  unfold Cli.cli_calculate_distance_matrix, cd_lib_fs.
  cbn [Cli.cd_load_screen Cli.cd_load_thetas Cli.cd_concat_thetas Cli.cd_mk_metric Cli.cd_calculate].
  specialize (H (Cli.cd_data a)).
  destruct (fs1 (Cli.cd_data a)) as [s1|e1], (fs2 (Cli.cd_data a)) as [s2|e2]; cbn [res_bind]; try contradiction.
  - now rewrite (proj1 (proj2 (proj2 (views_noninterference s1 s2 H)))).
  - now subst.
Qed.
End CliDist.

(* ---- calculate_scores.main and select_next_plate.main over C06's library records (score_chunk, select_next_plate,
   ChunkedScoresHolder.concat = the translated functions) ---- *)
Definition scores_fs (fs : screen_fs) : Cli.path -> result Scores.screen :=
  fun p => dor s <- fs p; Ok (scores_screen_of s).

Lemma scores_fs_agree fs1 fs2 : fs_agree fs1 fs2 -> forall p, scores_fs fs1 p = scores_fs fs2 p.
Proof.
  intros H p. unfold scores_fs. apply (fs_agree_load scores_screen_of fs1 fs2); [|exact H].
  intros s1 s2 Hs. exact (proj1 (views_noninterference s1 s2 Hs)).
Qed.

Lemma src_cli_calculate_scores_noninterference (Th Dm : Type) fs1 fs2 mk_scorer load_thetas concat_thetas load_dist concat_dist mix a :
  fs_agree fs1 fs2 ->
  SrcCli.src_cli_calculate_scores _ _ _ _ _ _
    (C06SourceCliScores.cs_scores_lib Th Dm (scores_fs fs1) mk_scorer load_thetas concat_thetas load_dist concat_dist) mix a
  = SrcCli.src_cli_calculate_scores _ _ _ _ _ _
    (C06SourceCliScores.cs_scores_lib Th Dm (scores_fs fs2) mk_scorer load_thetas concat_thetas load_dist concat_dist) mix a.
Proof.
  intros H. rewrite !C06SourceCliScores.src_cli_calculate_scores_scores. now rewrite (scores_fs_agree fs1 fs2 H). Qed.

Lemma src_cli_select_next_plate_noninterference fs1 fs2 mk_policy load_scores mix a :
  fs_agree fs1 fs2 ->
  SrcCli.src_cli_select_next_plate _ _ _ _ (C06SourceCliScores.sn_scores_lib (scores_fs fs1) mk_policy load_scores) mix a
  = SrcCli.src_cli_select_next_plate _ _ _ _ (C06SourceCliScores.sn_scores_lib (scores_fs fs2) mk_policy load_scores) mix a.
Proof.
  intros H. rewrite !C06SourceCliScores.src_cli_select_next_plate_scores. now rewrite (scores_fs_agree fs1 fs2 H). Qed.
