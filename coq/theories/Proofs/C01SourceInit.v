(* C01 + C12: the constructor model [mk_screen] statement by statement from the source - the two translated
   observation-mask runs of Screen.__init__ (C12: Proofs/C12Source.v, src_mask_rules) followed by the translated
   id-encoding run (C01: Proofs/C01Source.v, src_init_ids). *)
From Coq Require Import ZArith List Bool Lia.
From Batchie Require Import Lib.Sexp Lib.PyRt Generated.Consts Model.Encode Model.Screen Generated.SrcEncode Generated.SrcScreenIds
  Proofs.C03Screen Proofs.C12Source Proofs.C01Source_Init.
Import ListNotations.
Open Scope Z_scope.

(* when the mask runs succeed they leave the rows the model stores, and those are plate-uniform *)
Lemma src_mask_rules_ok rows og mg rows' :
  src_mask_rules rows og mg = Ok rows' -> rows' = norm_rows og mg rows /\ plate_uniform rows' = true.
Proof.
  unfold src_mask_rules. rewrite src_init_observations_spec.
  destruct (negb og && mg); cbn [res_bind fst snd]; [discriminate|]. cbv zeta.
  rewrite <- (norm_rows_plate og mg rows), src_init_plate_check_spec.
  destruct (plate_uniform (norm_rows og mg rows)) eqn:U; cbn [res_bind]; [|discriminate].
  rewrite put_cols_norm. intros H. inversion H. subst. now split.
Qed.

Theorem mk_screen_is_source_runs : forall rows a c tm sm og mg,
  (0 < a)%nat ->
  match tm with Some (m, _) => NoDup (map fst m) | None => True end ->
  match sm with Some (m, _) => NoDup (map fst m) | None => True end ->
  (dor s <- mk_screen rows a c tm sm og mg; Ok (stored_ids s))
  = if negb (arity_ok a rows) then Err 1
    else dor rows' <- src_mask_rules rows og mg;
         src_init_ids (names_arr a rows') (doses_arr a rows') (map r_sample rows') (map r_plate rows')
                      (tmap_arg_py tm) (smap_arg_py sm) c.
Proof.
  intros rows a c tm sm og mg Ha Htm Hsm. rewrite mk_screen_is_src_mask_rules.
  destruct (arity_ok a rows) eqn:Ea; cbn [negb res_bind]; [|reflexivity].
  destruct (src_mask_rules rows og mg) as [rows'|t] eqn:E; cbn [res_bind]; [|reflexivity].
  apply src_mask_rules_ok in E as [-> U].
  rewrite (src_init_ids_is_model _ a c tm sm Ha Htm Hsm).
  rewrite (arity_ok_treats a rows (norm_rows og mg rows)) by apply norm_rows_treats.
  rewrite Ea, U. reflexivity.
Qed.
