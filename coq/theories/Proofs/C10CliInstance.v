(* C10: the two models of evaluate_model.main are ONE.  Props/C10.v proves chain-major labelling of Thetas.evaluate (a hand
   model) and links the translated main() to Cli.cli_evaluate_model for an ABSTRACT record of library functions.  Here the
   record is instantiated with the Thetas model (load = any function of the path, concat = concat_holders, n_thetas = the
   declared size, predict_viability_all = one column per get_theta(k) for k in range(n_thetas), ModelEvaluation = its length
   check pairing chain ids with columns) and the translated main() is proved to BE Thetas.evaluate on the loaded holders. *)
From Coq Require Import ZArith List Bool Lia.
From Batchie Require Import Lib.Sexp Lib.PyRt Model.Thetas Model.Cli Generated.SrcCli Proofs.PyRtLemmas Proofs.C10Thetas Proofs.C10SourceCli.
Import ListNotations.
Open Scope Z_scope.

Section Inst.
Variables P S : Type.

Definition thetas_ev_lib (loadf : path -> result (holder P S))
  : ev_lib unit (holder P S) (list (theta P S)) (list (theta P S)) unit unit (list (Z * theta P S)) :=
  {| ev_load_screen := fun _ => Ok tt;
     ev_load_thetas := loadf;
     ev_concat_thetas := concat_holders P S;
     ev_n_thetas := @h_declared P S;
     (* predict_viability_all: for i in range(thetas.n_thetas): thetas.get_theta(i).predict_viability(screen) - a column is the sample used *)
     ev_predict_all := fun _ h => res_map_all (fun k => get_theta P S h (Z.of_nat k)) (seq 0 (Z.to_nat (h_declared h)));
     ev_transpose := fun x => x;
     ev_observations := fun _ => tt;
     ev_sample_names := fun _ => tt;
     (* ModelEvaluation(...): ValueError unless there is one chain id per prediction column *)
     ev_mk_eval := fun cols _ ids _ => if negb (Nat.eqb (length ids) (length cols)) then Err 5 else Ok (combine ids cols) |}.

Lemma combine_map_fst {A B C} (h : A -> B) (s : list A) (l : list C) :
  combine (map h s) l = map (fun p => (h (fst p), snd p)) (combine s l).
Proof.
  revert l. induction s as [|a s IH]; intros l; cbn [map combine]; [reflexivity|].
  destruct l as [|c l]; cbn [map combine fst snd]; [reflexivity|]. now rewrite IH.
Qed.

Lemma chain_ids_of_is_chain_ids (hs : list (holder P S)) : chain_ids_of (@h_declared P S) hs = chain_ids P S hs.
Proof.
  unfold chain_ids_of, chain_ids, enumerate_z, enumerate. rewrite combine_map_fst, map_map. reflexivity.
Qed.

Theorem cli_evaluate_is_thetas_evaluate (loadf : path -> result (holder P S)) (a : ev_args) :
  cli_evaluate_model (thetas_ev_lib loadf) a
  = dor hs <- res_map_all loadf (ev_thetas a); dor l <- evaluate P S hs; Ok [(ev_output a, l)].
Proof.
  unfold cli_evaluate_model, evaluate.
  cbn [ev_load_screen ev_load_thetas ev_concat_thetas ev_n_thetas ev_predict_all ev_transpose ev_observations ev_sample_names
       ev_mk_eval thetas_ev_lib res_bind].
  destruct (res_map_all loadf (ev_thetas a)) as [hs|t]; cbn [res_bind]; [|reflexivity].
  destruct (concat_holders P S hs) as [h|t]; cbn [res_bind]; [|reflexivity].
  rewrite chain_ids_of_is_chain_ids.
  destruct (res_map_all (fun k : nat => get_theta P S h (Z.of_nat k)) (seq 0 (Z.to_nat (h_declared h)))) as [cols|t]; cbn [res_bind]; [|reflexivity].
  destruct (negb (Nat.eqb (length (chain_ids P S hs)) (length cols))); cbn [res_bind]; reflexivity.
Qed.

(* the TRANSLATED main(), with the Thetas model as its library *)
Theorem src_cli_evaluate_is_thetas_evaluate (loadf : path -> result (holder P S)) (a : ev_args) :
  src_cli_evaluate_model _ _ _ _ _ _ _ (thetas_ev_lib loadf) a
  = dor hs <- res_map_all loadf (ev_thetas a); dor l <- evaluate P S hs; Ok [(ev_output a, l)].
Proof. rewrite src_cli_evaluate_model_is_model. apply cli_evaluate_is_thetas_evaluate. Qed.

(* when the files named by --thetas are what save_h5 wrote for the chains hs, read by load_h5, in argument order *)
Theorem src_cli_evaluate_files (loadf : path -> result (holder P S)) (a : ev_args) (hs : list (holder P S)) :
  res_map_all loadf (ev_thetas a) = res_map_all (save_load P S) hs ->
  src_cli_evaluate_model _ _ _ _ _ _ _ (thetas_ev_lib loadf) a = dor l <- evaluate_files P S hs; Ok [(ev_output a, l)].
Proof.
  intros H. rewrite src_cli_evaluate_is_thetas_evaluate, H. unfold evaluate_files.
  destruct (res_map_all (save_load P S) hs) as [loaded|t]; cbn [res_bind]; reflexivity.
Qed.

(* hence, for complete non-empty chains with one shared table each: the translated main() writes exactly one evaluation, whose
   columns are all of the first chain in step order, then the second, ..., each labelled with its chain's position on the
   command line *)
Theorem src_cli_evaluate_complete (loadf : path -> result (holder P S)) (a : ev_args) (hs : list (holder P S)) :
  res_map_all loadf (ev_thetas a) = res_map_all (save_load P S) hs ->
  hs <> [] ->
  (forall h, In h hs -> Z.of_nat (length (h_thetas h)) = h_declared h /\ h_thetas h <> [] /\
                        forall t u, In t (h_thetas h) -> In u (h_thetas h) -> snd t = snd u) ->
  src_cli_evaluate_model _ _ _ _ _ _ _ (thetas_ev_lib loadf) a
  = Ok [(ev_output a, concat (map (fun ih => map (pair (Z.of_nat (fst ih))) (h_thetas (snd ih))) (enumerate hs)))].
Proof.
  intros H Hne Hc. rewrite (src_cli_evaluate_files loadf a hs H).
  rewrite (evaluate_files_complete_uniform P S hs Hne Hc). reflexivity.
Qed.
End Inst.
