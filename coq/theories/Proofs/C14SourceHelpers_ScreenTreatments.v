(* C14, one piece of Proofs/C14SourceHelpers.v (which see): ScreenBase.unique_treatments / n_unique_treatments on a Screen object *)
From Coq Require Import ZArith List Bool Arith Lia ZifyBool.
From Batchie Require Import Lib.Sexp Lib.PyRt Generated.Consts Model.Encode Model.Screen Model.Views
  Generated.SrcEncode Generated.SrcViews Generated.SrcPlates
  Proofs.PyRtLemmas Proofs.C01Sort Proofs.C14Defs Proofs.C14Lists Proofs.C14Unique
  Proofs.C14SourceHelpers_Base.
Import ListNotations.
Open Scope Z_scope.

Theorem src_screen_unique_treatments_is_model : forall s : pyscreen,
  src_screen_unique_treatments s = Ok (screen_unique_treatments (snd s)).
Proof.
  intros s. unfold src_screen_unique_treatments, screen_unique_treatments, unique_treatments_of, np_unique2, screen_tids2. cbn [snd].
  now rewrite setdiff_sentinel.
Qed.

Theorem src_screen_n_unique_treatments_is_model : forall s : pyscreen,
  src_screen_n_unique_treatments s = Ok (Z.of_nat (length (screen_unique_treatments (snd s)))).
Proof. intros s. unfold src_screen_n_unique_treatments. now rewrite src_screen_unique_treatments_is_model. Qed.
