(* One piece of Proofs/C18SourceArgs.v (which see): argument_parsing.cast_dict_to_type, and the blocks of every get_args() that call it *)
From Coq Require Import ZArith List Bool Lia.
From Batchie Require Import Lib.Sexp Lib.PyRt Model.Cli Generated.SrcCli Generated.SrcCliArgs Proofs.PyRtLemmas Proofs.C18SourceArgs_StrBool.
Import ListNotations.
Open Scope Z_scope.

Lemma call_callable_ext {F O : Type} (P : pyprims F O) (f g : str -> result bool) :
  (forall s, f s = g s) -> forall c s, call_callable P f c s = call_callable P g c s.
Proof. intros H c s. destruct c as [|t]; cbn [call_callable]; [now rewrite H|reflexivity]. Qed.

(* the comprehension of cast_dict_to_type, for an arbitrary body equal to the canonical one *)
Lemma cast_loop {F O : Type} (P : pyprims F O) (types : list (str * ann))
  (f : list (str * pval F O) -> str * str -> result (list (str * pval F O))) :
  (forall acc kv, f acc kv = dor t <- kdict_get str_eqb 25 types (fst kv);
                             dor x <- convert P t (snd kv); Ok (kdict_set str_eqb acc (fst kv) x)) ->
  forall items acc, res_fold f items acc = cast_items P types items acc.
Proof.
  intros Hf items. induction items as [|[k v] r IH]; intros acc; cbn [res_fold cast_items]; [reflexivity|].
  rewrite Hf. cbn [fst snd].
  destruct (kdict_get str_eqb 25 types k) as [t|e]; cbn [res_bind]; [|reflexivity].
  destruct (convert P t v) as [x|e]; cbn [res_bind]; [|reflexivity].
  apply IH.
Qed.

Theorem src_cast_dict_is_model : forall (F O : Type) (P : pyprims F O) (k_v_string : list (str * str))
  (k_v_types : list (str * ann)),
  src_cast_dict_to_type F O P k_v_string k_v_types = cast_dict P k_v_string k_v_types.
Proof.
  intros. unfold src_cast_dict_to_type, cast_dict. cbv zeta.
  rewrite (cast_loop P k_v_types).
  - apply res_bind_ret.
  - intros acc [k v]. cbn [fst snd].
    destruct (kdict_get str_eqb 25 k_v_types k) as [t|e]; cbn [res_bind]; [|reflexivity].
    unfold convert.
    rewrite (call_callable_ext P (src_str_to_bool F O P) (str_to_bool P) (src_str_to_bool_is_model P)).
    reflexivity.
Qed.

(* the `if not args.<x>_param: ... = {} else: ... = cast_dict_to_type(...)` block, for any continuation *)
Lemma cast_block {F O X : Type} (P : pyprims F O) (param : option (list (str * str))) (req : list (str * ann))
  (k : list (str * pval F O) -> result X) :
  (if negb (opt_list_truthy param) then k []
   else dor u <- unwrap param; dor r <- src_cast_dict_to_type F O P u req; k r)
  = dor ps <- cast_params P param req; k ps.
Proof.
  destruct param as [[|x l]|]; cbn [opt_list_truthy negb unwrap res_bind cast_params]; try reflexivity.
  now rewrite src_cast_dict_is_model.
Qed.

(* class lookup, required-argument annotations, cast: the three steps every get_args() makes per class-valued option *)
Lemma resolve_block {Cls F O X : Type} (I : introspect Cls) (P : pyprims F O) (base : base_class) (name : str)
  (param : option (list (str * str))) (k : option Cls -> list (str * pval F O) -> result X) :
  (dor c <- i_get_class I s_batchie name base;
   dor req <- i_required I c;
   if negb (opt_list_truthy param) then k c []
   else dor u <- unwrap param; dor r <- src_cast_dict_to_type F O P u req; k c r)
  = dor cp <- resolve I P base name param; k (fst cp) (snd cp).
Proof.
  unfold resolve.
  destruct (i_get_class I s_batchie name base) as [c|e]; cbn [res_bind]; [|reflexivity].
  destruct (i_required I c) as [req|e]; cbn [res_bind]; [|reflexivity].
  rewrite (cast_block P param req (k c)).
  destruct (cast_params P param req); reflexivity.
Qed.
