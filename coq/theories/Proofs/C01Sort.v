(* C01 proofs, part 1: comparisons are total orders; sort_uniq yields the unique strictly
   sorted list with the same elements. *)
From Coq Require Import ZArith List Lia Bool Sorted Permutation.
From Batchie Require Import Model.Encode.
Import ListNotations.

Record CmpSpec {K : Type} (cmp : K -> K -> comparison) : Prop := {
  cmp_eq : forall a b, cmp a b = Eq <-> a = b;
  cmp_antisym : forall a b, cmp a b = CompOpp (cmp b a);
  cmp_trans : forall a b c, cmp a b = Lt -> cmp b c = Lt -> cmp a c = Lt
}.

Lemma Zcmp_spec : CmpSpec Z.compare.
Proof.
  split.
  - intros a b. apply Z.compare_eq_iff.
  - intros a b. apply Z.compare_antisym.
  - intros a b c. rewrite !Z.compare_lt_iff. apply Z.lt_trans.
Qed.

Lemma name_cmp_eq a : forall b, name_cmp a b = Eq <-> a = b.
Proof.
  induction a as [|x a IH]; intros [|y b]; cbn [name_cmp]; try (split; [discriminate|discriminate]).
  - split; reflexivity.
  - destruct (x ?= y)%Z eqn:E.
    + apply Z.compare_eq_iff in E. subst. rewrite IH. split; [intros ->; reflexivity|intros H; now inversion H].
    + split; [discriminate|]. intros H; inversion H; subst. rewrite Z.compare_refl in E. discriminate.
    + split; [discriminate|]. intros H; inversion H; subst. rewrite Z.compare_refl in E. discriminate.
Qed.

Lemma name_cmp_antisym a : forall b, name_cmp a b = CompOpp (name_cmp b a).
Proof.
  induction a as [|x a IH]; intros [|y b]; cbn [name_cmp CompOpp]; try reflexivity.
  rewrite (Z.compare_antisym x y). destruct (x ?= y)%Z; cbn [CompOpp]; [apply IH|reflexivity|reflexivity].
Qed.

Lemma name_cmp_trans a : forall b c, name_cmp a b = Lt -> name_cmp b c = Lt -> name_cmp a c = Lt.
Proof.
  induction a as [|x a IH]; intros [|y b] [|z c]; cbn [name_cmp]; try discriminate; try reflexivity.
  destruct (x ?= y)%Z eqn:E1; destruct (y ?= z)%Z eqn:E2; try discriminate; intros H1 H2.
  - apply Z.compare_eq_iff in E1, E2. subst. rewrite Z.compare_refl. eapply IH; eassumption.
  - apply Z.compare_eq_iff in E1. subst. now rewrite E2.
  - apply Z.compare_eq_iff in E2. subst. now rewrite E1.
  - assert (E : (x ?= z)%Z = Lt) by exact (Z.lt_trans _ _ _ E1 E2). now rewrite E.
Qed.

Lemma name_cmp_spec : CmpSpec name_cmp.
Proof. split; [apply name_cmp_eq|apply name_cmp_antisym|apply name_cmp_trans]. Qed.

Lemma name_eqb_eq a b : name_eqb a b = true <-> a = b.
Proof.
  unfold name_eqb. rewrite <- name_cmp_eq. destruct (name_cmp a b); split; congruence.
Qed.

Lemma tkey_cmp_spec : CmpSpec tkey_cmp.
Proof.
  split.
  - intros [n1 d1] [n2 d2]. unfold tkey_cmp; cbn [fst snd].
    destruct (name_cmp n1 n2) eqn:E.
    + apply name_cmp_eq in E. subst. rewrite Z.compare_eq_iff. split; [intros ->; reflexivity|intros H; now inversion H].
    + split; [discriminate|]. intros H; inversion H; subst.
      assert (name_cmp n2 n2 = Eq) by now apply name_cmp_eq. congruence.
    + split; [discriminate|]. intros H; inversion H; subst.
      assert (name_cmp n2 n2 = Eq) by now apply name_cmp_eq. congruence.
  - intros [n1 d1] [n2 d2]. unfold tkey_cmp; cbn [fst snd].
    rewrite (name_cmp_antisym n1 n2). destruct (name_cmp n2 n1); cbn [CompOpp]; try reflexivity.
    apply Z.compare_antisym.
  - intros [n1 d1] [n2 d2] [n3 d3]. unfold tkey_cmp; cbn [fst snd].
    destruct (name_cmp n1 n2) eqn:E1; destruct (name_cmp n2 n3) eqn:E2; try discriminate; intros H1 H2.
    + apply name_cmp_eq in E1, E2. subst. assert (E : name_cmp n3 n3 = Eq) by now apply name_cmp_eq.
      rewrite E. exact (Z.lt_trans _ _ _ H1 H2).
    + apply name_cmp_eq in E1. subst. now rewrite E2.
    + apply name_cmp_eq in E2. subst. now rewrite E1.
    + now rewrite (name_cmp_trans _ _ _ E1 E2).
Qed.

Lemma tkey_eqb_eq a b : tkey_eqb a b = true <-> a = b.
Proof.
  unfold tkey_eqb. rewrite <- (cmp_eq _ tkey_cmp_spec). destruct (tkey_cmp a b); split; congruence.
Qed.

Section SortUniqP.
Context {K : Type} (cmp : K -> K -> comparison) (HC : CmpSpec cmp).

Definition lt (a b : K) : Prop := cmp a b = Lt.
Definition SSorted (l : list K) : Prop := StronglySorted lt l.

Lemma cmp_refl a : cmp a a = Eq.
Proof. now apply (cmp_eq _ HC). Qed.

Lemma cmp_gt_lt a b : cmp a b = Gt -> cmp b a = Lt.
Proof. intros H. rewrite (cmp_antisym _ HC), H. reflexivity. Qed.

Lemma lt_irrefl a : ~ lt a a.
Proof. unfold lt. rewrite cmp_refl. discriminate. Qed.

Lemma insert_uniq_In k l x : In x (insert_uniq cmp k l) <-> x = k \/ In x l.
Proof.
  induction l as [|y l IH]; cbn [insert_uniq In]; [intuition|].
  destruct (cmp k y) eqn:E; cbn [In].
  - apply (cmp_eq _ HC) in E. subst. intuition.
  - intuition.
  - rewrite IH. intuition.
Qed.

Lemma insert_uniq_sorted k l : SSorted l -> SSorted (insert_uniq cmp k l).
Proof.
  induction l as [|y l IH]; intros Hs; cbn [insert_uniq].
  - repeat constructor.
  - inversion Hs as [|? ? Hs' Hall]; subst.
    destruct (cmp k y) eqn:E.
    + exact Hs.
    + constructor; [exact Hs|]. constructor; [exact E|].
      rewrite Forall_forall in *. intros z Hz. eapply (cmp_trans _ HC); [exact E|now apply Hall].
    + constructor; [now apply IH|]. rewrite Forall_forall in *. intros z Hz.
      apply insert_uniq_In in Hz as [->|Hz]; [now apply cmp_gt_lt|now apply Hall].
Qed.

Lemma sort_uniq_In l x : In x (sort_uniq cmp l) <-> In x l.
Proof.
  induction l as [|y l IH]; cbn [sort_uniq fold_right In]; [tauto|].
  fold (sort_uniq cmp l). rewrite insert_uniq_In, IH. intuition.
Qed.

Lemma sort_uniq_sorted l : SSorted (sort_uniq cmp l).
Proof.
  induction l as [|y l IH]; cbn [sort_uniq fold_right]; [constructor|].
  now apply insert_uniq_sorted.
Qed.

Lemma SSorted_NoDup l : SSorted l -> NoDup l.
Proof.
  induction 1 as [|a l Hs IH Hall]; constructor; [|exact IH].
  intros Hin. rewrite Forall_forall in Hall. exact (lt_irrefl a (Hall a Hin)).
Qed.

Lemma sort_uniq_NoDup l : NoDup (sort_uniq cmp l).
Proof. apply SSorted_NoDup, sort_uniq_sorted. Qed.

(* a strictly sorted list is determined by its elements *)
Lemma SSorted_unique l1 : forall l2,
  SSorted l1 -> SSorted l2 -> (forall x, In x l1 <-> In x l2) -> l1 = l2.
Proof.
  induction l1 as [|a l1 IH]; intros l2 H1 H2 Hin.
  - destruct l2 as [|b l2]; [reflexivity|]. exfalso. apply (Hin b). now left.
  - destruct l2 as [|b l2]; [exfalso; apply (Hin a); now left|].
    inversion H1 as [|? ? H1' Hall1]; inversion H2 as [|? ? H2' Hall2]; subst.
    rewrite Forall_forall in Hall1, Hall2.
    assert (a = b).
    { destruct (proj1 (Hin a) (or_introl eq_refl)) as [<-|Ha]; [reflexivity|].
      destruct (proj2 (Hin b) (or_introl eq_refl)) as [<-|Hb]; [reflexivity|].
      exfalso. apply (lt_irrefl a). eapply (cmp_trans _ HC); [apply Hall1, Hb|apply Hall2, Ha]. }
    subst b. f_equal. apply IH; [assumption|assumption|].
    intros x. split; intros Hx.
    + destruct (proj1 (Hin x) (or_intror Hx)) as [<-|H]; [|exact H].
      exfalso. exact (lt_irrefl a (Hall1 a Hx)).
    + destruct (proj2 (Hin x) (or_intror Hx)) as [<-|H]; [|exact H].
      exfalso. exact (lt_irrefl a (Hall2 a Hx)).
Qed.

Lemma sort_uniq_of_sorted l : SSorted l -> sort_uniq cmp l = l.
Proof.
  intros H. apply SSorted_unique; [apply sort_uniq_sorted|exact H|apply sort_uniq_In].
Qed.

Lemma sort_uniq_ext l1 l2 : (forall x, In x l1 <-> In x l2) -> sort_uniq cmp l1 = sort_uniq cmp l2.
Proof.
  intros H. apply SSorted_unique; try apply sort_uniq_sorted.
  intros x. rewrite !sort_uniq_In. apply H.
Qed.

Lemma SSorted_filter p l : SSorted l -> SSorted (filter p l).
Proof.
  induction 1 as [|a l Hs IH Hall]; cbn [filter]; [constructor|].
  destruct (p a); [|exact IH]. constructor; [exact IH|].
  rewrite Forall_forall in *. intros x Hx. apply filter_In in Hx as [Hx _]. now apply Hall.
Qed.

Lemma sort_uniq_filter p l : sort_uniq cmp (filter p l) = filter p (sort_uniq cmp l).
Proof.
  apply SSorted_unique; [apply sort_uniq_sorted|apply SSorted_filter, sort_uniq_sorted|].
  intros x. rewrite sort_uniq_In, !filter_In, sort_uniq_In. tauto.
Qed.

Lemma sort_uniq_length_NoDup l : NoDup l -> length (sort_uniq cmp l) = length l.
Proof.
  intros H. apply Permutation_length, NoDup_Permutation; [apply sort_uniq_NoDup|exact H|apply sort_uniq_In].
Qed.
End SortUniqP.
