(* One piece of Proofs/C18SourceParser.v (which see): the option table of prepare_retrospective_simulation.get_parser(), read from /repo on every run
   (Generated/SrcParser_prepare_retrospective_simulation.v), provides what the argument record of that command assumes. *)
From Coq Require Import ZArith List Bool.
From Batchie Require Import Lib.Sexp Lib.PyRt Model.Cli Proofs.C18Parser Generated.SrcParser_prepare_retrospective_simulation.
Import ListNotations.
Open Scope Z_scope.

Theorem parser_prepare_retrospective_simulation_fields : forall f, In f (pr_fields ++ logging_fields) -> declares src_parser_prepare_retrospective_simulation f.
Proof. apply declares_all. vm_compute. reflexivity. Qed.

Theorem parser_prepare_retrospective_simulation_dests_derived : dests_derived src_parser_prepare_retrospective_simulation.
Proof. apply dests_derived_sound. vm_compute. reflexivity. Qed.

Theorem parser_prepare_retrospective_simulation_dests_distinct : dests_distinct src_parser_prepare_retrospective_simulation.
Proof. apply dests_distinct_sound. vm_compute. reflexivity. Qed.

Theorem parser_prepare_retrospective_simulation_seed : seed_declared src_parser_prepare_retrospective_simulation.
Proof. apply seed_declaredb_sound. vm_compute. reflexivity. Qed.

Theorem parser_prepare_retrospective_simulation_params : params_kv src_parser_prepare_retrospective_simulation.
Proof. apply params_kvb_sound. vm_compute. reflexivity. Qed.

Theorem parser_prepare_retrospective_simulation_fraction : fraction_declared src_parser_prepare_retrospective_simulation.
Proof. apply fraction_declaredb_sound. vm_compute. reflexivity. Qed.
