(* C14, one piece of Proofs/C14Source.v (conventions and objects: see there): the attribute properties of ScreenSubset *)
From Coq Require Import ZArith List Bool Arith Lia ZifyBool.
From Batchie Require Import Lib.Sexp Lib.PyRt Model.Encode Model.Screen Model.Views Generated.SrcViews
  Proofs.PyRtLemmas Proofs.C14Lists.
Import ListNotations.
Open Scope Z_scope.

(* ---------------- attribute properties: parent.attr[self.selection_vector] ---------------- *)
Theorem src_view_attrs_are_model : forall v : view,
  src_view_plate_ids v = Ok (view_pids v) /\
  src_view_sample_ids v = Ok (view_sids v) /\
  src_view_treatment_ids v = Ok (view_tids v) /\
  src_view_sample_names v = Ok (view_sample_names v) /\
  src_view_observations v = Ok (view_obs v) /\
  src_view_observation_mask v = Ok (view_mask v) /\
  (* the two 2-d arrays: the view's (name, dose) pairs, split, with the parent's number of columns *)
  src_view_treatment_names v = Ok (s_arity (v_parent v), map (map fst) (view_treats v)) /\
  src_view_treatment_doses v = Ok (s_arity (v_parent v), map (map snd) (view_treats v)) /\
  (* not row-wise: handed through from the parent *)
  src_view_control_treatment_name v = Ok (s_ctrl (v_parent v)) /\
  src_view_treatment_mapping v = Ok (s_tmap (v_parent v)) /\
  src_view_sample_mapping v = Ok (s_smap (v_parent v)) /\
  src_view_plate_mapping v = Ok (s_pmap (v_parent v)).
Proof.
  intros v. repeat split; try reflexivity.
  - unfold src_view_treatment_names, select2, screen_treatment_names, view_treats. cbn [fst snd view_screen].
    now rewrite <- select_map, map_map.
  - unfold src_view_treatment_doses, select2, screen_treatment_doses, view_treats. cbn [fst snd view_screen].
    now rewrite <- select_map, map_map.
Qed.
