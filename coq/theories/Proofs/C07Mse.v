(* C07 proofs, part 3: the MSE metric is symmetric, non-negative and zero on identical
   predictions, for every expit oracle. *)
From Coq Require Import ZArith List QArith Qcanon Lia Arith.
From Batchie Require Import Lib.Sexp Lib.Num Lib.NumP Model.Mse.
Import ListNotations.
Open Scope Qc_scope.

Lemma sqdiffs_sym a : forall b, sqdiffs a b = sqdiffs b a.
Proof.
  induction a as [|x a IH]; intros [|y b]; cbn [sqdiffs combine map]; try reflexivity.
  unfold sqdiffs in IH. rewrite IH. f_equal. unfold qsq; cbn [fst snd]. ring.
Qed.

Lemma sqdiffs_length a b : length (sqdiffs a b) = Nat.min (length a) (length b).
Proof. unfold sqdiffs. now rewrite map_length, combine_length. Qed.

Theorem mse_symmetric orc sg a b : mse_distance orc sg a b = mse_distance orc sg b a.
Proof.
  unfold mse_distance. rewrite (Nat.eqb_sym (length b)).
  destruct (Nat.eqb (length a) (length b)) eqn:E; cbn [negb]; [|reflexivity].
  apply Nat.eqb_eq in E.
  destruct a as [|x a], b as [|y b]; try discriminate; [reflexivity|].
  now rewrite sqdiffs_sym.
Qed.

Lemma sqdiffs_nonneg a b : Forall (fun x => 0 <= x) (sqdiffs a b).
Proof.
  unfold sqdiffs. apply Forall_forall. intros x Hx. apply in_map_iff in Hx as (p & <- & _).
  apply Qc_sq_nonneg.
Qed.

Theorem mse_nonneg orc sg a b v : mse_distance orc sg a b = Ok v -> 0 <= v.
Proof.
  unfold mse_distance. destruct (negb _); [discriminate|].
  destruct a as [|x a]; [discriminate|]. intros H. inversion H; subst. unfold qmean, Qcdiv.
  apply Qc_mul_nonneg; [apply qsum_nonneg, sqdiffs_nonneg|apply Qc_inv_nonneg, qlen_nonneg].
Qed.

Lemma sqdiffs_self a : Forall (fun x => x = 0) (sqdiffs a a).
Proof.
  induction a as [|x a IH]; cbn [sqdiffs combine map]; constructor; [|exact IH].
  unfold qsq; cbn [fst snd]. ring.
Qed.

Theorem mse_zero_on_identical orc sg a : a <> [] -> mse_distance orc sg a a = Ok 0.
Proof.
  intros Hne. unfold mse_distance. rewrite Nat.eqb_refl. cbn [negb].
  destruct a as [|x a]; [congruence|]. f_equal. unfold qmean.
  rewrite qsum_zero by apply sqdiffs_self. unfold Qcdiv. ring.
Qed.
