(* C14, one piece of Proofs/C14SourceHelpers.v (which see): filter_dataset_to_unique_treatments on a ScreenSubset *)
From Coq Require Import ZArith List Bool Arith Lia ZifyBool.
From Batchie Require Import Lib.Sexp Lib.PyRt Generated.Consts Model.Encode Model.Screen Model.Views
  Generated.SrcEncode Generated.SrcViews Generated.SrcPlates
  Proofs.PyRtLemmas Proofs.C01Sort Proofs.C14Defs Proofs.C14Lists Proofs.C14Unique
  Proofs.C14Source_Base Proofs.C14Source_ViewSubset Proofs.C14SourceHelpers_Base Proofs.C14SourceHelpers_ViewArity Proofs.C14SourceHelpers_SelectUnique.
Import ListNotations.
Open Scope Z_scope.

Theorem src_filter_unique_view_is_model : forall v : view, src_filter_unique_view v = filter_unique_view v.
Proof.
  intros v. unfold src_filter_unique_view, filter_unique_view, unique_cols.
  change (src_view_sample_ids v) with (Ok (view_sids v)). cbn [res_bind].
  rewrite src_view_treatment_arity_is_model. cbn [res_bind].
  unfold zrange. rewrite Nat2Z.id.
  rewrite (append_columns_loop (s_arity (v_parent v)) (view_tids v)) by (reflexivity || lia). cbn [res_bind app].
  rewrite src_select_unique_is_model.
  destruct (select_unique (view_sids v :: map (fun i => column 0 i (view_tids v)) (seq 0 (s_arity (v_parent v))))) as [m|t];
    cbn [res_bind]; [|reflexivity].
  rewrite src_view_subset_is_model, res_bind_ok. reflexivity.
Qed.
