(* C19 — the invocation level: one call seen with its return value, one invocation of main()
   (calls repeated while the previous one returned True), and sessions of invocations with the
   operator's screens, on canonical trees. *)
From Coq Require Import ZArith List Bool Lia Arith.
From Batchie Require Import Model.Orchestrate Proofs.C19Base Proofs.C19Canon Proofs.C19Step Proofs.C19Main.
Import ListNotations.
Open Scope Z_scope.

(* ---------- facts that hold on every tree (no reachability needed) ---------- *)

Lemma attempt_done_iff md fixed bs n f e :
  snd (attempt md fixed bs n f e) = GDone <-> plan_of md fixed bs f = PDone.
Proof.
  unfold attempt. destruct (plan_of md fixed bs f) as [w s| |acts]; cbn [snd].
  - split; discriminate.
  - tauto.
  - split; [|discriminate]. destruct (e_k e <? 4)%nat; cbn [snd]; [discriminate|].
    destruct (nth 3 acts (AFail 0)); cbn [snd]; discriminate.
Qed.

Lemma plan_done_iff md fixed bs f :
  plan_of md fixed bs f = PDone <->
  md = Retro /\ exists i j m scr, examine fixed bs f = XOk (i, j, Some m, scr) /\ m <= 0.
Proof.
  unfold plan_of. destruct (examine fixed bs f) as [[[[i j] meta] scr]|w s].
  - destruct md.
    + destruct meta as [m|].
      * destruct (Z.leb_spec m 0) as [Hm|Hm].
        -- split; [intros _|reflexivity]. split; [reflexivity|]. exists i, j, m, scr. auto.
        -- split.
           ++ destruct ((i =? 0) && (j =? 0)); [discriminate|]. destruct (j =? 0).
              ** destruct (has_training f (0, 0)); [destruct scr|]; discriminate.
              ** discriminate.
           ++ intros (_ & i' & j' & m' & scr' & E & Hm'). injection E as _ _ Em _. lia.
      * split.
        -- destruct ((i =? 0) && (j =? 0)); [discriminate|]. destruct (j =? 0).
           ++ destruct (has_training f (0, 0)); [destruct scr|]; discriminate.
           ++ discriminate.
        -- intros (_ & i' & j' & m' & scr' & E & _). discriminate.
    + split; [destruct (j =? 0); discriminate|]. intros [E _]. discriminate.
  - split; [discriminate|]. intros (_ & i & j & m & scr & E & _). discriminate.
Qed.

(* retrospective: a call returns False exactly when the metadata of the last completed step, as
   read back from the output directory, says that no unobserved plates remain *)
Lemma retro_returns_false_iff fixed bs n f e :
  call_returns Retro bs (snd (attempt Retro fixed bs n f e)) = Some false <->
  exists i j m scr, examine fixed bs f = XOk (i, j, Some m, scr) /\ m <= 0.
Proof.
  split.
  - intros H.
    assert (Hg : snd (attempt Retro fixed bs n f e) = GDone).
    { destruct (snd (attempt Retro fixed bs n f e)) as [| | | |s l ps ok]; cbn [call_returns] in H; try discriminate; [reflexivity|].
      destruct ok; discriminate. }
    apply attempt_done_iff, plan_done_iff in Hg. tauto.
  - intros H. assert (Hp : plan_of Retro fixed bs f = PDone) by (apply plan_done_iff; auto).
    apply attempt_done_iff with (n := n) (e := e) in Hp. now rewrite Hp.
Qed.

(* structure of an invocation: it consumes a prefix of the schedule, one entry per call, and is
   the script_run of that prefix; all calls but the last returned True *)
Lemma invocation_split md fixed bs n : forall sched f,
  let r := invocation md fixed bs n f sched in
  exists used,
    sched = used ++ r_rest r /\
    script_run md fixed bs n f used = (r_fs r, r_calls r) /\
    length used = length (r_calls r) /\
    (sched <> [] -> used <> []).
Proof.
  induction sched as [|e rest IH]; intros f; cbn [invocation].
  - exists []. cbn. repeat split. congruence.
  - destruct (attempt md fixed bs n f e) as [f1 g] eqn:Ea.
    destruct (call_returns md bs g) as [[|]|].
    + destruct (IH f1) as (used & E1 & E2 & E3 & _). cbn [r_fs r_calls r_end r_rest].
      exists (e :: used). cbn [app script_run length]. rewrite Ea, E2, <- E1, E3. repeat split. discriminate.
    + exists [e]. cbn [app script_run r_fs r_calls r_rest length]. rewrite Ea. repeat split. discriminate.
    + exists [e]. cbn [app script_run r_fs r_calls r_rest length]. rewrite Ea. repeat split. discriminate.
Qed.

Lemma invocation_calls md fixed bs n : forall sched f,
  let r := invocation md fixed bs n f sched in
  match r_end r with
  | IExhausted => Forall (fun g => call_returns md bs g = Some true) (r_calls r) /\ r_rest r = []
  | IReturned => exists pre g, r_calls r = pre ++ [g] /\ Forall (fun g => call_returns md bs g = Some true) pre
                               /\ call_returns md bs g = Some false
  | IRaised => exists pre g, r_calls r = pre ++ [g] /\ Forall (fun g => call_returns md bs g = Some true) pre
                             /\ call_returns md bs g = None
  end.
Proof.
  induction sched as [|e rest IH]; intros f; cbn [invocation].
  - cbn. auto.
  - destruct (attempt md fixed bs n f e) as [f1 g] eqn:Ea.
    destruct (call_returns md bs g) as [[|]|] eqn:Ec.
    + specialize (IH f1). cbn zeta in IH. cbn [r_fs r_calls r_end r_rest].
      destruct (r_end (invocation md fixed bs n f1 rest)).
      * destruct IH as (pre & g' & E & Hp & Hg). exists (g :: pre), g'. rewrite E. repeat split; auto.
      * destruct IH as (pre & g' & E & Hp & Hg). exists (g :: pre), g'. rewrite E. repeat split; auto.
      * destruct IH as [Hp Hr]. split; auto.
    + exists [], g. cbn. auto.
    + exists [], g. cbn. auto.
Qed.

Lemma script_run_app md fixed bs n : forall s1 s2 f,
  script_run md fixed bs n f (s1 ++ s2)
  = let '(f1, g1) := script_run md fixed bs n f s1 in
    let '(f2, g2) := script_run md fixed bs n f1 s2 in (f2, g1 ++ g2).
Proof.
  induction s1 as [|e s1 IH]; intros s2 f; cbn [app script_run].
  - now destruct (script_run md fixed bs n f s2).
  - destruct (attempt md fixed bs n f e) as [f1 g]. rewrite IH.
    destruct (script_run md fixed bs n f1 s1) as [f2 g2].
    now destruct (script_run md fixed bs n f2 s2).
Qed.

(* a session is the script_run of its schedule, cut into invocations *)
Lemma session_flat md fixed bs n : forall fuel sched f, (length sched <= fuel)%nat ->
  fst (session fuel md fixed bs n f sched) = fst (script_run md fixed bs n f sched) /\
  concat (map i_calls (snd (session fuel md fixed bs n f sched))) = snd (script_run md fixed bs n f sched).
Proof.
  induction fuel as [|fuel IH]; intros sched f Hlen.
  - destruct sched; [cbn; auto|cbn in Hlen; lia].
  - destruct sched as [|e rest]; [cbn; auto|].
    cbn [session]. set (r := invocation md fixed bs n f (e :: rest)).
    destruct (invocation_split md fixed bs n (e :: rest) f) as (used & E1 & E2 & E3 & E4). fold r in E1, E2, E3.
    specialize (E4 ltac:(discriminate)).
    assert (Hl : (length (r_rest r) <= fuel)%nat).
    { apply (f_equal (@length _)) in E1. rewrite app_length in E1. cbn [length] in E1, Hlen.
      destruct used; [congruence|]. cbn [length] in E1. lia. }
    destruct (IH (r_rest r) (r_fs r) Hl) as [H1 H2].
    destruct (session fuel md fixed bs n (r_fs r) (r_rest r)) as [f2 recs]. cbn [fst snd] in *.
    rewrite E1, script_run_app, E2.
    destruct (script_run md fixed bs n (r_fs r) (r_rest r)) as [f3 g3]. cbn [fst snd map concat i_calls] in *.
    subst. auto.
Qed.

Section Inv.
Variables (md : mode) (bs n : nat) (fixed : bool).
Hypothesis Hbs : (1 <= bs)%nat.
Hypothesis Hn : (1 <= n)%nat.
Hypothesis Hfix : fixed = true \/ bs = 1%nat.

Local Notation ip := (ip md bs n).
Local Notation canon := (canon md bs n).
Local Notation B := (Z.of_nat bs).

Let dm_spec := dm_spec bs n Hbs Hn.
Let dm_succ := dm_succ bs n Hbs Hn.
Let dm_unique := dm_unique bs n Hbs Hn.

Lemma mdc : md = Retro \/ md = Prosp.
Proof. destruct md; auto. Qed.
Lemma mdr {A} (a b : A) : md = Retro -> match md with Retro => a | Prosp => b end = a.
Proof. now intros ->. Qed.
Lemma mdp {A} (a b : A) : md = Prosp -> match md with Retro => a | Prosp => b end = b.
Proof. now intros ->. Qed.

(* ---------- one call, with everything the invocation level needs ---------- *)
Lemma complete_ip c : complete_run md (ideal_launch md bs c) (ip c) = true.
Proof.
  unfold complete_run, C19Canon.ip, ideal_pdir, ideal_launch. destruct md.
  - destruct c as [|c'].
    + rewrite Nat.mod_0_l by lia. reflexivity.
    + destruct (S c' mod bs)%nat; reflexivity.
  - destruct (c mod bs)%nat; reflexivity.
Qed.

Lemma attempt_canon2 c x e :
  okx c x -> (md = Retro -> (c <= n)%nat) -> entry_ok e = true ->
  exists c' x' g,
    attempt md fixed B n (canon c x) e = (canon c' x', g)
    /\ okx c' x' /\ (md = Retro -> (c' <= n)%nat) /\ log_ok md bs c g
    /\ ((c' = c /\ (forall s l ps, g <> GLaunch s l ps true) /\ (is_inc x = false -> g = GDone -> x' = x))
        \/ (c' = S c /\ x' = XNone /\ exists ps, g = GLaunch (step_of bs c) (ideal_launch md bs c) ps true)).
Proof.
  intros Hx Hcn He. unfold attempt. rewrite (plan_canon md bs n Hbs Hn fixed c x Hx Hfix Hcn).
  apply andb_true_iff in He as [Hcov Hml].
  destruct (is_inc x) eqn:Einc.
  { destruct x as [| |d]; try discriminate. exists c, XEmptyIter, (GNamed 1 (step_of bs c)).
    rewrite (rmtree_canon_inc md bs n Hbs Hn). repeat split; auto. left. repeat split; try discriminate. }
  assert (Hx' : forall d, x <> XIncomplete d) by (intros d ->; discriminate).
  assert (F1 : rmtree (step_of bs c) (canon c x) = canon c x) by (now apply (rmtree_canon md bs n Hbs Hn)).
  assert (F2 : mk_iter (Z.of_nat (c / bs)) (canon c x) = canon c XEmptyIter).
  { rewrite (mk_iter_canon md bs n Hbs Hn). destruct x; try reflexivity. discriminate. }
  pose proof (mk_plate_canon md bs n Hbs Hn c) as F3.
  assert (Eplan : match x with
                  | XIncomplete _ => PNamed 1 (step_of bs c)
                  | _ => if match md with Retro => (n <=? c)%nat | Prosp => false end then PDone else PActs (acts_of md bs c)
                  end = if match md with Retro => (n <=? c)%nat | Prosp => false end then PDone else PActs (acts_of md bs c))
    by (destruct x; try reflexivity; discriminate).
  rewrite Eplan. clear Eplan.
  destruct (match md with Retro => (n <=? c)%nat | Prosp => false end) eqn:Edone.
  { exists c, x, GDone. repeat split; auto. left. repeat split; try discriminate. }
  unfold acts_of. cbn [firstn nth].
  destruct (e_k e) as [|[|[|[|k']]]] eqn:Ek; cbn [Nat.ltb Nat.leb firstn fold_left apply_action].
  - exists c, x, (GStopped 0). repeat split; auto. left. repeat split; discriminate.
  - exists c, x, (GStopped 1). rewrite F1. repeat split; auto. left. repeat split; discriminate.
  - exists c, XEmptyIter, (GStopped 2). rewrite F1, F2. repeat split; auto. left. repeat split; discriminate.
  - exists c, (XIncomplete empty_pdir), (GStopped 3). rewrite F1, F2, F3. repeat split; auto. left. repeat split; discriminate.
  - rewrite F1, F2, F3. cbn [Nat.sub]. rewrite ?Nat.sub_0_r.
    rewrite (upd_plate_canon md bs n Hbs Hn), (publish_all_canon md bs n Hbs Hn).
    set (l := ideal_launch md bs c). set (s := step_of bs c).
    set (o := outputs n (canon c (XIncomplete empty_pdir)) l).
    set (allp := pubs_of o (e_order e)).
    assert (Hml' : marker_last allp = true) by (apply marker_last_filter; exact Hml).
    assert (Hdec : can_complete md bs n c \/ (md = Prosp /\ (n <= c mod bs)%nat)).
    { unfold can_complete. destruct mdc as [E|E].
      - left. rewrite (mdr _ _ E). rewrite (mdr _ _ E) in Edone. apply Nat.leb_gt in Edone. exact Edone.
      - rewrite (mdp _ _ E). destruct (lt_dec (c mod bs) n); [now left|right; split; [exact E|lia]]. }
    destruct Hdec as [Hcan|[Emd Hstuck]].
    + assert (Ho : o = ip c) by (apply (outputs_canon md bs n Hbs Hn); exact Hcan).
      destruct (le_lt_dec (length allp) k') as [Hall|Hpart].
      * exists (S c), XNone. eexists. rewrite firstn_all2 by exact Hall.
        unfold allp. rewrite (pub_fold_all o l (e_order e) Hcov) by (rewrite Ho; apply (ip_by md bs n Hbs Hn)).
        rewrite Ho, (canon_complete md bs n Hbs Hn). split; [reflexivity|]. split; [exact I|]. split.
        { intros E. unfold can_complete in Hcan. rewrite (mdr _ _ E) in Hcan. lia. }
        split; [split; reflexivity|]. right. split; [reflexivity|]. split; [reflexivity|].
        eexists. f_equal. fold allp. rewrite <- Ho. fold allp.
        replace (length allp <=? k')%nat with true by (symmetry; apply Nat.leb_le; exact Hall).
        rewrite Ho. unfold l. now rewrite complete_ip.
      * exists c. eexists. eexists. split; [reflexivity|]. split.
        { cbn [C19Canon.okx]. apply pub_fold_meta_none; [reflexivity|]. right. apply marker_last_prefix; assumption. }
        split; [exact Hcn|]. split; [split; reflexivity|]. left. split; [reflexivity|]. split; [|discriminate].
        intros s' l' ps' E. injection E as _ _ _ E.
        replace (length allp <=? k')%nat with false in E by (symmetry; apply Nat.leb_gt; exact Hpart). discriminate.
    + exists c. eexists. eexists. split; [reflexivity|]. split.
      { cbn [C19Canon.okx]. apply pub_fold_meta_none; [reflexivity|]. left. now apply (outputs_stuck md bs n Hbs Hn). }
      split; [exact Hcn|]. split; [split; reflexivity|]. left. split; [reflexivity|]. split; [|discriminate].
      intros s' l' ps' E. injection E as _ _ _ E.
      assert (Hcr : complete_run md l o = false).
      { pose proof (outputs_stuck md bs n Hbs Hn c empty_pdir Emd Hstuck) as Hm. fold l in Hm. fold o in Hm.
        unfold complete_run, l, ideal_launch. rewrite (mdp _ _ Emd).
        destruct (c mod bs)%nat as [|j'] eqn:EJ; [lia|]. cbn [expected forallb produced]. rewrite Hm.
        now rewrite !andb_false_r. }
      rewrite Hcr, andb_false_r in E. discriminate.
Qed.


(* ---------- the invariant, refined: retrospective, all n steps complete -> nothing incomplete ---------- *)
Definition Inv2 (c : nat) (x : extra) : Prop :=
  okx c x /\ (md = Retro -> (c <= n)%nat /\ (c = n -> is_inc x = false)).

Lemma inv2_init : Inv2 0 XNone.
Proof. split; [exact I|]. intros _. split; [lia|reflexivity]. Qed.

Lemma attempt_all_done c x e : md = Retro -> okx c x -> is_inc x = false -> c = n ->
  attempt md fixed B n (canon c x) e = (canon c x, GDone).
Proof.
  intros Emd Hx Hi Hc. unfold attempt. rewrite (plan_canon md bs n Hbs Hn fixed c x Hx Hfix) by (intros _; lia).
  rewrite (mdr _ _ Emd). subst c. rewrite Nat.leb_refl. destruct x; try reflexivity. discriminate.
Qed.

Lemma attempt_done_canon c x e :
  okx c x -> (md = Retro -> (c <= n)%nat) ->
  snd (attempt md fixed B n (canon c x) e) = GDone -> md = Retro /\ (n <= c)%nat.
Proof.
  intros Hx Hcn Hg. apply attempt_done_iff in Hg.
  rewrite (plan_canon md bs n Hbs Hn fixed c x Hx Hfix Hcn) in Hg.
  assert (Hm : match md with Retro => (n <=? c)%nat | Prosp => false end = true).
  { destruct x; try discriminate; destruct (match md with Retro => (n <=? c)%nat | Prosp => false end); auto; discriminate. }
  destruct md; [|discriminate]. split; [reflexivity|]. now apply Nat.leb_le.
Qed.

Lemma inv2_attempt c x e :
  Inv2 c x -> entry_ok e = true ->
  exists c' x' g,
    attempt md fixed B n (canon c x) e = (canon c' x', g)
    /\ Inv2 c' x' /\ log_ok md bs c g
    /\ ((c' = c /\ forall s l ps, g <> GLaunch s l ps true)
        \/ (c' = S c /\ x' = XNone /\ exists ps, g = GLaunch (step_of bs c) (ideal_launch md bs c) ps true))
    /\ (g = GDone -> md = Retro /\ c = n /\ c' = c).
Proof.
  intros [Hx Hr] He.
  assert (Hcn : md = Retro -> (c <= n)%nat) by (intros E; now destruct (Hr E)).
  destruct (attempt_canon2 c x e Hx Hcn He) as (c' & x' & g & Ea & Hx' & Hcn' & Hlog & Hd).
  assert (Hdone : g = GDone -> md = Retro /\ (n <= c)%nat).
  { intros Eg. apply (attempt_done_canon c x e Hx Hcn). now rewrite Ea. }
  exists c', x', g. split; [exact Ea|]. split; [|split; [exact Hlog|split]].
  - split; [exact Hx'|]. intros Emd. split; [auto|]. intros Ec'.
    destruct Hd as [(-> & _ & Hsame)|(_ & -> & _)]; [|reflexivity].
    destruct (Hr Emd) as [_ Hni]. specialize (Hni Ec').
    pose proof (attempt_all_done c x e Emd Hx Hni Ec') as Ea2. rewrite Ea2 in Ea. injection Ea as _ Eg.
    rewrite (Hsame Hni (eq_sym Eg)). exact Hni.
  - destruct Hd as [(E & Hno & _)|H]; [left; auto|right; exact H].
  - intros Eg. destruct (Hdone Eg) as [Emd Hle]. split; [exact Emd|]. specialize (Hcn Emd). split; [lia|].
    destruct Hd as [(E & _)|(_ & _ & ps & E)]; [exact E|congruence].
Qed.

Lemma inv2_run : forall sched c x, sched_ok sched -> Inv2 c x ->
  exists c' x', fst (script_run md fixed B n (canon c x) sched) = canon c' x' /\ Inv2 c' x'.
Proof.
  induction sched as [|e r IH]; intros c x Hs Hi; [exists c, x; auto|].
  inversion Hs as [|? ? He Hr]; subst. cbn [script_run].
  destruct (inv2_attempt c x e Hi He) as (c1 & x1 & g & Ea & Hi1 & _). rewrite Ea.
  destruct (IH c1 x1 Hr Hi1) as (c2 & x2 & E & Hi2).
  destruct (script_run md fixed B n (canon c1 x1) r) as [f2 gs]. cbn [fst] in *. eauto.
Qed.

(* ---------- the operator's screen on canonical trees ---------- *)
Lemma op_screen_canon c x : okx c x -> op_screen md B (canon c x) = ideal_screen md bs c.
Proof.
  intros Hx. unfold op_screen, ideal_screen. destruct mdc as [E|E]; [now rewrite !(mdr _ _ E)|rewrite !(mdp _ _ E)].
  rewrite (completed_canon md bs n Hbs Hn c x Hx). unfold zlen.
  rewrite (ideal_length md bs n). now rewrite Nat2Z.inj_div.
Qed.

Lemma op_screen_prosp_canon c x : okx c x -> op_screen Prosp B (canon c x) = Z.of_nat (c / bs).
Proof.
  intros Hx. unfold op_screen. rewrite (completed_canon md bs n Hbs Hn c x Hx). unfold zlen.
  rewrite (ideal_length md bs n). now rewrite Nat2Z.inj_div.
Qed.

(* the operator's screen index is the iteration the script is about to work on (or complains about) *)
Lemma op_screen_examine c x : okx c x ->
  match examine fixed B (canon c x) with
  | XOk (i, _, _, _) => op_screen Prosp B (canon c x) = i
  | XNamed _ s => op_screen Prosp B (canon c x) = fst s
  end.
Proof.
  intros Hx. rewrite (examine_canon md bs n Hbs Hn fixed c x Hx Hfix), (op_screen_prosp_canon c x Hx).
  destruct x as [| |d]; try reflexivity; (destruct c as [|c']; [now rewrite Nat.div_0_l by lia|reflexivity]).
Qed.

(* ---------- one invocation from a canonical tree ---------- *)
Definition launch_in (c0 : nat) (g : logitem) : Prop :=
  match g with
  | GLaunch s l _ _ => exists k, (c0 <= k)%nat /\ s = step_of bs k /\ l = ideal_launch md bs k
                                 /\ (md = Prosp -> (k / bs = c0 / bs)%nat)
  | GFail _ => False
  | _ => True
  end.

Lemma call_true_inv g : call_returns md B g = Some true ->
  exists s l ps, g = GLaunch s l ps true /\ (md = Prosp -> snd s < B - 1).
Proof.
  destruct g as [| | | |s l ps ok]; cbn [call_returns]; try discriminate.
  destruct ok; [|discriminate]. intros E. exists s, l, ps. split; [reflexivity|].
  intros Emd. rewrite (mdp _ _ Emd) in E. injection E as E. now apply Z.ltb_lt.
Qed.

Lemma call_false_retro g : md = Retro -> call_returns md B g = Some false -> g = GDone.
Proof.
  intros Emd. destruct g as [| | | |s l ps ok]; cbn [call_returns]; try discriminate; [reflexivity|].
  destruct ok; [|discriminate]. rewrite (mdr _ _ Emd). discriminate.
Qed.

Lemma div_same_batch c : Z.of_nat (c mod bs) < B - 1 -> (S c / bs = c / bs /\ S c mod bs = S (c mod bs))%nat.
Proof. intros H. destruct (dm_succ c) as [(H1 & H2 & H3)|(H1 & H2 & H3)]; [lia|tauto]. Qed.

Lemma invocation_canon : forall sched c x, sched_ok sched -> Inv2 c x ->
  let r := invocation md fixed B n (canon c x) sched in
  exists c' x', r_fs r = canon c' x' /\ Inv2 c' x' /\ (c <= c')%nat
    /\ Forall (launch_in c) (r_calls r) /\ sched_ok (r_rest r)
    /\ (md = Retro -> r_end r = IReturned -> c' = n).
Proof.
  induction sched as [|e rest IH]; intros c x Hs Hi; cbn [invocation].
  - exists c, x. cbn [r_fs r_calls r_end r_rest]. split; [reflexivity|]. split; [exact Hi|]. split; [lia|].
    split; [constructor|]. split; [constructor|]. intros _ H. discriminate H.
  - inversion Hs as [|? ? He Hr]; subst.
    destruct (inv2_attempt c x e Hi He) as (c1 & x1 & g & Ea & Hi1 & Hlog & Hd & Hdone). rewrite Ea.
    assert (Hg : launch_in c g).
    { destruct g as [| | | |s l ps ok]; cbn [launch_in log_ok] in *; auto.
      destruct Hlog as [-> ->]. exists c. repeat split; auto. }
    assert (Hle : (c <= c1)%nat) by (destruct Hd as [[-> _]|[-> _]]; lia).
    destruct (call_returns md B g) as [[|]|] eqn:Ec.
    + destruct (call_true_inv g Ec) as (s & l & ps & Eg & Hlt).
      destruct Hd as [[_ Hno]|(-> & -> & ps' & Eg')]; [now apply Hno in Eg|].
      destruct (IH (S c) XNone Hr Hi1) as (c' & x' & E & Hi' & Hle' & Hl & Hs' & Hret). cbn zeta in *.
      cbn [r_fs r_calls r_end r_rest]. exists c', x'. split; [exact E|]. split; [exact Hi'|]. split; [lia|].
      split; [|split; [exact Hs'|exact Hret]]. constructor; [exact Hg|].
      eapply Forall_impl; [|exact Hl]. intros g' Hg'.
      destruct g' as [| | | |s' l' ps'' ok']; cbn [launch_in] in *; auto.
      destruct Hg' as (k & Hk & Es & El & Hp). exists k. split; [lia|]. split; [exact Es|]. split; [exact El|].
      intros Emd. rewrite (Hp Emd). rewrite Eg in Eg'. injection Eg' as Es' _ _. subst s.
      specialize (Hlt Emd). unfold step_of in Hlt. cbn [snd] in Hlt. now destruct (div_same_batch c Hlt).
    + cbn [r_fs r_calls r_end r_rest]. exists c1, x1. split; [reflexivity|]. split; [exact Hi1|]. split; [exact Hle|].
      split; [constructor; [exact Hg|constructor]|]. split; [exact Hr|].
      intros Emd _. destruct (Hdone (call_false_retro g Emd Ec)) as (_ & E1 & E2). lia.
    + cbn [r_fs r_calls r_end r_rest]. exists c1, x1. split; [reflexivity|]. split; [exact Hi1|]. split; [exact Hle|].
      split; [constructor; [exact Hg|constructor]|]. split; [exact Hr|]. intros _ H. discriminate H.
Qed.

(* ---------- sessions ---------- *)
Definition rec_ok (rc : irec) : Prop :=
  exists c0, i_screen rc = ideal_screen md bs c0 /\ Forall (launch_in c0) (i_calls rc).

Lemma session_canon : forall fuel sched c x, sched_ok sched -> Inv2 c x ->
  exists c' x', fst (session fuel md fixed B n (canon c x) sched) = canon c' x' /\ Inv2 c' x'
    /\ Forall rec_ok (snd (session fuel md fixed B n (canon c x) sched)).
Proof.
  induction fuel as [|fuel IH]; intros sched c x Hs Hi.
  - exists c, x. cbn. auto.
  - destruct sched as [|e rest]; [exists c, x; cbn; auto|]. cbn [session].
    destruct (invocation_canon (e :: rest) c x Hs Hi) as (c1 & x1 & E1 & Hi1 & _ & Hl & Hs1 & _). cbn zeta in *.
    set (r := invocation md fixed B n (canon c x) (e :: rest)) in *.
    rewrite E1. destruct (IH (r_rest r) c1 x1 Hs1 Hi1) as (c2 & x2 & E2 & Hi2 & Hrecs).
    destruct (session fuel md fixed B n (canon c1 x1) (r_rest r)) as [f2 recs]. cbn [fst snd] in *.
    exists c2, x2. split; [exact E2|]. split; [exact Hi2|]. constructor; [|exact Hrecs].
    exists c. cbn [i_screen i_calls]. split; [|exact Hl]. apply op_screen_canon. now destruct Hi.
Qed.

Lemma ideal_screen_same k c0 : (md = Prosp -> (k / bs = c0 / bs)%nat) -> ideal_screen md bs k = ideal_screen md bs c0.
Proof. unfold ideal_screen. destruct md; [reflexivity|]. intros H. now rewrite H. Qed.

Lemma rec_ok_launches rc : rec_ok rc ->
  forall s r l, In (s, r, l) (launches_of_rec rc) -> exists k, (s, r, l) = ideal_stamped md bs k.
Proof.
  intros (c0 & Escr & Hl) s r l Hin. unfold launches_of_rec in Hin. apply in_flat_map in Hin as (g & Hg & Hin).
  rewrite Forall_forall in Hl. specialize (Hl g Hg).
  destruct g as [| | | |s' l' ps ok]; cbn [In] in Hin; try tauto. destruct Hin as [E|[]]. injection E as -> <- ->.
  destruct Hl as (k & _ & -> & -> & Hp). exists k. unfold ideal_stamped. now rewrite Escr, (ideal_screen_same k c0 Hp).
Qed.

(* ---------- an invocation that is not interrupted ---------- *)
Definition launch_key (g : logitem) : option (step * launch * bool) :=
  match g with GLaunch s l _ ok => Some (s, l, ok) | _ => None end.
Definition ideal_key (c : nat) : option (step * launch * bool) := Some (step_of bs c, ideal_launch md bs c, true).

Lemma attempt_full_log c x e :
  okx c x -> is_inc x = false -> can_complete md bs n c -> (md = Retro -> (c < n)%nat) ->
  entry_ok e = true -> full_entry e ->
  exists ps, attempt md fixed B n (canon c x) e
             = (canon (S c) XNone, GLaunch (step_of bs c) (ideal_launch md bs c) ps true).
Proof.
  intros Hx Hi Hcan Hcn He Hf.
  assert (Hx' : forall d, x <> XIncomplete d) by (intros d ->; discriminate).
  pose proof (attempt_full md bs n Hbs Hn fixed c x e Hx Hfix Hx' Hcan Hcn He Hf) as Hfst.
  destruct (attempt_canon2 c x e Hx (fun E => Nat.lt_le_incl _ _ (Hcn E)) He) as (c' & x' & g & Ea & Hx2 & _ & _ & Hd).
  rewrite Ea in Hfst |- *. cbn [fst] in Hfst.
  destruct Hd as [(-> & _)|(-> & -> & ps & ->)]; [|eauto].
  exfalso. apply (f_equal completed) in Hfst.
  rewrite !(completed_canon md bs n Hbs Hn) in Hfst by (exact Hx2 || exact I).
  apply (f_equal (@length _)) in Hfst. rewrite !(ideal_length md bs n) in Hfst. lia.
Qed.

Lemma invocation_full_prosp e : md = Prosp -> entry_ok e = true -> full_entry e -> (bs <= n)%nat ->
  forall m c x rest, okx c x -> is_inc x = false -> (c mod bs + m = bs)%nat -> (1 <= m)%nat ->
  let r := invocation md fixed B n (canon c x) (repeat e m ++ rest) in
  r_fs r = canon (c + m) XNone /\ r_end r = IReturned /\ r_rest r = rest
  /\ map launch_key (r_calls r) = map ideal_key (seq c m).
Proof.
  intros Emd He Hf Hbn. induction m as [|m IH]; intros c x rest Hx Hi Hm H1; [lia|].
  cbn [repeat app invocation].
  assert (Hcan : can_complete md bs n c) by (unfold can_complete; rewrite (mdp _ _ Emd); lia).
  destruct (attempt_full_log c x e Hx Hi Hcan ltac:(congruence) He Hf) as (ps & Ea). rewrite Ea.
  cbn [call_returns]. rewrite (mdp _ _ Emd). change (snd (step_of bs c)) with (Z.of_nat (c mod bs)).
  destruct (Z.ltb_spec (Z.of_nat (c mod bs)) (B - 1)) as [Hlt|Hge].
  - destruct (div_same_batch c Hlt) as [_ Hmod].
    specialize (IH (S c) XNone rest I eq_refl ltac:(lia) ltac:(lia)). cbn zeta in IH.
    destruct IH as (E1 & E2 & E3 & E4). cbn [r_fs r_calls r_end r_rest].
    rewrite E1, E2, E3. split; [f_equal; lia|]. split; [reflexivity|]. split; [reflexivity|].
    cbn [map seq launch_key]. now rewrite E4.
  - assert (m = 0)%nat by lia. subst m. cbn [r_fs r_calls r_end r_rest repeat app].
    split; [f_equal; lia|]. split; [reflexivity|]. split; reflexivity.
Qed.

Lemma invocation_full_retro e e' : md = Retro -> entry_ok e = true -> full_entry e ->
  forall m c x rest, okx c x -> is_inc x = false -> (c + m = n)%nat ->
  let r := invocation md fixed B n (canon c x) (repeat e m ++ e' :: rest) in
  completed (r_fs r) = ideal md bs n n /\ r_end r = IReturned /\ r_rest r = rest
  /\ map launch_key (r_calls r) = map ideal_key (seq c m) ++ [None].
Proof.
  intros Emd He Hf. induction m as [|m IH]; intros c x rest Hx Hi Hm.
  - cbn [repeat app invocation]. rewrite (attempt_all_done c x e' Emd Hx Hi) by lia.
    cbn [call_returns r_fs r_calls r_end r_rest]. rewrite (completed_canon md bs n Hbs Hn c x Hx).
    replace c with n by lia. repeat split.
  - cbn [repeat app invocation].
    assert (Hcan : can_complete md bs n c) by (unfold can_complete; rewrite (mdr _ _ Emd); lia).
    destruct (attempt_full_log c x e Hx Hi Hcan ltac:(intros _; lia) He Hf) as (ps & Ea). rewrite Ea.
    cbn [call_returns]. rewrite (mdr _ _ Emd).
    specialize (IH (S c) XNone rest I eq_refl ltac:(lia)). cbn zeta in IH.
    destruct IH as (E1 & E2 & E3 & E4). cbn [r_fs r_calls r_end r_rest].
    rewrite E1, E2, E3. split; [reflexivity|]. split; [reflexivity|]. split; [reflexivity|].
    cbn [map seq launch_key app]. now rewrite E4.
Qed.

(* ---------- the execution that is never interrupted, as a session ---------- *)
Lemma launches_of_keys scr en : forall calls ks,
  map launch_key calls = map ideal_key ks ->
  launches_of_rec (mki scr calls en) = map (fun k => (step_of bs k, scr, ideal_launch md bs k)) ks.
Proof.
  unfold launches_of_rec. cbn [i_calls i_screen].
  induction calls as [|g calls IH]; intros [|k ks] E; cbn [map] in E; try discriminate; [reflexivity|].
  injection E as Eg E. cbn [flat_map map]. rewrite (IH ks E).
  destruct g as [| | | |s l ps ok]; cbn [launch_key] in Eg; try discriminate.
  unfold ideal_key in Eg. injection Eg as -> -> _. reflexivity.
Qed.

Lemma session_full_prosp e : md = Prosp -> entry_ok e = true -> full_entry e -> (bs <= n)%nat ->
  forall q fuel q0, (q <= fuel)%nat ->
  let sr := session fuel md fixed B n (canon (q0 * bs) XNone) (repeat e (q * bs)) in
  fst sr = canon ((q0 + q) * bs) XNone
  /\ launches_of (snd sr) = map (ideal_stamped md bs) (seq (q0 * bs) (q * bs))
  /\ map i_screen (snd sr) = map Z.of_nat (seq q0 q)
  /\ Forall (fun rc => length (i_calls rc) = bs /\ i_end rc = IReturned) (snd sr).
Proof.
  intros Emd He Hf Hbn. induction q as [|q IH]; intros fuel q0 Hq.
  - cbn [Nat.mul repeat]. rewrite Nat.add_0_r. destruct fuel; cbn; auto.
  - destruct fuel as [|fuel]; [lia|].
    replace (S q * bs)%nat with (bs + q * bs)%nat by lia. rewrite repeat_app.
    assert (Hne : exists t, repeat e bs ++ repeat e (q * bs) = e :: t).
    { destruct bs as [|b]; [lia|]. cbn [repeat app]. eauto. }
    destruct Hne as (t & Et).
    assert (Hmod : ((q0 * bs) mod bs = 0)%nat) by (apply Nat.mod_mul; lia).
    pose proof (invocation_full_prosp e Emd He Hf Hbn bs (q0 * bs)%nat XNone (repeat e (q * bs)) I eq_refl
                  ltac:(lia) Hbs) as Hinv.
    cbn zeta in Hinv. destruct Hinv as (E1 & E2 & E3 & E4).
    cbn zeta. rewrite Et. cbn [session]. rewrite <- Et. rewrite E1, E2, E3.
    replace (q0 * bs + bs)%nat with (S q0 * bs)%nat by lia.
    specialize (IH fuel (S q0) ltac:(lia)). cbn zeta in IH. destruct IH as (I1 & I2 & I3 & I4).
    destruct (session fuel md fixed B n (canon (S q0 * bs) XNone) (repeat e (q * bs))) as [f2 recs].
    cbn [fst snd] in *. split; [rewrite I1; f_equal; lia|]. split; [|split].
    + unfold launches_of in *. cbn [flat_map]. rewrite I2, (launches_of_keys _ _ _ _ E4).
      rewrite seq_app, map_app. f_equal; [|do 2 f_equal; lia].
      apply map_ext_in. intros k Hk. apply in_seq in Hk. unfold ideal_stamped. do 2 f_equal.
      rewrite (op_screen_canon (q0 * bs) XNone I). unfold ideal_screen. rewrite !(mdp _ _ Emd).
      f_equal. rewrite Nat.div_mul by lia.
      destruct (dm_unique q0 (k - q0 * bs)) as [Hd _]; [lia|].
      replace (q0 * bs + (k - q0 * bs))%nat with k in Hd by lia. now rewrite Hd.
    + cbn [map seq i_screen]. rewrite I3. f_equal.
      rewrite (op_screen_canon (q0 * bs) XNone I). unfold ideal_screen. rewrite (mdp _ _ Emd).
      now rewrite Nat.div_mul by lia.
    + constructor; [|exact I4]. cbn [i_calls i_end]. split; [|reflexivity].
      apply (f_equal (@length _)) in E4. now rewrite !map_length, seq_length in E4.
Qed.

End Inv.
