(* C13 / C11, one piece of Proofs/C13SourceHelpers.v (representation and side conditions: see there): plate.unique_sample_ids *)
From Coq Require Import ZArith List Bool Arith Lia ZifyBool.
From Batchie Require Import Lib.Sexp Lib.PyRt Generated.Consts Model.Encode Model.Screen Model.Views Model.Retro Model.RetroHoldout
  Generated.SrcEncode Generated.SrcViews Generated.SrcPlates
  Proofs.PyRtLemmas Proofs.C01Sort Proofs.C01Encode Proofs.C14Defs Proofs.C14Lists Proofs.C14Unique Proofs.C14Views
  Proofs.C14ToScreen
  Proofs.C14SourceHelpers_ViewUniqueSamples Proofs.C13SourceHelpers_Base.
Import ListNotations.
Open Scope nat_scope.

(* ---------------- plate.unique_sample_ids: the ranks of plate_unique_samples ---------------- *)

(* plate.unique_sample_ids of a plate of a screen with fresh sample ids: the ranks (among the screen's sorted sample names) of
   [plate_unique_samples] - so `len(...) != 1` and `...[0]` in _get_plate_sample_id speak of the same sample *)
Theorem src_view_unique_sample_ids_are_plate_unique_samples : forall v : view, sample_ids_fresh (v_parent v) ->
  src_view_unique_sample_ids v
  = Ok (map (rank_in (sample_names (s_rows (v_parent v)))) (plate_unique_samples (v_sel v) (s_rows (v_parent v)))).
Proof.
  intros v (m & Hm). rewrite src_view_unique_sample_ids_is_model. f_equal.
  unfold view_unique_sids, view_sids, plate_unique_samples, sample_names.
  rewrite (fresh_ids_are_ranks _ _ _ _ Hm), !select_map, select_vselect.
  apply sort_uniq_ranks; [apply (sort_uniq_sorted name_cmp name_cmp_spec)|].
  intros x Hx. apply (sort_uniq_In name_cmp name_cmp_spec). apply in_map_iff in Hx. destruct Hx as (r & <- & Hr).
  apply in_map. eapply In_vselect. exact Hr.
Qed.
