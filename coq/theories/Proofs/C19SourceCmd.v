(* C19: the four run_* command builders of nextflow/scripts/batchie.py, re-translated from /repo on every run
   (Generated/SrcOrchCmd.v, configurations C19_RUN_* of harness/src_functions.py), build exactly the command lines that denote
   the model's launches LInit / LFirst / LProsp / LNext: the launch primitive launch_cmd of the run_next_* links is a theorem. *)
From Coq Require Import ZArith List Bool Lia.
From Coq Require DecimalNat DecimalFacts.
From Batchie Require Import Lib.Sexp Lib.PyRt Model.Orchestrate Generated.SrcOrchCmd.
Import ListNotations.
Open Scope Z_scope.

Lemma all_words_app a b :
  all_words (a ++ b) = match all_words a with
                       | Some x => match all_words b with Some y => Some (x ++ y) | None => None end
                       | None => None
                       end.
Proof.
  induction a as [|[w|] a IH]; cbn [app all_words].
  - destruct (all_words b); reflexivity.
  - rewrite IH. destruct (all_words a); [destruct (all_words b)|]; reflexivity.
  - reflexivity.
Qed.

Lemma all_words_extra extra : all_words (map extra_word extra) = Some (map WExtra extra).
Proof. induction extra as [|x l IH]; cbn [map all_words extra_word]; [reflexivity|]. now rewrite IH. Qed.

Lemma excludes_of_extra extra r : excludes_of (map WExtra extra ++ r) = excludes_of r.
Proof. induction extra as [|x l IH]; cbn [map app excludes_of]; [reflexivity | exact IH]. Qed.

Lemma step_eqb_refl s : step_eqb s s = true.
Proof. unfold step_eqb. now rewrite !Z.eqb_refl. Qed.

(* run_initial_plate: `nextflow run main.nf --mode retrospective --screen S --name N --outdir D --initialize true -work-dir D/work`
   + extra words = the launch LInit S of the job directory D; a None screen is a TypeError before anything is started *)
Theorem src_run_initial_plate_is_model : forall acts o scr nm extra,
  src_run_initial_plate acts o scr nm extra = launch_cmd acts o (option_map LInit scr).
Proof.
  intros acts o scr nm extra. unfold src_run_initial_plate, join_words, check_call.
  rewrite all_words_app, all_words_extra. destruct scr as [p|]; reflexivity.
Qed.

Theorem src_run_first_batch_plate_is_model : forall acts o tr te nm extra,
  src_run_first_batch_plate acts o tr te nm extra = launch_cmd acts o (first_cmd tr te).
Proof.
  intros acts o tr te nm extra. unfold src_run_first_batch_plate, join_words, check_call.
  rewrite all_words_app, all_words_extra. destruct tr as [p|]; [destruct te as [q|]|]; reflexivity.
Qed.

Theorem src_run_first_prospective_batch_plate_is_model : forall acts o scr nm extra,
  src_run_first_prospective_batch_plate acts o scr nm extra = launch_cmd acts o (option_map LProsp scr).
Proof.
  intros acts o scr nm extra. unfold src_run_first_prospective_batch_plate, join_words, check_call.
  rewrite all_words_app, all_words_extra. destruct scr as [p|]; reflexivity.
Qed.

(* run_subsequent_batch_plate, with the two glob patterns of ONE job directory t (both come from the dict
   get_theta_and_dist_chunks(t) returns): the launch LNext S t excludes; excludes=None puts no --excludes word *)
Theorem src_run_subsequent_batch_plate_is_model : forall acts o scr t nm extra excl,
  src_run_subsequent_batch_plate acts o scr (TGlob t) (DGlob t) nm extra excl = launch_cmd acts o (next_cmd scr t excl).
Proof.
  intros acts o scr t nm extra excl. unfold src_run_subsequent_batch_plate, join_words, check_call.
  destruct excl as [l|]; cbn [is_some sunwrap sbind].
  - rewrite !all_words_app, all_words_extra. destruct scr as [p|]; [|reflexivity].
    cbn. rewrite step_eqb_refl, excludes_of_extra. reflexivity.
  - rewrite !all_words_app, all_words_extra. destruct scr as [p|]; [|reflexivity].
    cbn. rewrite step_eqb_refl, <- (app_nil_r (map WExtra extra)), excludes_of_extra. reflexivity.
Qed.

(* ================= dir_sort_key ================= *)
Lemma uint_of_chars_chars u : uint_of_chars (uint_chars u) = Some u.
Proof. induction u; cbn [uint_chars uint_of_chars]; try reflexivity; rewrite IHu; reflexivity. Qed.

Lemma uint_chars_no_sep u : Forall (fun c => c <> 95) (uint_chars u).
Proof. induction u; cbn [uint_chars]; constructor; (lia || assumption). Qed.

Lemma to_uint_nonnil i : Nat.to_uint i <> Decimal.Nil.
Proof.
  pose proof (DecimalNat.Unsigned.to_of (Nat.to_uint i)) as H. rewrite DecimalNat.Unsigned.of_to in H.
  rewrite H. apply DecimalFacts.unorm_nonnil.
Qed.

Lemma int_of_str_numeral i : int_of_str (uint_chars (Nat.to_uint i)) = SOk (Z.of_nat i).
Proof.
  unfold int_of_str. rewrite uint_of_chars_chars, DecimalNat.Unsigned.of_to.
  destruct (uint_chars (Nat.to_uint i)) eqn:E; [|reflexivity].
  exfalso. apply (to_uint_nonnil i). destruct (Nat.to_uint i); cbn [uint_chars] in E; (reflexivity || discriminate E).
Qed.

Lemma split_on_no_sep sep s : Forall (fun c => c <> sep) s -> split_on sep s = [s].
Proof.
  induction 1 as [|c r Hc _ IH]; cbn [split_on]; [reflexivity|].
  destruct (Z.eqb_spec c sep) as [E|_]; [contradiction|]. now rewrite IH.
Qed.

Lemma split_on_numbered sep pre s :
  Forall (fun c => c <> sep) pre -> Forall (fun c => c <> sep) s -> split_on sep (pre ++ sep :: s) = [pre; s].
Proof.
  intros Hp Hs. induction Hp as [|c r Hc _ IH]; cbn [app split_on].
  - rewrite Z.eqb_refl. now rewrite split_on_no_sep.
  - destruct (Z.eqb_spec c sep) as [E|_]; [contradiction|]. now rewrite IH.
Qed.

(* the translated dir_sort_key on any path whose last component is "<prefix>_<decimal numeral of i>" (prefix without "_") *)
Theorem src_dir_sort_key_numbered : forall (dir : fspath) (pre : str) (i : nat),
  Forall (fun c => c <> 95) pre -> src_dir_sort_key (dir ++ [numbered pre i]) = SOk (Z.of_nat i).
Proof.
  intros dir pre i Hp. unfold src_dir_sort_key, basename, numbered. rewrite last_last.
  rewrite (split_on_numbered 95 pre _ Hp (uint_chars_no_sep _)). cbn [snth nth_error sbind].
  now rewrite int_of_str_numeral.
Qed.

Lemma no_sep_iter : Forall (fun c => c <> 95) S_iter.
Proof. repeat constructor; discriminate. Qed.
Lemma no_sep_plate : Forall (fun c => c <> 95) S_plate.
Proof. repeat constructor; discriminate. Qed.

(* the index primitives of examine's configuration (dir_sort_key(x) = iter_index x / plate_index x on the model value of the
   path) are what the translated dir_sort_key computes on the path's NAME *)
Theorem src_dir_sort_key_is_iter_index : forall (out : fspath) (d : iter_path),
  0 <= fst d -> src_dir_sort_key (iter_pathname out d) = SOk (iter_index d).
Proof.
  intros out d H. unfold iter_pathname, iter_index. rewrite (src_dir_sort_key_numbered out S_iter _ no_sep_iter).
  now rewrite Z2Nat.id.
Qed.

Theorem src_dir_sort_key_is_plate_index : forall (out : fspath) (p : plate_path),
  0 <= snd (fst p) -> src_dir_sort_key (plate_pathname out p) = SOk (plate_index p).
Proof.
  intros out p H. unfold plate_pathname, plate_index.
  change (out ++ [numbered S_iter (Z.to_nat (fst (fst p))); numbered S_plate (Z.to_nat (snd (fst p)))])
    with (out ++ [numbered S_iter (Z.to_nat (fst (fst p)))] ++ [numbered S_plate (Z.to_nat (snd (fst p)))]).
  rewrite app_assoc, (src_dir_sort_key_numbered _ S_plate _ no_sep_plate). now rewrite Z2Nat.id.
Qed.
