(* C19: the four run_* command builders of nextflow/scripts/batchie.py, re-translated from /repo on every run
   (Generated/SrcOrchCmd.v, configurations C19_RUN_* of harness/src_functions.py), build exactly the command lines that denote
   the model's launches LInit / LFirst / LProsp / LNext: the launch primitive launch_cmd of the run_next_* links is a theorem. *)
From Coq Require Import ZArith List Bool Lia.
From Batchie Require Import Lib.Sexp Lib.PyRt Model.Orchestrate Generated.SrcOrchCmd.
Import ListNotations.
Open Scope Z_scope.

Lemma all_words_app a b :
  all_words (a ++ b) = match all_words a with
                       | Some x => match all_words b with Some y => Some (x ++ y) | None => None end
                       | None => None
                       end.
Proof.
  induction a as [|[w|] a IH]; cbn [app all_words].
  - destruct (all_words b); reflexivity.
  - rewrite IH. destruct (all_words a); [destruct (all_words b)|]; reflexivity.
  - reflexivity.
Qed.

Lemma all_words_extra extra : all_words (map extra_word extra) = Some (map WExtra extra).
Proof. induction extra as [|x l IH]; cbn [map all_words extra_word]; [reflexivity|]. now rewrite IH. Qed.

Lemma excludes_of_extra extra r : excludes_of (map WExtra extra ++ r) = excludes_of r.
Proof. induction extra as [|x l IH]; cbn [map app excludes_of]; [reflexivity | exact IH]. Qed.

Lemma step_eqb_refl s : step_eqb s s = true.
Proof. unfold step_eqb. now rewrite !Z.eqb_refl. Qed.

(* run_initial_plate: `nextflow run main.nf --mode retrospective --screen S --name N --outdir D --initialize true -work-dir D/work`
   + extra words = the launch LInit S of the job directory D; a None screen is a TypeError before anything is started *)
Theorem src_run_initial_plate_is_model : forall acts o scr nm extra,
  src_run_initial_plate acts o scr nm extra = launch_cmd acts o (option_map LInit scr).
Proof.
  intros acts o scr nm extra. unfold src_run_initial_plate, join_words, check_call.
  rewrite all_words_app, all_words_extra. destruct scr as [p|]; reflexivity.
Qed.

Theorem src_run_first_batch_plate_is_model : forall acts o tr te nm extra,
  src_run_first_batch_plate acts o tr te nm extra = launch_cmd acts o (first_cmd tr te).
Proof.
  intros acts o tr te nm extra. unfold src_run_first_batch_plate, join_words, check_call.
  rewrite all_words_app, all_words_extra. destruct tr as [p|]; [destruct te as [q|]|]; reflexivity.
Qed.

Theorem src_run_first_prospective_batch_plate_is_model : forall acts o scr nm extra,
  src_run_first_prospective_batch_plate acts o scr nm extra = launch_cmd acts o (option_map LProsp scr).
Proof.
  intros acts o scr nm extra. unfold src_run_first_prospective_batch_plate, join_words, check_call.
  rewrite all_words_app, all_words_extra. destruct scr as [p|]; reflexivity.
Qed.

(* run_subsequent_batch_plate, with the two glob patterns of ONE job directory t (both come from the dict
   get_theta_and_dist_chunks(t) returns): the launch LNext S t excludes; excludes=None puts no --excludes word *)
Theorem src_run_subsequent_batch_plate_is_model : forall acts o scr t nm extra excl,
  src_run_subsequent_batch_plate acts o scr (TGlob t) (DGlob t) nm extra excl = launch_cmd acts o (next_cmd scr t excl).
Proof.
  intros acts o scr t nm extra excl. unfold src_run_subsequent_batch_plate, join_words, check_call.
  destruct excl as [l|]; cbn [is_some sunwrap sbind].
  - rewrite !all_words_app, all_words_extra. destruct scr as [p|]; [|reflexivity].
    cbn. rewrite step_eqb_refl, excludes_of_extra. reflexivity.
  - rewrite !all_words_app, all_words_extra. destruct scr as [p|]; [|reflexivity].
    cbn. rewrite step_eqb_refl, <- (app_nil_r (map WExtra extra)), excludes_of_extra. reflexivity.
Qed.
