(* C19 — the resume theorems on worlds with torn (present but unreadable) completion markers, for the script WITH the repair
   (tfix = true: an unreadable marker counts as a missing one; Model/Orchestrate.v, section "torn completion markers").
   Reachable worlds: a reachable tree of the atomic model (Proofs/C19Main.v: canon c x) whose only torn marker, if any, sits in
   the one incomplete directory - the next step's.  One call from such a world: the torn directory is named and removed, or the
   call is the atomic model's; a tearing interruption leaves the next step's directory incomplete with a torn marker. *)
From Coq Require Import ZArith List Bool Lia Arith.
From Batchie Require Import Model.Orchestrate Proofs.C19Base Proofs.C19Canon Proofs.C19Step Proofs.C19Main Proofs.C19Progress Proofs.C19Torn.
Import ListNotations.
Open Scope Z_scope.

Lemma step_eqb_eq a b : step_eqb a b = true -> a = b.
Proof.
  unfold step_eqb. destruct a, b. cbn [fst snd]. intros H. apply andb_true_iff in H as [H1 H2].
  apply Z.eqb_eq in H1, H2. congruence.
Qed.
Lemma step_eqb_same s : step_eqb s s = true.
Proof. unfold step_eqb. now rewrite !Z.eqb_refl. Qed.

Lemma plan_named_examine md fixed bs f w s : plan_of md fixed bs f = PNamed w s -> examine fixed bs f = XNamed w s.
Proof.
  unfold plan_of. destruct (examine fixed bs f) as [[[[i j] meta] scr]|w' s']; [|intros H; injection H as -> ->; reflexivity].
  destruct md.
  - destruct (match meta with Some m => m <=? 0 | None => false end); [discriminate|].
    destruct ((i =? 0) && (j =? 0)); [discriminate|]. destruct (j =? 0); [|discriminate].
    destruct (has_training f (0, 0)); [destruct scr|]; discriminate.
  - destruct (j =? 0); discriminate.
Qed.

Section TornResume.
Variables (md : mode) (bs n : nat) (fixed : bool).
Hypothesis Hbs : (1 <= bs)%nat.
Hypothesis Hn : (1 <= n)%nat.
Hypothesis Hfix : fixed = true \/ bs = 1%nat.

Local Notation canon := (canon md bs n).
Local Notation B := (Z.of_nat bs).

(* reachable worlds *)
Definition Inv_t (tf : tfs) : Prop :=
  exists c x, fst tf = canon c x /\ okx c x /\ (md = Retro -> (c <= n)%nat) /\
              (snd tf = [] \/ (snd tf = [step_of bs c] /\ exists d, x = XIncomplete d)).

Lemma inv_t_init : Inv_t ([], []).
Proof. exists O, XNone. cbn [fst snd]. rewrite (canon_0 md bs n Hbs Hn). repeat split; auto. lia. Qed.

Lemma inv_t_atomic tf : Inv_t tf -> Inv md bs n (fst tf).
Proof. intros (c & x & E & Hx & Hcn & _). exists c, x. auto. Qed.

Definition sched_ok_t (sched : list tentry) : Prop := Forall (fun te => entry_ok (te_e te) = true) sched.

(* what one call may do, seen from a world whose tree has completed steps 0..c-1: as call_ok; the script never raises *)
Definition call_ok_t (tf tf' : tfs) (g : logitem) : Prop := call_ok md bs n (fst tf) (fst tf') g.

Lemma clear_meta_none d : f_meta (clear_meta d) = None.
Proof. reflexivity. Qed.

Lemma completed_inc c d : okx c (XIncomplete d) -> completed (canon c (XIncomplete d)) = ideal md bs n c.
Proof. intros H. now apply (completed_canon md bs n Hbs Hn). Qed.

Lemma inv_t_attempt tf te :
  Inv_t tf -> entry_ok (te_e te) = true ->
  let r := attempt_t true md fixed B n tf te in
  Inv_t (fst r) /\ call_ok_t tf (fst r) (snd r).
Proof.
  intros (c & x & E & Hx & Hcn & Ht) He. destruct tf as [f torn]. cbn [fst snd] in E, Ht. subst f.
  cbn zeta. unfold call_ok_t. cbn [fst].
  pose proof (inv_attempt md bs n fixed Hbs Hn Hfix (canon c x) (te_e te) (ex_intro _ c (ex_intro _ x (conj eq_refl (conj Hx Hcn)))) He) as Hat.
  cbn zeta in Hat. destruct Hat as [Hinv Hcall].
  unfold attempt_t.
  destruct Ht as [->|(-> & d & ->)].
  - (* no torn marker: the atomic model's call, possibly followed by the tearing of the marker *)
    rewrite examine_t_nil. cbn [fst snd].
    pose proof (attempt_examine md fixed B n (canon c x) (te_e te)) as Hex.
    destruct (examine fixed B (canon c x)) as [[[[i j] meta] scr]|w s]; cbn [tres_of_xres].
    + clear Hex.
      pose proof (attempt_canon_launch md bs n Hbs Hn fixed c x (te_e te)) as Hl.
      destruct (attempt md fixed B n (canon c x) (te_e te)) as [f1 g] eqn:Ea. cbn [fst snd] in *.
      assert (Hplain : Inv_t (f1, []) /\ call_ok md bs n (canon c x) f1 g).
      { split; [|exact Hcall]. destruct Hinv as (c' & x' & -> & Hx' & Hcn'). exists c', x'. cbn [fst snd]. auto. }
      destruct g as [w s| |k|w|s l ps ok]; try (destruct k); cbn [untear filter]; try exact Hplain.
      destruct (te_torn te && last_is_meta ps && Nat.eqb (length ps) (e_k (te_e te) - 4));
        [|destruct (te_torn te && ok && Nat.eqb (S (length ps)) (e_k (te_e te) - 4)); exact Hplain].
      destruct (Hl s l ps ok Hx Hfix Hcn eq_refl) as (-> & d & ->).
      rewrite (upd_plate_canon md bs n Hbs Hn). cbn [fst snd]. split.
      * exists c, (XIncomplete (clear_meta d)). cbn [fst snd]. repeat split; auto. right. split; [reflexivity|]. eexists; reflexivity.
      * destruct Hcall as (c0 & Hc0 & _ & Hg). exists c0. split; [exact Hc0|]. split; [|exact Hg].
        left. rewrite (completed_inc c (clear_meta d)) by reflexivity.
        rewrite <- Hc0. symmetry. now apply (completed_canon md bs n Hbs Hn).
    + rewrite Hex in Hinv, Hcall. cbn [fst snd] in *. split; [|exact Hcall].
      destruct Hinv as (c' & x' & -> & Hx' & Hcn'). exists c', x'. cbn [fst snd]. auto.
  - (* the incomplete directory of the next step holds a torn marker: it is named, the operator removes it *)
    assert (Ep : plan_of md fixed B (canon c (XIncomplete d)) = PNamed 1 (step_of bs c))
      by (now rewrite (plan_canon md bs n Hbs Hn fixed c (XIncomplete d) Hx Hfix Hcn)).
    apply plan_named_examine in Ep.
    assert (Et : examine_t true fixed B (@pair fs torn_set (canon c (XIncomplete d)) [step_of bs c]) = TNamed 1 (step_of bs c)).
    { destruct (examine_t_repaired_cases fixed B (@pair fs torn_set (canon c (XIncomplete d)) [step_of bs c])) as [E|(s & E & Hs)]; rewrite E; cbn [fst snd] in *.
      - rewrite Ep. reflexivity.
      - cbn [is_torn existsb] in Hs. rewrite orb_false_r in Hs. apply step_eqb_eq in Hs. now subst s. }
    rewrite Et. cbn [fst snd untear filter]. rewrite step_eqb_same. cbn [negb].
    pose proof (attempt_examine md fixed B n (canon c (XIncomplete d)) (te_e te)) as Hex. rewrite Ep in Hex.
    rewrite Hex in Hinv, Hcall. cbn [fst snd] in *. split; [|exact Hcall].
    destruct Hinv as (c' & x' & -> & Hx' & Hcn'). exists c', x'. cbn [fst snd]. auto.
Qed.

Lemma inv_t_run : forall sched tf, sched_ok_t sched -> Inv_t tf ->
  Inv_t (fst (script_run_t true md fixed B n tf sched)).
Proof.
  induction sched as [|e r IH]; intros tf Hs Hf; [exact Hf|].
  inversion Hs as [|? ? He Hr]; subst. cbn [script_run_t].
  destruct (inv_t_attempt tf e Hf He) as [Hi _]. cbn zeta in Hi.
  destruct (attempt_t true md fixed B n tf e) as [tf1 g]. cbn [fst] in Hi.
  specialize (IH tf1 Hr Hi). destruct (script_run_t true md fixed B n tf1 r) as [tf2 gs]. exact IH.
Qed.

(* the log of a run from a reachable world never holds a failure that names nothing *)
Lemma no_fail_run : forall sched tf, sched_ok_t sched -> Inv_t tf ->
  forall w, ~ In (GFail w) (snd (script_run_t true md fixed B n tf sched)).
Proof.
  induction sched as [|e r IH]; intros tf Hs Hf w; [intros []|].
  inversion Hs as [|? ? He Hr]; subst. cbn [script_run_t].
  destruct (inv_t_attempt tf e Hf He) as [Hi Hc]. cbn zeta in Hi, Hc.
  destruct (attempt_t true md fixed B n tf e) as [tf1 g]. cbn [fst snd] in Hi, Hc.
  specialize (IH tf1 Hr Hi w). destruct (script_run_t true md fixed B n tf1 r) as [tf2 gs]. cbn [snd] in *.
  intros [->|H]; [|exact (IH H)]. destruct Hc as (c0 & _ & _ & Hg). exact Hg.
Qed.

(* the property on worlds with torn markers, for the repaired script: for EVERY schedule whose entries may also say "the
   interruption comes while the last file is being published" the completed steps are exactly the first ones of the
   never-interrupted run, and no call ever ends in an exception that names no directory *)
Theorem resume_correct_t sched :
  sched_ok_t sched ->
  let r := script_run_t true md fixed B n ([], []) sched in
  completed (fst (fst r)) = ideal md bs n (length (completed (fst (fst r)))) /\
  (md = Retro -> (length (completed (fst (fst r))) <= n)%nat) /\
  (forall w, ~ In (GFail w) (snd r)).
Proof.
  intros Hs. cbn zeta.
  pose proof (inv_t_run sched ([], []) Hs inv_t_init) as Hi.
  destruct (inv_completed md bs n Hbs Hn (fst (fst (script_run_t true md fixed B n ([], []) sched))) (inv_t_atomic _ Hi)) as [H1 H2].
  split; [exact H1|]. split; [exact H2|]. exact (no_fail_run sched ([], []) Hs inv_t_init).
Qed.

(* every single call along every such schedule is safe (C19_step_safe on worlds with torn markers) *)
Theorem step_safe_t sched te :
  sched_ok_t sched -> entry_ok (te_e te) = true ->
  let tf := fst (script_run_t true md fixed B n ([], []) sched) in
  let r := attempt_t true md fixed B n tf te in
  call_ok md bs n (fst tf) (fst (fst r)) (snd r).
Proof.
  intros Hs He. cbn zeta.
  destruct (inv_t_attempt _ te (inv_t_run sched ([], []) Hs inv_t_init) He) as [_ H]. exact H.
Qed.

(* a torn marker costs one call: the world a schedule leads to holds at most one torn marker, in the directory of the first
   step that is not complete, and the next call - whatever its entry - names exactly that directory (the operator removes it) *)
Theorem torn_marker_is_named sched te :
  sched_ok_t sched ->
  let tf := fst (script_run_t true md fixed B n ([], []) sched) in
  snd tf = [] \/
  (exists c, snd tf = [step_of bs c] /\ completed (fst tf) = ideal md bs n c /\
             let r := attempt_t true md fixed B n tf te in
             snd r = GNamed 1 (step_of bs c) /\ snd (fst r) = [] /\ completed (fst (fst r)) = ideal md bs n c).
Proof.
  intros Hs. cbn zeta.
  destruct (inv_t_run sched ([], []) Hs inv_t_init) as (c & x & E & Hx & Hcn & Ht).
  destruct (fst (script_run_t true md fixed B n ([], []) sched)) as [f torn]. cbn [fst snd] in *. subst f.
  destruct Ht as [->|(-> & d & ->)]; [left; reflexivity|right].
  exists c. split; [reflexivity|]. split; [now apply (completed_canon md bs n Hbs Hn)|].
  assert (Ep : plan_of md fixed B (canon c (XIncomplete d)) = PNamed 1 (step_of bs c))
    by (now rewrite (plan_canon md bs n Hbs Hn fixed c (XIncomplete d) Hx Hfix Hcn)).
  apply plan_named_examine in Ep.
  assert (Et : examine_t true fixed B (@pair fs torn_set (canon c (XIncomplete d)) [step_of bs c]) = TNamed 1 (step_of bs c)).
  { destruct (examine_t_repaired_cases fixed B (@pair fs torn_set (canon c (XIncomplete d)) [step_of bs c])) as [E|(s & E & Hs')]; rewrite E; cbn [fst snd] in *.
    - rewrite Ep. reflexivity.
    - cbn [is_torn existsb] in Hs'. rewrite orb_false_r in Hs'. apply step_eqb_eq in Hs'. now subst s. }
  unfold attempt_t. rewrite Et. cbn [fst snd untear filter]. rewrite step_eqb_same. cbn [negb].
  split; [reflexivity|]. split; [reflexivity|].
  rewrite (rmtree_canon_inc md bs n Hbs Hn). now apply (completed_canon md bs n Hbs Hn).
Qed.

Lemma attempt_t_torn_inc c d te :
  okx c (XIncomplete d) -> (md = Retro -> (c <= n)%nat) ->
  attempt_t true md fixed B n (@pair fs torn_set (canon c (XIncomplete d)) [step_of bs c]) te
  = ((canon c XEmptyIter, []), GNamed 1 (step_of bs c)).
Proof.
  intros Hx Hcn.
  assert (Ep : plan_of md fixed B (canon c (XIncomplete d)) = PNamed 1 (step_of bs c))
    by (now rewrite (plan_canon md bs n Hbs Hn fixed c (XIncomplete d) Hx Hfix Hcn)).
  apply plan_named_examine in Ep.
  assert (Et : examine_t true fixed B (@pair fs torn_set (canon c (XIncomplete d)) [step_of bs c]) = TNamed 1 (step_of bs c)).
  { destruct (examine_t_repaired_cases fixed B (@pair fs torn_set (canon c (XIncomplete d)) [step_of bs c])) as [E|(s & E & Hs')]; rewrite E; cbn [fst snd] in *.
    - rewrite Ep. reflexivity.
    - cbn [is_torn existsb] in Hs'. rewrite orb_false_r in Hs'. apply step_eqb_eq in Hs'. now subst s. }
  unfold attempt_t. rewrite Et. cbn [fst snd untear filter]. rewrite step_eqb_same. cbn [negb].
  now rewrite (rmtree_canon_inc md bs n Hbs Hn).
Qed.

End TornResume.

(* ---- progress of the retrospective mode on worlds with torn markers: as C19Progress, a torn marker costs the one call that
   names its directory - the same call an incomplete directory costs anyway ---- *)
Section TornProgress.
Variables (bs n : nat) (fixed : bool).
Hypothesis Hbs : (1 <= bs)%nat.
Hypothesis Hn : (1 <= n)%nat.
Hypothesis Hfix : fixed = true \/ bs = 1%nat.
Local Notation canon := (canon Retro bs n).
Local Notation B := (Z.of_nat bs).

Theorem retro_progress_t sched0 es :
  sched_ok_t sched0 -> Forall good es ->
  let tf := fst (script_run_t true Retro fixed B n ([], []) sched0) in
  let tf' := fst (script_run_t true Retro fixed B n tf (map whole es)) in
  completed (fst tf') = ideal Retro bs n (length (completed (fst tf'))) /\
  (Nat.min n (length (completed (fst tf)) + length es - 1) <= length (completed (fst tf')) <= n)%nat /\
  (es <> [] -> snd tf' = []).
Proof.
  intros Hs Hes. cbn zeta.
  destruct (inv_t_run Retro bs n fixed Hbs Hn Hfix sched0 ([], []) Hs (inv_t_init Retro bs n fixed Hbs Hn Hfix)) as (c & x & E & Hx & Hcn & Ht).
  destruct (fst (script_run_t true Retro fixed B n ([], []) sched0)) as [f torn]. cbn [fst snd] in *. subst f.
  specialize (Hcn eq_refl).
  destruct Ht as [->|(-> & d & ->)].
  - rewrite script_run_t_conservative. cbn zeta. cbn [fst snd].
    destruct (run_good_any bs n fixed Hbs Hn Hfix es c x Hes Hx Hcn) as (c' & x' & E' & Hx' & Hc' & Hge). rewrite E'.
    rewrite !(completed_canon Retro bs n Hbs Hn) by assumption. rewrite !(ideal_length Retro bs n). auto.
  - destruct es as [|e r].
    + cbn [map script_run_t fst snd length]. rewrite !(completed_canon Retro bs n Hbs Hn) by assumption.
      rewrite !(ideal_length Retro bs n). repeat split; try lia. congruence.
    + inversion Hes as [|? ? He Hr]; subst. cbn [map script_run_t].
      rewrite (attempt_t_torn_inc Retro bs n fixed Hbs Hn Hfix c d (whole e) Hx (fun _ => Hcn)).
      rewrite script_run_t_conservative. cbn zeta.
      destruct (run_good bs n fixed Hbs Hn Hfix r c XEmptyIter Hr I ltac:(intros d'; discriminate) Hcn) as (x' & E' & Hx' & _).
      destruct (script_run Retro fixed B n (canon c XEmptyIter) r) as [f2 gs]. cbn [fst snd] in *. subst f2.
      rewrite !(completed_canon Retro bs n Hbs Hn) by assumption. rewrite !(ideal_length Retro bs n).
      cbn [length]. repeat split; lia.
Qed.

(* n - c + 1 uninterrupted calls finish the simulation, torn marker or not *)
Theorem retro_rerun_finishes_t sched0 es :
  sched_ok_t sched0 -> Forall good es ->
  let tf := fst (script_run_t true Retro fixed B n ([], []) sched0) in
  (n + 1 <= length (completed (fst tf)) + length es)%nat ->
  completed (fst (fst (script_run_t true Retro fixed B n tf (map whole es)))) = crash_free Retro bs n.
Proof.
  intros Hs Hes. cbn zeta. intros Hlen.
  destruct (retro_progress_t sched0 es Hs Hes) as [E [[Hlo Hhi] _]]. cbn zeta in *.
  rewrite E. unfold crash_free. f_equal. lia.
Qed.

End TornProgress.
