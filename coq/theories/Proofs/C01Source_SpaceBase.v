(* C01, one piece of Proofs/C01Source.v (which see): auxiliary facts for the ExperimentSpace methods (boolean masks over the columns
   of a row list, `.item()`, setdiff1d against one value) that mention no translated function *)
From Coq Require Import ZArith List Bool Lia ZifyBool Arith Sorted.
From Batchie Require Import Lib.Sexp Lib.PyRt Generated.Consts Model.Encode Model.Screen Model.Persist
  Proofs.C01Sort Proofs.C01Encode Proofs.C01Source_Base.
Import ListNotations.
Open Scope Z_scope.

(* a[mask] where the array and the mask are two columns of ONE row list: the column of the rows the mask's test keeps *)
Lemma mask_of_columns {A B} (p : A -> bool) (f : A -> B) (l : list A) :
  map snd (filter fst (combine (map p l) (map f l))) = map f (filter p l).
Proof.
  induction l as [|a l IH]; [reflexivity|]. cbn [map combine filter fst snd].
  destruct (p a); cbn [map]; now rewrite IH.
Qed.

Lemma arr_mask_columns {A B} (p : A -> bool) (f : A -> B) (l : list A) :
  arr_mask (map f l) (map p l) = Ok (map f (filter p l)).
Proof. unfold arr_mask. now rewrite !map_length, Nat.eqb_refl, mask_of_columns. Qed.

(* np.setdiff1d(a, [v]) = the sorted distinct values of a other than v *)
Lemma setdiff1d_one a v : np_setdiff1d a [v] = sort_uniq Z.compare (filter (fun x => negb (x =? v)) a).
Proof. unfold np_setdiff1d. f_equal. apply filter_ext. intros x. cbn [existsb]. now rewrite orb_false_r. Qed.

Lemma setdiff1d_names_one a v : setdiff1d_names a [v] = sort_uniq name_cmp (filter (fun x => negb (name_eqb x v)) a).
Proof. unfold setdiff1d_names. f_equal. apply filter_ext. intros x. cbn [existsb]. now rewrite orb_false_r. Qed.

(* np.unique / np.sort of what is already sorted and duplicate-free *)
Lemma sort_uniq_idem_Z l : sort_uniq Z.compare (sort_uniq Z.compare l) = sort_uniq Z.compare l.
Proof. apply (sort_uniq_of_sorted _ Zcmp_spec), (sort_uniq_sorted _ Zcmp_spec). Qed.
Lemma sort_uniq_idem_name l : sort_uniq name_cmp (sort_uniq name_cmp l) = sort_uniq name_cmp l.
Proof. apply (sort_uniq_of_sorted _ name_cmp_spec), (sort_uniq_sorted _ name_cmp_spec). Qed.
Lemma np_sort_sort_uniq l : np_sort_Z (sort_uniq Z.compare l) = sort_uniq Z.compare l.
Proof. apply sort_by_of_sorted, (sort_uniq_sorted _ Zcmp_spec). Qed.

(* a key that occurs once: the filter on it keeps exactly its row *)
Section KeyFilter.
Context {A B : Type} (f : A -> B) (eqb : B -> B -> bool) (Heq : forall a b, eqb a b = true <-> a = b).

Lemma filter_none (l : list A) k : ~ In k (map f l) -> filter (fun x => eqb (f x) k) l = [].
Proof.
  induction l as [|x l IH]; intros Hn; [reflexivity|]. cbn [filter].
  destruct (eqb (f x) k) eqn:E.
  - exfalso. apply Heq in E. apply Hn. cbn [map In]. now left.
  - apply IH. intros Hin. apply Hn. cbn [map In]. now right.
Qed.

Lemma filter_unique_key (l : list A) e : NoDup (map f l) -> In e l -> filter (fun x => eqb (f x) (f e)) l = [e].
Proof.
  induction l as [|x l IH]; intros Hnd Hin; [contradiction|].
  cbn [map] in Hnd. inversion Hnd as [|? ? Hnot Hnd']; subst. cbn [filter]. destruct Hin as [->|Hin].
  - replace (eqb (f e) (f e)) with true by (symmetry; now apply Heq). now rewrite (filter_none l (f e) Hnot).
  - destruct (eqb (f x) (f e)) eqn:E; [|now apply IH].
    exfalso. apply Heq in E. apply Hnot. rewrite E. now apply in_map.
Qed.

Lemma filter_singleton_In (l : list A) k e : filter (fun x => eqb (f x) k) l = [e] -> In e l /\ f e = k.
Proof.
  intros H. assert (Hin : In e (filter (fun x => eqb (f x) k) l)) by (rewrite H; now left).
  apply filter_In in Hin as [Hin E]. split; [exact Hin|now apply Heq].
Qed.
End KeyFilter.

Lemma Zeqb_iff a b : (a =? b) = true <-> a = b.
Proof. apply Z.eqb_eq. Qed.
