(* C13: the smoother clauses stated on the unobserved plates of what smooth_plates returns. *)
From Coq Require Import ZArith List Bool Arith Lia Permutation.
From Batchie Require Import Lib.Sexp Model.Encode Model.Screen Model.Retro Model.Pairwise
  Proofs.C11Lib Proofs.C11Gen Proofs.C11Smooth Proofs.C11Select Proofs.C11Holdout
  Proofs.C13Wrap Proofs.C13Optimal Proofs.C13Size Proofs.C13NPlate.
Import ListNotations.
Open Scope nat_scope.

Lemma no_plates_nil : forall p, ~ In p (plate_names_of []).
Proof. intros p H. apply In_plate_names_of in H as (r & [] & _). Qed.

Theorem fixed_size_common_w : forall t rows ds out ds',
  smooth_plates (SFixed t) rows ds = Ok (out, ds') -> size_contract t (unobserved rows) ds ->
  forall p, In p (plate_names_of (unobserved out)) -> Z.of_nat (plate_count p (unobserved out)) = t.
Proof.
  intros t rows ds out ds' H HC p Hp. apply smooth_wrap_unobs in H as [[_ E]|H].
  - rewrite E in Hp. now apply no_plates_nil in Hp.
  - cbn [smooth_inner] in H. eapply fixed_size_common; eassumption.
Qed.

Theorem optimal_size_common_w : forall rows ds out ds',
  smooth_plates SOptimal rows ds = Ok (out, ds') ->
  size_contract (Z.of_nat (optimal_size (plate_sizes (unobserved rows)))) (unobserved rows) ds ->
  forall p, In p (plate_names_of (unobserved out)) ->
    plate_count p (unobserved out) = optimal_size (plate_sizes (unobserved rows)).
Proof.
  intros rows ds out ds' H HC p Hp. apply smooth_wrap_unobs in H as [[_ E]|H].
  - rewrite E in Hp. now apply no_plates_nil in Hp.
  - cbn [smooth_inner] in H. now apply (proj1 (optimal_size_common _ _ _ _ H HC)).
Qed.

Theorem nplate_minimum_w : forall m rows ds out ds',
  smooth_plates (SNPlate true m) rows ds = Ok (out, ds') ->
  forall s, In s (sample_names (unobserved out)) ->
    (m <= Z.of_nat (length (sample_plates s (unobserved out))))%Z.
Proof.
  intros m rows ds out ds' H s Hs. apply smooth_wrap_unobs in H as [[_ E]|H].
  - rewrite E in Hs. apply In_sample_names in Hs as (r & [] & _).
  - cbn [smooth_inner] in H. apply pure_sm_ok in H. eapply nplate_minimum; eassumption.
Qed.
