(* C08 proofs, part 8: the horseshoe steps of the sampler (_prec_V0_step, _prec_V2_step,
   _prec_V1_step: auxiliary of phi, phi, auxiliary of eta, eta) draw from the full conditionals of
   the complete joint density energy_hs of Model/GibbsSpec.v. *)
From Coq Require Import ZArith List QArith Qcanon Lia Arith Bool.
From Batchie Require Import Lib.Num Lib.NumP Model.Gibbs Model.GibbsSpec Proofs.C08Sums Proofs.C08Gauss Proofs.C08Misc Proofs.C08Mgp
  Proofs.C08HorseshoeAlg.
Import ListNotations.
Open Scope Qc_scope.

(* two states that agree on everything the joint density reads except (phi0, eta0) / (phi2, eta2) /
   (phi1, eta1); likewise for the auxiliaries *)
Definition off0 (s1 s2 : st) : Prop :=
  W s1 = W s2 /\ W0 s1 = W0 s2 /\ V2 s1 = V2 s2 /\ V1 s1 = V1 s2 /\ V0 s1 = V0 s2 /\ alpha s1 = alpha s2 /\
  prec s1 = prec s2 /\ tau s1 = tau s2 /\ tau0 s1 = tau0 s2 /\ gam s1 = gam s2 /\
  phi2 s1 = phi2 s2 /\ eta2 s1 = eta2 s2 /\ phi1 s1 = phi1 s2 /\ eta1 s1 = eta1 s2.
Definition off2 (s1 s2 : st) : Prop :=
  W s1 = W s2 /\ W0 s1 = W0 s2 /\ V2 s1 = V2 s2 /\ V1 s1 = V1 s2 /\ V0 s1 = V0 s2 /\ alpha s1 = alpha s2 /\
  prec s1 = prec s2 /\ tau s1 = tau s2 /\ tau0 s1 = tau0 s2 /\ gam s1 = gam s2 /\
  phi0 s1 = phi0 s2 /\ eta0 s1 = eta0 s2 /\ phi1 s1 = phi1 s2 /\ eta1 s1 = eta1 s2.
Definition off1 (s1 s2 : st) : Prop :=
  W s1 = W s2 /\ W0 s1 = W0 s2 /\ V2 s1 = V2 s2 /\ V1 s1 = V1 s2 /\ V0 s1 = V0 s2 /\ alpha s1 = alpha s2 /\
  prec s1 = prec s2 /\ tau s1 = tau s2 /\ tau0 s1 = tau0 s2 /\ gam s1 = gam s2 /\
  phi0 s1 = phi0 s2 /\ eta0 s1 = eta0 s2 /\ phi2 s1 = phi2 s2 /\ eta2 s1 = eta2 s2.
Definition offa0 (u1 u2 : aux) : Prop :=
  a_phi2 u1 = a_phi2 u2 /\ a_eta2 u1 = a_eta2 u2 /\ a_phi1 u1 = a_phi1 u2 /\ a_eta1 u1 = a_eta1 u2.
Definition offa2 (u1 u2 : aux) : Prop :=
  a_phi0 u1 = a_phi0 u2 /\ a_eta0 u1 = a_eta0 u2 /\ a_phi1 u1 = a_phi1 u2 /\ a_eta1 u1 = a_eta1 u2.
Definition offa1 (u1 u2 : aux) : Prop :=
  a_phi0 u1 = a_phi0 u2 /\ a_eta0 u1 = a_eta0 u2 /\ a_phi2 u1 = a_phi2 u2 /\ a_eta2 u1 = a_eta2 u2.

Ltac split_all := repeat match goal with |- _ /\ _ => split end; try reflexivity.

Section HS.
Variable ln : Qc -> Qc.
Variable g : cfg.
Variable d : data.
Notation D := (c_D g).
Notation ndd := (c_ndd g).

Ltac open_energy :=
  unfold energy_hs, energy, e_hs, e_hs_mat, e_lik, sse, spec_mean, e_W0, e_V0, e_W, e_Vk, e_hyper, blk0, blkK;
  cbn [W W0 V2 V1 V0 alpha prec tau tau0 phi2 phi1 phi0 eta2 eta1 eta0 gam Mu a_phi0 a_eta0 a_phi2 a_eta2 a_phi1 a_eta1].

(* the difference of the complete joint between two such states is carried by the factors that
   mention the group *)
Lemma energy_hs_diff0 j s1 s2 u1 u2 : off0 s1 s2 -> offa0 u1 u2 ->
  energy_hs ln j g d s1 u1 - energy_hs ln j g d s2 u2
  = blk0 ln j ndd (V0 s1) (phi0 s1) (eta0 s1) (a_phi0 u1) (a_eta0 u1)
    - blk0 ln j ndd (V0 s2) (phi0 s2) (eta0 s2) (a_phi0 u2) (a_eta0 u2).
Proof.
  destruct s1 as [sW sW0 sV2 sV1 sV0 sal spr stau stau0 sp2 sp1 sp0 se2 se1 se0 sgam sMu],
           s2 as [tW tW0 tV2 tV1 tV0 tal tpr ttau ttau0 tp2 tp1 tp0 te2 te1 te0 tgam tMu],
           u1 as [ua1 ua2 ua3 ua4 ua5 ua6], u2 as [ub1 ub2 ub3 ub4 ub5 ub6].
  unfold off0, offa0.
  cbn [W W0 V2 V1 V0 alpha prec tau tau0 phi2 phi1 phi0 eta2 eta1 eta0 gam Mu a_phi0 a_eta0 a_phi2 a_eta2 a_phi1 a_eta1].
  intros (-> & -> & -> & -> & -> & -> & -> & -> & -> & -> & -> & -> & -> & ->) (-> & -> & -> & ->).
  open_energy. ring.
Qed.

Lemma energy_hs_diff2 j s1 s2 u1 u2 : off2 s1 s2 -> offa2 u1 u2 ->
  energy_hs ln j g d s1 u1 - energy_hs ln j g d s2 u2
  = blkK ln j ndd D (V2 s1) (phi2 s1) (eta2 s1) (a_phi2 u1) (a_eta2 u1)
    - blkK ln j ndd D (V2 s2) (phi2 s2) (eta2 s2) (a_phi2 u2) (a_eta2 u2).
Proof.
  destruct s1 as [sW sW0 sV2 sV1 sV0 sal spr stau stau0 sp2 sp1 sp0 se2 se1 se0 sgam sMu],
           s2 as [tW tW0 tV2 tV1 tV0 tal tpr ttau ttau0 tp2 tp1 tp0 te2 te1 te0 tgam tMu],
           u1 as [ua1 ua2 ua3 ua4 ua5 ua6], u2 as [ub1 ub2 ub3 ub4 ub5 ub6].
  unfold off2, offa2.
  cbn [W W0 V2 V1 V0 alpha prec tau tau0 phi2 phi1 phi0 eta2 eta1 eta0 gam Mu a_phi0 a_eta0 a_phi2 a_eta2 a_phi1 a_eta1].
  intros (-> & -> & -> & -> & -> & -> & -> & -> & -> & -> & -> & -> & -> & ->) (-> & -> & -> & ->).
  open_energy. ring.
Qed.

Lemma energy_hs_diff1 j s1 s2 u1 u2 : off1 s1 s2 -> offa1 u1 u2 ->
  energy_hs ln j g d s1 u1 - energy_hs ln j g d s2 u2
  = blkK ln j ndd D (V1 s1) (phi1 s1) (eta1 s1) (a_phi1 u1) (a_eta1 u1)
    - blkK ln j ndd D (V1 s2) (phi1 s2) (eta1 s2) (a_phi1 u2) (a_eta1 u2).
Proof.
  destruct s1 as [sW sW0 sV2 sV1 sV0 sal spr stau stau0 sp2 sp1 sp0 se2 se1 se0 sgam sMu],
           s2 as [tW tW0 tV2 tV1 tV0 tal tpr ttau ttau0 tp2 tp1 tp0 te2 te1 te0 tgam tMu],
           u1 as [ua1 ua2 ua3 ua4 ua5 ua6], u2 as [ub1 ub2 ub3 ub4 ub5 ub6].
  unfold off1, offa1.
  cbn [W W0 V2 V1 V0 alpha prec tau tau0 phi2 phi1 phi0 eta2 eta1 eta0 gam Mu a_phi0 a_eta0 a_phi2 a_eta2 a_phi1 a_eta1].
  intros (-> & -> & -> & -> & -> & -> & -> & -> & -> & -> & -> & -> & -> & ->) (-> & -> & -> & ->).
  open_energy. ring.
Qed.

(* ---------------------------------------------------------------- the complete joint extends the
   conditional one: a move that leaves the horseshoe precisions alone has the same energy difference
   in both, so every Gaussian / gamma block theorem about [energy] is a theorem about [energy_hs] *)
Theorem energy_hs_extends j s1 s2 u :
  phi0 s1 = phi0 s2 -> eta0 s1 = eta0 s2 -> phi2 s1 = phi2 s2 -> eta2 s1 = eta2 s2 ->
  phi1 s1 = phi1 s2 -> eta1 s1 = eta1 s2 ->
  energy_hs ln j g d s1 u - energy_hs ln j g d s2 u = energy ln g d s1 - energy ln g d s2.
Proof.
  intros H1 H2 H3 H4 H5 H6. unfold energy_hs, e_hs. rewrite H1, H2, H3, H4, H5, H6. ring.
Qed.

(* the stability term is exactly an exponential tilt of the plain horseshoe model *)
Theorem energy_hs_tilt j s u :
  energy_hs ln j g d s u = energy_hs ln 0 g d s u + qofZ 2 * j * hs_total g s.
Proof.
  unfold energy_hs, e_hs, e_hs_mat, hs_total.
  rewrite !(e_hs_vec_tilt ln j), (e_hc_tilt ln j).
  rewrite (sumn_ext ndd (fun m => e_hs_vec ln j D (rnth (phi2 s) m) (rnth (a_phi2 u) m))
                        (fun m => e_hs_vec ln 0 D (rnth (phi2 s) m) (rnth (a_phi2 u) m)
                                  + qofZ 2 * j * sumn D (fun k => vnth (rnth (phi2 s) m) k)))
    by (intros m _; apply e_hs_vec_tilt).
  rewrite (sumn_ext ndd (fun m => e_hs_vec ln j D (rnth (phi1 s) m) (rnth (a_phi1 u) m))
                        (fun m => e_hs_vec ln 0 D (rnth (phi1 s) m) (rnth (a_phi1 u) m)
                                  + qofZ 2 * j * sumn D (fun k => vnth (rnth (phi1 s) m) k)))
    by (intros m _; apply e_hs_vec_tilt).
  rewrite !sumn_add, !sumn_scale. ring.
Qed.

Variable orc : oracle.
Hypothesis ln_mul : forall a b, 0 < a -> 0 < b -> ln (a * b) = ln a + ln b.

(* ================================================================ _prec_V0_step *)
(* first draw: the auxiliaries of phi0, jointly *)
Theorem hs_phiaux0 j s sh rates k :
  length (phi0 s) = ndd ->
  prog_prec_V0 g d orc s = Draw (DGammaVec sh rates) k ->
  forall u x x',
    energy_hs ln j g d s (set_a_phi0 u x) - energy_hs ln j g d s (set_a_phi0 u x')
    = sumn ndd (fun m => gform ln sh (vnth rates m) (vnth x m) (vnth x' m)).
Proof.
  intros Hl Hp u x x'. unfold prog_prec_V0 in Hp. inversion Hp; subst sh rates. clear Hp.
  rewrite energy_hs_diff0 by (unfold off0, offa0; split_all).
  cbn [set_a_phi0 a_phi0 a_eta0]. rewrite blk0_phiaux. apply sumn_ext; intros m Hm.
  rewrite vnth_map by lia. reflexivity.
Qed.

(* second draw: phi0, jointly, given the drawn auxiliaries a *)
Theorem hs_phi0 s d1 k1 a sh rates k2 :
  prog_prec_V0 g d orc s = Draw d1 k1 -> k1 (VV a) = Draw (DGammaVec sh rates) k2 ->
  0 < eta0 s ->
  forall u x x', (forall m, (m < ndd)%nat -> 0 < vnth x m) -> (forall m, (m < ndd)%nat -> 0 < vnth x' m) ->
    energy_hs ln jitter g d (set_phi0 s x) (set_a_phi0 u a) - energy_hs ln jitter g d (set_phi0 s x') (set_a_phi0 u a)
    = sumn ndd (fun m => gform ln sh (vnth rates m) (vnth x m) (vnth x' m)).
Proof.
  intros Hp Hk He u x x' Hx Hx'. unfold prog_prec_V0 in Hp. inversion Hp; subst d1 k1. clear Hp.
  cbv beta in Hk. inversion Hk; subst sh rates. clear Hk.
  rewrite energy_hs_diff0 by (unfold off0, offa0; split_all).
  cbn [set_phi0 set_a_phi0 a_phi0 a_eta0 V0 phi0 eta0 val_v].
  rewrite (blk0_phi ln jitter ln_mul) by assumption. apply sumn_ext; intros m Hm.
  rewrite vnth_tab by exact Hm. reflexivity.
Qed.

(* third draw: the auxiliary of eta0; only eta0 matters, which the phi update does not touch *)
Theorem hs_etaaux0 j s d1 k1 v1 d2 k2 v2 sh r k3 :
  prog_prec_V0 g d orc s = Draw d1 k1 -> k1 v1 = Draw d2 k2 -> k2 v2 = Draw (DGamma sh r) k3 ->
  forall s1 u t t', eta0 s1 = eta0 s ->
    energy_hs ln j g d s1 (set_a_eta0 u t) - energy_hs ln j g d s1 (set_a_eta0 u t') = gform ln sh r t t'.
Proof.
  intros Hp Hk1 Hk2 s1 u t t' He. unfold prog_prec_V0 in Hp. inversion Hp; subst d1 k1. clear Hp.
  cbv beta in Hk1. inversion Hk1; subst d2 k2. clear Hk1. cbv beta in Hk2. inversion Hk2; subst sh r. clear Hk2.
  rewrite energy_hs_diff0 by (unfold off0, offa0; split_all).
  cbn [set_a_eta0 a_phi0 a_eta0]. rewrite blk0_etaaux, He. reflexivity.
Qed.

(* fourth draw: eta0 given the drawn auxiliary b, in the state that holds the new phi0 *)
Theorem hs_eta0 s d1 k1 v1 d2 k2 v2 d3 k3 b sh r k4 v4 sfin :
  prog_prec_V0 g d orc s = Draw d1 k1 -> k1 v1 = Draw d2 k2 -> k2 v2 = Draw d3 k3 ->
  k3 (VQ b) = Draw (DGamma sh r) k4 -> k4 v4 = Ret sfin ->
  (forall m, (m < ndd)%nat -> 0 < vnth (phi0 sfin) m) ->
  forall u t t', 0 < t -> 0 < t' ->
    energy_hs ln jitter g d (set_eta0 sfin t) (set_a_eta0 u b) - energy_hs ln jitter g d (set_eta0 sfin t') (set_a_eta0 u b)
    = gform ln sh r t t'.
Proof.
  intros Hp Hk1 Hk2 Hk3 Hk4 Hpos u t t' Ht Ht'. unfold prog_prec_V0 in Hp. inversion Hp; subst d1 k1. clear Hp.
  cbv beta in Hk1. inversion Hk1; subst d2 k2. clear Hk1. cbv beta in Hk2. inversion Hk2; subst d3 k3. clear Hk2.
  cbv beta in Hk3. inversion Hk3; subst sh r k4. clear Hk3. cbv beta in Hk4. inversion Hk4; subst sfin. clear Hk4.
  rewrite energy_hs_diff0 by (unfold off0, offa0; split_all).
  cbn [set_eta0 set_phi0 set_a_eta0 a_phi0 a_eta0 V0 phi0 eta0 val_q] in Hpos |- *.
  rewrite (blk0_eta ln jitter ln_mul) by assumption. reflexivity.
Qed.

(* what the step stores: the clipped draws *)
Theorem hs_stored0 s d1 k1 v1 d2 k2 x d3 k3 v3 d4 k4 y sfin :
  prog_prec_V0 g d orc s = Draw d1 k1 -> k1 v1 = Draw d2 k2 -> k2 (VV x) = Draw d3 k3 ->
  k3 v3 = Draw d4 k4 -> k4 (VQ y) = Ret sfin ->
  eta0 sfin = clipC orc (nobs d) y /\ length (phi0 sfin) = ndd /\
  (forall m, (m < ndd)%nat -> vnth (phi0 sfin) m = clipC orc (n_occ d m) (vnth x m)) /\ off0 sfin s.
Proof.
  intros Hp Hk1 Hk2 Hk3 Hk4. unfold prog_prec_V0 in Hp. inversion Hp; subst d1 k1. clear Hp.
  cbv beta in Hk1. inversion Hk1; subst d2 k2. clear Hk1. cbv beta in Hk2. inversion Hk2; subst d3 k3. clear Hk2.
  cbv beta in Hk3. inversion Hk3; subst d4 k4. clear Hk3. cbv beta in Hk4. inversion Hk4; subst sfin. clear Hk4.
  cbn [set_eta0 set_phi0 eta0 phi0 val_q val_v]. split; [reflexivity|]. split; [apply tab_length|]. split.
  - intros m Hm. now rewrite vnth_tab by exact Hm.
  - unfold off0. split_all.
Qed.

(* ================================================================ _prec_V2_step / _prec_V1_step *)
(* generic in the family: [getV/getP/getE] read V, phi, eta of the family, [E1 E2] is the complete
   joint as a function of (phi, eta, aux of phi, aux of eta) of the family *)
Section Family.
Variable V : list (list Qc).
Variable phi : list (list Qc).
Variable eta : list Qc.
Variable fin : list (list Qc) -> list Qc -> st.

Lemma hsK_phiaux sh rates k :
  length phi = ndd -> (forall m, (m < ndd)%nat -> length (rnth phi m) = D) ->
  prog_prec_Vk g d orc V phi eta fin = Draw (DGammaMat sh rates) k ->
  forall j aeta x x',
    blkK ln j ndd D V phi eta x aeta - blkK ln j ndd D V phi eta x' aeta
    = sumn ndd (fun m => sumn D (fun i => gform ln sh (vnth (rnth rates m) i) (vnth (rnth x m) i) (vnth (rnth x' m) i))).
Proof.
  intros Hl Hr Hp j aeta x x'. unfold prog_prec_Vk in Hp. inversion Hp; subst sh rates. clear Hp.
  rewrite blkK_phiaux. apply sumn_ext; intros m Hm. apply sumn_ext; intros i Hi.
  rewrite rnth_map by lia. rewrite vnth_map by (rewrite Hr by exact Hm; exact Hi). reflexivity.
Qed.

Lemma hsK_phi d1 k1 a sh rates k2 :
  prog_prec_Vk g d orc V phi eta fin = Draw d1 k1 -> k1 (VM a) = Draw (DGammaMat sh rates) k2 ->
  (forall i, (i < D)%nat -> 0 < vnth eta i) ->
  forall aeta x x',
    (forall m i, (m < ndd)%nat -> (i < D)%nat -> 0 < vnth (rnth x m) i) ->
    (forall m i, (m < ndd)%nat -> (i < D)%nat -> 0 < vnth (rnth x' m) i) ->
    blkK ln jitter ndd D V x eta a aeta - blkK ln jitter ndd D V x' eta a aeta
    = sumn ndd (fun m => sumn D (fun i => gform ln sh (vnth (rnth rates m) i) (vnth (rnth x m) i) (vnth (rnth x' m) i))).
Proof.
  intros Hp Hk He aeta x x' Hx Hx'. unfold prog_prec_Vk in Hp. inversion Hp; subst d1 k1. clear Hp.
  cbv beta in Hk. inversion Hk; subst sh rates. clear Hk.
  rewrite (blkK_phi ln jitter ln_mul) by assumption. cbn [val_m].
  apply sumn_ext; intros m Hm. apply sumn_ext; intros i Hi.
  rewrite rnth_tab by exact Hm. rewrite vnth_tab by exact Hi. reflexivity.
Qed.

Lemma hsK_etaaux d1 k1 v1 d2 k2 v2 sh rates k3 :
  length eta = D ->
  prog_prec_Vk g d orc V phi eta fin = Draw d1 k1 -> k1 v1 = Draw d2 k2 -> k2 v2 = Draw (DGammaVec sh rates) k3 ->
  forall j V' phi' aphi t t',
    blkK ln j ndd D V' phi' eta aphi t - blkK ln j ndd D V' phi' eta aphi t'
    = sumn D (fun i => gform ln sh (vnth rates i) (vnth t i) (vnth t' i)).
Proof.
  intros Hl Hp Hk1 Hk2 j V' phi' aphi t t'. unfold prog_prec_Vk in Hp. inversion Hp; subst d1 k1. clear Hp.
  cbv beta in Hk1. inversion Hk1; subst d2 k2. clear Hk1. cbv beta in Hk2. inversion Hk2; subst sh rates. clear Hk2.
  rewrite blkK_etaaux. apply sumn_ext; intros i Hi. rewrite vnth_map by lia. reflexivity.
Qed.

(* the state the step returns is [fin ph et] with ph the clipped phi draws *)
Lemma hsK_eta d1 k1 v1 d2 k2 v2 d3 k3 b sh rates k4 v4 sfin :
  prog_prec_Vk g d orc V phi eta fin = Draw d1 k1 -> k1 v1 = Draw d2 k2 -> k2 v2 = Draw d3 k3 ->
  k3 (VV b) = Draw (DGammaVec sh rates) k4 -> k4 v4 = Ret sfin ->
  exists ph et, sfin = fin ph et /\ length ph = ndd /\ length et = D /\
    ((forall m i, (m < ndd)%nat -> (i < D)%nat -> 0 < vnth (rnth ph m) i) ->
     forall aphi t t', (forall i, (i < D)%nat -> 0 < vnth t i) -> (forall i, (i < D)%nat -> 0 < vnth t' i) ->
       blkK ln jitter ndd D V ph t aphi b - blkK ln jitter ndd D V ph t' aphi b
       = sumn D (fun i => gform ln sh (vnth rates i) (vnth t i) (vnth t' i))).
Proof.
  intros Hp Hk1 Hk2 Hk3 Hk4. unfold prog_prec_Vk in Hp. inversion Hp; subst d1 k1. clear Hp.
  cbv beta in Hk1. inversion Hk1; subst d2 k2. clear Hk1. cbv beta in Hk2. inversion Hk2; subst d3 k3. clear Hk2.
  cbv beta in Hk3. inversion Hk3; subst sh rates k4. clear Hk3. cbv beta in Hk4. inversion Hk4; subst sfin. clear Hk4.
  eexists. eexists. split; [reflexivity|]. split; [apply tab_length|]. split; [apply tab_length|].
  intros Hpos aphi t t' Ht Ht'. rewrite (blkK_eta ln jitter ln_mul) by assumption. cbn [val_v].
  apply sumn_ext; intros i Hi. rewrite vnth_tab by exact Hi. reflexivity.
Qed.

Lemma hsK_stored d1 k1 v1 d2 k2 x d3 k3 v3 d4 k4 y sfin :
  prog_prec_Vk g d orc V phi eta fin = Draw d1 k1 -> k1 v1 = Draw d2 k2 -> k2 (VM x) = Draw d3 k3 ->
  k3 v3 = Draw d4 k4 -> k4 (VV y) = Ret sfin ->
  sfin = fin (tab ndd (fun m => tab D (fun i => clipC orc (n_occ d m) (vnth (rnth x m) i))))
             (tab D (fun i => clipC orc (nobs d) (vnth y i))).
Proof.
  intros Hp Hk1 Hk2 Hk3 Hk4. unfold prog_prec_Vk in Hp. inversion Hp; subst d1 k1. clear Hp.
  cbv beta in Hk1. inversion Hk1; subst d2 k2. clear Hk1. cbv beta in Hk2. inversion Hk2; subst d3 k3. clear Hk2.
  cbv beta in Hk3. inversion Hk3; subst d4 k4. clear Hk3. cbv beta in Hk4. inversion Hk4; subst sfin. clear Hk4.
  reflexivity.
Qed.
End Family.

(* ---------------------------------------------------------------- V2 *)
Theorem hs_phiaux2 j s sh rates k :
  length (phi2 s) = ndd -> (forall m, (m < ndd)%nat -> length (rnth (phi2 s) m) = D) ->
  prog_prec_V2 g d orc s = Draw (DGammaMat sh rates) k ->
  forall u x x',
    energy_hs ln j g d s (set_a_phi2 u x) - energy_hs ln j g d s (set_a_phi2 u x')
    = sumn ndd (fun m => sumn D (fun i => gform ln sh (vnth (rnth rates m) i) (vnth (rnth x m) i) (vnth (rnth x' m) i))).
Proof.
  intros Hl Hr Hp u x x'. rewrite energy_hs_diff2 by (unfold off2, offa2; split_all).
  cbn [set_a_phi2 a_phi2 a_eta2]. exact (hsK_phiaux _ _ _ _ sh rates k Hl Hr Hp j _ x x').
Qed.

Theorem hs_phi2 s d1 k1 a sh rates k2 :
  prog_prec_V2 g d orc s = Draw d1 k1 -> k1 (VM a) = Draw (DGammaMat sh rates) k2 ->
  (forall i, (i < D)%nat -> 0 < vnth (eta2 s) i) ->
  forall u x x',
    (forall m i, (m < ndd)%nat -> (i < D)%nat -> 0 < vnth (rnth x m) i) ->
    (forall m i, (m < ndd)%nat -> (i < D)%nat -> 0 < vnth (rnth x' m) i) ->
    energy_hs ln jitter g d (set_phi2 s x) (set_a_phi2 u a) - energy_hs ln jitter g d (set_phi2 s x') (set_a_phi2 u a)
    = sumn ndd (fun m => sumn D (fun i => gform ln sh (vnth (rnth rates m) i) (vnth (rnth x m) i) (vnth (rnth x' m) i))).
Proof.
  intros Hp Hk He u x x' Hx Hx'. rewrite energy_hs_diff2 by (unfold off2, offa2; split_all).
  cbn [set_phi2 set_a_phi2 a_phi2 a_eta2 V2 phi2 eta2].
  exact (hsK_phi _ _ _ _ d1 k1 a sh rates k2 Hp Hk He _ x x' Hx Hx').
Qed.

Theorem hs_etaaux2 j s d1 k1 v1 d2 k2 v2 sh rates k3 :
  length (eta2 s) = D ->
  prog_prec_V2 g d orc s = Draw d1 k1 -> k1 v1 = Draw d2 k2 -> k2 v2 = Draw (DGammaVec sh rates) k3 ->
  forall s1 u t t', eta2 s1 = eta2 s ->
    energy_hs ln j g d s1 (set_a_eta2 u t) - energy_hs ln j g d s1 (set_a_eta2 u t')
    = sumn D (fun i => gform ln sh (vnth rates i) (vnth t i) (vnth t' i)).
Proof.
  intros Hl Hp Hk1 Hk2 s1 u t t' He. rewrite energy_hs_diff2 by (unfold off2, offa2; split_all).
  cbn [set_a_eta2 a_phi2 a_eta2]. rewrite He.
  exact (hsK_etaaux _ _ _ _ d1 k1 v1 d2 k2 v2 sh rates k3 Hl Hp Hk1 Hk2 j _ _ _ t t').
Qed.

Theorem hs_eta2 s d1 k1 v1 d2 k2 v2 d3 k3 b sh rates k4 v4 sfin :
  prog_prec_V2 g d orc s = Draw d1 k1 -> k1 v1 = Draw d2 k2 -> k2 v2 = Draw d3 k3 ->
  k3 (VV b) = Draw (DGammaVec sh rates) k4 -> k4 v4 = Ret sfin ->
  (forall m i, (m < ndd)%nat -> (i < D)%nat -> 0 < vnth (rnth (phi2 sfin) m) i) ->
  forall u t t', (forall i, (i < D)%nat -> 0 < vnth t i) -> (forall i, (i < D)%nat -> 0 < vnth t' i) ->
    energy_hs ln jitter g d (set_eta2 sfin t) (set_a_eta2 u b) - energy_hs ln jitter g d (set_eta2 sfin t') (set_a_eta2 u b)
    = sumn D (fun i => gform ln sh (vnth rates i) (vnth t i) (vnth t' i)).
Proof.
  intros Hp Hk1 Hk2 Hk3 Hk4 Hpos u t t' Ht Ht'.
  destruct (hsK_eta _ _ _ _ d1 k1 v1 d2 k2 v2 d3 k3 b sh rates k4 v4 sfin Hp Hk1 Hk2 Hk3 Hk4) as (ph & et & -> & _ & _ & H).
  rewrite energy_hs_diff2 by (unfold off2, offa2; split_all).
  cbn [set_eta2 set_phi2 set_a_eta2 a_phi2 a_eta2 V2 phi2 eta2] in Hpos |- *.
  exact (H Hpos _ t t' Ht Ht').
Qed.

Theorem hs_stored2 s d1 k1 v1 d2 k2 x d3 k3 v3 d4 k4 y sfin :
  prog_prec_V2 g d orc s = Draw d1 k1 -> k1 v1 = Draw d2 k2 -> k2 (VM x) = Draw d3 k3 ->
  k3 v3 = Draw d4 k4 -> k4 (VV y) = Ret sfin ->
  (forall i, (i < D)%nat -> vnth (eta2 sfin) i = clipC orc (nobs d) (vnth y i)) /\
  (forall m i, (m < ndd)%nat -> (i < D)%nat -> vnth (rnth (phi2 sfin) m) i = clipC orc (n_occ d m) (vnth (rnth x m) i)) /\
  off2 sfin s.
Proof.
  intros Hp Hk1 Hk2 Hk3 Hk4.
  rewrite (hsK_stored _ _ _ _ d1 k1 v1 d2 k2 x d3 k3 v3 d4 k4 y sfin Hp Hk1 Hk2 Hk3 Hk4).
  cbn [set_eta2 set_phi2 eta2 phi2]. split; [|split].
  - intros i Hi. now rewrite vnth_tab by exact Hi.
  - intros m i Hm Hi. rewrite rnth_tab by exact Hm. now rewrite vnth_tab by exact Hi.
  - unfold off2. split_all.
Qed.

(* ---------------------------------------------------------------- V1 *)
Theorem hs_phiaux1 j s sh rates k :
  length (phi1 s) = ndd -> (forall m, (m < ndd)%nat -> length (rnth (phi1 s) m) = D) ->
  prog_prec_V1 g d orc s = Draw (DGammaMat sh rates) k ->
  forall u x x',
    energy_hs ln j g d s (set_a_phi1 u x) - energy_hs ln j g d s (set_a_phi1 u x')
    = sumn ndd (fun m => sumn D (fun i => gform ln sh (vnth (rnth rates m) i) (vnth (rnth x m) i) (vnth (rnth x' m) i))).
Proof.
  intros Hl Hr Hp u x x'. rewrite energy_hs_diff1 by (unfold off1, offa1; split_all).
  cbn [set_a_phi1 a_phi1 a_eta1]. exact (hsK_phiaux _ _ _ _ sh rates k Hl Hr Hp j _ x x').
Qed.

Theorem hs_phi1 s d1 k1 a sh rates k2 :
  prog_prec_V1 g d orc s = Draw d1 k1 -> k1 (VM a) = Draw (DGammaMat sh rates) k2 ->
  (forall i, (i < D)%nat -> 0 < vnth (eta1 s) i) ->
  forall u x x',
    (forall m i, (m < ndd)%nat -> (i < D)%nat -> 0 < vnth (rnth x m) i) ->
    (forall m i, (m < ndd)%nat -> (i < D)%nat -> 0 < vnth (rnth x' m) i) ->
    energy_hs ln jitter g d (set_phi1 s x) (set_a_phi1 u a) - energy_hs ln jitter g d (set_phi1 s x') (set_a_phi1 u a)
    = sumn ndd (fun m => sumn D (fun i => gform ln sh (vnth (rnth rates m) i) (vnth (rnth x m) i) (vnth (rnth x' m) i))).
Proof.
  intros Hp Hk He u x x' Hx Hx'. rewrite energy_hs_diff1 by (unfold off1, offa1; split_all).
  cbn [set_phi1 set_a_phi1 a_phi1 a_eta1 V1 phi1 eta1].
  exact (hsK_phi _ _ _ _ d1 k1 a sh rates k2 Hp Hk He _ x x' Hx Hx').
Qed.

Theorem hs_etaaux1 j s d1 k1 v1 d2 k2 v2 sh rates k3 :
  length (eta1 s) = D ->
  prog_prec_V1 g d orc s = Draw d1 k1 -> k1 v1 = Draw d2 k2 -> k2 v2 = Draw (DGammaVec sh rates) k3 ->
  forall s1 u t t', eta1 s1 = eta1 s ->
    energy_hs ln j g d s1 (set_a_eta1 u t) - energy_hs ln j g d s1 (set_a_eta1 u t')
    = sumn D (fun i => gform ln sh (vnth rates i) (vnth t i) (vnth t' i)).
Proof.
  intros Hl Hp Hk1 Hk2 s1 u t t' He. rewrite energy_hs_diff1 by (unfold off1, offa1; split_all).
  cbn [set_a_eta1 a_phi1 a_eta1]. rewrite He.
  exact (hsK_etaaux _ _ _ _ d1 k1 v1 d2 k2 v2 sh rates k3 Hl Hp Hk1 Hk2 j _ _ _ t t').
Qed.

Theorem hs_eta1 s d1 k1 v1 d2 k2 v2 d3 k3 b sh rates k4 v4 sfin :
  prog_prec_V1 g d orc s = Draw d1 k1 -> k1 v1 = Draw d2 k2 -> k2 v2 = Draw d3 k3 ->
  k3 (VV b) = Draw (DGammaVec sh rates) k4 -> k4 v4 = Ret sfin ->
  (forall m i, (m < ndd)%nat -> (i < D)%nat -> 0 < vnth (rnth (phi1 sfin) m) i) ->
  forall u t t', (forall i, (i < D)%nat -> 0 < vnth t i) -> (forall i, (i < D)%nat -> 0 < vnth t' i) ->
    energy_hs ln jitter g d (set_eta1 sfin t) (set_a_eta1 u b) - energy_hs ln jitter g d (set_eta1 sfin t') (set_a_eta1 u b)
    = sumn D (fun i => gform ln sh (vnth rates i) (vnth t i) (vnth t' i)).
Proof.
  intros Hp Hk1 Hk2 Hk3 Hk4 Hpos u t t' Ht Ht'.
  destruct (hsK_eta _ _ _ _ d1 k1 v1 d2 k2 v2 d3 k3 b sh rates k4 v4 sfin Hp Hk1 Hk2 Hk3 Hk4) as (ph & et & -> & _ & _ & H).
  rewrite energy_hs_diff1 by (unfold off1, offa1; split_all).
  cbn [set_eta1 set_phi1 set_a_eta1 a_phi1 a_eta1 V1 phi1 eta1] in Hpos |- *.
  exact (H Hpos _ t t' Ht Ht').
Qed.

Theorem hs_stored1 s d1 k1 v1 d2 k2 x d3 k3 v3 d4 k4 y sfin :
  prog_prec_V1 g d orc s = Draw d1 k1 -> k1 v1 = Draw d2 k2 -> k2 (VM x) = Draw d3 k3 ->
  k3 v3 = Draw d4 k4 -> k4 (VV y) = Ret sfin ->
  (forall i, (i < D)%nat -> vnth (eta1 sfin) i = clipC orc (nobs d) (vnth y i)) /\
  (forall m i, (m < ndd)%nat -> (i < D)%nat -> vnth (rnth (phi1 sfin) m) i = clipC orc (n_occ d m) (vnth (rnth x m) i)) /\
  off1 sfin s.
Proof.
  intros Hp Hk1 Hk2 Hk3 Hk4.
  rewrite (hsK_stored _ _ _ _ d1 k1 v1 d2 k2 x d3 k3 v3 d4 k4 y sfin Hp Hk1 Hk2 Hk3 Hk4).
  cbn [set_eta1 set_phi1 eta1 phi1]. split; [|split].
  - intros i Hi. now rewrite vnth_tab by exact Hi.
  - intros m i Hm Hi. rewrite rnth_tab by exact Hm. now rewrite vnth_tab by exact Hi.
  - unfold off1. split_all.
Qed.

(* ---------------------------------------------------------------- the steps are these four draws *)
Theorem hs_shape0 s :
  exists r1 k1, prog_prec_V0 g d orc s = Draw (DGammaVec 1 r1) k1 /\ forall v1,
  exists r2 k2, k1 v1 = Draw (DGammaVec 1 r2) k2 /\ forall v2,
  exists r3 k3, k2 v2 = Draw (DGamma 1 r3) k3 /\ forall v3,
  exists r4 k4, k3 v3 = Draw (DGamma (half * (1 + qnat ndd)) r4) k4 /\ forall v4,
  exists sfin, k4 v4 = Ret sfin.
Proof.
  unfold prog_prec_V0. do 2 eexists. split; [reflexivity|]. intros v1. do 2 eexists. split; [reflexivity|]. intros v2.
  do 2 eexists. split; [reflexivity|]. intros v3. do 2 eexists. split; [reflexivity|]. intros v4. eexists. reflexivity.
Qed.

Lemma hs_shapeK V phi eta fin :
  exists r1 k1, prog_prec_Vk g d orc V phi eta fin = Draw (DGammaMat 1 r1) k1 /\ forall v1,
  exists r2 k2, k1 v1 = Draw (DGammaMat 1 r2) k2 /\ forall v2,
  exists r3 k3, k2 v2 = Draw (DGammaVec 1 r3) k3 /\ forall v3,
  exists r4 k4, k3 v3 = Draw (DGammaVec (half * (1 + qnat ndd)) r4) k4 /\ forall v4,
  exists sfin, k4 v4 = Ret sfin.
Proof.
  unfold prog_prec_Vk. do 2 eexists. split; [reflexivity|]. intros v1. do 2 eexists. split; [reflexivity|]. intros v2.
  do 2 eexists. split; [reflexivity|]. intros v3. do 2 eexists. split; [reflexivity|]. intros v4. eexists. reflexivity.
Qed.

Theorem hs_shape2 s :
  exists r1 k1, prog_prec_V2 g d orc s = Draw (DGammaMat 1 r1) k1 /\ forall v1,
  exists r2 k2, k1 v1 = Draw (DGammaMat 1 r2) k2 /\ forall v2,
  exists r3 k3, k2 v2 = Draw (DGammaVec 1 r3) k3 /\ forall v3,
  exists r4 k4, k3 v3 = Draw (DGammaVec (half * (1 + qnat ndd)) r4) k4 /\ forall v4,
  exists sfin, k4 v4 = Ret sfin.
Proof. apply hs_shapeK. Qed.

Theorem hs_shape1 s :
  exists r1 k1, prog_prec_V1 g d orc s = Draw (DGammaMat 1 r1) k1 /\ forall v1,
  exists r2 k2, k1 v1 = Draw (DGammaMat 1 r2) k2 /\ forall v2,
  exists r3 k3, k2 v2 = Draw (DGammaVec 1 r3) k3 /\ forall v3,
  exists r4 k4, k3 v3 = Draw (DGammaVec (half * (1 + qnat ndd)) r4) k4 /\ forall v4,
  exists sfin, k4 v4 = Ret sfin.
Proof. apply hs_shapeK. Qed.

(* a clipped precision is positive as soon as the clipping bound is *)
Lemma in_bounds_pos lo x : 0 < lo -> in_bounds lo x -> 0 < x.
Proof. intros Hl [H _]. eapply Qclt_le_trans; eassumption. Qed.
End HS.

(* for the examples *)
Lemma below2 (P : nat -> Prop) : P 0%nat -> P 1%nat -> forall m, (m < 2)%nat -> P m.
Proof. intros H0 H1 [|[|m]] Hm; [exact H0|exact H1|lia]. Qed.
