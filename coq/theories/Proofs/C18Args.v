(* Properties of the argument-handling models of Model/Cli.v (str_to_bool, convert / cast_dict, kv_append / kv_parse):
   what a list of KEY=VALUE words becomes.  Through Proofs/C18SourceArgs.v these are statements about the translated
   source of cli/argument_parsing.py. *)
From Coq Require Import ZArith List Bool Lia.
From Batchie Require Import Lib.Sexp Lib.PyRt Model.Cli.
Import ListNotations.
Open Scope Z_scope.

(* ---------- strings ---------- *)
Lemma str_eqb_refl (a : str) : str_eqb a a = true.
Proof. induction a as [|x a IH]; cbn [str_eqb]; [reflexivity|]. now rewrite Z.eqb_refl, IH. Qed.

Lemma str_eqb_eq (a b : str) : str_eqb a b = true <-> a = b.
Proof.
  split; [|intros ->; apply str_eqb_refl].
  revert b. induction a as [|x a IH]; intros [|y b] H; cbn [str_eqb] in H; try discriminate; [reflexivity|].
  apply andb_true_iff in H. destruct H as [H1 H2]. apply Z.eqb_eq in H1. apply IH in H2. now subst.
Qed.

Lemma str_eqb_neq (a b : str) : a <> b -> str_eqb a b = false.
Proof. intros H. destruct (str_eqb a b) eqn:E; [|reflexivity]. now apply str_eqb_eq in E. Qed.

Lemma str_in_In (s : str) (l : list str) : str_in s l = true <-> In s l.
Proof.
  unfold str_in. rewrite existsb_exists. split.
  - intros [x [Hx E]]. apply str_eqb_eq in E. now subst.
  - intros H. exists s. split; [exact H|apply str_eqb_refl].
Qed.

(* ---------- str_to_bool ---------- *)
Section StrToBool.
  Context {F O : Type} (P : pyprims F O).

  Lemma str_to_bool_true (s : str) : In (p_lower P s) true_words -> str_to_bool P s = Ok true.
  Proof. intros H. unfold str_to_bool. apply str_in_In in H. now rewrite H. Qed.

  Lemma words_disjoint (w : str) : In w false_words -> ~ In w true_words.
  Proof.
    intros Hf Ht. cbn [false_words true_words In] in Hf, Ht.
    repeat (destruct Hf as [Hf|Hf]; [subst w; repeat (destruct Ht as [Ht|Ht]; [discriminate Ht|]); exact Ht|]).
    exact Hf.
  Qed.

  Lemma str_to_bool_false (s : str) : In (p_lower P s) false_words -> str_to_bool P s = Ok false.
  Proof.
    intros H. unfold str_to_bool.
    destruct (str_in (p_lower P s) true_words) eqn:E.
    - apply str_in_In in E. now apply words_disjoint in H.
    - apply str_in_In in H. now rewrite H.
  Qed.

  Lemma str_to_bool_unknown (s : str) :
    ~ In (p_lower P s) true_words -> ~ In (p_lower P s) false_words -> str_to_bool P s = Err 22.
  Proof.
    intros Ht Hf. unfold str_to_bool.
    destruct (str_in (p_lower P s) true_words) eqn:E1; [now apply str_in_In in E1|].
    destruct (str_in (p_lower P s) false_words) eqn:E2; [now apply str_in_In in E2|reflexivity].
  Qed.

  (* the answer determines the spelling class *)
  Lemma str_to_bool_ok (s : str) (b : bool) :
    str_to_bool P s = Ok b -> In (p_lower P s) (if b then true_words else false_words).
  Proof.
    unfold str_to_bool.
    destruct (str_in (p_lower P s) true_words) eqn:E1.
    - intros H. injection H as <-. now apply str_in_In.
    - destruct (str_in (p_lower P s) false_words) eqn:E2; [|discriminate].
      intros H. injection H as <-. now apply str_in_In.
  Qed.

  (* ---------- convert: the table, entry by entry ---------- *)
  Lemma convert_bool (v : str) : convert P ABool v = dor b <- str_to_bool P v; Ok (VBool b).
  Proof. reflexivity. Qed.
  Lemma convert_int (v : str) : convert P AInt v = dor z <- p_int P v; Ok (VInt z).
  Proof. reflexivity. Qed.
  Lemma convert_float (v : str) : convert P AFloat v = dor f <- p_float P v; Ok (VFloat f).
  Proof. reflexivity. Qed.
  Lemma convert_str (v : str) : convert P AStr v = Ok (VStr v).
  Proof. reflexivity. Qed.
  Lemma convert_none (v : str) : convert P ANone v = Err 26.
  Proof. reflexivity. Qed.
  Lemma convert_other (n : Z) (v : str) : convert P (AOther n) v = dor o <- p_call_other P n v; Ok (VOther o).
  Proof. reflexivity. Qed.

  (* ---------- cast_dict: exactly the typed values, in order ---------- *)
  Definition cast_item (types : list (str * ann)) (kv : str * str) : result (str * pval F O) :=
    dor t <- kdict_get str_eqb 25 types (fst kv); dor x <- convert P t (snd kv); Ok (fst kv, x).

  Lemma kdict_set_fresh {V : Type} (d : list (str * V)) (k : str) (v : V) :
    ~ In k (map fst d) -> kdict_set str_eqb d k v = d ++ [(k, v)].
  Proof.
    induction d as [|[k' v'] d IH]; intros H; cbn [kdict_set app]; [reflexivity|].
    cbn [map fst In] in H. rewrite str_eqb_neq by tauto. rewrite IH by tauto. reflexivity.
  Qed.

  Lemma cast_items_exact (types : list (str * ann)) :
    forall items acc, NoDup (map fst acc ++ map fst items) ->
    cast_items P types items acc = dor l <- res_map_all (cast_item types) items; Ok (acc ++ l).
  Proof.
    induction items as [|[k v] r IH]; intros acc H; cbn [cast_items res_map_all res_bind]; [now rewrite app_nil_r|].
    unfold cast_item at 1. cbn [fst snd].
    destruct (kdict_get str_eqb 25 types k) as [t|e]; cbn [res_bind]; [|reflexivity].
    destruct (convert P t v) as [x|e]; cbn [res_bind]; [|reflexivity].
    cbn [map fst] in H.
    rewrite kdict_set_fresh.
    - rewrite IH.
      + destruct (res_map_all (cast_item types) r) as [l|e]; cbn [res_bind]; [|reflexivity].
        now rewrite <- app_assoc.
      + rewrite map_app. cbn [map fst]. now rewrite <- app_assoc.
    - apply NoDup_remove_2 in H. intros X. apply H. apply in_or_app. now left.
  Qed.

  Theorem cast_dict_exact (d : list (str * str)) (types : list (str * ann)) :
    NoDup (map fst d) -> cast_dict P d types = res_map_all (cast_item types) d.
  Proof.
    intros H. unfold cast_dict. rewrite cast_items_exact by exact H.
    destruct (res_map_all (cast_item types) d); reflexivity.
  Qed.
End StrToBool.

(* ---------- KVAppendAction: one word ---------- *)
Lemma str_prefix_eq (x : Z) (s : str) : str_prefix s_eq (x :: s) = (61 =? x).
Proof. cbn [str_prefix s_eq]. apply andb_true_r. Qed.

Lemma split_go_part (n : Z) : forall (k : str) (cur rest : str), ~ In 61 k ->
  split_go s_eq 0 n cur (k ++ rest) = split_go s_eq 0 n (rev k ++ cur) rest.
Proof.
  induction k as [|x k IH]; intros cur rest H; [reflexivity|].
  cbn [app]. cbn [split_go]. rewrite str_prefix_eq.
  replace (61 =? x) with false by (symmetry; apply Z.eqb_neq; intros E; apply H; left; now symmetry).
  rewrite andb_false_r. cbn [In] in H. rewrite IH by tauto. cbn [rev]. now rewrite <- app_assoc.
Qed.

Lemma split_go_cut (n : Z) (cur rest : str) : n <> 0 ->
  split_go s_eq 0 n cur (61 :: rest) = rev cur :: split_go s_eq 0 (n - 1) [] rest.
Proof.
  intros H. cbn [split_go]. rewrite str_prefix_eq, Z.eqb_refl, andb_true_r.
  replace (n =? 0) with false by (symmetry; now apply Z.eqb_neq). reflexivity.
Qed.

Lemma split_go_nocut : forall (s cur : str), split_go s_eq 0 0 cur s = [rev cur ++ s].
Proof.
  induction s as [|x s IH]; intros cur; cbn [split_go]; [now rewrite app_nil_r|].
  cbn [Z.eqb negb andb]. rewrite IH. cbn [rev]. now rewrite <- app_assoc.
Qed.

Lemma split_go_end (n : Z) (cur : str) : split_go s_eq 0 n cur [] = [rev cur].
Proof. reflexivity. Qed.

Lemma first_eq (v : str) : In 61 v -> exists v1 v2, v = v1 ++ 61 :: v2 /\ ~ In 61 v1.
Proof.
  induction v as [|x v IH]; intros H; [destruct H|].
  destruct (Z.eq_dec x 61) as [->|N].
  - exists [], v. split; [reflexivity|intros []].
  - destruct H as [H|H]; [congruence|]. destruct (IH H) as [v1 [v2 [E N1]]].
    exists (x :: v1), v2. split; [now rewrite E|]. intros [X|X]; [congruence|tauto].
Qed.

Definition kv_word (kv : str * str) : str := fst kv ++ 61 :: snd kv.

Theorem kv_append_ok (dest : option (list (str * str))) (k v : str) : ~ In 61 k -> ~ In 61 v ->
  kv_append dest [k ++ 61 :: v] = Ok (Some (kdict_set str_eqb (opt_or_empty dest) k v)).
Proof.
  intros Hk Hv. unfold kv_append, str_split. cbn [s_eq].
  change [61] with s_eq. rewrite split_go_part by exact Hk. rewrite split_go_cut by lia.
  rewrite <- (app_nil_r v) at 1. rewrite split_go_part by exact Hv. rewrite split_go_end.
  rewrite !app_nil_r, !rev_involutive. reflexivity.
Qed.

Theorem kv_append_no_equals (dest : option (list (str * str))) (w : str) : ~ In 61 w ->
  kv_append dest [w] = Err 21.
Proof.
  intros H. unfold kv_append, str_split. cbn [s_eq]. change [61] with s_eq.
  rewrite <- (app_nil_r w) at 1. rewrite split_go_part by exact H. rewrite split_go_end. reflexivity.
Qed.

(* maxsplit = 2: a VALUE containing '=' makes three parts and the word is refused *)
Theorem kv_append_value_with_equals (dest : option (list (str * str))) (k v : str) : ~ In 61 k -> In 61 v ->
  kv_append dest [k ++ 61 :: v] = Err 21.
Proof.
  intros Hk Hv. destruct (first_eq v Hv) as [v1 [v2 [-> N1]]].
  unfold kv_append, str_split. cbn [s_eq]. change [61] with s_eq.
  rewrite split_go_part by exact Hk. rewrite split_go_cut by lia.
  rewrite split_go_part by exact N1. rewrite split_go_cut by lia.
  change (2 - 1 - 1) with 0. rewrite split_go_nocut. reflexivity.
Qed.

(* ---------- the words of one option, in command-line order ---------- *)
Lemma kv_parse_words : forall (kvs : list (str * str)) (dest : option (list (str * str))),
  (forall kv, In kv kvs -> ~ In 61 (fst kv) /\ ~ In 61 (snd kv)) ->
  kv_parse dest (map kv_word kvs) =
  Ok (match kvs with
      | [] => dest
      | _ => Some (fold_left (fun d kv => kdict_set str_eqb d (fst kv) (snd kv)) kvs (opt_or_empty dest))
      end).
Proof.
  induction kvs as [|[k v] r IH]; intros dest H; cbn [map kv_parse]; [reflexivity|].
  unfold kv_word at 1. cbn [fst snd].
  destruct (H (k, v) (or_introl eq_refl)) as [Hk Hv]. cbn [fst snd] in Hk, Hv.
  rewrite kv_append_ok by assumption. cbn [res_bind].
  rewrite IH by (intros kv Hin; apply H; now right).
  cbn [fold_left fst snd opt_or_empty]. destruct r; reflexivity.
Qed.

Lemma fold_kdict_set_distinct : forall (kvs d : list (str * str)), NoDup (map fst d ++ map fst kvs) ->
  fold_left (fun d kv => kdict_set str_eqb d (fst kv) (snd kv)) kvs d = d ++ kvs.
Proof.
  induction kvs as [|[k v] r IH]; intros d H; cbn [fold_left]; [now rewrite app_nil_r|].
  cbn [fst snd map] in *. rewrite kdict_set_fresh.
  - rewrite IH; [now rewrite <- app_assoc|]. rewrite map_app. cbn [map fst]. now rewrite <- app_assoc.
  - apply NoDup_remove_2 in H. intros X. apply H. apply in_or_app. now left.
Qed.

(* distinct keys: the dict is the list of the (KEY, VALUE) pairs, in command-line order; no words: None *)
Theorem kv_parse_distinct (kvs : list (str * str)) :
  (forall kv, In kv kvs -> ~ In 61 (fst kv) /\ ~ In 61 (snd kv)) -> NoDup (map fst kvs) ->
  kv_parse None (map kv_word kvs) = Ok (match kvs with [] => None | _ => Some kvs end).
Proof.
  intros H ND. rewrite kv_parse_words by exact H. destruct kvs as [|kv r]; [reflexivity|].
  cbn [opt_or_empty]. rewrite fold_kdict_set_distinct by exact ND. reflexivity.
Qed.

(* a repeated KEY: the later VALUE wins, the key keeps its first place *)
Theorem kv_parse_repeated (k v1 v2 : str) : ~ In 61 k -> ~ In 61 v1 -> ~ In 61 v2 ->
  kv_parse None [k ++ 61 :: v1; k ++ 61 :: v2] = Ok (Some [(k, v2)]).
Proof.
  intros Hk H1 H2. cbn [kv_parse]. rewrite kv_append_ok by assumption. cbn [res_bind].
  rewrite kv_append_ok by assumption. cbn [res_bind opt_or_empty kdict_set]. now rewrite str_eqb_refl.
Qed.

(* ---------- end to end: the words KEY=VALUE ... of one option are cast to exactly the typed values ---------- *)
Theorem words_cast_exactly {F O : Type} (P : pyprims F O) (kvs : list (str * str)) (types : list (str * ann)) :
  (forall kv, In kv kvs -> ~ In 61 (fst kv) /\ ~ In 61 (snd kv)) -> NoDup (map fst kvs) ->
  (dor d <- kv_parse None (map kv_word kvs); cast_params P d types) = res_map_all (cast_item P types) kvs.
Proof.
  intros H ND. rewrite kv_parse_distinct by assumption. cbn [res_bind].
  destruct kvs as [|kv r]; [reflexivity|]. cbn [cast_params]. now apply cast_dict_exact.
Qed.

(* ---------- the statements of Props/C18.v that collect several of the lemmas above ---------- *)
Lemma bool_spellings {F O : Type} (P : pyprims F O) (s : str) :
  (In (p_lower P s) true_words -> str_to_bool P s = Ok true) /\
  (In (p_lower P s) false_words -> str_to_bool P s = Ok false) /\
  (forall b, str_to_bool P s = Ok b -> In (p_lower P s) (if b then true_words else false_words)).
Proof. split; [apply str_to_bool_true|]. split; [apply str_to_bool_false|apply str_to_bool_ok]. Qed.

Lemma converter_table {F O : Type} (P : pyprims F O) (v : str) :
  convert P ABool v = (dor b <- str_to_bool P v; Ok (VBool b)) /\
  convert P AInt v = (dor z <- p_int P v; Ok (VInt z)) /\
  convert P AFloat v = (dor f <- p_float P v; Ok (VFloat f)) /\
  convert P AStr v = Ok (VStr v) /\
  convert P ANone v = Err 26 /\
  (forall n, convert P (AOther n) v = (dor o <- p_call_other P n v; Ok (VOther o))).
Proof. repeat split. Qed.

Lemma kv_word_cases (dest : option (list (str * str))) (k v w : str) :
  (~ In 61 k -> ~ In 61 v -> kv_append dest [k ++ 61 :: v] = Ok (Some (kdict_set str_eqb (opt_or_empty dest) k v))) /\
  (~ In 61 w -> kv_append dest [w] = Err 21) /\
  (~ In 61 k -> In 61 v -> kv_append dest [k ++ 61 :: v] = Err 21).
Proof. split; [apply kv_append_ok|]. split; [apply kv_append_no_equals|apply kv_append_value_with_equals]. Qed.
