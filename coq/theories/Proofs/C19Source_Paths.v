(* C19: the five path helpers of nextflow/scripts/batchie.py, re-translated from /repo on every run (Generated/SrcOrchPaths.v,
   configurations C19_PATH_* of harness/src_functions.py), are the model's script_location / nextflow_dir / base_config /
   repository_root / main_nf_file for EVERY value of __file__; and for a script that lies where the repository keeps it
   (root/nextflow/scripts/batchie.py, a path as realpath returns it) they are root/nextflow/scripts, root/nextflow,
   root/nextflow.config, root and root/main.nf. *)
From Coq Require Import ZArith List Bool Lia.
From Batchie Require Import Lib.Sexp Lib.PyRt Model.Orchestrate Generated.SrcOrchPaths.
Import ListNotations.
Open Scope Z_scope.

(* ---- the links: for every __file__ ---- *)
Theorem src_get_script_location_is_model : forall f : pyfile, src_get_script_location f = SOk (script_location f).
Proof. reflexivity. Qed.

Theorem src_get_nextflow_dir_is_model : forall f : pyfile, src_get_nextflow_dir f = SOk (nextflow_dir f).
Proof. reflexivity. Qed.

Theorem src_get_base_config_is_model : forall f : pyfile, src_get_base_config f = SOk (base_config f).
Proof. reflexivity. Qed.

Theorem src_get_repository_root_is_model : forall f : pyfile, src_get_repository_root f = SOk (repository_root f).
Proof. reflexivity. Qed.

Theorem src_get_main_nf_file_is_model : forall f : pyfile, src_get_main_nf_file f = SOk (main_nf_file f).
Proof. reflexivity. Qed.

(* ---- normalisation of clean paths ---- *)
Lemma norm_rev_app p q acc : norm_rev (p ++ q) acc = norm_rev q (norm_rev p acc).
Proof.
  revert acc; induction p as [|c p IH]; intros acc; cbn [app norm_rev]; [reflexivity|].
  destruct (zlist_eqb c S_dotdot); [apply IH|]. destruct (zlist_eqb c S_dot || Orchestrate.is_nil c); apply IH.
Qed.

Lemma zlist_eqb_true a b : zlist_eqb a b = true -> a = b.
Proof.
  revert b; induction a as [|x a IH]; intros [|y b]; cbn [zlist_eqb]; try discriminate; [reflexivity|].
  intros H. apply andb_prop in H as [H1 H2]. apply Z.eqb_eq in H1. apply IH in H2. congruence.
Qed.

Lemma zlist_eqb_same a : zlist_eqb a a = true.
Proof. induction a as [|x a IH]; cbn [zlist_eqb]; [reflexivity|]. now rewrite Z.eqb_refl, IH. Qed.

Lemma norm_rev_clean p : clean_path p -> forall acc, norm_rev p acc = rev p ++ acc.
Proof.
  induction 1 as [|c p (H1 & H2 & H3) _ IH]; intros acc; cbn [norm_rev rev app]; [reflexivity|].
  destruct (zlist_eqb c S_dotdot) eqn:E1; [apply zlist_eqb_true in E1; contradiction|].
  destruct (zlist_eqb c S_dot) eqn:E2; [apply zlist_eqb_true in E2; contradiction|].
  destruct c as [|x c]; [contradiction|]. cbn [Orchestrate.is_nil orb].
  rewrite IH, <- app_assoc. reflexivity.
Qed.

Lemma abspath_clean p : clean_path p -> abspath p = p.
Proof. intros H. unfold abspath. rewrite (norm_rev_clean p H), app_nil_r. apply rev_involutive. Qed.

(* a clean path followed by k times "..": the last k components go *)
Lemma abspath_up1 p c : clean_path (p ++ [c]) -> abspath (path_join (p ++ [c]) [S_dotdot]) = p.
Proof.
  intros H. unfold abspath, path_join. rewrite norm_rev_app, (norm_rev_clean _ H), app_nil_r.
  rewrite rev_app_distr. cbn [rev app norm_rev zlist_eqb S_dotdot Z.eqb Pos.eqb andb tl]. apply rev_involutive.
Qed.

Lemma clean_app p q : clean_path (p ++ q) <-> clean_path p /\ clean_path q.
Proof. unfold clean_path. apply Forall_app. Qed.

Lemma clean_lit c : c <> S_dotdot -> c <> S_dot -> c <> [] -> clean_path [c].
Proof. intros. repeat constructor; assumption. Qed.

(* ---- where the script lies ---- *)
Section Layout.
Variable root : fspath.
Hypothesis Hroot : clean_path root.

Lemma clean_script_in : clean_path (script_in root).
Proof.
  unfold script_in. apply clean_app. split; [exact Hroot|].
  repeat constructor; discriminate.
Qed.

Lemma script_location_in : script_location (script_in root) = root ++ [S_nextflow; S_scripts].
Proof.
  unfold script_location, realpath_of, dirname, script_in.
  change (root ++ [S_nextflow; S_scripts; S_batchie_py]) with (root ++ [S_nextflow; S_scripts] ++ [S_batchie_py]).
  rewrite app_assoc, removelast_last. apply abspath_clean.
  apply clean_app. split; [exact Hroot | repeat constructor; discriminate].
Qed.

Lemma nextflow_dir_in : nextflow_dir (script_in root) = root ++ [S_nextflow].
Proof.
  unfold nextflow_dir. rewrite script_location_in.
  change (root ++ [S_nextflow; S_scripts]) with (root ++ [S_nextflow] ++ [S_scripts]). rewrite app_assoc.
  apply abspath_up1. rewrite <- app_assoc. apply clean_app. split; [exact Hroot | repeat constructor; discriminate].
Qed.

Lemma norm_two_up p a b : clean_path (p ++ [a; b]) -> abspath (path_join (p ++ [a; b]) [S_dotdot; S_dotdot]) = p.
Proof.
  intros H. unfold abspath, path_join. rewrite norm_rev_app, (norm_rev_clean _ H), app_nil_r.
  rewrite rev_app_distr. cbn [rev app norm_rev zlist_eqb S_dotdot Z.eqb Pos.eqb andb tl]. apply rev_involutive.
Qed.

Lemma repository_root_in : repository_root (script_in root) = root.
Proof.
  unfold repository_root. rewrite script_location_in. apply norm_two_up.
  apply clean_app. split; [exact Hroot | repeat constructor; discriminate].
Qed.

Lemma main_nf_file_in : main_nf_file (script_in root) = root ++ [S_main_nf].
Proof.
  unfold main_nf_file. rewrite repository_root_in. unfold path_join. apply abspath_clean.
  apply clean_app. split; [exact Hroot | repeat constructor; discriminate].
Qed.

Lemma base_config_in : base_config (script_in root) = root ++ [S_nextflow_config].
Proof.
  unfold base_config. rewrite nextflow_dir_in. unfold abspath, path_join.
  assert (Hc : clean_path (root ++ [S_nextflow])) by (apply clean_app; split; [exact Hroot | repeat constructor; discriminate]).
  rewrite norm_rev_app, (norm_rev_clean _ Hc), app_nil_r, rev_app_distr.
  cbn [rev app norm_rev zlist_eqb S_dotdot S_dot S_nextflow_config Z.eqb Pos.eqb andb orb tl Orchestrate.is_nil].
  rewrite rev_involutive. reflexivity.
Qed.

(* the translated helpers on the repository's layout *)
Theorem src_paths_in_checkout :
  src_get_script_location (script_in root) = SOk (root ++ [S_nextflow; S_scripts]) /\
  src_get_nextflow_dir (script_in root) = SOk (root ++ [S_nextflow]) /\
  src_get_base_config (script_in root) = SOk (root ++ [S_nextflow_config]) /\
  src_get_repository_root (script_in root) = SOk root /\
  src_get_main_nf_file (script_in root) = SOk (root ++ [S_main_nf]).
Proof.
  rewrite src_get_script_location_is_model, src_get_nextflow_dir_is_model, src_get_base_config_is_model,
    src_get_repository_root_is_model, src_get_main_nf_file_is_model.
  rewrite script_location_in, nextflow_dir_in, base_config_in, repository_root_in, main_nf_file_in. repeat split.
Qed.

(* the script itself lies under the root the helper finds, at nextflow/scripts/<file> *)
Theorem src_repository_root_contains_script :
  (dos r <- src_get_repository_root (script_in root); SOk (r ++ [S_nextflow; S_scripts; S_batchie_py])) = SOk (script_in root).
Proof. rewrite src_get_repository_root_is_model, repository_root_in. reflexivity. Qed.

End Layout.
