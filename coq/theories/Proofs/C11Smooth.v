(* C11: every shipped smoother returns a sub-multiset of its input (any oracle answers);
   merge smoothers only relabel, size / per-sample smoothers only select rows. *)
From Coq Require Import ZArith List Bool Arith Lia Permutation.
From Batchie Require Import Lib.Sexp Model.Encode Model.Screen Model.Retro Proofs.C11Lib Proofs.C11Gen.
Import ListNotations.
Open Scope nat_scope.

(* ---------- merge smoothers: relabel only ---------- *)
Lemma merge_strip : forall a b rows, map strip (snd (merge a b rows)) = map strip rows.
Proof. intros. unfold merge. cbn [snd]. apply vrelabel_strip. Qed.

Lemma pop_ok : forall heap ds v h ds',
  pop heap ds = Ok (v, h, ds') ->
  exists i, ds = DInts [i] :: ds' /\ nth_error heap i = Some v /\ h = remove_nth i heap
            /\ forallb (fun w => vcount v <=? vcount w) heap = true.
Proof.
  intros heap ds v h ds' H. unfold pop in H.
  destruct ds as [|[[|i [|j l]]|l] ds]; try discriminate.
  destruct (nth_error heap i) as [v0|] eqn:En; [|discriminate].
  destruct (forallb _ heap) eqn:Ef; [|discriminate].
  inversion H; subst. exists i. auto.
Qed.

Lemma mm_loop_strip : forall fuel ms heap rows ds rows' ds',
  mm_loop fuel ms heap rows ds = Ok (rows', ds') -> map strip rows' = map strip rows.
Proof.
  induction fuel as [|f IH]; intros ms heap rows ds rows' ds' H; cbn [mm_loop] in H.
  - now inversion H.
  - destruct (length heap <=? 1); [now inversion H|].
    destruct (pop heap ds) as [[[a h1] ds1]|t]; cbn [res_bind] in H; [|discriminate].
    destruct (pop h1 ds1) as [[[b h2] ds2]|t]; cbn [res_bind] in H; [|discriminate].
    destruct (_ >? ms)%Z; [now inversion H|].
    destruct (merge b a rows) as [m rows1] eqn:Em.
    apply IH in H. rewrite H. change rows1 with (snd (m, rows1)). rewrite <- Em. apply merge_strip.
Qed.

Lemma mm_samples_strip : forall ms samples rows ds rows' ds',
  mm_samples ms samples rows ds = Ok (rows', ds') -> map strip rows' = map strip rows.
Proof.
  induction samples as [|s samples IH]; intros rows ds rows' ds' H; cbn [mm_samples] in H.
  - now inversion H.
  - destruct (plates_of_sample s rows) as [ps|t]; cbn [res_bind] in H; [|discriminate].
    destruct (mm_loop _ _ _ _ _) as [[rows1 ds1]|t] eqn:El; cbn [res_bind] in H; [|discriminate].
    apply mm_loop_strip in El. apply IH in H. congruence.
Qed.

Lemma merge_min_strip : forall ms rows ds rows' ds',
  merge_min ms rows ds = Ok (rows', ds') -> map strip rows' = map strip rows.
Proof. intros ms rows ds rows' ds'. apply mm_samples_strip. Qed.

Lemma tb_merge_pairs_strip : forall pairs rows, map strip (tb_merge_pairs pairs rows) = map strip rows.
Proof.
  induction pairs as [|[small big] pairs IH]; intros rows; cbn [tb_merge_pairs]; [reflexivity|].
  rewrite IH. apply merge_strip.
Qed.

Lemma tb_iter_strip : forall s rows rows', tb_iter s rows = Ok (Some rows') -> map strip rows' = map strip rows.
Proof.
  intros s rows rows' H. unfold tb_iter in H.
  destruct (plates_of_sample s rows) as [ps|t]; cbn [res_bind] in H; [|discriminate].
  destruct (length ps <=? 1); [discriminate|]. inversion H. apply tb_merge_pairs_strip.
Qed.

Lemma tb_iters_strip : forall n s rows rows', tb_iters n s rows = Ok rows' -> map strip rows' = map strip rows.
Proof.
  induction n as [|n IH]; intros s rows rows' H; cbn [tb_iters] in H.
  - now inversion H.
  - destruct (tb_iter s rows) as [[rows1|]|t] eqn:Ei; cbn [res_bind] in H; try discriminate.
    + apply tb_iter_strip in Ei. apply IH in H. congruence.
    + now inversion H.
Qed.

Lemma tb_samples_strip : forall n samples rows rows',
  tb_samples n samples rows = Ok rows' -> map strip rows' = map strip rows.
Proof.
  induction samples as [|s samples IH]; intros rows rows' H; cbn [tb_samples] in H.
  - now inversion H.
  - destruct (tb_iters n s rows) as [rows1|t] eqn:Ei; cbn [res_bind] in H; [|discriminate].
    apply tb_iters_strip in Ei. apply IH in H. congruence.
Qed.

Lemma merge_tb_strip : forall n rows rows', merge_tb n rows = Ok rows' -> map strip rows' = map strip rows.
Proof. intros n rows rows'. apply tb_samples_strip. Qed.

(* ---------- size / per-sample smoothers: row selection ---------- *)
Lemma size_smooth_selects : forall t rows ds out ds',
  size_smooth t rows ds = Ok (out, ds') -> exists v : bvec, out = vselect v rows.
Proof.
  intros t rows ds out ds' H. unfold size_smooth in H.
  destruct (size_results _ _ _ _ _) as [[vs ds1]|e]; cbn [res_bind] in H; [|discriminate].
  inversion H. eauto.
Qed.

Lemma optimal_smooth_selects : forall rows ds out ds',
  optimal_smooth rows ds = Ok (out, ds') -> exists v : bvec, out = vselect v rows.
Proof.
  intros rows ds out ds' H. unfold optimal_smooth in H. destruct (is_nil rows); [discriminate|].
  eapply size_smooth_selects; eassumption.
Qed.

Lemma np_drop_stale_filter : forall m todo rows, exists h, np_drop_stale m todo rows = filter h rows.
Proof.
  induction todo as [|[sid c] todo IH]; intros rows; cbn [np_drop_stale].
  - exists (fun _ => true). induction rows as [|r rows IHr]; cbn [filter]; congruence.
  - destruct (Z.of_nat c <? m)%Z; [|apply IH].
    match goal with |- context [np_drop_stale m todo (filter ?g rows)] =>
      destruct (IH (filter g rows)) as [h Hh]; exists (fun x => g x && h x) end.
    rewrite Hh. apply filter_filter'.
Qed.

Lemma nplate_selects : forall fx m rows out, nplate fx m rows = Ok out -> exists v : bvec, out = vselect v rows.
Proof.
  intros fx m rows out H. unfold nplate in H.
  destruct (plate_counts rows) as [counts|t]; cbn [res_bind] in H; [|discriminate].
  destruct fx; inversion H.
  - eexists. apply filter_vselect.
  - destruct (np_drop_stale_filter m (map (fun kc => (sample_id rows (fst kc), snd kc)) counts) rows) as [h Hh].
    rewrite Hh. eexists. apply filter_vselect.
Qed.

(* ---------- all shipped smoothers ---------- *)
Lemma unmasked_of_submulti_strip : forall a b, submulti (map strip a) (map strip b) -> unmasked b -> unmasked a.
Proof.
  intros a b HS Hb. apply Forall_forall. intros r Hr.
  assert (Hin : In (strip r) (map strip b)) by (eapply submulti_In; [exact HS|now apply in_map]).
  apply in_map_iff in Hin as (r' & E & Hr'). unfold unmasked in Hb. rewrite Forall_forall in Hb.
  rewrite <- (strip_mask _ _ E). now apply Hb.
Qed.

Lemma selects_sub : forall (v : bvec) rows, submulti (map strip (vselect v rows)) (map strip rows).
Proof. intros. apply submulti_map, vselect_submulti. Qed.

Lemma wrap_sub : forall f,
  (forall u ds nu ds', unmasked u -> f u ds = Ok (nu, ds') -> submulti (map strip nu) (map strip u)) ->
  forall u ds nu ds', unmasked u -> wrap f u ds = Ok (nu, ds') -> submulti (map strip nu) (map strip u).
Proof.
  intros f Hf u ds nu ds' Hu H. destruct (wrap_unmasked _ _ _ _ _ Hu H) as [(-> & -> & _)|(_ & H')].
  - apply submulti_refl.
  - eapply Hf; eassumption.
Qed.

Lemma pure_sm_ok : forall f rows ds out ds', pure_sm f rows ds = Ok (out, ds') -> f rows = Ok out.
Proof.
  intros f rows ds out ds' H. unfold pure_sm in H. destruct (f rows); cbn [res_bind] in H; congruence.
Qed.

Lemma merge_min_sub : forall ms u ds nu ds', unmasked u -> merge_min ms u ds = Ok (nu, ds') ->
  submulti (map strip nu) (map strip u).
Proof. intros. apply submulti_of_eq. eapply merge_min_strip; eassumption. Qed.
Lemma merge_tb_sub : forall n u ds nu ds', unmasked u -> pure_sm (merge_tb n) u ds = Ok (nu, ds') ->
  submulti (map strip nu) (map strip u).
Proof. intros n u ds nu ds' _ H. apply pure_sm_ok in H. apply submulti_of_eq. eapply merge_tb_strip; eassumption. Qed.
Lemma optimal_sub : forall u ds nu ds', unmasked u -> optimal_smooth u ds = Ok (nu, ds') ->
  submulti (map strip nu) (map strip u).
Proof. intros u ds nu ds' _ H. apply optimal_smooth_selects in H as [v ->]. apply selects_sub. Qed.
Lemma nplate_sub : forall fx m u ds nu ds', unmasked u -> pure_sm (nplate fx m) u ds = Ok (nu, ds') ->
  submulti (map strip nu) (map strip u).
Proof. intros fx m u ds nu ds' _ H. apply pure_sm_ok in H. apply nplate_selects in H as [v ->]. apply selects_sub. Qed.

Lemma ensemble_sub : forall fx ms n m u ds nu ds', unmasked u -> ensemble fx ms n m u ds = Ok (nu, ds') ->
  submulti (map strip nu) (map strip u).
Proof.
  intros fx ms n m u ds nu ds' Hu H. unfold ensemble in H.
  destruct (wrap (merge_min ms) u ds) as [[s1 d1]|t] eqn:E1; cbn [res_bind] in H; [|discriminate].
  destruct (wrap (pure_sm (merge_tb n)) s1 d1) as [[s2 d2]|t] eqn:E2; cbn [res_bind] in H; [|discriminate].
  destruct (wrap optimal_smooth s2 d2) as [[s3 d3]|t] eqn:E3; cbn [res_bind] in H; [|discriminate].
  pose proof (wrap_sub _ (merge_min_sub ms) _ _ _ _ Hu E1) as S1.
  pose proof (unmasked_of_submulti_strip _ _ S1 Hu) as U1.
  pose proof (wrap_sub _ (merge_tb_sub n) _ _ _ _ U1 E2) as S2.
  pose proof (unmasked_of_submulti_strip _ _ S2 U1) as U2.
  pose proof (wrap_sub _ optimal_sub _ _ _ _ U2 E3) as S3.
  pose proof (unmasked_of_submulti_strip _ _ S3 U2) as U3.
  pose proof (wrap_sub _ (nplate_sub fx m) _ _ _ _ U3 H) as S4.
  eapply submulti_trans; [exact S4|]. eapply submulti_trans; [exact S3|].
  eapply submulti_trans; [exact S2|exact S1].
Qed.

Lemma smooth_inner_sub : forall sm u ds nu ds', unmasked u -> smooth_inner sm u ds = Ok (nu, ds') ->
  submulti (map strip nu) (map strip u).
Proof.
  intros [ms|n|t| |fx m|fx ms n m] u ds nu ds' Hu H; cbn [smooth_inner] in H.
  - eapply merge_min_sub; eassumption.
  - eapply merge_tb_sub; eassumption.
  - apply size_smooth_selects in H as [v ->]. apply selects_sub.
  - eapply optimal_sub; eassumption.
  - eapply nplate_sub; eassumption.
  - eapply ensemble_sub; eassumption.
Qed.

Theorem smoother_sub : forall sm rows ds out ds',
  smooth_plates sm rows ds = Ok (out, ds') ->
  exists nu, out = nu ++ observed rows
             /\ Forall (fun r => r_mask r = false) nu
             /\ exists rest, Permutation (map strip nu ++ rest) (map strip (unobserved rows)).
Proof.
  intros sm rows ds out ds' H. apply wrap_ok in H as [(E & -> & _)|(_ & nu & Hf & ->)].
  - exists []. rewrite E. cbn [app map]. repeat split; [now rewrite observed_all|constructor|].
    exists []. constructor.
  - exists nu. pose proof (smooth_inner_sub _ _ _ _ _ (unmasked_unobserved rows) Hf) as HS.
    repeat split; [|exact HS]. eapply unmasked_of_submulti_strip; [exact HS|apply unmasked_unobserved].
Qed.

Theorem merge_smoothers_relabel_only : forall rows ds out ds',
  (forall ms, merge_min ms rows ds = Ok (out, ds') -> map strip out = map strip rows) /\
  (forall n, merge_tb n rows = Ok out -> map strip out = map strip rows).
Proof.
  intros rows ds out ds'. split; [intros ms H; eapply merge_min_strip; eassumption|intros n H; eapply merge_tb_strip; eassumption].
Qed.

Theorem size_smoothers_keep_rows : forall rows ds out ds',
  (forall t, size_smooth t rows ds = Ok (out, ds') -> exists v : bvec, out = vselect v rows) /\
  (optimal_smooth rows ds = Ok (out, ds') -> exists v : bvec, out = vselect v rows) /\
  (forall fx m, nplate fx m rows = Ok out -> exists v : bvec, out = vselect v rows).
Proof.
  intros rows ds out ds'. repeat split.
  - intros t H. eapply size_smooth_selects; eassumption.
  - intros H. eapply optimal_smooth_selects; eassumption.
  - intros fx m H. eapply nplate_selects; eassumption.
Qed.

Theorem select_any_sub : forall (v : bvec) (rows : list row), exists rest, Permutation (vselect v rows ++ rest) rows.
Proof. intros. apply vselect_submulti. Qed.
