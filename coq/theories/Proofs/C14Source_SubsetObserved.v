(* C14, one piece of Proofs/C14Source.v (conventions and objects: see there): Screen.subset_observed / subset_unobserved *)
From Coq Require Import ZArith List Bool Arith Lia ZifyBool.
From Batchie Require Import Lib.Sexp Lib.PyRt Model.Encode Model.Screen Model.Views Generated.SrcViews
  Proofs.PyRtLemmas Proofs.C14Lists Proofs.C14Source_ScreenSubset.
Import ListNotations.
Open Scope Z_scope.

(* None iff no row is observed; otherwise self.subset(mask) *)
Theorem src_subset_observed_is_model : forall s : pyscreen,
  src_subset_observed s = opt_result (subset_observed (fst s) (snd s)).
Proof.
  intros s. unfold src_subset_observed, subset_observed.
  destruct (existsb (fun b => b) (screen_mask (snd s))); [|reflexivity].
  rewrite src_screen_subset_is_model. reflexivity.
Qed.

Theorem src_subset_unobserved_is_model : forall s : pyscreen,
  src_subset_unobserved s = opt_result (subset_unobserved (fst s) (snd s)).
Proof.
  intros s. unfold src_subset_unobserved, subset_unobserved.
  destruct (existsb (fun b => b) (map negb (screen_mask (snd s)))); [|reflexivity].
  rewrite src_screen_subset_is_model. reflexivity.
Qed.
