(* C14, one piece of Proofs/C14SourceHelpers.v (which see): ScreenBase.is_observed on a Screen object *)
From Coq Require Import ZArith List Bool Arith Lia ZifyBool.
From Batchie Require Import Lib.Sexp Lib.PyRt Generated.Consts Model.Encode Model.Screen Model.Views
  Generated.SrcEncode Generated.SrcViews Generated.SrcPlates
  Proofs.PyRtLemmas Proofs.C01Sort Proofs.C14Defs Proofs.C14Lists Proofs.C14Unique
  Proofs.C14SourceHelpers_Base.
Import ListNotations.
Open Scope Z_scope.

Theorem src_screen_is_observed_is_model : forall s : pyscreen, src_screen_is_observed s = Ok (screen_is_observed (snd s)).
Proof. intros s. unfold src_screen_is_observed, screen_is_observed, np_all, screen_mask. now rewrite forallb_map. Qed.
