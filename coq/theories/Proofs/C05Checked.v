(* C05 proofs, part 7: the scorer with its ValueError checks and unranking of the recorded
   draws (what the wire entry point runs) returns the pure [scorer] value on well-formed input. *)
From Coq Require Import ZArith List QArith Qcanon Lia Arith Permutation.
From Batchie Require Import Lib.Sexp Lib.Num Lib.NumP Lib.ListX Model.Unrank Model.Dbal
  Proofs.C05Pad Proofs.C05Lse Proofs.C05Kernel Proofs.C05Scorer Proofs.C05Inv.
Import ListNotations.

Lemma take_sizes_nonempty {A} sizes : forall (l : list A),
  Forall (fun s => 0 < s)%nat sizes -> (list_sum sizes <= length l)%nat ->
  Forall (fun g => g <> []) (take_sizes l sizes).
Proof.
  induction sizes as [|s r IH]; intros l Hpos Hsum; cbn [take_sizes]; [constructor|].
  inversion Hpos as [|? ? Hs Hr]; subst.
  change (list_sum (s :: r)) with (s + list_sum r)%nat in Hsum.
  constructor.
  - intros E. apply (f_equal (@length A)) in E. rewrite firstn_length in E. cbn [length] in E. lia.
  - apply IH; [exact Hr|]. rewrite skipn_length. lia.
Qed.

Lemma ceil_div_le n m : (0 < n)%nat -> (0 < m)%nat -> (ceil_div n m <= n)%nat.
Proof.
  intros Hn Hm. unfold ceil_div. apply Nat.div_le_upper_bound; [lia|]. nia.
Qed.

Lemma array_split_nonempty {A} (l : list A) k :
  (0 < k)%nat -> (k <= length l)%nat -> Forall (fun g => g <> []) (array_split l k).
Proof.
  intros Hk Hle. unfold array_split. apply take_sizes_nonempty.
  - assert (Hq : (0 < length l / k)%nat) by (apply Nat.div_str_pos; lia).
    apply Forall_app. split; apply Forall_forall; intros s Hs; apply repeat_spec in Hs; lia.
  - rewrite split_sizes_sum by exact Hk. lia.
Qed.

Section Checked.
Variables (orc : oracle) (T : nat) (D : list (list Qc)).
Hypothesis HT : (3 <= T)%nat.
Hypothesis HD : rect T T D.

Definition chk_step (gd : list (Z * plate) * list Z) : result (list (Z * ext)) :=
  res_bind (hetero_checked orc (map snd (fst gd)) D 1%Qc (snd gd))
           (fun v => Ok (combine (map fst (fst gd)) v)).
Definition pure_step (gd : list (Z * plate) * list triple) : list (Z * ext) :=
  combine (map fst (fst gd)) (hetero orc (map snd (fst gd)) D 1%Qc (snd gd)).

Lemma steps_ok groups : forall draws_idx draws_ts,
  Forall (fun g => g <> [] /\ Forall (fun kp => plate_wf T (snd kp)) g) groups ->
  Forall2 (fun idxs ts => triples_of_draw T idxs = Ok ts) draws_idx draws_ts ->
  res_map_all chk_step (combine groups draws_idx) = Ok (map pure_step (combine groups draws_ts)).
Proof.
  induction groups as [|g groups IH]; intros di dt Hg HF; [reflexivity|].
  inversion HF as [|idxs ts di' dt' Hdraw HF']; subst; [reflexivity|].
  inversion Hg as [|? ? [Hne Hwf] Hg']; subst.
  cbn [combine res_map_all map]. rewrite (IH _ _ Hg' HF').
  unfold chk_step at 1. cbn [fst snd].
  rewrite (hetero_checked_ok orc T); [|exact HT| |  |exact HD].
  - rewrite Hdraw. reflexivity.
  - intros E. apply map_eq_nil in E. contradiction.
  - apply Forall_forall. intros pl Hpl. apply in_map_iff in Hpl as (kp & <- & Hkp).
    rewrite Forall_forall in Hwf. now apply Hwf.
Qed.

Theorem scorer_checked_ok mc plates draws_idx draws_ts :
  (0 < mc)%nat -> plates <> [] ->
  Forall (fun kp => plate_wf T (snd kp)) plates ->
  Forall2 (fun idxs ts => triples_of_draw T idxs = Ok ts) draws_idx draws_ts ->
  scorer_checked orc mc plates D draws_idx = Ok (scorer orc mc plates D draws_ts).
Proof.
  intros Hmc Hne Hwf HF. unfold scorer_checked, scorer.
  destruct plates as [|kp rest] eqn:Epl; [congruence|]. rewrite <- Epl in *.
  set (k := ceil_div (length plates) mc).
  assert (Hn : (0 < length plates)%nat) by (rewrite Epl; cbn [length]; lia).
  assert (Hk : (0 < k)%nat) by (now apply ceil_div_pos).
  assert (Hkn : (k <= length plates)%nat) by (now apply ceil_div_le).
  fold chk_step.
  rewrite (steps_ok (array_split plates k) draws_idx draws_ts).
  - cbn [res_bind]. f_equal. symmetry. apply flat_map_concat_map.
  - pose proof (array_split_nonempty plates k Hk Hkn) as Hnonempty.
    rewrite Forall_forall in Hnonempty. apply Forall_forall. intros g Hg. split; [now apply Hnonempty|].
    apply Forall_forall. intros x Hx. rewrite Forall_forall in Hwf. apply Hwf.
    rewrite <- (concat_array_split plates k (or_introl Hk)). apply in_concat. now exists g.
  - exact HF.
Qed.
End Checked.
