(* C19: get_args of nextflow/scripts/batchie.py, re-translated from /repo on every run (Generated/SrcOrchArgs.v, configuration
   C19_GET_ARGS of harness/src_functions.py): the option table the four add_argument calls build is the model's orch_options,
   the function is argparse (Orchestrate.parse_known_args) on that table; and every namespace a successful parse yields has
   the attributes main() reads, at the types the model of main() assumes. *)
From Coq Require Import ZArith List Bool Lia.
From Batchie Require Import Lib.Sexp Lib.PyRt Model.Orchestrate Generated.SrcOrchArgs.
Import ListNotations.
Open Scope Z_scope.

Lemma sbind_pair_ret {A B : Type} (r : sres (A * B)) : (dos x <- r; let '(a, b) := x in SOk (a, b)) = r.
Proof. destruct r as [[a b]|w s|d w]; reflexivity. Qed.

(* ---- the link: for every command line ---- *)
Theorem src_get_args_is_model : forall cmdline : list str,
  src_get_args cmdline = parse_known_args orch_options cmdline.
Proof.
  intros cmdline. unfold src_get_args. cbn [app].
  change [mko [45; 45; 115; 99; 114; 101; 101; 110] TStr true None;
          mko [45; 45; 98; 97; 116; 99; 104; 45; 115; 105; 122; 101] TInt false (Some 1);
          mko [45; 45; 109; 111; 100; 101]
            (TChoice [[114; 101; 116; 114; 111; 115; 112; 101; 99; 116; 105; 118; 101]; [112; 114; 111; 115; 112; 101; 99; 116; 105; 118; 101]])
            true None;
          mko [45; 45; 111; 117; 116; 100; 105; 114] TStr true None] with orch_options.
  apply sbind_pair_ret.
Qed.

(* the attribute names argparse derives from the option strings are the ones main() reads *)
Lemma orch_dests : map o_dest orch_options = [D_screen; D_batch_size; D_mode; D_outdir].
Proof. reflexivity. Qed.

(* ---- what a successful parse yields ---- *)
Lemma zlist_eqb_eq a b : zlist_eqb a b = true <-> a = b.
Proof.
  revert b; induction a as [|x a IH]; intros [|y b]; cbn [zlist_eqb]; try (split; [discriminate|congruence]).
  - split; reflexivity.
  - rewrite andb_true_iff, Z.eqb_eq, IH. split; [intros [-> ->]; reflexivity | intros H; injection H; auto].
Qed.

Lemma zlist_eqb_refl a : zlist_eqb a a = true.
Proof. now apply zlist_eqb_eq. Qed.

Lemma ns_get_set d k v ns : ns_get d (ns_set k v ns) = if zlist_eqb k d then Some v else ns_get d ns.
Proof.
  induction ns as [|[k0 x] ns IH]; cbn [ns_set ns_get].
  - reflexivity.
  - destruct (zlist_eqb k0 k) eqn:E0; cbn [ns_get].
    + apply zlist_eqb_eq in E0. subst k0. destruct (zlist_eqb k d); reflexivity.
    + destruct (zlist_eqb k0 d) eqn:E1; [|exact IH].
      apply zlist_eqb_eq in E1. subst k0.
      destruct (zlist_eqb k d) eqn:E2; [|reflexivity].
      apply zlist_eqb_eq in E2. subst k. now rewrite zlist_eqb_refl in E0.
Qed.

(* a value of the kind the option's conversion produces *)
Definition val_ok (t : argtype) (v : nsval) : Prop :=
  match t with
  | TStr => exists s, v = VStr s
  | TInt => exists z, v = VInt z
  | TChoice cs => exists s, v = VStr s /\ existsb (zlist_eqb s) cs = true
  end.

Lemma convert_ok t v x : convert_arg t v = SOk x -> val_ok t x.
Proof.
  destruct t as [| |cs]; cbn [convert_arg val_ok].
  - intros H; injection H as <-. eauto.
  - destruct v as [|c v]; [destruct (forallb is_alnum_dot []); discriminate|].
    destruct (uint_of_chars (c :: v)); [intros H; injection H as <-; eauto|].
    destruct (forallb is_alnum_dot (c :: v)); discriminate.
  - destruct (existsb (zlist_eqb v) cs) eqn:E; [|discriminate]. intros H; injection H as <-. eauto.
Qed.

Lemma find_opt_some table w o : find_opt table w = Some o -> In o table /\ o_flag o = w.
Proof. unfold find_opt. intros H. apply find_some in H as [Hi He]. split; [exact Hi | now apply zlist_eqb_eq]. Qed.

(* everything the scan stores was given with a declared option string that occurs on the command line, and has that
   option's kind of value *)
Definition given_ok (table : list optspec) (ws : list str) (ns : namespace) : Prop :=
  forall d v, ns_get d ns = Some v ->
  exists o, In o table /\ o_dest o = d /\ In (o_flag o) ws /\ val_ok (o_type o) v.

Lemma scan_given_ok table : forall n ws all ns0 ex0 r,
  (length ws <= n)%nat -> incl ws all -> given_ok table all ns0 ->
  scan_words table ws ns0 ex0 = SOk r -> given_ok table all (fst r).
Proof.
  induction n as [|n IH]; intros ws all ns0 ex0 r Hl Hi G H.
  - destruct ws; [|cbn in Hl; lia]. cbn in H. injection H as <-. exact G.
  - destruct ws as [|w ws]; [cbn in H; injection H as <-; exact G|].
    cbn [scan_words] in H. cbn [length] in Hl.
    destruct (find_opt table w) as [o|] eqn:Ef.
    + destruct ws as [|v ws]; [discriminate|].
      destruct (starts_with_dash v); [discriminate|].
      destruct (convert_arg (o_type o) v) as [x|? ?|? ?] eqn:Ec; cbn [sbind] in H; try discriminate.
      apply (IH ws all (ns_set (o_dest o) x ns0) ex0 r); [cbn [length] in Hl; lia | | | exact H].
      * intros a Ha. apply Hi. right. right. exact Ha.
      * intros d v0. rewrite ns_get_set. destruct (zlist_eqb (o_dest o) d) eqn:Ed.
        -- intros E; injection E as <-. apply zlist_eqb_eq in Ed.
           destruct (find_opt_some _ _ _ Ef) as [Hin Hfl]. exists o. repeat split; [exact Hin | exact Ed | | exact (convert_ok _ _ _ Ec)].
           rewrite Hfl. apply Hi. now left.
        -- apply G.
    + apply (IH ws all ns0 (ex0 ++ [w]) r); [lia | | exact G | exact H]. intros a Ha. apply Hi. now right.
Qed.

Lemma given_ok_nil table all : given_ok table all [].
Proof. intros d v H. discriminate H. Qed.

(* the four options of the script's parser, told apart by their attribute name *)
Lemma orch_option_by_dest o : In o orch_options ->
  (o_dest o = D_screen /\ o = mko L_screen TStr true None) \/
  (o_dest o = D_batch_size /\ o = mko L_batch_size TInt false (Some 1)) \/
  (o_dest o = D_mode /\ o = mko L_mode (TChoice [L_retrospective; L_prospective]) true None) \/
  (o_dest o = D_outdir /\ o = mko L_outdir TStr true None).
Proof. intros [<-|[<-|[<-|[<-|[]]]]]; auto 6. Qed.

Ltac dest_clash H := let E := fresh in
  repeat match type of H with _ \/ _ => destruct H as [H|H] end;
  destruct H as [E _]; try discriminate E.

(* argparse's contract for this parser, derived from the model of parse_known_args and the TRANSLATED table: a parse that
   succeeds yields exactly the four attributes, a str for --screen and --outdir, an int for --batch-size (1 when the option is
   not on the command line), one of the two `choices` for --mode *)
Theorem parse_orch_options_shape : forall cmdline ns extra,
  parse_known_args orch_options cmdline = SOk (ns, extra) ->
  exists (scr out : str) (b : Z) (md : mode),
    ns = [(D_screen, VStr scr); (D_batch_size, VInt b);
          (D_mode, VStr (match md with Retro => L_retrospective | Prosp => L_prospective end)); (D_outdir, VStr out)]
    /\ (~ In L_batch_size cmdline -> b = 1).
Proof.
  intros cmdline ns extra. unfold parse_known_args.
  destruct (existsb (unmodelled_word orch_options) cmdline); [discriminate|].
  destruct (scan_words orch_options cmdline [] []) as [[g ex]|? ?|? ?] eqn:Es; cbn [sbind fst snd]; try discriminate.
  pose proof (scan_given_ok orch_options (length cmdline) cmdline cmdline [] [] _ (le_n _) (incl_refl _) (given_ok_nil _ _) Es) as G.
  cbn [fst] in G.
  unfold orch_options at 1. cbn [finish_namespace]. unfold o_dest. cbn [o_flag o_required o_default].
  change (dest_of_flag L_screen) with D_screen. change (dest_of_flag L_batch_size) with D_batch_size.
  change (dest_of_flag L_mode) with D_mode. change (dest_of_flag L_outdir) with D_outdir.
  (* --screen *)
  destruct (ns_get D_screen g) as [v1|] eqn:E1; cbn [sbind]; [|discriminate].
  destruct (G _ _ E1) as (o1 & Hi1 & Hd1 & _ & Hv1).
  pose proof (orch_option_by_dest o1 Hi1) as H1.
  destruct H1 as [[_ ->]|[[Hc _]|[[Hc _]|[Hc _]]]]; try (rewrite Hd1 in Hc; discriminate Hc).
  destruct Hv1 as [scr ->].
  (* --batch-size *)
  assert (Hb : exists b, (match ns_get D_batch_size g with Some v => SOk v | None => SOk (VInt 1) end) = SOk (VInt b : nsval)
                         /\ (~ In L_batch_size cmdline -> b = 1)).
  { destruct (ns_get D_batch_size g) as [v2|] eqn:E2; [|exists 1; auto].
    destruct (G _ _ E2) as (o2 & Hi2 & Hd2 & Hin2 & Hv2).
    pose proof (orch_option_by_dest o2 Hi2) as H2.
    destruct H2 as [[Hc _]|[[_ ->]|[[Hc _]|[Hc _]]]]; try (rewrite Hd2 in Hc; discriminate Hc).
    destruct Hv2 as [z ->]. exists z. split; [reflexivity|]. intros Hn. contradiction. }
  destruct Hb as (b & Eb & Hb1). cbn [negb]. rewrite Eb. cbn [sbind].
  (* --mode *)
  destruct (ns_get D_mode g) as [v3|] eqn:E3; cbn [sbind]; [|discriminate].
  destruct (G _ _ E3) as (o3 & Hi3 & Hd3 & _ & Hv3).
  pose proof (orch_option_by_dest o3 Hi3) as H3.
  destruct H3 as [[Hc _]|[[Hc _]|[[_ ->]|[Hc _]]]]; try (rewrite Hd3 in Hc; discriminate Hc).
  destruct Hv3 as (m & -> & Hm). cbn [o_type existsb] in Hm.
  assert (Hmd : exists md, m = match md with Retro => L_retrospective | Prosp => L_prospective end).
  { rewrite !orb_true_iff in Hm. destruct Hm as [Hm|[Hm|Hm]]; [| |discriminate Hm];
      apply zlist_eqb_eq in Hm; [exists Retro | exists Prosp]; exact Hm. }
  destruct Hmd as [md ->].
  (* --outdir *)
  destruct (ns_get D_outdir g) as [v4|] eqn:E4; cbn [sbind]; [|discriminate].
  destruct (G _ _ E4) as (o4 & Hi4 & Hd4 & _ & Hv4).
  pose proof (orch_option_by_dest o4 Hi4) as H4.
  destruct H4 as [[Hc _]|[[Hc _]|[[Hc _]|[_ ->]]]]; try (rewrite Hd4 in Hc; discriminate Hc).
  destruct Hv4 as [out ->].
  intros H; injection H as <- _. exists scr, out, b, md. split; [reflexivity | exact Hb1].
Qed.

(* ---- tied to the fields main() reads ---- *)
(* every args.<x> that the translated main() reads (C19_MAIN: args.mode, args.batch_size as fields; args.outdir, args.screen under
   os.path.abspath) is an attribute of every namespace the TRANSLATED get_args returns, with the type the model of main() assumes:
   mode one of the two names main() dispatches on (its `else: raise ValueError` is dead), batch_size an int, outdir and screen
   strings *)
Theorem src_get_args_gives_main_args : forall cmdline ns extra,
  src_get_args cmdline = SOk (ns, extra) ->
  exists (md : mode) (b : Z) (scr out : str),
    margs_of_ns ns = Some (mka (modename_of md) b)
    /\ ns_get D_screen ns = Some (VStr scr) /\ ns_get D_outdir ns = Some (VStr out)
    /\ map fst ns = map o_dest orch_options
    /\ (~ In L_batch_size cmdline -> b = 1).
Proof.
  intros cmdline ns extra H. rewrite src_get_args_is_model in H.
  destruct (parse_orch_options_shape _ _ _ H) as (scr & out & b & md & -> & Hb).
  exists md, b, scr, out. repeat split; try reflexivity; [|exact Hb].
  destruct md; reflexivity.
Qed.

(* the remaining arguments: without any of the parser's own option strings on it, the whole command line is handed on, in
   order (and then the parse fails: the three required options are missing) - more usefully: the words that are not
   consumed keep their order *)
Lemma scan_extras table : forall n ws ns0 ex0 r,
  (length ws <= n)%nat -> scan_words table ws ns0 ex0 = SOk r ->
  exists more, snd r = ex0 ++ more /\ forall w, In w more -> In w ws /\ find_opt table w = None.
Proof.
  induction n as [|n IH]; intros ws ns0 ex0 r Hl H.
  - destruct ws; [|cbn in Hl; lia]. cbn in H. injection H as <-. exists []. rewrite app_nil_r. split; [reflexivity | intros w []].
  - destruct ws as [|w ws]; [cbn in H; injection H as <-; exists []; rewrite app_nil_r; split; [reflexivity | intros ? []]|].
    cbn [scan_words] in H. cbn [length] in Hl.
    destruct (find_opt table w) as [o|] eqn:Ef.
    + destruct ws as [|v ws]; [discriminate|].
      destruct (starts_with_dash v); [discriminate|].
      destruct (convert_arg (o_type o) v) as [x|? ?|? ?]; cbn [sbind] in H; try discriminate.
      destruct (IH ws _ _ r ltac:(cbn [length] in Hl; lia) H) as (more & E & Hm). exists more. split; [exact E|].
      intros a Ha. destruct (Hm a Ha) as [Hin Hf]. split; [right; right; exact Hin | exact Hf].
    + destruct (IH ws _ _ r ltac:(lia) H) as (more & E & Hm). exists (w :: more). split.
      * rewrite E, <- app_assoc. reflexivity.
      * intros a [<-|Ha]; [split; [now left | exact Ef]|]. destruct (Hm a Ha) as [Hin Hf]. split; [now right | exact Hf].
Qed.

(* no word of the remaining arguments is one of the script's own option strings (what launch_of_words assumes of the operator's
   extra words), and each of them stood on the command line *)
Theorem src_get_args_remaining : forall cmdline ns extra,
  src_get_args cmdline = SOk (ns, extra) ->
  forall w, In w extra -> In w cmdline /\ ~ In w (map o_flag orch_options).
Proof.
  intros cmdline ns extra H. rewrite src_get_args_is_model in H. unfold parse_known_args in H.
  destruct (existsb (unmodelled_word orch_options) cmdline); [discriminate|].
  destruct (scan_words orch_options cmdline [] []) as [[g ex]|? ?|? ?] eqn:Es; cbn [sbind fst snd] in H; try discriminate.
  destruct (finish_namespace orch_options g); cbn [sbind] in H; try discriminate. injection H as _ <-.
  destruct (scan_extras orch_options (length cmdline) cmdline [] [] _ (le_n _) Es) as (more & E & Hm).
  cbn [snd app] in E. subst ex. intros w Hw. destruct (Hm w Hw) as [Hin Hf]. split; [exact Hin|].
  intros Hc. apply in_map_iff in Hc as (o & Ho & Hio).
  unfold find_opt in Hf. apply (find_none _ _ Hf) in Hio. rewrite Ho, zlist_eqb_refl in Hio. discriminate Hio.
Qed.
