(* C17: the generator clauses ("identical for identical triples and a different, non-overlapping stream for every other chain
   index") read on the whole function, per model class: what a successful run of `sample` hands to set_rng. *)
From Coq Require Import ZArith List Bool Lia.
From Batchie Require Import Lib.Sexp Model.Sampling Proofs.C17Sampling.
Import ListNotations.
Open Scope Z_scope.

(* MCMC models: the key handed over is rng_key of the triple ... *)
Lemma c17_handed_key_mcmc seed nc ci b t n len0 tr len :
  sample 0 seed (Some nc) (Some ci) (Some b) (Some t) n len0 0%nat = Ok (tr, len) ->
  exists k, rng_key seed nc ci = Ok k /\ handed_key tr = Some k.
Proof.
  intros H. destruct (c17_key_in_trace _ _ _ _ _ _ _ _ _ H) as (k & rest & Hk & -> & _).
  exists k. split; [exact Hk|]. cbn [handed_key]. now destruct k.
Qed.

(* ... so two successful runs with different chain indices below n_chains hand over different keys (PARTIAL as
   C17_streams_distinct_partial: keys, not streams), whatever b, t, n and the holders are *)
Theorem c17_mcmc_chains_distinct seed nc ci1 ci2 b1 t1 n1 l1 b2 t2 n2 l2 tr1 len1 tr2 len2 :
  0 <= ci1 < nc -> 0 <= ci2 < nc -> ci1 <> ci2 ->
  sample 0 seed (Some nc) (Some ci1) (Some b1) (Some t1) n1 l1 0%nat = Ok (tr1, len1) ->
  sample 0 seed (Some nc) (Some ci2) (Some b2) (Some t2) n2 l2 0%nat = Ok (tr2, len2) ->
  handed_key tr1 <> handed_key tr2.
Proof.
  intros H1 H2 Hne R1 R2.
  destruct (c17_handed_key_mcmc _ _ _ _ _ _ _ _ _ R1) as (k1 & K1 & ->).
  destruct (c17_handed_key_mcmc _ _ _ _ _ _ _ _ _ R2) as (k2 & K2 & ->).
  intros E. injection E as E. subst k2.
  destruct (c17_key_injective _ _ _ _ _ _ _ H1 H2 K1 K2) as [_ Hci]. exact (Hne Hci).
Qed.

(* VI models: none of n_chains, chain_index, n_burnin, thin is read - the whole run, generator included, is the same *)
Theorem c17_vi_ignores_chain seed nc ci b t nc' ci' b' t' n len0 ret :
  sample 1 seed nc ci b t n len0 ret = sample 1 seed nc' ci' b' t' n len0 ret.
Proof. reflexivity. Qed.

(* the key a VI model is handed is (seed, []) = default_rng(seed) *)
Theorem c17_vi_handed_key seed nc ci b t n len0 ret tr len :
  sample 1 seed nc ci b t n len0 ret = Ok (tr, len) -> handed_key tr = Some (seed, []).
Proof.
  unfold sample. cbn [Z.eqb]. unfold sample_vi. destruct (seed <? 0); [discriminate|].
  destruct (add_all n (ret) len0) as [r|e]; cbn [res_bind]; [|discriminate].
  intros H. injection H as <- _. reflexivity.
Qed.

(* REFUTED for VI models: the clause "a different stream for every other chain index", inside the quantifier
   (seed 0, two chains, indices 0 and 1, one sample): both runs succeed and hand over the same key *)
Theorem c17_vi_streams_distinct_refuted :
  exists seed nc ci1 ci2 n tr1 len1 tr2 len2,
    0 <= seed /\ 1 <= n /\ 0 <= ci1 < nc /\ 0 <= ci2 < nc /\ ci1 <> ci2 /\
    sample 1 seed (Some nc) (Some ci1) (Some 0) (Some 1) n 0 (Z.to_nat n) = Ok (tr1, len1) /\
    sample 1 seed (Some nc) (Some ci2) (Some 0) (Some 1) n 0 (Z.to_nat n) = Ok (tr2, len2) /\
    handed_key tr1 = handed_key tr2.
Proof.
  exists 0, 2, 0, 1, 1, [Reset; SetRng 0 []; SampleVI 1; Record], 1, [Reset; SetRng 0 []; SampleVI 1; Record], 1.
  repeat split; try lia; vm_compute; try reflexivity; discriminate.
Qed.
