(* C17: the generator clauses ("identical for identical triples and a different, non-overlapping stream for every other chain
   index") read on the whole function, per model class: what a successful run of `sample` hands to set_rng. *)
From Coq Require Import ZArith List Bool Lia.
From Batchie Require Import Lib.Sexp Model.Sampling Proofs.C17Sampling.
Import ListNotations.
Open Scope Z_scope.

(* MCMC models: the key handed over is rng_key of the triple ... *)
Lemma c17_handed_key_mcmc seed nc ci b t n len0 tr len :
  sample 0 seed (Some nc) (Some ci) (Some b) (Some t) n len0 0%nat = Ok (tr, len) ->
  exists k, rng_key seed nc ci = Ok k /\ handed_key tr = Some k.
Proof.
  intros H. destruct (c17_key_in_trace _ _ _ _ _ _ _ _ _ H) as (k & rest & Hk & -> & _).
  exists k. split; [exact Hk|]. cbn [handed_key]. now destruct k.
Qed.

(* ... so two successful runs with different chain indices below n_chains hand over different keys (PARTIAL as
   C17_streams_distinct_partial: keys, not streams), whatever b, t, n and the holders are *)
Theorem c17_mcmc_chains_distinct seed nc ci1 ci2 b1 t1 n1 l1 b2 t2 n2 l2 tr1 len1 tr2 len2 :
  0 <= ci1 < nc -> 0 <= ci2 < nc -> ci1 <> ci2 ->
  sample 0 seed (Some nc) (Some ci1) (Some b1) (Some t1) n1 l1 0%nat = Ok (tr1, len1) ->
  sample 0 seed (Some nc) (Some ci2) (Some b2) (Some t2) n2 l2 0%nat = Ok (tr2, len2) ->
  handed_key tr1 <> handed_key tr2.
Proof.
  intros H1 H2 Hne R1 R2.
  destruct (c17_handed_key_mcmc _ _ _ _ _ _ _ _ _ R1) as (k1 & K1 & ->).
  destruct (c17_handed_key_mcmc _ _ _ _ _ _ _ _ _ R2) as (k2 & K2 & ->).
  intros E. injection E as E. subst k2.
  destruct (c17_key_injective _ _ _ _ _ _ _ H1 H2 K1 K2) as [_ Hci]. exact (Hne Hci).
Qed.

(* ---- VI models, REPAIRED code (fix PENDING): the generator is derived as in the MCMC branch ---- *)

Lemma add_all_records N : forall (m : nat) len r, add_all N m len = Ok r -> forall e, In e (fst r) -> e = Record.
Proof.
  induction m as [|m IH]; intros len r H e He; cbn [add_all] in H.
  - injection H as <-. destruct He.
  - destruct (N <=? len); [discriminate|].
    destruct (add_all N m (len + 1)) as [r2|e2] eqn:E2; cbn [res_bind] in H; [|discriminate].
    injection H as <-. cbn [fst] in He. destruct He as [<-|He]; [reflexivity|]. eapply IH; eassumption.
Qed.

(* a successful VI run is Reset, SetRng (rng_key seed n_chains chain_index), one SampleVI n, then only records *)
Theorem c17_vi_key_in_trace seed nc ci b t n len0 ret tr len :
  sample 1 seed (Some nc) (Some ci) b t n len0 ret = Ok (tr, len) ->
  exists k rest, rng_key seed nc ci = Ok k /\ tr = Reset :: SetRng (fst k) (snd k) :: SampleVI n :: rest /\
                 forall e, In e rest -> e = Record.
Proof.
  unfold sample. cbn [Z.eqb]. unfold sample_vi.
  destruct (rng_key seed nc ci) as [k|e]; cbn [res_bind]; [|discriminate].
  destruct (add_all n ret len0) as [r|e] eqn:E; cbn [res_bind]; [|discriminate].
  intros H. injection H as <- _. exists k, (fst r). split; [reflexivity|]. split; [reflexivity|].
  exact (add_all_records _ _ _ _ E).
Qed.

Lemma c17_vi_handed_key seed nc ci b t n len0 ret tr len :
  sample 1 seed (Some nc) (Some ci) b t n len0 ret = Ok (tr, len) ->
  exists k, rng_key seed nc ci = Ok k /\ handed_key tr = Some k.
Proof.
  intros H. destruct (c17_vi_key_in_trace _ _ _ _ _ _ _ _ _ _ H) as (k & rest & Hk & -> & _).
  exists k. split; [exact Hk|]. cbn [handed_key]. now destruct k.
Qed.

(* two successful VI runs with different chain indices below n_chains hand over different keys (PARTIAL: keys, not streams),
   whatever n, the holders and the numbers of samples the model returns are *)
Theorem c17_vi_chains_distinct seed nc ci1 ci2 b1 t1 n1 l1 r1 b2 t2 n2 l2 r2 tr1 len1 tr2 len2 :
  0 <= ci1 < nc -> 0 <= ci2 < nc -> ci1 <> ci2 ->
  sample 1 seed (Some nc) (Some ci1) b1 t1 n1 l1 r1 = Ok (tr1, len1) ->
  sample 1 seed (Some nc) (Some ci2) b2 t2 n2 l2 r2 = Ok (tr2, len2) ->
  handed_key tr1 <> handed_key tr2.
Proof.
  intros H1 H2 Hne R1 R2.
  destruct (c17_vi_handed_key _ _ _ _ _ _ _ _ _ _ R1) as (k1 & K1 & ->).
  destruct (c17_vi_handed_key _ _ _ _ _ _ _ _ _ _ R2) as (k2 & K2 & ->).
  intros E. injection E as E. subst k2.
  destruct (c17_key_injective _ _ _ _ _ _ _ H1 H2 K1 K2) as [_ Hci]. exact (Hne Hci).
Qed.

(* the same triple gives a VI model and an MCMC model the same key *)
Theorem c17_vi_key_as_mcmc seed nc ci b t n len0 ret tr len b' t' n' len0' tr' len' :
  sample 1 seed (Some nc) (Some ci) b t n len0 ret = Ok (tr, len) ->
  sample 0 seed (Some nc) (Some ci) (Some b') (Some t') n' len0' 0%nat = Ok (tr', len') ->
  handed_key tr = handed_key tr'.
Proof.
  intros R1 R2.
  destruct (c17_vi_handed_key _ _ _ _ _ _ _ _ _ _ R1) as (k1 & K1 & ->).
  destruct (c17_handed_key_mcmc _ _ _ _ _ _ _ _ _ R2) as (k2 & K2 & ->).
  rewrite K1 in K2. now injection K2 as ->.
Qed.

(* n_burnin and thin are still not read for a VI model: the whole run is the same for every value of them *)
Theorem c17_vi_ignores_schedule seed nc ci b t b' t' n len0 ret :
  sample 1 seed nc ci b t n len0 ret = sample 1 seed nc ci b' t' n len0 ret.
Proof. reflexivity. Qed.

(* ---- the PRE-REPAIR variant (sample_pre_repair: default_rng(seed) for every chain) ----
   REFUTED there: the clause "a different stream for every other chain index", inside the quantifier
   (seed 0, two chains, indices 0 and 1, one sample): both runs succeed and hand over the same key *)
Theorem c17_vi_streams_distinct_refuted :
  exists seed nc ci1 ci2 n tr1 len1 tr2 len2,
    0 <= seed /\ 1 <= n /\ 0 <= ci1 < nc /\ 0 <= ci2 < nc /\ ci1 <> ci2 /\
    sample_pre_repair 1 seed (Some nc) (Some ci1) (Some 0) (Some 1) n 0 (Z.to_nat n) = Ok (tr1, len1) /\
    sample_pre_repair 1 seed (Some nc) (Some ci2) (Some 0) (Some 1) n 0 (Z.to_nat n) = Ok (tr2, len2) /\
    handed_key tr1 = handed_key tr2.
Proof.
  exists 0, 2, 0, 1, 1, [Reset; SetRng 0 []; SampleVI 1; Record], 1, [Reset; SetRng 0 []; SampleVI 1; Record], 1.
  repeat split; try lia; vm_compute; try reflexivity; discriminate.
Qed.

(* the pre-repair variant differs from the repaired model only for VI models *)
Lemma c17_pre_repair_only_vi kind seed nc ci b t n len0 ret :
  kind <> 1 -> sample_pre_repair kind seed nc ci b t n len0 ret = sample kind seed nc ci b t n len0 ret.
Proof. intros H. unfold sample_pre_repair. destruct (kind =? 1) eqn:E; [lia|reflexivity]. Qed.
