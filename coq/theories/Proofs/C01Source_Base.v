(* C01, one piece of Proofs/C01Source.v (which see): auxiliary facts about sorting, frames and the left merge that mention no translated function *)
From Coq Require Import ZArith List Bool Lia ZifyBool Arith Sorted.
From Batchie Require Import Lib.Sexp Lib.PyRt Generated.Consts Generated.SrcArithC01 Model.Encode Model.Screen Generated.SrcEncode
  Generated.SrcScreenIds Proofs.PyRtLemmas Proofs.C01Sort Proofs.C01Encode Proofs.C03Screen.
Import ListNotations.
Open Scope Z_scope.

(* ---------- sorting ---------- *)
Section SortBy.
Context {K : Type} (cmp : K -> K -> comparison) (HC : CmpSpec cmp).

(* a strictly sorted list is a fixed point of the (stable insertion) sort *)
Lemma sort_by_of_sorted l : SSorted cmp l -> sort_by cmp l = l.
Proof.
  induction 1 as [|a l Hs IH Hall]; [reflexivity|].
  unfold sort_by in *. cbn [fold_right]. rewrite IH.
  destruct l as [|x r]; [reflexivity|]. cbn [insert_sorted].
  inversion Hall as [|? ? Hax _]; subst. unfold lt in Hax. now rewrite Hax.
Qed.

Lemma insert_sorted_In k l x : In x (insert_sorted cmp k l) <-> x = k \/ In x l.
Proof.
  induction l as [|y l IH]; cbn [insert_sorted In]; [intuition|].
  destruct (cmp k y); cbn [In]; rewrite ?IH; intuition.
Qed.

Lemma sort_by_In l x : In x (sort_by cmp l) <-> In x l.
Proof.
  induction l as [|y l IH]; cbn [sort_by fold_right In]; [tauto|].
  fold (sort_by cmp l). rewrite insert_sorted_In, IH. intuition.
Qed.

(* inserting a key that is not there into a strictly sorted list keeps it strictly sorted *)
Lemma insert_sorted_sorted k l : SSorted cmp l -> ~ In k l -> SSorted cmp (insert_sorted cmp k l).
Proof.
  induction l as [|y l IH]; intros Hs Hn; cbn [insert_sorted]; [repeat constructor|].
  inversion Hs as [|? ? Hs' Hall]; subst.
  assert (Hlt : forall z, cmp k y = Lt -> In z (y :: l) -> lt cmp k z).
  { intros z E [<-|Hz]; [exact E|]. rewrite Forall_forall in Hall. eapply (cmp_trans _ HC); [exact E | now apply Hall]. }
  destruct (cmp k y) eqn:E.
  - apply (cmp_eq _ HC) in E. subst. exfalso. apply Hn. now left.
  - constructor; [exact Hs|]. apply Forall_forall. intros z Hz. now apply Hlt.
  - constructor; [apply IH; [exact Hs' | intros X; apply Hn; now right]|].
    apply Forall_forall. intros z Hz. apply insert_sorted_In in Hz as [->|Hz].
    + now apply cmp_gt_lt.
    + rewrite Forall_forall in Hall. now apply Hall.
Qed.

Lemma sort_by_sorted l : NoDup l -> SSorted cmp (sort_by cmp l).
Proof.
  induction 1 as [|a l Hn Hd IH]; cbn [sort_by fold_right]; [constructor|].
  fold (sort_by cmp l). apply insert_sorted_sorted; [exact IH|]. now rewrite sort_by_In.
Qed.

(* sorting a duplicate-free list = the model's sort_uniq *)
Lemma sort_by_NoDup l : NoDup l -> sort_by cmp l = sort_uniq cmp l.
Proof.
  intros H. apply (SSorted_unique cmp HC); [now apply sort_by_sorted | now apply sort_uniq_sorted|].
  intros x. now rewrite sort_by_In, (sort_uniq_In cmp HC).
Qed.
End SortBy.

(* ---------- frames ---------- *)
Definition lab {R} (s : Z) (l : list R) : frame R := combine (zseq s (length l)) l.

Lemma df_fresh_lab {R} (l : list R) : df_fresh l = lab 0 l.
Proof. unfold df_fresh, lab. now rewrite zseq_0. Qed.

Lemma lab_cons {R} s (a : R) l : lab s (a :: l) = (s, a) :: lab (s + 1) l.
Proof. unfold lab. cbn [length]. rewrite zseq_S. reflexivity. Qed.

Lemma lab_rows {R} (l : list R) : forall s, map snd (lab s l) = l.
Proof. induction l as [|a l IH]; intros s; [reflexivity|]. rewrite lab_cons. cbn [map snd]. now rewrite IH. Qed.

Lemma lab_index {R} (l : list R) : forall s, map fst (lab s l) = zseq s (length l).
Proof.
  induction l as [|a l IH]; intros s; [reflexivity|]. rewrite lab_cons. cbn [map fst length]. now rewrite IH, zseq_S.
Qed.

Lemma lab_map {R T} (g : R -> T) (l : list R) : forall s, lab s (map g l) = map (fun p => (fst p, g (snd p))) (lab s l).
Proof.
  induction l as [|a l IH]; intros s; [reflexivity|]. cbn [map]. rewrite !lab_cons. cbn [map fst snd]. now rewrite IH.
Qed.

(* drop_duplicates: the values that remain are duplicate-free and are the values there were *)
Section DropDups.
Context {R : Type} (eqb : R -> R -> bool) (Heq : forall a b, eqb a b = true <-> a = b).

Lemma existsb_eqb_In r seen : existsb (eqb r) seen = true <-> In r seen.
Proof.
  rewrite existsb_exists. split.
  - intros (x & Hx & E). apply Heq in E. now subst.
  - intros H. exists r. split; [exact H | now apply Heq].
Qed.

Lemma drop_dups_from_spec (d : frame R) : forall seen,
  NoDup (map snd (drop_dups_from eqb seen d)) /\
  forall x, In x (map snd (drop_dups_from eqb seen d)) <-> In x (map snd d) /\ ~ In x seen.
Proof.
  induction d as [|[l r] d IH]; intros seen; cbn [drop_dups_from map snd].
  - split; [constructor | cbn [In]; tauto].
  - destruct (existsb (eqb r) seen) eqn:E.
    + destruct (IH seen) as [Hn Hi]. split; [exact Hn|]. intros x. rewrite Hi. cbn [In].
      apply existsb_eqb_In in E. split; [tauto|]. intros [[<-|Hx] Hs]; [contradiction | tauto].
    + destruct (IH (r :: seen)) as [Hn Hi]. cbn [map snd]. split.
      * constructor; [|exact Hn]. rewrite Hi. cbn [In]. tauto.
      * intros x. cbn [In]. rewrite Hi. cbn [In].
        assert (Hr : ~ In r seen) by (intros X; apply existsb_eqb_In in X; congruence).
        split.
        -- intros [<-|[Hx Hs]]; [tauto|]. split; [tauto|]. intros X. apply Hs. now right.
        -- intros [[<-|Hx] Hs]; [now left|]. destruct (existsb (eqb x) [r]) eqn:Ex.
           ++ apply existsb_eqb_In in Ex as [<-|[]]. now left.
           ++ right. split; [exact Hx|]. intros [<-|X]; [|contradiction].
              assert (Y : existsb (eqb r) [r] = true) by (apply existsb_eqb_In; now left). congruence.
Qed.
End DropDups.

Lemma insert_sorted_rows {R} (cmp : R -> R -> comparison) (p : Z * R) (d : frame R) :
  map snd (insert_sorted (fun a b => cmp (snd a) (snd b)) p d) = insert_sorted cmp (snd p) (map snd d).
Proof.
  induction d as [|q d IH]; cbn [insert_sorted map snd]; [reflexivity|].
  destruct (cmp (snd p) (snd q)); cbn [map snd]; now rewrite ?IH.
Qed.

Lemma df_sort_values_rows {R} (cmp : R -> R -> comparison) (d : frame R) :
  map snd (df_sort_values cmp d) = sort_by cmp (map snd d).
Proof.
  unfold df_sort_values, sort_by. induction d as [|p d IH]; cbn [fold_right map]; [reflexivity|].
  now rewrite insert_sorted_rows, IH.
Qed.

(* df.drop_duplicates().sort_values(by=<all columns>).reset_index(drop=True) = the model's sort_uniq, freshly labelled *)
Lemma dedup_sort_reset {R} (eqb : R -> R -> bool) (cmp : R -> R -> comparison) (l : list R) :
  (forall a b, eqb a b = true <-> a = b) -> CmpSpec cmp ->
  df_reset_drop (df_sort_values cmp (df_drop_duplicates eqb (df_fresh l))) = df_fresh (sort_uniq cmp l).
Proof.
  intros Heq HC. unfold df_reset_drop. f_equal. rewrite df_sort_values_rows.
  destruct (drop_dups_from_spec eqb Heq (df_fresh l) []) as [Hn Hi]. fold (df_drop_duplicates eqb (df_fresh l)) in Hn, Hi.
  rewrite (sort_by_NoDup cmp HC) by exact Hn. apply (sort_uniq_ext cmp HC). intros x. rewrite Hi.
  rewrite df_fresh_lab, lab_rows. cbn [In]. tauto.
Qed.

(* ---------- the left merge ---------- *)
Section Merge.
Context {K : Type} (eqb : K -> K -> bool) (Heq : forall a b, eqb a b = true <-> a = b).

(* the first row of the mapping with that key (the model's tlookup / nlookup) *)
Definition lookup_first (m : list (K * Z)) (k : K) : option Z :=
  match filter (fun q => eqb k (fst q)) m with [] => None | q :: _ => Some (snd q) end.

(* key-unique right-hand side: at most one row matches *)
Lemma filter_key_unique (m : list (K * Z)) k : NoDup (map fst m) ->
  (length (filter (fun q => eqb k (fst q)) m) <= 1)%nat.
Proof.
  induction m as [|[k' v] m IH]; intros Hn; cbn [filter fst length]; [lia|].
  inversion Hn as [|? ? Hnot Hn']; subst. destruct (eqb k k') eqn:E.
  - apply Heq in E. subst k'. cbn [length].
    replace (filter (fun q => eqb k (fst q)) m) with (@nil (K * Z)); [cbn [length]; lia|].
    symmetry. destruct (filter (fun q => eqb k (fst q)) m) as [|q r] eqn:F; [reflexivity|].
    exfalso. assert (Hq : In q (filter (fun q => eqb k (fst q)) m)) by (rewrite F; now left).
    apply filter_In in Hq as [Hq Eq]. apply Heq in Eq. apply Hnot. rewrite Eq. now apply in_map.
  - now apply IH.
Qed.

(* so the merged frame has one row per row of the left frame, carrying the first (= only) match or NaN *)
Lemma merge_left_ids (m : list (K * Z)) : NoDup (map fst m) ->
  forall (l : frame K) (r : frame (K * Z)), map snd r = m ->
  jcol_new_index (df_merge_left eqb l r) = map (lookup_first m) (map snd l).
Proof.
  intros Hn l r <-. unfold df_merge_left, jcol_new_index. rewrite <- (map_map snd snd), df_fresh_lab, lab_rows.
  set (f := fun p : Z * K => match filter (fun q => eqb (snd p) (fst q)) (map snd r) with
                             | [] => [(snd p, @None Z)]
                             | ms => map (fun q => (snd p, Some (snd q))) ms
                             end).
  induction l as [|p l IH]; [reflexivity|].
  change (flat_map f (p :: l)) with (f p ++ flat_map f l). rewrite map_app, IH. cbn [map]. f_equal.
  unfold f, lookup_first.
  pose proof (filter_key_unique (map snd r) (snd p) Hn) as Hlen.
  destruct (filter (fun q => eqb (snd p) (fst q)) (map snd r)) as [|q [|q' rest]]; cbn [length] in Hlen; try lia; reflexivity.
Qed.
End Merge.

Lemma lookup_first_tlookup m k : lookup_first tkey_eqb m k = tlookup m k.
Proof.
  unfold lookup_first. induction m as [|[k' id] m IH]; cbn [filter tlookup fst]; [reflexivity|].
  destruct (tkey_eqb k k'); [reflexivity | exact IH].
Qed.

Lemma lookup_first_nlookup m k : lookup_first name_eqb m k = nlookup m k.
Proof.
  unfold lookup_first. induction m as [|[k' id] m IH]; cbn [filter nlookup fst]; [reflexivity|].
  destruct (name_eqb k k'); [reflexivity | exact IH].
Qed.

(* np.all(column.notna()) and the column's values, against the model's all-or-nothing lookup *)
Lemma notna_opt_map_all {A} (f : A -> option Z) (l : list A) :
  match opt_map_all f l with
  | Some ids => all_true (series_notna (map f l)) = true /\ map f l = map Some ids
  | None => all_true (series_notna (map f l)) = false
  end.
Proof.
  unfold all_true, series_notna. induction l as [|a l IH]; cbn [opt_map_all map forallb]; [split; reflexivity|].
  destruct (f a) as [b|]; cbn [opt_bind]; [|reflexivity].
  destruct (opt_map_all f l) as [bs|]; cbn [opt_bind andb]; [|exact IH].
  destruct IH as [H1 H2]. split; [exact H1 | cbn [map]; now rewrite H2].
Qed.
