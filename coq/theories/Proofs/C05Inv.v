(* C05 proofs, part 5: the two wrappers agree; permuting a plate's experiments; finiteness;
   the ValueError checks pass on well-formed input. *)
From Coq Require Import ZArith List QArith Qcanon Lia Arith Permutation.
From Batchie Require Import Lib.Sexp Lib.Num Lib.NumP Lib.ListX Model.Unrank Model.Dbal
  Proofs.C05Pad Proofs.C05Lse Proofs.C05Kernel Proofs.C05Scorer.
Import ListNotations.

(* ---- homoscedastic = heteroscedastic on row-constant variances ---- *)
Definition const_plate (mu : list (list Qc)) (v : list Qc) : plate :=
  (mu, map (fun x => repeat x (snd (shape2 mu))) v).
Definition homo_plates (preds : list (list (list Qc))) (variances : list (list Qc)) : list plate :=
  map (fun pv => const_plate (fst pv) (snd pv)) (combine preds variances).

Lemma map_fst_combine {A B} (a : list A) : forall (b : list B), length a = length b -> map fst (combine a b) = a.
Proof.
  induction a as [|x a IH]; intros [|y b] H; cbn [length] in H; try discriminate; cbn [combine map fst]; [reflexivity|].
  f_equal. apply IH. lia.
Qed.

Lemma homo_expand_const mu v : homo_expand mu v = snd (const_plate mu v).
Proof.
  unfold homo_expand, const_plate. cbn [snd]. apply map_ext. intros x. f_equal. ring.
Qed.

Theorem homo_eq_hetero orc preds variances D df ts :
  length preds = length variances ->
  homo orc preds variances D df ts = hetero orc (homo_plates preds variances) D df ts.
Proof.
  intros Hlen. unfold homo, hetero, homo_plates. rewrite !map_map.
  cbn [const_plate fst].
  replace (map (fun x : list (list Qc) * list Qc => fst x) (combine preds variances)) with preds
    by (symmetry; now apply map_fst_combine).
  do 2 f_equal. apply map_ext. intros pv. apply homo_expand_const.
Qed.

(* ---- permuting the experiments (columns) of a plate ---- *)
Definition permute_cols (pi : list nat) (a : list (list Qc)) : list (list Qc) :=
  map (fun row => map (fun j => nth j row 0%Qc) pi) a.
Definition permute_plate (pi : list nat) (pl : plate) : plate :=
  (permute_cols pi (fst pl), permute_cols pi (snd pl)).

Lemma get2_permute_cols pi a i e :
  (i < length a)%nat -> (e < length pi)%nat ->
  get2 0%Qc (permute_cols pi a) i e = get2 0%Qc a i (nth e pi 0%nat).
Proof.
  intros Hi He. unfold get2, permute_cols.
  rewrite (nth_map_in _ a i [] []) by exact Hi.
  now rewrite (nth_map_in _ pi e 0%nat 0%Qc) by exact He.
Qed.

Lemma rect_permute_cols T E pi a : rect T E a -> rect T (length pi) (permute_cols pi a).
Proof.
  intros [Hl _]. split; [unfold permute_cols; now rewrite map_length|].
  apply Forall_forall. intros r Hr. unfold permute_cols in Hr.
  apply in_map_iff in Hr as (r0 & <- & _). apply map_length.
Qed.

Lemma plate_wf_permute T pi pl : plate_wf T pl -> plate_wf T (permute_plate pi pl).
Proof.
  intros (E & Hm & Hv). exists (length pi). split; cbn [permute_plate fst snd]; eapply rect_permute_cols; eassumption.
Qed.

Theorem direct_perm_experiments orc T D df ts pl pi :
  (0 < T)%nat -> plate_wf T pl -> Forall (triple_valid T) ts ->
  Permutation pi (seq 0 (n_exp pl)) ->
  direct orc D df ts (permute_plate pi pl) = direct orc D df ts pl.
Proof.
  intros HT Hwf Hts HP. unfold direct. f_equal. apply map_ext_in. intros t Ht.
  rewrite Forall_forall in Hts. specialize (Hts t Ht). destruct t as [[i1 i2] i3].
  destruct Hts as (H1 & H2 & H3).
  pose proof Hwf as (E & Hm & Hv).
  assert (HE : n_exp pl = E) by (unfold n_exp; eapply rect_width; eassumption).
  assert (Hlen : length pi = E) by (rewrite (Permutation_length HP), seq_length; exact HE).
  assert (HE' : snd (shape2 (fst (permute_plate pi pl))) = E).
  { rewrite <- Hlen. eapply rect_width; [|exact HT]. cbn [permute_plate fst]. eapply rect_permute_cols; eassumption. }
  unfold direct_summand. destruct (qeqb _ 0%Qc); [reflexivity|].
  rewrite HE'. fold (n_exp pl). rewrite HE.
  assert (Hterms : map (direct_exp_term orc (permute_plate pi pl) (i1, i2, i3)) (seq 0 E)
                   = map (direct_exp_term orc pl (i1, i2, i3)) pi).
  { rewrite <- (map_seq_nth (direct_exp_term orc pl (i1, i2, i3)) pi 0%nat). rewrite Hlen.
    apply map_ext_in. intros e He. apply in_seq in He.
    unfold direct_exp_term. cbn [permute_plate fst snd].
    destruct Hm as [Hlm _], Hv as [Hlv _].
    rewrite !get2_permute_cols by lia. reflexivity. }
  rewrite Hterms. rewrite HE in HP.
  rewrite (qsum_perm _ _ (Permutation_map fst (Permutation_map (direct_exp_term orc pl (i1, i2, i3)) HP))).
  rewrite (qsum_perm _ _ (Permutation_map snd (Permutation_map (direct_exp_term orc pl (i1, i2, i3)) HP))).
  reflexivity.
Qed.

Theorem hetero_perm_experiments orc T D df ts before pl after pi :
  (0 < T)%nat -> Forall (plate_wf T) (before ++ pl :: after) -> Forall (triple_valid T) ts ->
  Permutation pi (seq 0 (n_exp pl)) ->
  hetero orc (before ++ permute_plate pi pl :: after) D df ts = hetero orc (before ++ pl :: after) D df ts.
Proof.
  intros HT Hwf Hts HP.
  assert (Hpl : plate_wf T pl).
  { rewrite Forall_forall in Hwf. apply Hwf. apply in_or_app. right. now left. }
  rewrite !(hetero_eq_direct orc T); try assumption.
  - rewrite !map_app. cbn [map]. now rewrite (direct_perm_experiments orc T).
  - apply Forall_app in Hwf as [Hb Ha]. apply Forall_app. split; [exact Hb|].
    inversion Ha; subst. constructor; [now apply plate_wf_permute|assumption].
Qed.

(* ---- finiteness ---- *)
Lemma qeqb_true_iff a b : qeqb a b = true <-> a = b.
Proof. unfold qeqb. destruct (Qc_eq_dec a b); split; congruence. Qed.

Lemma direct_summand_none_iff orc D df pl t : direct_summand orc D df pl t = None <-> k_dsum D t = 0%Qc.
Proof.
  destruct t as [[i1 i2] i3]. unfold direct_summand, k_dsum.
  destruct (qeqb _ 0%Qc) eqn:E.
  - apply qeqb_true_iff in E. tauto.
  - split; [discriminate|]. intros H. apply qeqb_true_iff in H. congruence.
Qed.

Theorem direct_finite_iff orc D df ts pl :
  direct orc D df ts pl <> None <-> exists t, In t ts /\ k_dsum D t <> 0%Qc.
Proof.
  unfold direct. rewrite logsumexp_none_iff. induction ts as [|t ts IH]; cbn [map].
  - split; [intros H; exfalso; apply H; constructor|intros (t & [] & _)].
  - split.
    + intros H. destruct (Qc_eq_dec (k_dsum D t) 0%Qc) as [Hz|Hnz].
      * destruct (proj1 IH) as (t' & Hin & Ht').
        { intros HF. apply H. constructor; [now apply direct_summand_none_iff|exact HF]. }
        exists t'. split; [now right|exact Ht'].
      * exists t. split; [now left|exact Hnz].
    + intros (t' & [->|Hin] & Ht') HF; inversion HF as [|? ? Hhd Htl]; subst.
      * apply Ht'. now apply (direct_summand_none_iff orc D df pl).
      * apply (proj2 IH); [now exists t'|exact Htl].
Qed.

(* ---- the ValueError checks pass on well-formed input ---- *)
Lemma max_list_const (l : list nat) c : l <> [] -> Forall (fun x => x = c) l -> max_list l = c.
Proof.
  intros Hne HF. induction HF as [|x l Hx HF IH]; [congruence|]. subst x. cbn [max_list fold_right].
  destruct l as [|y l]; [cbn; lia|]. fold (max_list (y :: l)). rewrite IH by discriminate. lia.
Qed.

Lemma shape2_eqb_refl s : shape2_eqb s s = true.
Proof. unfold shape2_eqb. now rewrite !Nat.eqb_refl. Qed.

Lemma plate_shapes T pl : (0 < T)%nat -> plate_wf T pl ->
  shape2 (fst pl) = (T, n_exp pl) /\ shape2 (snd pl) = (T, n_exp pl).
Proof.
  intros HT (E & Hm & Hv). unfold n_exp. rewrite (rect_width T E _ Hm HT).
  split; unfold shape2; f_equal.
  - apply Hm.
  - now apply (rect_width T E) in Hm.
  - apply Hv.
  - now apply (rect_width T E) in Hv.
Qed.

Lemma shape2_map_some (a : list (list Qc)) : shape2 (map (map Some) a) = shape2 a.
Proof. unfold shape2. rewrite map_length. destruct a; cbn [map hd length]; [reflexivity|now rewrite map_length]. Qed.

Theorem hetero_checked_ok orc T plates D df idxs :
  (3 <= T)%nat -> plates <> [] -> Forall (plate_wf T) plates -> rect T T D ->
  hetero_checked orc plates D df idxs
  = res_bind (triples_of_draw T idxs) (fun ts => Ok (hetero orc plates D df ts)).
Proof.
  intros HT Hne Hwf HD. assert (HT0 : (0 < T)%nat) by lia.
  unfold hetero_checked.
  assert (Hshapes : forallb (fun pl => shape2_eqb (shape2 (fst pl)) (shape2 (snd pl))) plates = true).
  { apply forallb_forall. intros pl Hin. rewrite Forall_forall in Hwf.
    destruct (plate_shapes T pl HT0 (Hwf pl Hin)) as [-> ->]. apply shape2_eqb_refl. }
  rewrite Hshapes. cbn [negb]. unfold kernel_checked, hetero.
  destruct plates as [|pl0 rest]; [congruence|].
  assert (H0 : plate_wf T pl0) by (now inversion Hwf).
  destruct (plate_shapes T pl0 HT0 H0) as [Hs1 Hs2].
  unfold pad_means, pad_vars. cbn [map].
  rewrite !shape3_pad_ragged by (rewrite ?shape2_map_some, ?Hs1, ?Hs2; exact HT0).
  assert (Hfst : forall pl, In pl (pl0 :: rest) -> shape2 (map (map Some) (snd pl)) = shape2 (fst pl)).
  { intros pl Hin. rewrite shape2_map_some. rewrite Forall_forall in Hwf.
    destruct (plate_shapes T pl HT0 (Hwf pl Hin)) as [-> ->]. reflexivity. }
  assert (Hh : map (fun a => fst (shape2 a)) (map (map Some) (snd pl0) :: map (map (map Some)) (map snd rest))
               = map (fun a => fst (shape2 a)) (fst pl0 :: map fst rest)).
  { change (map (fun a => fst (shape2 a)) (map (map (map Some)) (map snd (pl0 :: rest)))
            = map (fun a => fst (shape2 a)) (map fst (pl0 :: rest))).
    rewrite !map_map. apply map_ext_in. intros pl Hin. now rewrite (Hfst pl Hin). }
  assert (Hw : map (fun a => snd (shape2 a)) (map (map Some) (snd pl0) :: map (map (map Some)) (map snd rest))
               = map (fun a => snd (shape2 a)) (fst pl0 :: map fst rest)).
  { change (map (fun a => snd (shape2 a)) (map (map (map Some)) (map snd (pl0 :: rest)))
            = map (fun a => snd (shape2 a)) (map fst (pl0 :: rest))).
    rewrite !map_map. apply map_ext_in. intros pl Hin. now rewrite (Hfst pl Hin). }
  rewrite Hh, Hw, !map_length, !Nat.eqb_refl. cbn [andb negb].
  assert (HTmax : max_list (map (fun a => fst (shape2 a)) (fst pl0 :: map fst rest)) = T).
  { apply max_list_const; [discriminate|].
    change (Forall (fun x => x = T) (map (fun a => fst (shape2 a)) (map fst (pl0 :: rest)))).
    rewrite map_map. apply Forall_forall. intros x Hx. apply in_map_iff in Hx as (pl & <- & Hin).
    rewrite Forall_forall in Hwf. now destruct (plate_shapes T pl HT0 (Hwf pl Hin)) as [-> _]. }
  rewrite HTmax.
  assert (HDs : shape2 D = (T, T)).
  { unfold shape2. f_equal; [apply HD|now apply (rect_width T T)]. }
  rewrite HDs. cbn [fst snd]. rewrite Nat.eqb_refl. cbn [negb].
  destruct (T <? 3)%nat eqn:E3; [apply Nat.ltb_lt in E3; lia|]. reflexivity.
Qed.

(* ---- a plate's score inside any plate list is its score when scored alone ---- *)
Theorem hetero_alone orc T D df ts before pl after :
  (0 < T)%nat -> Forall (plate_wf T) (before ++ pl :: after) -> Forall (triple_valid T) ts ->
  nth (length before) (hetero orc (before ++ pl :: after) D df ts) None
  = nth 0 (hetero orc [pl] D df ts) None.
Proof.
  intros HT Hwf Hts.
  assert (Hpl : plate_wf T pl).
  { rewrite Forall_forall in Hwf. apply Hwf. apply in_or_app. right. now left. }
  rewrite !(hetero_eq_direct orc T) by (assumption || (constructor; [assumption|constructor])).
  rewrite map_app. rewrite app_nth2 by (rewrite map_length; lia).
  rewrite map_length, Nat.sub_diag. reflexivity.
Qed.

Theorem homo_eq_direct orc T preds variances D df ts :
  (0 < T)%nat -> length preds = length variances ->
  Forall (plate_wf T) (homo_plates preds variances) -> Forall (triple_valid T) ts ->
  homo orc preds variances D df ts = map (direct orc D df ts) (homo_plates preds variances).
Proof.
  intros HT Hlen Hwf Hts. rewrite homo_eq_hetero by exact Hlen. now apply (hetero_eq_direct orc T).
Qed.
