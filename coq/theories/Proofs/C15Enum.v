(* C15: consequences of unrank/rank being mutually inverse:
   - the list of all unrankings is sorted, duplicate-free and is exactly the set of strictly
     descending k-tuples below n;
   - every k-element subset (duplicate-free list, any order) of {0..n-1} is hit by exactly one index;
   - the triples drawn by the DBAL scorer are distinct, in range, and complete when the budget
     covers C(n,3). *)
From Coq Require Import ZArith List Lia Arith Sorting.Sorted Sorting.Permutation.
From Batchie Require Import Lib.Sexp Model.Unrank Model.Binom Proofs.C15Binom Proofs.C15Unrank.
Import ListNotations.
Open Scope Z_scope.

(* ---------------------------------------------------------------- enumeration *)

Definition unrank_or_nil (n : Z) (k : nat) (i : Z) : list Z :=
  match unrank i n k with Ok c => c | Err _ => [] end.

Lemma unrank_or_nil_ok : forall n k i, 0 <= n -> 0 <= i < Cz n k ->
  unrank i n k = Ok (unrank_or_nil n k i).
Proof.
  intros n k i Hn Hi. unfold unrank_or_nil.
  destruct (unrank_spec n k i Hn Hi) as [c [E _]]. rewrite E. reflexivity.
Qed.

Lemma sorted_map_seq : forall (A : Type) (R : A -> A -> Prop) (f : nat -> A) m s,
  (forall i j, (s <= i)%nat -> (i < j)%nat -> (j < s + m)%nat -> R (f i) (f j)) ->
  StronglySorted R (map f (seq s m)).
Proof.
  intros A R f m. induction m as [|m IH]; intros s H; cbn [seq map].
  - constructor.
  - constructor.
    + apply IH. intros i j H1 H2 H3. apply H; lia.
    + apply Forall_forall. intros x Hx. apply in_map_iff in Hx. destruct Hx as [j [<- Hj]].
      apply in_seq in Hj. apply H; lia.
Qed.

Lemma enum_all_spec : forall n k, 0 <= n ->
  exists L, enum_all n k = map Ok L /\
    length L = Z.to_nat (Cz n k) /\
    StronglySorted lex_lt L /\ NoDup L /\
    forall c, In c L <-> (desc_below n c /\ length c = k).
Proof.
  intros n k Hn.
  set (N := Z.to_nat (Cz n k)).
  set (f := fun i : nat => unrank_or_nil n k (Z.of_nat i)).
  exists (map f (seq 0 N)).
  assert (Hin : forall c, In c (map f (seq 0 N)) <-> (desc_below n c /\ length c = k)).
  { intros c. split.
    - intros H. apply in_map_iff in H. destruct H as [i [<- Hi]]. apply in_seq in Hi.
      destruct (unrank_spec n k (Z.of_nat i) Hn ltac:(lia)) as [c [E [Hl [Hd _]]]].
      unfold f, unrank_or_nil. rewrite E. split; assumption.
    - intros [Hd Hl]. apply in_map_iff. exists (Z.to_nat (rank c)).
      pose proof (rank_range c n Hd) as Hr. rewrite Hl in Hr.
      split.
      + unfold f, unrank_or_nil. rewrite Z2Nat.id by lia.
        rewrite <- Hl. rewrite unrank_rank by assumption. reflexivity.
      + apply in_seq. lia. }
  assert (Hs : StronglySorted lex_lt (map f (seq 0 N))).
  { apply sorted_map_seq. intros i j H1 H2 H3.
    apply (unrank_ascending n k (Z.of_nat i) (Z.of_nat j)); try lia.
    - apply unrank_or_nil_ok; lia.
    - apply unrank_or_nil_ok; lia. }
  split; [|split; [|split; [|split]]].
  - unfold enum_all. rewrite init_nck_Cz by exact Hn. fold N. rewrite map_map.
    apply map_ext_in. intros i Hi. apply in_seq in Hi. apply unrank_or_nil_ok; lia.
  - rewrite map_length, seq_length. reflexivity.
  - exact Hs.
  - clear Hin. induction Hs as [|x l Hs IH Hf]; constructor.
    + intros Hx. rewrite Forall_forall in Hf. exact (lex_lt_irrefl x (Hf x Hx)).
    + exact IH.
  - exact Hin.
Qed.

(* ---------------------------------------------------------------- subsets as duplicate-free lists *)

Lemma desc_below_bound : forall c n z, desc_below n c -> In z c -> 0 <= z < n.
Proof.
  induction c as [|x r IH]; intros n z Hd Hz; [contradiction|].
  destruct Hd as [Hx Hr]. destruct Hz as [<- | Hz]; [exact Hx|].
  specialize (IH x z Hr Hz). lia.
Qed.

Lemma desc_below_NoDup : forall c n, desc_below n c -> NoDup c.
Proof.
  induction c as [|x r IH]; intros n Hd; constructor.
  - destruct Hd as [_ Hr]. intros Hx. pose proof (desc_below_bound r x x Hr Hx). lia.
  - destruct Hd as [_ Hr]. exact (IH x Hr).
Qed.

Lemma desc_insert : forall c n x, desc_below n c -> 0 <= x < n -> ~ In x c ->
  exists c2, desc_below n c2 /\ Permutation c2 (x :: c).
Proof.
  induction c as [|y r IH]; intros n x Hd Hx Hnin.
  - exists [x]. cbn [desc_below]. split; [tauto | apply Permutation_refl].
  - destruct Hd as [Hy Hr].
    assert (x <> y) by (intros ->; apply Hnin; left; reflexivity).
    destruct (Z_lt_le_dec y x) as [Hlt | Hge].
    + exists (x :: y :: r). cbn [desc_below]. split; [|apply Permutation_refl].
      split; [exact Hx|]. split; [lia | exact Hr].
    + destruct (IH y x Hr ltac:(lia) ltac:(intros Hi; apply Hnin; right; exact Hi)) as [c2 [Hd2 Hp2]].
      exists (y :: c2). cbn [desc_below]. split; [split; [exact Hy | exact Hd2]|].
      eapply Permutation_trans; [apply perm_skip; exact Hp2 | apply perm_swap].
Qed.

Lemma desc_sort_exists : forall s n, NoDup s -> (forall x, In x s -> 0 <= x < n) ->
  exists c, desc_below n c /\ Permutation c s.
Proof.
  induction s as [|x s IH]; intros n Hnd Hin.
  - exists []. split; [exact I | apply Permutation_refl].
  - inversion Hnd as [|x' s' Hx Hnd']; subst.
    destruct (IH n Hnd' ltac:(intros z Hz; apply Hin; right; exact Hz)) as [c [Hd Hp]].
    destruct (desc_insert c n x Hd ltac:(apply Hin; left; reflexivity)
                ltac:(intros Hi; apply Hx; eapply Permutation_in; eassumption)) as [c2 [Hd2 Hp2]].
    exists c2. split; [exact Hd2|]. eapply Permutation_trans; [exact Hp2 | apply perm_skip; exact Hp].
Qed.

Lemma desc_perm_unique : forall c c' n n', desc_below n c -> desc_below n' c' -> Permutation c c' -> c = c'.
Proof.
  induction c as [|x r IH]; intros c' n n' Hd Hd' Hp.
  - apply Permutation_nil in Hp. subst. reflexivity.
  - destruct c' as [|y r']; [apply Permutation_sym, Permutation_nil in Hp; discriminate|].
    destruct Hd as [Hx Hr]. destruct Hd' as [Hy Hr'].
    assert (x = y).
    { assert (Hy' : In y (x :: r)) by (eapply Permutation_in; [apply Permutation_sym; exact Hp | left; reflexivity]).
      assert (Hx' : In x (y :: r')) by (eapply Permutation_in; [exact Hp | left; reflexivity]).
      destruct Hy' as [E | Hy']; [exact E|]. destruct Hx' as [E | Hx']; [symmetry; exact E|].
      pose proof (desc_below_bound r x y Hr Hy'). pose proof (desc_below_bound r' y x Hr' Hx'). lia. }
    subst y. f_equal. apply Permutation_cons_inv in Hp. exact (IH r' x x Hr Hr' Hp).
Qed.

(* every k-element subset of {0..n-1}, given as a duplicate-free list in any order, is the
   image of exactly one index *)
Lemma subset_hit_once : forall n s, 0 <= n -> NoDup s -> (forall x, In x s -> 0 <= x < n) ->
  exists i, (0 <= i < Cz n (length s) /\ exists c, unrank i n (length s) = Ok c /\ Permutation c s) /\
    forall j, (0 <= j < Cz n (length s) /\ exists c, unrank j n (length s) = Ok c /\ Permutation c s) -> j = i.
Proof.
  intros n s Hn Hnd Hin.
  destruct (desc_sort_exists s n Hnd Hin) as [c [Hd Hp]].
  assert (Hl : length c = length s) by (apply Permutation_length; exact Hp).
  exists (rank c). split.
  - rewrite <- Hl. split; [apply rank_range; exact Hd|].
    exists c. split; [apply unrank_rank; assumption | exact Hp].
  - intros j [Hj [c' [E Hp']]].
    destruct (unrank_spec n (length s) j Hn Hj) as [c'' [E' [_ [Hd' Hr]]]].
    rewrite E in E'. injection E' as <-.
    assert (c' = c).
    { apply (desc_perm_unique c' c n n Hd' Hd).
      eapply Permutation_trans; [exact Hp' | apply Permutation_sym; exact Hp]. }
    subst c'. symmetry. exact Hr.
Qed.

(* ---------------------------------------------------------------- the scorer's triples *)

Lemma res_map_all_ok : forall (A B : Type) (f : A -> result B) (l : list A),
  (forall a, In a l -> exists b, f a = Ok b) ->
  exists bs, res_map_all f l = Ok bs /\ Forall2 (fun a b => f a = Ok b) l bs.
Proof.
  intros A B f. induction l as [|a l IH]; intros H.
  - exists []. split; [reflexivity | constructor].
  - destruct (H a ltac:(left; reflexivity)) as [b Hb].
    destruct (IH ltac:(intros a' Ha'; apply H; right; exact Ha')) as [bs [E F]].
    exists (b :: bs). cbn [res_map_all]. rewrite Hb. cbn [res_bind]. rewrite E. cbn [res_bind].
    split; [reflexivity | constructor; assumption].
Qed.

Lemma Forall2_in_r : forall (A B : Type) (R : A -> B -> Prop) l l' b,
  Forall2 R l l' -> In b l' -> exists a, In a l /\ R a b.
Proof.
  intros A B R l l' b F. induction F as [|a b' l l' Hab F IH]; intros Hb; [contradiction|].
  destruct Hb as [<- | Hb].
  - exists a. split; [left; reflexivity | exact Hab].
  - destruct (IH Hb) as [a' [Ha' Hr]]. exists a'. split; [right; exact Ha' | exact Hr].
Qed.

Lemma Forall2_in_l : forall (A B : Type) (R : A -> B -> Prop) l l' a,
  Forall2 R l l' -> In a l -> exists b, In b l' /\ R a b.
Proof.
  intros A B R l l' a F. induction F as [|a' b l l' Hab F IH]; intros Ha; [contradiction|].
  destruct Ha as [<- | Ha].
  - exists b. split; [left; reflexivity | exact Hab].
  - destruct (IH Ha) as [b' [Hb' Hr]]. exists b'. split; [right; exact Hb' | exact Hr].
Qed.

Lemma Forall2_len : forall (A B : Type) (R : A -> B -> Prop) l l', Forall2 R l l' -> length l = length l'.
Proof. intros A B R l l' F. induction F; cbn [length]; congruence. Qed.

Lemma desc3_shape : forall n t, desc_below n t -> length t = 3%nat ->
  exists a b c, t = [a; b; c] /\ 0 <= c < b /\ b < a < n.
Proof.
  intros n [|a [|b [|c [|d t]]]] Hd Hl; try discriminate.
  cbn [desc_below] in Hd. exists a, b, c. split; [reflexivity | lia].
Qed.

Lemma triples_distinct_complete : forall n idxs, 0 <= n ->
  NoDup idxs -> (forall i, In i idxs -> 0 <= i < Cz n 3) ->
  exists ts, triples n idxs = Ok ts /\ length ts = length idxs /\ NoDup ts /\
    (forall t, In t ts -> exists a b c, t = [a; b; c] /\ 0 <= c < b /\ b < a < n) /\
    (Z.of_nat (length idxs) = Cz n 3 ->
       forall a b c, 0 <= c < b -> b < a < n -> In [a; b; c] ts).
Proof.
  intros n idxs Hn Hnd Hr.
  destruct (res_map_all_ok Z (list Z) (fun i => unrank i n 3) idxs) as [ts [E F]].
  { intros i Hi. destruct (unrank_spec n 3 i Hn (Hr i Hi)) as [c [Ec _]]. exists c; exact Ec. }
  exists ts. split; [exact E|]. split; [symmetry; eapply Forall2_len; exact F|].
  split; [|split].
  - clear E. induction F as [|i t idxs ts Hit F IH]; constructor.
    + intros Ht. destruct (Forall2_in_r _ _ _ _ _ t F Ht) as [j [Hj Ej]].
      inversion Hnd as [|i' l' Hi' _]; subst.
      assert (i = j).
      { apply (unrank_injective n 3 i j t Hn); try assumption.
        - apply Hr; left; reflexivity.
        - apply Hr; right; exact Hj. }
      subst j. exact (Hi' Hj).
    + inversion Hnd; subst. apply IH; [assumption|]. intros j Hj; apply Hr; right; exact Hj.
  - intros t Ht. destruct (Forall2_in_r _ _ _ _ _ t F Ht) as [j [Hj Ej]].
    destruct (unrank_spec n 3 j Hn (Hr j Hj)) as [c [Ec [Hl [Hd _]]]].
    cbn beta in Ej. rewrite Ej in Ec. injection Ec as <-.
    exact (desc3_shape n t Hd Hl).
  - intros Hlen a b c Hc Ha.
    assert (Hd : desc_below n [a; b; c]) by (cbn [desc_below]; lia).
    pose proof (rank_range [a; b; c] n Hd) as Hrk. cbn [length] in Hrk.
    assert (Hi : In (rank [a; b; c]) idxs).
    { set (N := Z.to_nat (Cz n 3)).
      assert (Hincl : incl (map Z.of_nat (seq 0 N)) idxs).
      { apply NoDup_length_incl; [exact Hnd | rewrite map_length, seq_length; lia |].
        intros i Hi. specialize (Hr i Hi). apply in_map_iff. exists (Z.to_nat i).
        split; [lia | apply in_seq; lia]. }
      apply Hincl. apply in_map_iff. exists (Z.to_nat (rank [a; b; c])).
      split; [lia | apply in_seq; lia]. }
    destruct (Forall2_in_l _ _ _ _ _ _ F Hi) as [t [Ht Et]].
    cbn beta in Et. pose proof (unrank_rank n [a; b; c] Hn Hd) as U. cbn [length] in U.
    rewrite U in Et. injection Et as <-. exact Ht.
Qed.

(* the use site: with any draw obeying numpy's contract for choice(N, size, replace=False) *)
Lemma dbal_triples_spec : forall draw n max_combos,
  choice_contract draw -> 3 <= n -> 1 <= max_combos ->
  exists ts, dbal_triples n max_combos draw = Ok (Cz n 3, Z.min (Cz n 3) max_combos, ts) /\
    Z.of_nat (length ts) = Z.min (Cz n 3) max_combos /\ NoDup ts /\
    (forall t, In t ts -> exists a b c, t = [a; b; c] /\ 0 <= c < b /\ b < a < n) /\
    (Cz n 3 <= max_combos -> forall a b c, 0 <= c < b -> b < a < n -> In [a; b; c] ts).
Proof.
  intros draw n mc Hc Hn Hmc.
  pose proof (Cz_pos n 3 ltac:(lia)) as Hpos.
  unfold dbal_triples. rewrite init_nck_Cz by lia.
  destruct (Cz n 3 =? 0) eqn:Hz; [apply Z.eqb_eq in Hz; lia|].
  destruct (Hc (Cz n 3) (Z.min (Cz n 3) mc) ltac:(lia)) as [Hnd [Hlen Hr]].
  destruct (triples_distinct_complete n (draw (Cz n 3) (Z.min (Cz n 3) mc)) ltac:(lia) Hnd Hr)
    as [ts [E [Hl [Hnd' [Hin Hall]]]]].
  destruct (draw (Cz n 3) (Z.min (Cz n 3) mc)) as [|i0 idxs] eqn:Ed.
  - cbn [length] in Hlen. lia.
  - rewrite E. cbn [res_bind]. exists ts. split; [reflexivity|].
    split; [rewrite Hl; exact Hlen|]. split; [exact Hnd'|]. split; [exact Hin|].
    intros Hbudget. apply Hall. rewrite Hlen. lia.
Qed.

Lemma dbal_triples_too_few : forall draw n max_combos,
  0 <= n < 3 -> dbal_triples n max_combos draw = Err 7.
Proof.
  intros draw n mc Hn. unfold dbal_triples. rewrite init_nck_Cz by lia.
  rewrite Cz_small by (cbn; lia). reflexivity.
Qed.
