(* C10: SimulationTracker.__init__ / save / load (core.py; Generated/SrcTracker.v; model vocabulary: Model/Tracker.v) *)
From Coq Require Import ZArith List Bool.
From Coq Require String.
From Batchie Require Import Lib.Sexp Lib.PyRt Model.Tracker Generated.SrcTracker.
Import ListNotations.
Import String.StringSyntax.
Local Open Scope string_scope.
Open Scope Z_scope.

(* __init__ stores its three arguments, whatever the instance held before *)
Theorem src_tracker_init_stores : forall (J : Type) (o : pytracker J) (a b c : J), src_tracker_init J o a b c = Ok (a, b, c).
Proof. intros J [[x y] z] a b c. reflexivity. Qed.

(* save writes ONE JSON object: the three attributes under their names, in the order __init__ assigned them *)
Theorem src_tracker_save_writes_dict : forall (J : Type) (t : pytracker J), src_tracker_save J t = Ok (Some (tracker_dict t)).
Proof. reflexivity. Qed.

(* load of a file that holds exactly the three keys, in the order save writes them: the object with those values *)
Theorem src_tracker_load_of_saved : forall (J : Type) (blank t : pytracker J),
  src_tracker_load J blank (Some (tracker_dict t)) = Ok t.
Proof. intros J [[x y] z] [[a b] c]. reflexivity. Qed.

(* the round trip *)
Theorem src_tracker_save_load : forall (J : Type) (blank t : pytracker J),
  (dor f <- src_tracker_save J t; src_tracker_load J blank f) = Ok t.
Proof. intros. rewrite src_tracker_save_writes_dict. cbn [res_bind]. apply src_tracker_load_of_saved. Qed.

(* what load refuses: an empty file (95); an object with a key that is no parameter, or without one of the three (TypeError, 93) *)
Theorem src_tracker_load_refuses : forall (J : Type) (blank : pytracker J) (x : J),
  src_tracker_load J blank None = Err 95 /\
  src_tracker_load J blank (Some [(tkey_of "seed", x); (tkey_of "extra", x)]) = Err 93 /\
  src_tracker_load J blank (Some [(tkey_of "seed", x); (tkey_of "losses", x)]) = Err 93.
Proof. intros. repeat split; reflexivity. Qed.

(* the order of the keys in the file does not matter (cls( **data ) binds by name) *)
Theorem src_tracker_load_any_order : forall (J : Type) (blank : pytracker J) (a b c : J),
  src_tracker_load J blank (Some [(tkey_of "seed", c); (tkey_of "plate_ids_selected", a); (tkey_of "losses", b)]) = Ok (a, b, c).
Proof. intros J [[x y] z] a b c. reflexivity. Qed.
