(* One piece of Proofs/C18SourceArgs.v (which see): argument_parsing.str_to_bool *)
From Coq Require Import ZArith List Bool Lia.
From Batchie Require Import Lib.Sexp Lib.PyRt Model.Cli Generated.SrcCli Generated.SrcCliArgs Proofs.PyRtLemmas.
Import ListNotations.
Open Scope Z_scope.

Theorem src_str_to_bool_is_model : forall {F O : Type} (P : pyprims F O) (s : str),
  src_str_to_bool F O P s = str_to_bool P s.
Proof. intros. reflexivity. Qed.
