(* C14: list lemmas about select / np_where / scatter / bor_vec / filter over seq. *)
From Coq Require Import ZArith List Bool Arith Lia Sorted.
From Batchie Require Import Lib.Sexp Model.Encode Model.Screen Model.Views Proofs.C14Defs.
Import ListNotations.
Open Scope nat_scope.

Lemma select_nil_r {A} sel : @select A sel [] = [].
Proof. destruct sel as [|b s]; reflexivity. Qed.

Lemma select_map {A B} (f : A -> B) sel l : select sel (map f l) = map f (select sel l).
Proof.
  revert l; induction sel as [|b s IH]; intros [|x l]; cbn [select map]; try reflexivity.
  destruct b; cbn [map]; now rewrite IH.
Qed.

Lemma map_nth_seq {A} (l : list A) d : map (fun i => nth i l d) (seq 0 (length l)) = l.
Proof.
  induction l as [|x l IH]; cbn [length seq map nth]; [reflexivity|].
  f_equal. rewrite <- seq_shift, map_map. exact IH.
Qed.

Lemma nth_map_error {A B} (f : A -> B) l i d :
  nth i (map f l) d = match nth_error l i with Some x => f x | None => d end.
Proof.
  revert i; induction l as [|x l IH]; intros [|i]; cbn [map nth nth_error]; try reflexivity. apply IH.
Qed.

Lemma where_from_select i sel : where_from i sel = select sel (seq i (length sel)).
Proof.
  revert i; induction sel as [|b s IH]; intros i; cbn [where_from length seq select]; [reflexivity|].
  destruct b; now rewrite IH.
Qed.

Lemma select_filter_seq sel a :
  select sel (seq a (length sel)) = filter (fun i => nth (i - a) sel false) (seq a (length sel)).
Proof.
  revert a; induction sel as [|b s IH]; intros a; cbn [length seq select filter]; [reflexivity|].
  rewrite Nat.sub_diag. change (nth 0 (b :: s) false) with b.
  assert (E : filter (fun i => nth (i - a) (b :: s) false) (seq (S a) (length s))
              = filter (fun i => nth (i - S a) s false) (seq (S a) (length s))).
  { apply filter_ext_in. intros i Hi. apply in_seq in Hi.
    replace (i - a) with (S (i - S a)) by lia. reflexivity. }
  rewrite E, <- IH. destruct b; reflexivity.
Qed.

Lemma where_filter sel : np_where sel = filter (fun i => nth i sel false) (seq 0 (length sel)).
Proof.
  unfold np_where. rewrite where_from_select, select_filter_seq.
  apply filter_ext. intros i. now rewrite Nat.sub_0_r.
Qed.

Lemma where_select sel : np_where sel = select sel (seq 0 (length sel)).
Proof. apply where_from_select. Qed.

(* attribute = the column's values at the selected indices, in index order *)
Lemma select_nth {A} (d : A) sel col :
  length sel = length col -> select sel col = map (fun i => nth i col d) (np_where sel).
Proof.
  intros H. rewrite where_select, <- select_map, H, map_nth_seq. reflexivity.
Qed.

Lemma mem_nat_In i l : mem_nat i l = true <-> In i l.
Proof.
  unfold mem_nat. rewrite existsb_exists. split.
  - intros (x & Hx & E). apply Nat.eqb_eq in E. now subst.
  - intros H. exists i. split; [exact H|apply Nat.eqb_refl].
Qed.

Lemma mem_filter_seq f n i : mem_nat i (filter f (seq 0 n)) = (i <? n) && f i.
Proof.
  apply eq_true_iff_eq. rewrite mem_nat_In, filter_In, in_seq, andb_true_iff, Nat.ltb_lt. intuition lia.
Qed.

Lemma mem_where i sel : mem_nat i (np_where sel) = nth i sel false.
Proof.
  rewrite where_filter, mem_filter_seq.
  destruct (Nat.ltb_spec i (length sel)) as [H|H]; cbn [andb]; [reflexivity|].
  symmetry. now apply nth_overflow.
Qed.

Lemma In_where i sel : In i (np_where sel) <-> nth i sel false = true.
Proof. now rewrite <- mem_nat_In, mem_where. Qed.

Lemma filter_seq_sorted f a n : StronglySorted lt (filter f (seq a n)).
Proof.
  revert a; induction n as [|n IH]; intros a; cbn [seq filter]; [constructor|].
  destruct (f a); [|apply IH].
  constructor; [apply IH|]. apply Forall_forall. intros x Hx. apply filter_In in Hx.
  destruct Hx as [Hx _]. apply in_seq in Hx. lia.
Qed.

Lemma where_sorted sel : StronglySorted lt (np_where sel).
Proof. rewrite where_filter. apply filter_seq_sorted. Qed.

Lemma where_lt sel i : In i (np_where sel) -> i < length sel.
Proof. rewrite where_filter, filter_In, in_seq. lia. Qed.

Lemma sel_mask_of sel : sel = mask_of (length sel) (np_where sel).
Proof.
  unfold mask_of. rewrite <- (map_nth_seq sel false) at 1.
  apply map_ext. intros i. now rewrite mem_where.
Qed.

Lemma list_bool_ext (a b : list bool) :
  length a = length b ->
  (forall i, i < length a -> (nth i a false = true <-> nth i b false = true)) -> a = b.
Proof.
  intros HL H. apply nth_ext with (d := false) (d' := false); [exact HL|].
  intros i Hi. apply eq_true_iff_eq. now apply H.
Qed.

(* ---- set_nth / scatter ---- *)
Lemma set_nth_length {A} i (x : A) l : length (set_nth i x l) = length l.
Proof.
  revert i; induction l as [|y l IH]; intros [|i]; cbn [set_nth length]; try reflexivity. now rewrite IH.
Qed.

Lemma set_nth_app {A} (pre : list A) x y s : set_nth (length pre) x (pre ++ y :: s) = pre ++ x :: s.
Proof. induction pre as [|a pre IH]; cbn [length app set_nth]; [reflexivity|now rewrite IH]. Qed.

Lemma nth_set_nth {A} i j (x d : A) l :
  nth i (set_nth j x l) d = if (i =? j) && (j <? length l) then x else nth i l d.
Proof.
  revert i j; induction l as [|y l IH]; intros i j.
  - cbn [set_nth length]. destruct j; rewrite andb_false_r; reflexivity.
  - destruct j as [|j]; cbn [set_nth].
    + destruct i as [|i]; reflexivity.
    + destruct i as [|i]; cbn [nth]; [reflexivity|].
      rewrite IH. cbn [length]. reflexivity.
Qed.

Lemma scatter_length {A} (l : list A) idx vals : length (scatter l idx vals) = length l.
Proof.
  revert l vals; induction idx as [|i idx IH]; intros l [|x vals]; cbn [scatter]; try reflexivity.
  now rewrite IH, set_nth_length.
Qed.

Lemma scatter_where_expand pre sel inner :
  scatter (pre ++ sel) (where_from (length pre) sel) inner = pre ++ expand sel inner.
Proof.
  revert pre inner; induction sel as [|b s IH]; intros pre inner; cbn [where_from expand].
  - reflexivity.
  - destruct b.
    + destruct inner as [|x inner]; cbn [scatter]; [reflexivity|].
      rewrite set_nth_app.
      replace (pre ++ x :: s) with ((pre ++ [x]) ++ s) by now rewrite <- app_assoc.
      replace (S (length pre)) with (length (pre ++ [x])) by (rewrite app_length; cbn; lia).
      rewrite IH, <- app_assoc. reflexivity.
    + replace (pre ++ false :: s) with ((pre ++ [false]) ++ s) by now rewrite <- app_assoc.
      replace (S (length pre)) with (length (pre ++ [false])) by (rewrite app_length; cbn; lia).
      rewrite IH, <- app_assoc. reflexivity.
Qed.

Lemma scatter_where sel inner : scatter sel (np_where sel) inner = expand sel inner.
Proof. exact (scatter_where_expand [] sel inner). Qed.

Lemma expand_length sel inner : length (expand sel inner) = length sel.
Proof.
  revert inner; induction sel as [|b s IH]; intros inner; cbn [expand length]; [reflexivity|].
  destruct b; [destruct inner|]; cbn [length]; now rewrite ?IH.
Qed.

Lemma select_expand {A} sel inner (l : list A) :
  length sel = length l -> length inner = length (select sel l) ->
  select (expand sel inner) l = select inner (select sel l).
Proof.
  revert inner l; induction sel as [|b s IH]; intros inner [|y l] HL HI; cbn [length] in HL; try discriminate.
  - cbn [expand select]. now rewrite select_nil_r.
  - injection HL as HL. cbn [expand select] in *. destruct b.
    + destruct inner as [|x inner]; cbn [length] in HI; [discriminate|]. injection HI as HI.
      cbn [select]. rewrite IH by assumption. reflexivity.
    + now apply IH.
Qed.

Lemma select_length {A} sel (l : list A) : length sel = length l -> length (select sel l) = length (np_where sel).
Proof.
  intros H. destruct l as [|d l'] eqn:E.
  - rewrite select_nil_r. destruct sel; [reflexivity|discriminate].
  - rewrite <- E in *. rewrite (select_nth d) by exact H. apply map_length.
Qed.

Lemma where_expand sel inner :
  length inner = length (np_where sel) -> np_where (expand sel inner) = select inner (np_where sel).
Proof.
  intros H. rewrite !where_select, expand_length. apply select_expand.
  - now rewrite seq_length.
  - rewrite <- where_select. exact H.
Qed.

(* ---- bor_vec / negb ---- *)
Lemma bor_vec_length a b : length a = length b -> length (bor_vec a b) = length a.
Proof. intros H. unfold bor_vec. rewrite map_length, combine_length. lia. Qed.

Lemma nth_bor_vec a b i : length a = length b ->
  nth i (bor_vec a b) false = nth i a false || nth i b false.
Proof.
  unfold bor_vec. revert b i; induction a as [|x a IH]; intros [|y b] i H; cbn [length] in H; try discriminate.
  - destruct i; reflexivity.
  - injection H as H. destruct i as [|i]; cbn [combine map nth fst snd]; [reflexivity|]. now apply IH.
Qed.

Lemma nth_map_negb sel i : i < length sel -> nth i (map negb sel) false = negb (nth i sel false).
Proof.
  intros H. rewrite nth_map_error.
  destruct (nth_error sel i) as [x|] eqn:E.
  - now rewrite (nth_error_nth _ _ _ E).
  - apply nth_error_None in E. lia.
Qed.

Lemma where_of_pointwise sel n (f : nat -> bool) :
  length sel = n -> (forall i, i < n -> nth i sel false = f i) -> np_where sel = filter f (seq 0 n).
Proof.
  intros HL H. rewrite where_filter, HL. apply filter_ext_in. intros i Hi. apply in_seq in Hi. apply H. lia.
Qed.
