(* C13: termination of SparseCoverPlateGenerator._generate_and_unmask_initial_plate.
   The model's while loop ([sc_loop]) recurses on the recorded rng.choice answers, one per iteration;
   here: every iteration strictly shrinks the set of remaining treatment ids (control sentinel
   included), the array offered to rng.choice is never empty, hence the loop runs at most
   (number of distinct remaining ids) times and never needs more answers than that. *)
From Coq Require Import ZArith List Bool Arith Lia Permutation.
From Batchie Require Import Lib.Sexp Model.Encode Model.Screen Model.Retro Model.RetroInit
  Proofs.C11Lib Proofs.C11Select Proofs.C11Init Proofs.C13Filter Proofs.C13Sparse.
Import ListNotations.
Open Scope nat_scope.

(* ---------- number of distinct treatment ids (len(np.unique(.))) ---------- *)
Fixpoint tid_dedup (l : list tid) : list tid :=
  match l with
  | [] => []
  | x :: r => if tid_mem x r then tid_dedup r else x :: tid_dedup r
  end.
Definition ndistinct (l : list tid) : nat := length (tid_dedup l).

Lemma In_tid_dedup : forall l x, In x (tid_dedup l) <-> In x l.
Proof.
  induction l as [|a l IH]; intros x; cbn [tid_dedup In]; [tauto|].
  destruct (tid_mem a l) eqn:E.
  - apply tid_mem_In in E. rewrite IH. split; [auto|intros [<-|H]; auto].
  - cbn [In]. rewrite IH. tauto.
Qed.

Lemma NoDup_tid_dedup : forall l, NoDup (tid_dedup l).
Proof.
  induction l as [|a l IH]; cbn [tid_dedup]; [constructor|].
  destruct (tid_mem a l) eqn:E; [exact IH|]. constructor; [|exact IH].
  rewrite In_tid_dedup. intros H. apply tid_mem_In in H. congruence.
Qed.

Lemma ndistinct_incl : forall a b, incl a b -> ndistinct a <= ndistinct b.
Proof.
  intros a b H. unfold ndistinct. apply NoDup_incl_length; [apply NoDup_tid_dedup|].
  intros x Hx. apply In_tid_dedup. apply H. now apply In_tid_dedup.
Qed.

Lemma ndistinct_lt : forall a b x, incl a b -> In x b -> ~ In x a -> ndistinct a < ndistinct b.
Proof.
  intros a b x H Hb Ha. unfold ndistinct.
  assert (H1 : NoDup (x :: tid_dedup a)).
  { constructor; [rewrite In_tid_dedup; exact Ha|apply NoDup_tid_dedup]. }
  assert (H2 : incl (x :: tid_dedup a) (tid_dedup b)).
  { intros y [<-|Hy]; apply In_tid_dedup; [exact Hb|]. apply H. now apply In_tid_dedup. }
  pose proof (NoDup_incl_length H1 H2) as Hl. cbn [length] in Hl. lia.
Qed.

Lemma ndistinct_0 : forall l, ndistinct l = 0 -> l = [].
Proof.
  intros [|a l] H; [reflexivity|]. exfalso.
  assert (Hin : In a (tid_dedup (a :: l))) by (apply In_tid_dedup; now left).
  unfold ndistinct in H. destruct (tid_dedup (a :: l)); [contradiction|discriminate].
Qed.

(* ---------- the remaining set and the offered arrays ---------- *)
Lemma tids_at_app : forall ctrl rows a b,
  tids_at ctrl rows (a ++ b) = tids_at ctrl rows a ++ tids_at ctrl rows b.
Proof. intros. unfold tids_at. now rewrite map_app, concat_app. Qed.

Lemma tids_at_one : forall ctrl rows i r, nth_error rows i = Some r -> tids_at ctrl rows [i] = row_tids ctrl r.
Proof. intros ctrl rows i r H. unfold tids_at. cbn [map concat]. rewrite H. apply app_nil_r. Qed.

Lemma In_remaining : forall ctrl rows chosen t,
  In t (sc_remaining ctrl rows chosen) <-> In t (all_tids ctrl rows) /\ ~ In t (tids_at ctrl rows chosen).
Proof.
  intros ctrl rows chosen t. unfold sc_remaining. rewrite filter_In, negb_true_iff. split; intros [H1 H2]; (split; [exact H1|]).
  - intros Hin. apply tid_mem_In in Hin. congruence.
  - destruct (tid_mem t (tids_at ctrl rows chosen)) eqn:E; [|reflexivity]. apply tid_mem_In in E. contradiction.
Qed.

Lemma remaining_incl_all : forall ctrl rows chosen, incl (sc_remaining ctrl rows chosen) (all_tids ctrl rows).
Proof. intros ctrl rows chosen t H. now apply In_remaining in H. Qed.

Lemma In_offer_loop : forall ctrl rows chosen i,
  In i (sc_offer_loop ctrl rows chosen) <->
  exists r t, nth_error rows i = Some r /\ In t (row_tids ctrl r) /\ In t (sc_remaining ctrl rows chosen).
Proof.
  intros ctrl rows chosen i. unfold sc_offer_loop. cbv zeta. rewrite In_idx_where. split.
  - intros (r & Hn & Hf). apply existsb_exists in Hf as (t & Ht & Hm). apply tid_mem_In in Hm. exists r, t. auto.
  - intros (r & t & Hn & Ht & Hm). exists r. split; [exact Hn|]. apply existsb_exists. exists t.
    split; [exact Ht|now apply tid_mem_In].
Qed.

(* rng.choice is never handed an empty array in the while loop *)
Lemma offer_loop_nonempty : forall ctrl rows chosen,
  sc_remaining ctrl rows chosen <> [] -> sc_offer_loop ctrl rows chosen <> [].
Proof.
  intros ctrl rows chosen Hne. destruct (sc_remaining ctrl rows chosen) as [|t l] eqn:E; [congruence|].
  assert (Ht : In t (sc_remaining ctrl rows chosen)) by (rewrite E; now left).
  pose proof (remaining_incl_all _ _ _ _ Ht) as Hall. apply In_all_tids in Hall as (r & Hr & Htr).
  apply In_nth_error in Hr as (i & Hi).
  assert (Hin : In i (sc_offer_loop ctrl rows chosen)) by (apply In_offer_loop; exists r, t; auto).
  intros Hnil. rewrite Hnil in Hin. contradiction.
Qed.

(* ... nor in the per-sample phase *)
Lemma offer_sample_nonempty : forall ctrl rows s chosen,
  In s (sample_names rows) -> sc_offer_sample ctrl rows s chosen <> [].
Proof.
  intros ctrl rows s chosen Hs. unfold sc_offer_sample. cbv zeta.
  match goal with |- (if is_nil ?x then _ else _) <> [] => destruct (is_nil x) eqn:E end.
  - apply In_sample_names in Hs as (r & Hr & Hsr). apply In_nth_error in Hr as (i & Hi).
    assert (Hin : In i (idx_where (in_sample s) rows)).
    { apply In_idx_where. exists r. split; [exact Hi|now apply in_sample_true]. }
    intros Hnil. rewrite Hnil in Hin. contradiction.
  - intros Hnil. rewrite Hnil in E. discriminate.
Qed.

(* one iteration: the set of remaining ids strictly shrinks *)
Lemma loop_step_decreases : forall ctrl rows chosen i,
  In i (sc_offer_loop ctrl rows chosen) ->
  ndistinct (sc_remaining ctrl rows (chosen ++ [i])) < ndistinct (sc_remaining ctrl rows chosen).
Proof.
  intros ctrl rows chosen i Hi. apply In_offer_loop in Hi as (r & t & Hn & Ht & Hrem).
  apply (ndistinct_lt _ _ t).
  - intros y Hy. apply In_remaining in Hy as [H1 H2]. apply In_remaining. split; [exact H1|].
    intros H. apply H2. rewrite tids_at_app. apply in_or_app. now left.
  - exact Hrem.
  - intros H. apply In_remaining in H as [_ H]. apply H. rewrite tids_at_app. apply in_or_app. right.
    now rewrite (tids_at_one _ _ _ _ Hn).
Qed.

(* ---------- how many answers the two phases consume ---------- *)
Lemma sc_samples_used : forall ctrl rows samples chosen ds chosen' ds',
  sc_samples ctrl rows samples chosen ds = Ok (chosen', ds') ->
  exists used picks, ds = used ++ ds' /\ chosen' = chosen ++ picks /\
                     length used = length samples /\ length picks = length samples.
Proof.
  intros ctrl rows samples. induction samples as [|s samples IH]; intros chosen ds chosen' ds' H;
    cbn [sc_samples] in H.
  - inversion H; subst. exists [], []. now rewrite app_nil_r.
  - destruct ds as [|[[|i [|j l]]|l] ds1]; try discriminate.
    destruct (memb i (sc_offer_sample ctrl rows s chosen)); [|discriminate].
    apply IH in H as (used & picks & -> & -> & Hl & Hp). exists (DInts [i] :: used), (i :: picks).
    split; [reflexivity|]. split; [now rewrite <- app_assoc|]. cbn [length]. lia.
Qed.

Lemma sc_loop_bound : forall ctrl rows ds chosen chosen' ds',
  sc_loop ctrl rows chosen ds = Ok (chosen', ds') ->
  exists used picks, ds = used ++ ds' /\ chosen' = chosen ++ picks /\ length used = length picks /\
                     length picks <= ndistinct (sc_remaining ctrl rows chosen).
Proof.
  intros ctrl rows ds. induction ds as [|d ds IH]; intros chosen chosen' ds' H; cbn [sc_loop] in H.
  - destruct (is_nil (sc_remaining ctrl rows chosen)); [|discriminate]. inversion H; subst.
    exists [], []. rewrite !app_nil_r. cbn [length app]. repeat split; lia.
  - destruct (is_nil (sc_remaining ctrl rows chosen)).
    + inversion H; subst. exists [], []. rewrite !app_nil_r. cbn [length app]. repeat split; lia.
    + destruct d as [[|i [|j l]]|l]; try discriminate.
      destruct (memb i (sc_offer_loop ctrl rows chosen)) eqn:Em; [|discriminate]. apply memb_In in Em.
      apply IH in H as (used & picks & -> & -> & Hl & Hb). exists (DInts [i] :: used), (i :: picks).
      split; [reflexivity|]. split; [now rewrite <- app_assoc|].
      pose proof (loop_step_decreases _ _ _ _ Em) as Hd. cbn [length]. lia.
Qed.

(* ---------- the numpy contract of rng.choice(array, 1), answer by answer ----------
   every answer the function asks for is a single element of the array offered at that moment
   ([samples] = samples still to be served; [] = the while loop); answers the function does not
   ask for are unconstrained *)
Fixpoint sc_contract (ctrl : name) (rows : list row) (samples : list name) (chosen : list nat)
         (ds : list draw) : Prop :=
  match ds with
  | [] => True
  | DInts [i] :: ds1 =>
      match samples with
      | s :: rest =>
          In i (sc_offer_sample ctrl rows s chosen) /\ sc_contract ctrl rows rest (chosen ++ [i]) ds1
      | [] =>
          sc_remaining ctrl rows chosen = [] \/
          (In i (sc_offer_loop ctrl rows chosen) /\ sc_contract ctrl rows [] (chosen ++ [i]) ds1)
      end
  | _ :: _ => False
  end.

Lemma sc_samples_total : forall ctrl rows samples chosen ds,
  sc_contract ctrl rows samples chosen ds -> length samples <= length ds ->
  exists chosen' ds', sc_samples ctrl rows samples chosen ds = Ok (chosen', ds') /\
                      sc_contract ctrl rows [] chosen' ds'.
Proof.
  intros ctrl rows samples. induction samples as [|s samples IH]; intros chosen ds HC Hl.
  - exists chosen, ds. split; [reflexivity|exact HC].
  - destruct ds as [|d ds1]; [cbn [length] in Hl; lia|].
    destruct d as [[|i [|j l]]|l]; cbn [sc_contract] in HC; try contradiction.
    destruct HC as [Hin HC]. cbn [sc_samples]. apply memb_In in Hin. rewrite Hin.
    apply IH; [exact HC|cbn [length] in Hl; lia].
Qed.

Lemma sc_loop_total : forall ctrl rows ds chosen,
  sc_contract ctrl rows [] chosen ds -> ndistinct (sc_remaining ctrl rows chosen) <= length ds ->
  exists chosen' ds', sc_loop ctrl rows chosen ds = Ok (chosen', ds').
Proof.
  intros ctrl rows ds. induction ds as [|d ds IH]; intros chosen HC Hl; cbn [sc_loop].
  - cbn [length] in Hl. rewrite (ndistinct_0 (sc_remaining ctrl rows chosen)) by lia. cbn [is_nil]. eauto.
  - destruct (is_nil (sc_remaining ctrl rows chosen)) eqn:En; [eauto|].
    destruct d as [[|i [|j l]]|l]; cbn [sc_contract] in HC; try contradiction.
    destruct HC as [Hnil|[Hin HC]]; [rewrite Hnil in En; discriminate|].
    pose proof (loop_step_decreases _ _ _ _ Hin) as Hd. apply memb_In in Hin. rewrite Hin.
    apply IH; [exact HC|cbn [length] in Hl; lia].
Qed.

(* ---------- the Screen(...) call at the end cannot fail ---------- *)
Lemma first_mask_in : forall p rows r, In r rows -> r_plate r = p ->
  exists r0, In r0 rows /\ r_plate r0 = p /\ first_mask p rows = Some (r_mask r0).
Proof.
  intros p rows. induction rows as [|x rows IH]; intros r H Hp; [contradiction|]. cbn [first_mask].
  destruct (name_eqb (r_plate x) p) eqn:E.
  - apply name_eqb_eq in E. exists x. split; [now left|auto].
  - destruct H as [->|H]; [rewrite Hp, name_eqb_refl in E; discriminate|].
    destruct (IH r H Hp) as (r0 & H0 & H1 & H2). exists r0. split; [now right|auto].
Qed.

Lemma plate_uniform_of_agree : forall rows,
  (forall r1 r2, In r1 rows -> In r2 rows -> r_plate r1 = r_plate r2 -> r_mask r1 = r_mask r2) ->
  plate_uniform rows = true.
Proof.
  intros rows H. unfold plate_uniform. apply forallb_forall. intros r Hr.
  destruct (first_mask_in (r_plate r) rows r Hr eq_refl) as (r0 & H0 & H1 & ->).
  rewrite (H r0 r H0 Hr H1). apply eqb_reflx.
Qed.

Lemma initial_labels_uniform : forall (final : bvec) rows,
  plate_uniform (map (fun br => set_mask (fst br)
                                  (set_plate (if fst br then initial_plate else unobserved_plate) (snd br)))
                     (combine final rows)) = true.
Proof.
  intros final rows. apply plate_uniform_of_agree. intros r1 r2 H1 H2 Hp.
  apply in_map_iff in H1 as ([b1 x1] & <- & _). apply in_map_iff in H2 as ([b2 x2] & <- & _).
  cbn [fst snd set_mask set_plate r_plate r_mask] in *.
  destruct b1, b2; try reflexivity; unfold initial_plate, unobserved_plate in Hp; discriminate.
Qed.

(* ---------- the whole function ---------- *)
(* whenever it returns: it asked for exactly #samples answers in the per-sample phase, then for at most
   as many as there were distinct treatment ids left uncovered by that phase *)
Theorem sparse_cover_iterations : forall ctrl reveal rows ds out ds',
  sparse_cover ctrl reveal rows ds = Ok (out, ds') ->
  exists chosen1 used1 used2,
    ds = used1 ++ used2 ++ ds' /\
    sc_samples ctrl rows (sample_names rows) [] ds = Ok (chosen1, used2 ++ ds') /\
    length used1 = length (sample_names rows) /\
    length used2 <= ndistinct (sc_remaining ctrl rows chosen1) /\
    ndistinct (sc_remaining ctrl rows chosen1) <= ndistinct (all_tids ctrl rows).
Proof.
  intros ctrl reveal rows ds out ds' H. unfold sparse_cover in H.
  destruct (negb (forallb r_mask rows)); [discriminate|].
  destruct (sc_samples _ _ _ _ _) as [[c1 ds1]|t] eqn:E1; cbn [res_bind] in H; [|discriminate].
  destruct (sc_loop _ _ _ _) as [[ch ds2]|t] eqn:E2; cbn [res_bind] in H; [|discriminate].
  destruct (construct _) as [c|t]; cbn [res_bind] in H; [|discriminate]. inversion H; subst c ds2. clear H.
  pose proof (sc_samples_used _ _ _ _ _ _ _ E1) as (used1 & picks1 & Hd1 & _ & Hl1 & _).
  apply sc_loop_bound in E2 as (used2 & picks2 & Hd2 & _ & Hl2 & Hb2).
  exists c1, used1, used2. subst ds1. split; [exact Hd1|]. split; [reflexivity|]. split; [exact Hl1|].
  split; [lia|]. apply ndistinct_incl, remaining_incl_all.
Qed.

Theorem sparse_cover_consumes : forall ctrl reveal rows ds out ds',
  sparse_cover ctrl reveal rows ds = Ok (out, ds') ->
  exists used, ds = used ++ ds' /\
    length (sample_names rows) <= length used <= length (sample_names rows) + ndistinct (all_tids ctrl rows).
Proof.
  intros ctrl reveal rows ds out ds' H.
  apply sparse_cover_iterations in H as (c1 & u1 & u2 & Hd & _ & H1 & H2 & H3).
  exists (u1 ++ u2). split; [now rewrite <- app_assoc|]. rewrite app_length. lia.
Qed.

(* it returns for every fully observed screen and every contract-obeying answer stream that is long enough *)
Theorem sparse_cover_terminates : forall ctrl reveal rows ds,
  forallb r_mask rows = true ->
  sc_contract ctrl rows (sample_names rows) [] ds ->
  length (sample_names rows) + ndistinct (all_tids ctrl rows) <= length ds ->
  exists out ds', sparse_cover ctrl reveal rows ds = Ok (out, ds').
Proof.
  intros ctrl reveal rows ds Hm HC Hl. unfold sparse_cover. rewrite Hm. cbn [negb].
  destruct (sc_samples_total _ _ _ _ _ HC ltac:(lia)) as (c1 & ds1 & E1 & HC1). rewrite E1. cbn [res_bind].
  pose proof (sc_samples_used _ _ _ _ _ _ _ E1) as (used1 & picks1 & Hd1 & _ & Hl1 & _).
  assert (Hlen : ndistinct (sc_remaining ctrl rows c1) <= length ds1).
  { pose proof (ndistinct_incl _ _ (remaining_incl_all ctrl rows c1)) as Hi.
    rewrite Hd1, app_length in Hl. lia. }
  destruct (sc_loop_total _ _ _ _ HC1 Hlen) as (ch & ds2 & E2). rewrite E2. cbn [res_bind].
  unfold construct. rewrite initial_labels_uniform. cbn [res_bind]. eauto.
Qed.

(* progress, state by state: while ids remain the offered array is not empty (rng.choice cannot raise), every
   possible answer strictly shrinks the set of remaining ids, and the per-sample arrays are not empty either *)
Theorem sc_loop_progress : forall ctrl rows chosen,
  (sc_remaining ctrl rows chosen <> [] -> sc_offer_loop ctrl rows chosen <> []) /\
  (forall i, In i (sc_offer_loop ctrl rows chosen) ->
     ndistinct (sc_remaining ctrl rows (chosen ++ [i])) < ndistinct (sc_remaining ctrl rows chosen)) /\
  (forall s, In s (sample_names rows) -> sc_offer_sample ctrl rows s chosen <> []).
Proof.
  intros ctrl rows chosen. split; [apply offer_loop_nonempty|]. split; [apply loop_step_decreases|].
  intros s Hs. now apply offer_sample_nonempty.
Qed.
