(* C12 / C03, one piece of the links of Proofs/C12Source.v (which see): Screen.set_observed *)
From Coq Require Import ZArith List Bool Lia Arith.
From Batchie Require Import Lib.Sexp Lib.PyRt Generated.Consts Generated.SrcArithC03 Model.Encode Model.Screen Model.Reveal
  Model.Holdout Generated.SrcReveal Proofs.PyRtLemmas Proofs.C03Base Proofs.C03Screen Proofs.C12Reveal Proofs.C03Frozen Proofs.C03Witness
  Proofs.C12Source_Base.
Import ListNotations.
Open Scope Z_scope.

(* ---------- Screen.set_observed ---------- *)

(* the model's set_observed is the translated method run on the screen's two arrays, put back into the screen *)
Theorem set_observed_is_src : forall (s : screen) (sel : list bool) (vals : list Z),
  set_observed s sel vals
  = dor p <- src_set_observed (col_obs s) (col_mask s) sel vals; Ok (set_cols s (fst p) (snd p)).
Proof.
  intros s sel vals. unfold set_observed, src_set_observed, np_mask_assign, np_mask_fill, col_obs, col_mask.
  cbn [negb]. rewrite !map_length.
  destruct (Nat.eqb (length sel) (length (s_rows s))) eqn:El; cbn [negb res_bind]; [|reflexivity].
  apply Nat.eqb_eq in El. cbv zeta.
  destruct (Nat.eqb (length vals) (count_true sel)) eqn:Ek.
  - apply Nat.eqb_eq in Ek. cbn [res_bind fst snd].
    unfold set_cols. now rewrite put_cols_assign.
  - destruct vals as [|x [|y vals]]; cbn [res_bind]; try reflexivity.
    cbn [fst snd].
    unfold set_cols. now rewrite put_cols_assign by (try exact El; apply repeat_length).
Qed.
