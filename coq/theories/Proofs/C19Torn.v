(* C19 — torn (present but unreadable) completion markers: Model/Orchestrate.v, last section.
   - the torn model is a conservative extension of the model (no torn marker, no tearing entry: the same run)
   - examine on a well-formed torn tree is examine on its tree component, except that the "invalid structure" answer for a
     torn directory is an exception that names nothing (tfix = false) / stays that answer (tfix = true, the repair)
   - a raising examine strands the script: every further call raises again and changes nothing
   - the witness (retrospective, batch size 1, 3 plates, marker last in every order) *)
From Coq Require Import ZArith List Bool Lia Arith.
From Batchie Require Import Model.Orchestrate Proofs.C19Base Proofs.C19Canon Proofs.C19Step Proofs.C19Main.
Import ListNotations.
Open Scope Z_scope.

(* ---------- no torn marker: the model ---------- *)
Lemma examine_plates_t_nil tfix it : forall pl st idx,
  examine_plates_t tfix [] it st idx pl = tres_of_xres (examine_plates it st idx pl).
Proof.
  induction pl as [|[pidx d] r IH]; intros st idx; cbn [examine_plates_t examine_plates is_torn existsb]; [reflexivity|].
  destruct (f_meta d) as [m|]; [|reflexivity].
  destruct (negb (pidx =? idx)); [reflexivity|apply IH].
Qed.

Lemma examine_iters_t_nil tfix fixed : forall l st,
  examine_iters_t tfix [] fixed st l = tres_of_xres (examine_iters fixed st l).
Proof.
  induction l as [|itd r IH]; intros st; cbn [examine_iters_t examine_iters]; [reflexivity|].
  unfold examine_iter_t, examine_iter. rewrite examine_plates_t_nil.
  destruct (examine_plates _ _ _ _) as [st'|w s]; cbn [tres_of_xres tbind xbind]; [apply IH|reflexivity].
Qed.

Lemma examine_t_nil tfix fixed bs f : examine_t tfix fixed bs (f, []) = tres_of_xres (examine fixed bs f).
Proof.
  unfold examine_t, examine. cbn [fst snd]. rewrite examine_iters_t_nil.
  destruct (examine_iters _ _ _) as [st|w s]; cbn [tres_of_xres tbind xbind]; [|reflexivity].
  destruct (x_meta st); [|reflexivity]. destruct (x_plate st >=? bs - 1); reflexivity.
Qed.

Lemma attempt_examine md fixed bs n f e :
  match examine fixed bs f with
  | XNamed w s => attempt md fixed bs n f e = (rmtree s f, GNamed w s)
  | XOk _ => True
  end.
Proof. unfold attempt, plan_of. destruct (examine fixed bs f) as [[[[i j] m] sc]|w s]; auto. Qed.

Lemma untear_nil s : untear s [] = []. Proof. reflexivity. Qed.

Theorem attempt_t_conservative tfix md fixed bs n f e :
  attempt_t tfix md fixed bs n (f, []) (whole e) =
  let r := attempt md fixed bs n f e in ((fst r, []), snd r).
Proof.
  unfold attempt_t. rewrite examine_t_nil. cbn [fst snd whole te_e te_torn andb].
  pose proof (attempt_examine md fixed bs n f e) as H.
  destruct (examine fixed bs f) as [[[[i j] m] sc]|w s]; cbn [tres_of_xres].
  - destruct (attempt md fixed bs n f e) as [f1 g]. cbn [fst snd].
    destruct g as [w s| |k|w|s l ps ok]; try reflexivity.
    destruct k; reflexivity.
  - rewrite H. reflexivity.
Qed.

Theorem script_run_t_conservative tfix md fixed bs n : forall sched f,
  script_run_t tfix md fixed bs n (f, []) (map whole sched) =
  let r := script_run md fixed bs n f sched in ((fst r, []), snd r).
Proof.
  induction sched as [|e r IH]; intros f; [reflexivity|].
  cbn [map script_run_t script_run]. rewrite attempt_t_conservative. cbn zeta.
  destruct (attempt md fixed bs n f e) as [f1 g]. cbn [fst snd]. rewrite IH. cbn zeta.
  destruct (script_run md fixed bs n f1 r) as [f2 gs]. reflexivity.
Qed.

(* examine_t answers TOk only when no directory it looked at holds a torn marker: then it is the plain examine's answer
   (whatever the tree records under a torn marker: no well-formedness needed) *)
Lemma examine_plates_t_ok tfix torn it : forall pl st idx st',
  examine_plates_t tfix torn it st idx pl = TOk st' -> examine_plates it st idx pl = XOk st'.
Proof.
  induction pl as [|[pidx d] r IH]; intros st idx st'; cbn [examine_plates_t examine_plates].
  - intros E; injection E as <-; reflexivity.
  - destruct (is_torn torn (it, pidx)); [destruct tfix; discriminate|].
    destruct (f_meta d) as [m|]; [|discriminate]. destruct (negb (pidx =? idx)); [discriminate|apply IH].
Qed.

Lemma examine_iters_t_ok tfix torn fixed : forall l st st',
  examine_iters_t tfix torn fixed st l = TOk st' -> examine_iters fixed st l = XOk st'.
Proof.
  induction l as [|itd r IH]; intros st st'; cbn [examine_iters_t examine_iters].
  - intros E; injection E as <-; reflexivity.
  - unfold examine_iter_t, examine_iter.
    destruct (examine_plates_t tfix torn (fst itd) _ 0 (sort_dirs (snd itd))) as [st1|w s|w] eqn:E1; cbn [tbind]; try discriminate.
    rewrite (examine_plates_t_ok _ _ _ _ _ _ _ E1). cbn [xbind]. apply IH.
Qed.

Theorem examine_t_ok tfix fixed bs tf a :
  examine_t tfix fixed bs tf = TOk a -> examine fixed bs (fst tf) = XOk a.
Proof.
  unfold examine_t, examine.
  destruct (examine_iters_t tfix (snd tf) fixed exst0 (sort_dirs (fst tf))) as [st|w s|w] eqn:E1; cbn [tbind]; try discriminate.
  rewrite (examine_iters_t_ok _ _ _ _ _ _ E1). cbn [xbind].
  destruct (x_meta st); [destruct (x_plate st >=? bs - 1)|]; intros E; injection E as <-; reflexivity.
Qed.

(* under the repair examine_t either answers as the plain examine on the tree component, or names a directory holding a torn
   marker as "invalid structure" (whatever the tree records under a torn marker: no well-formedness needed) *)
Definition torn_named {A} (torn : torn_set) (r : tres A) : Prop := exists s, r = TNamed 1 s /\ is_torn torn s = true.

Lemma examine_plates_t_cases torn it : forall pl st idx,
  examine_plates_t true torn it st idx pl = tres_of_xres (examine_plates it st idx pl)
  \/ torn_named torn (examine_plates_t true torn it st idx pl).
Proof.
  induction pl as [|[pidx d] r IH]; intros st idx; cbn [examine_plates_t examine_plates]; [left; reflexivity|].
  destruct (is_torn torn (it, pidx)) eqn:Et; [right; exists (it, pidx); auto|].
  destruct (f_meta d) as [m|]; [|left; reflexivity].
  destruct (negb (pidx =? idx)); [left; reflexivity|apply IH].
Qed.

Lemma examine_iters_t_cases torn fixed : forall l st,
  examine_iters_t true torn fixed st l = tres_of_xres (examine_iters fixed st l)
  \/ torn_named torn (examine_iters_t true torn fixed st l).
Proof.
  induction l as [|itd r IH]; intros st; cbn [examine_iters_t examine_iters]; [left; reflexivity|].
  unfold examine_iter_t, examine_iter.
  match goal with |- context [examine_plates_t true torn ?i ?s0 0 ?p] =>
    destruct (examine_plates_t_cases torn i p s0 0) as [E|(s & E & Ht)]; rewrite E end.
  - destruct (examine_plates _ _ _ _) as [st'|w s]; cbn [tres_of_xres tbind xbind]; [apply IH|left; reflexivity].
  - cbn [tbind]. right. exists s. auto.
Qed.

Theorem examine_t_repaired_cases fixed bs tf :
  examine_t true fixed bs tf = tres_of_xres (examine fixed bs (fst tf)) \/ torn_named (snd tf) (examine_t true fixed bs tf).
Proof.
  unfold examine_t, examine.
  destruct (examine_iters_t_cases (snd tf) fixed (sort_dirs (fst tf)) exst0) as [E|(s & E & Ht)]; rewrite E.
  - left. destruct (examine_iters _ _ _) as [st|w s]; cbn [tres_of_xres tbind xbind]; [|reflexivity].
    destruct (x_meta st); [|reflexivity]. destruct (x_plate st >=? bs - 1); reflexivity.
  - right. exists s. auto.
Qed.

(* ---------- a raising examine strands the script ---------- *)
Theorem torn_stuck tfix md fixed bs n tf w :
  examine_t tfix fixed bs tf = TRaised w ->
  forall sched, script_run_t tfix md fixed bs n tf sched = (tf, repeat (GFail w) (length sched)).
Proof.
  intros H. induction sched as [|e r IH]; [reflexivity|].
  cbn [script_run_t length repeat]. unfold attempt_t at 1. rewrite H, IH. reflexivity.
Qed.

(* nothing raises under the repair *)
Lemma examine_plates_t_fixed_no_raise torn it : forall pl st idx w,
  examine_plates_t true torn it st idx pl <> TRaised w.
Proof.
  induction pl as [|[pidx d] r IH]; intros st idx w; cbn [examine_plates_t]; [discriminate|].
  destruct (is_torn torn (it, pidx)); [discriminate|].
  destruct (f_meta d); [|discriminate]. destruct (negb (pidx =? idx)); [discriminate|apply IH].
Qed.

Theorem examine_t_repaired_never_raises fixed bs tf w : examine_t true fixed bs tf <> TRaised w.
Proof.
  unfold examine_t. generalize (sort_dirs (fst tf)) exst0. intros l.
  assert (H : forall st, examine_iters_t true (snd tf) fixed st l <> TRaised w).
  { induction l as [|itd r IH]; intros st; cbn [examine_iters_t]; [discriminate|].
    unfold examine_iter_t.
    pose proof (examine_plates_t_fixed_no_raise (snd tf) (fst itd) (sort_dirs (snd itd))
                  (if fixed && is_nil (sort_dirs (snd itd)) then st else mkx (x_meta st) (x_iter st) 0 (x_leak st)) 0 w) as Hp.
    destruct (examine_plates_t _ _ _ _ _ _) as [st'|w' s|w']; cbn [tbind]; [apply IH|discriminate|].
    intros E. apply Hp. exact E. }
  intros st E. specialize (H st).
  destruct (examine_iters_t true (snd tf) fixed st l) as [st'|w' s|w']; cbn [tbind] in E.
  - destruct (x_meta st'); [|discriminate]. destruct (x_plate st' >=? bs - 1); discriminate.
  - discriminate.
  - apply H. injection E as ->. reflexivity.
Qed.

(* ---------- well-formed torn trees: examine_t read off examine ---------- *)
Lemma in_insert_key {A} (p q : Z * A) l : In q (insert_key p l) <-> q = p \/ In q l.
Proof.
  induction l as [|x l IH]; cbn [insert_key In]; [intuition congruence|].
  destruct (fst p <? fst x); cbn [In]; [intuition congruence|]. rewrite IH. intuition congruence.
Qed.
Lemma in_sort_dirs {A} (q : Z * A) l : In q (sort_dirs l) <-> In q l.
Proof.
  induction l as [|x l IH]; cbn [sort_dirs In]; [tauto|]. rewrite in_insert_key, IH. intuition congruence.
Qed.

(* what the torn examine makes of the plain examine's answer *)
Definition tear_answer {A} (tfix : bool) (torn : torn_set) (r : xres A) : tres A :=
  match r with
  | XNamed 1 s => if is_torn torn s && negb tfix then TRaised 70 else TNamed 1 s
  | r => tres_of_xres r
  end.

Lemma examine_plates_t_char tfix torn it : forall pl st idx,
  (forall pidx d, In (pidx, d) pl -> is_torn torn (it, pidx) = true -> f_meta d = None) ->
  examine_plates_t tfix torn it st idx pl = tear_answer tfix torn (examine_plates it st idx pl).
Proof.
  induction pl as [|[pidx d] r IH]; intros st idx Hwf; cbn [examine_plates_t examine_plates]; [reflexivity|].
  destruct (is_torn torn (it, pidx)) eqn:Et.
  - rewrite (Hwf pidx d (or_introl eq_refl) Et). cbn [tear_answer]. rewrite Et. destruct tfix; reflexivity.
  - destruct (f_meta d) as [m|].
    + destruct (negb (pidx =? idx)).
      * cbn [tear_answer]. reflexivity.
      * apply IH. intros p' d' Hin. apply Hwf. now right.
    + cbn [tear_answer]. rewrite Et. reflexivity.
Qed.

Lemma tear_answer_bind {A B} tfix torn (r : xres A) (k : A -> xres B) (k' : A -> tres B) :
  (forall a, k' a = tear_answer tfix torn (k a)) ->
  tbind (tear_answer tfix torn r) k' = tear_answer tfix torn (xbind r k).
Proof.
  intros Hk. destruct r as [a|w s]; cbn [xbind tear_answer tres_of_xres tbind]; [apply Hk|].
  destruct w as [|[p|p|]|p]; cbn [tbind]; try reflexivity.
  destruct (is_torn torn s && negb tfix); reflexivity.
Qed.

Lemma examine_iters_t_char tfix torn fixed : forall l st,
  (forall it pl pidx d, In (it, pl) l -> In (pidx, d) pl -> is_torn torn (it, pidx) = true -> f_meta d = None) ->
  examine_iters_t tfix torn fixed st l = tear_answer tfix torn (examine_iters fixed st l).
Proof.
  induction l as [|[it pl] r IH]; intros st Hwf; cbn [examine_iters_t examine_iters]; [reflexivity|].
  unfold examine_iter_t, examine_iter. cbn [fst snd].
  rewrite examine_plates_t_char.
  - apply tear_answer_bind. intros st'. apply IH. intros it' pl' p' d' Hin. apply (Hwf it' pl' p' d'). now right.
  - intros p' d' Hin. apply (Hwf it pl p' d'); [now left|]. apply in_sort_dirs. exact Hin.
Qed.

Theorem examine_t_char tfix fixed bs tf : torn_wf tf ->
  examine_t tfix fixed bs tf = tear_answer tfix (snd tf) (examine fixed bs (fst tf)).
Proof.
  intros Hwf. unfold examine_t, examine. rewrite examine_iters_t_char.
  - apply tear_answer_bind. intros st. destruct (x_meta st); [|reflexivity].
    destruct (x_plate st >=? bs - 1); reflexivity.
  - intros it pl p d Hin. apply (Hwf it pl p d). apply in_sort_dirs. exact Hin.
Qed.

(* the repair: a torn marker is a missing marker *)
Theorem examine_t_repaired_is_missing fixed bs tf : torn_wf tf ->
  examine_t true fixed bs tf = tres_of_xres (examine fixed bs (fst tf)).
Proof.
  intros Hwf. rewrite (examine_t_char true fixed bs tf Hwf).
  destruct (examine fixed bs (fst tf)) as [a|w s]; cbn [tear_answer tres_of_xres]; [reflexivity|].
  destruct w as [|[p|p|]|p]; try reflexivity. now rewrite andb_false_r.
Qed.

(* today: the script raises exactly when the directory the plain examine would name as "invalid structure" holds a torn marker *)
Theorem examine_t_raises_iff fixed bs tf w : torn_wf tf ->
  (examine_t false fixed bs tf = TRaised w <->
   w = 70 /\ exists s, examine fixed bs (fst tf) = XNamed 1 s /\ is_torn (snd tf) s = true).
Proof.
  intros Hwf. rewrite (examine_t_char false fixed bs tf Hwf).
  destruct (examine fixed bs (fst tf)) as [a|w' s]; cbn [tear_answer tres_of_xres].
  - split; [discriminate|]. intros (_ & s & E & _). discriminate.
  - destruct w' as [|[p|p|]|p]; cbn [tres_of_xres];
      try (split; [discriminate|intros (_ & s' & E & _); discriminate]).
    rewrite andb_true_r. destruct (is_torn (snd tf) s) eqn:Et.
    + split; [intros E; injection E as <-; split; [reflexivity|exists s; auto]|intros (-> & _); reflexivity].
    + split; [discriminate|]. intros (_ & s' & E & Ht). injection E as <-. congruence.
Qed.

(* ---------- the witness ---------- *)
(* retrospective, batch size 1, 3 plates, the script with the empty-directory repair (as /repo is), every order marker-last:
   step (0,0) completes; the run of step (1,0) is interrupted while its last file - the marker - is being published *)
Definition full_t : tentry := whole full.
Definition witness_torn : list tentry := [full_t; mkte (mke 9 canon_order) true].

Theorem torn_marker_strands :
  Forall (fun te => entry_ok (te_e te) = true) witness_torn /\
  forall k,
    let r := script_run_t false Retro true 1 3 ([], []) (witness_torn ++ repeat full_t k) in
    snd (fst r) = [(1, 0)] /\
    completed (fst (fst r)) = ideal Retro 1 3 1 /\
    skipn 2 (snd r) = repeat (GFail 70) k /\
    (forall w s, ~ In (GNamed w s) (snd r)).
Proof.
  split; [repeat constructor|].
  intros k.
  assert (E2 : script_run_t false Retro true 1 3 ([], []) witness_torn
               = (fst (script_run_t false Retro true 1 3 ([], []) witness_torn),
                  snd (script_run_t false Retro true 1 3 ([], []) witness_torn)))
    by (destruct (script_run_t false Retro true 1 3 ([], []) witness_torn); reflexivity).
  assert (Happ : forall s1 s2 tf,
             script_run_t false Retro true 1 3 tf (s1 ++ s2) =
             let r1 := script_run_t false Retro true 1 3 tf s1 in
             let r2 := script_run_t false Retro true 1 3 (fst r1) s2 in (fst r2, snd r1 ++ snd r2)).
  { induction s1 as [|e s1 IH]; intros s2 tf; cbn [app script_run_t].
    - cbn zeta. cbn [fst snd app]. destruct (script_run_t false Retro true 1 3 tf s2); reflexivity.
    - destruct (attempt_t false Retro true 1 3 tf e) as [tf1 g]. rewrite IH. cbn zeta.
      destruct (script_run_t false Retro true 1 3 tf1 s1) as [tf2 gs]. cbn [fst snd].
      destruct (script_run_t false Retro true 1 3 tf2 s2) as [tf3 gs']. reflexivity. }
  cbn zeta. rewrite Happ. cbn zeta.
  set (r1 := script_run_t false Retro true 1 3 ([], []) witness_torn).
  assert (Hr1 : r1 = (([(0, [(0, ideal_pdir Retro 1 3 0)]); (1, [(0, clear_meta (ideal_pdir Retro 1 3 1))])], [(1, 0)]),
                      [GLaunch (0, 0) (LInit SInput) [KTraining; KTest; KThetas; KDist; KSelected; KAdvanced; KMeta] true;
                       GLaunch (1, 0) (LFirst (SFile (0, 0) KAdvanced) (SFile (0, 0) KTraining))
                               [KThetas; KDist; KSelected; KAdvanced; KMeta] false]))
    by (vm_compute; reflexivity).
  rewrite Hr1. cbn [fst snd].
  rewrite (torn_stuck false Retro true 1 3 _ 70) by (vm_compute; reflexivity).
  cbn [fst snd]. rewrite repeat_length.
  split; [reflexivity|]. split; [vm_compute; reflexivity|]. split; [reflexivity|].
  intros w s [H|[H|H]]; try discriminate. apply repeat_spec in H. discriminate.
Qed.

(* the same schedule under the repair: the torn directory is named, removed, and the run completes *)
Lemma torn_witness_repaired :
  let r := script_run_t true Retro true 1 3 ([], []) (witness_torn ++ [full_t; full_t; full_t; full_t]) in
  snd (fst r) = [] /\ completed (fst (fst r)) = crash_free Retro 1 3 /\
  nth 2 (snd r) GDone = GNamed 1 (1, 0).
Proof. vm_compute. repeat split; reflexivity. Qed.

(* prospective variant of the witness: batch size 2, the marker of (0,1) torn *)
Lemma torn_witness_prospective :
  let r := script_run_t false Prosp true 2 3 ([], []) ([full_t; mkte (mke 7 canon_order) true] ++ repeat full_t 3) in
  snd (fst r) = [(0, 1)] /\ skipn 2 (snd r) = repeat (GFail 70) 3.
Proof. vm_compute. split; reflexivity. Qed.
