(* C01 proofs, part 3: the Screen constructor. *)
From Coq Require Import ZArith List Lia Bool Sorted Permutation Arith.
From Batchie Require Import Lib.Sexp Lib.ListX Generated.Consts Model.Encode Model.Screen
  Proofs.C01Sort Proofs.C01Encode.
Import ListNotations.
Open Scope Z_scope.

(* ---------- column-major flatten / unflatten ---------- *)
Lemma nth_concat_uniform {A} (d : A) (n : nat) (ls : list (list A)) :
  Forall (fun l => length l = n) ls ->
  forall i j, (i < length ls)%nat -> (j < n)%nat ->
  nth (i * n + j) (concat ls) d = nth j (nth i ls []) d.
Proof.
  induction 1 as [|l ls Hl Hall IH]; intros i j Hi Hj; [cbn in Hi; lia|].
  cbn [concat]. destruct i as [|i].
  - cbn [Nat.mul Nat.add nth]. rewrite app_nth1 by lia. reflexivity.
  - cbn [nth]. rewrite app_nth2 by (cbn [Nat.mul]; lia).
    replace (S i * n + j - length l)%nat with (i * n + j)%nat by (cbn [Nat.mul]; lia).
    apply IH; [cbn in Hi; lia|exact Hj].
Qed.

Lemma concat_length_uniform {A} (n : nat) (ls : list (list A)) :
  Forall (fun l => length l = n) ls -> length (concat ls) = (length ls * n)%nat.
Proof.
  induction 1 as [|l ls Hl Hall IH]; [reflexivity|]. cbn [concat length]. rewrite app_length, IH, Hl. lia.
Qed.

Section Flat.
Context {A : Type} (d : A) (a : nat) (rows : list (list A)).
Hypothesis Hlen : Forall (fun r => length r = a) rows.

Lemma columns_uniform :
  Forall (fun l => length l = length rows) (map (fun i => column d i rows) (seq 0 a)).
Proof. apply Forall_forall. intros l Hl. apply in_map_iff in Hl as (i & <- & _). unfold column. now rewrite map_length. Qed.

Lemma flatten_length : length (flatten_cols d a rows) = (a * length rows)%nat.
Proof. unfold flatten_cols. rewrite (concat_length_uniform _ _ columns_uniform), map_length, seq_length. reflexivity. Qed.

Lemma flatten_nth i j : (i < a)%nat -> (j < length rows)%nat ->
  nth (i * length rows + j) (flatten_cols d a rows) d = nth i (nth j rows []) d.
Proof.
  intros Hi Hj. unfold flatten_cols.
  rewrite (nth_concat_uniform d (length rows) _ columns_uniform) by (rewrite ?map_length, ?seq_length; assumption).
  rewrite nth_map_seq0 by exact Hi.
  unfold column. now rewrite (nth_map_lt _ rows d []) by exact Hj.
Qed.

Lemma flatten_In x : In x (flatten_cols d a rows) <-> exists r, In r rows /\ In x r.
Proof.
  unfold flatten_cols. rewrite in_concat. split.
  - intros (l & Hl & Hx). apply in_map_iff in Hl as (i & <- & Hi). unfold column in Hx.
    apply in_map_iff in Hx as (r & <- & Hr). exists r. split; [exact Hr|].
    apply in_seq in Hi. rewrite Forall_forall in Hlen. apply nth_In. rewrite (Hlen r Hr). lia.
  - intros (r & Hr & Hx). destruct (In_nth r x d Hx) as (i & Hi & Hnth).
    rewrite Forall_forall in Hlen. rewrite (Hlen r Hr) in Hi.
    exists (column d i rows). split.
    + apply in_map_iff. exists i. split; [reflexivity|apply in_seq; lia].
    + unfold column. apply in_map_iff. exists r. tauto.
Qed.
End Flat.

(* encoding the flattened keys and unflattening the ids = encoding each row's keys in place *)
Lemma unflatten_flatten (f : tkey -> Z) (a : nat) (rows : list (list tkey)) (tflat : list Z) :
  Forall (fun r => length r = a) rows ->
  tflat = map f (flatten_cols ([], 0) a rows) ->
  unflatten_cols a (length rows) tflat = map (map f) rows.
Proof.
  intros Hlen ->. unfold unflatten_cols.
  apply nth_ext with (d := []) (d' := []); [now rewrite !map_length, seq_length|].
  intros j Hj. rewrite map_length, seq_length in Hj.
  rewrite nth_map_seq0 by exact Hj.
  rewrite (nth_map_lt _ rows [] []) by exact Hj.
  assert (Hr : length (nth j rows []) = a) by (rewrite Forall_forall in Hlen; apply Hlen, nth_In, Hj).
  apply nth_ext with (d := 0) (d' := f ([], 0)); [now rewrite !map_length, seq_length, Hr|].
  intros i Hi. rewrite map_length, seq_length in Hi.
  rewrite nth_map_seq0 by exact Hi.
  rewrite (nth_map_lt f _ 0 ([], 0)) by (rewrite flatten_length; nia).
  rewrite (nth_map_lt f _ (f ([], 0)) ([], 0)) by (now rewrite Hr).
  f_equal. now apply flatten_nth.
Qed.

(* ---------- inversion of mk_screen ---------- *)
Definition norm_rows (og mg : bool) (rows : list row) : list row :=
  if og then (if mg then rows
              else map (fun r => {| r_sample := r_sample r; r_plate := r_plate r; r_treats := r_treats r;
                                    r_obs := r_obs r; r_mask := true |}) rows)
  else map (fun r => {| r_sample := r_sample r; r_plate := r_plate r; r_treats := r_treats r;
                        r_obs := 0; r_mask := false |}) rows.

Lemma norm_rows_treats og mg rows : map r_treats (norm_rows og mg rows) = map r_treats rows.
Proof. unfold norm_rows. destruct og, mg; rewrite ?map_map; reflexivity. Qed.
Lemma norm_rows_samples og mg rows : map r_sample (norm_rows og mg rows) = map r_sample rows.
Proof. unfold norm_rows. destruct og, mg; rewrite ?map_map; reflexivity. Qed.
Lemma norm_rows_plates og mg rows : map r_plate (norm_rows og mg rows) = map r_plate rows.
Proof. unfold norm_rows. destruct og, mg; rewrite ?map_map; reflexivity. Qed.
Lemma norm_rows_length og mg rows : length (norm_rows og mg rows) = length rows.
Proof. unfold norm_rows. destruct og, mg; rewrite ?map_length; reflexivity. Qed.

Definition tid_of (m : tmapping) (k : tkey) : Z := match tlookup m k with Some id => id | None => 0 end.
Definition nid_of (m : nmapping) (k : name) : Z := match nlookup m k with Some id => id | None => 0 end.

Definition all_keys (s : screen) : list tkey := flatten_cols ([], 0) (s_arity s) (map r_treats (s_rows s)).

Lemma Forall2_map_total {A B} (f : A -> option B) (g : A -> B) l r :
  (forall a b, f a = Some b -> g a = b) -> Forall2 (fun a b => f a = Some b) l r -> r = map g l.
Proof. intros Hg. induction 1 as [|a b l r Hab _ IH]; cbn [map]; [reflexivity|]. now rewrite (Hg a b Hab), IH. Qed.

Lemma Forall2_defined {A B} (f : A -> option B) l r :
  Forall2 (fun a b => f a = Some b) l r -> Forall (fun a => f a <> None) l.
Proof. induction 1 as [|a b l r Hab _ IH]; constructor; [congruence|exact IH]. Qed.

Record mk_spec (rows : list row) (a : nat) (ctrl : name)
       (tm : option (tmapping * bool)) (sm : option (nmapping * bool)) (og mg : bool) (s : screen) : Prop := {
  ms_rows : s_rows s = norm_rows og mg rows;
  ms_arity : s_arity s = a;
  ms_ctrl : s_ctrl s = ctrl;
  ms_lens : Forall (fun r => length (r_treats r) = a) rows;
  ms_uniform : plate_uniform (s_rows s) = true;
  ms_tmap : s_tmap s = match tm with Some (m, _) => m | None => build_tmapping ctrl (all_keys s) end;
  ms_smap : s_smap s = match sm with Some (m, _) => m | None => build_nmapping (map r_sample rows) end;
  ms_pmap : s_pmap s = build_nmapping (map r_plate rows);
  ms_tvalid : match tm with Some (m, isint) => zero_indexed isint (map snd m) = true | None => True end;
  ms_svalid : match sm with Some (m, isint) => zero_indexed isint (map snd m) = true | None => True end;
  ms_tids : s_tids s = map (fun r => map (tid_of (s_tmap s)) (r_treats r)) (s_rows s);
  ms_tdef : Forall (fun k => tlookup (s_tmap s) k <> None) (all_keys s);
  ms_sids : s_sids s = map (fun r => nid_of (s_smap s) (r_sample r)) (s_rows s);
  ms_sdef : Forall (fun r => nlookup (s_smap s) (r_sample r) <> None) (s_rows s);
  ms_pids : s_pids s = map (fun r => nid_of (s_pmap s) (r_plate r)) (s_rows s);
  ms_pdef : Forall (fun r => nlookup (s_pmap s) (r_plate r) <> None) (s_rows s)
}.

Lemma forallb_lens a rows :
  forallb (fun r => Nat.eqb (length (r_treats r)) a) rows = true ->
  Forall (fun r => length (r_treats r) = a) rows.
Proof. rewrite forallb_forall, Forall_forall. intros H r Hr. now apply Nat.eqb_eq, H. Qed.

Lemma mk_screen_inv rows a ctrl tm sm og mg s :
  mk_screen rows a ctrl tm sm og mg = Ok s -> mk_spec rows a ctrl tm sm og mg s.
Proof.
  unfold mk_screen. fold (norm_rows og mg rows). set (nr := norm_rows og mg rows).
  destruct (forallb (fun r => Nat.eqb (length (r_treats r)) a) rows) eqn:E1; cbn [negb]; [|discriminate].
  destruct (negb og && mg) eqn:E2; [discriminate|].
  destruct (plate_uniform nr) eqn:E3; cbn [negb]; [|discriminate].
  destruct (match tm with Some (m, isint) => negb (zero_indexed isint (map snd m)) | None => false end) eqn:E4; [discriminate|].
  destruct (match sm with Some (m, isint) => negb (zero_indexed isint (map snd m)) | None => false end) eqn:E5; [discriminate|].
  unfold encode_treatments, encode_names.
  set (flat := flatten_cols ([], 0) a (map r_treats nr)).
  set (tmm := match option_map fst tm with Some m => m | None => build_tmapping ctrl flat end).
  destruct (opt_map_all (tlookup tmm) flat) as [tflat|] eqn:E6; cbn [res_bind]; [|discriminate].
  set (smm := match option_map fst sm with Some m => m | None => build_nmapping (map r_sample nr) end).
  destruct (opt_map_all (nlookup smm) (map r_sample nr)) as [sids|] eqn:E7; cbn [res_bind]; [|discriminate].
  set (pmm := build_nmapping (map r_plate nr)).
  destruct (opt_map_all (nlookup pmm) (map r_plate nr)) as [pids|] eqn:E8; cbn [res_bind]; [|discriminate].
  intros H; inversion H; subst s; clear H.
  apply forallb_lens in E1.
  assert (Hlen' : Forall (fun r => length r = a) (map r_treats nr)).
  { unfold nr. rewrite norm_rows_treats. apply Forall_forall. intros l Hl. apply in_map_iff in Hl as (r & <- & Hr).
    rewrite Forall_forall in E1. now apply E1. }
  apply opt_map_all_Some in E6, E7, E8.
  split; cbn [s_rows s_arity s_ctrl s_tmap s_smap s_pmap s_tids s_sids s_pids]; unfold all_keys;
    cbn [s_rows s_arity]; fold nr; fold flat; try reflexivity; try assumption.
  - unfold tmm. destruct tm as [[m b]|]; reflexivity.
  - unfold smm, nr. rewrite norm_rows_samples. destruct sm as [[m b]|]; reflexivity.
  - unfold pmm, nr. now rewrite norm_rows_plates.
  - destruct tm as [[m b]|]; [|exact I]. now apply negb_false_iff in E4.
  - destruct sm as [[m b]|]; [|exact I]. now apply negb_false_iff in E5.
  - rewrite <- (map_length r_treats nr).
    rewrite (unflatten_flatten (tid_of tmm) a (map r_treats nr) tflat Hlen').
    + now rewrite map_map.
    + fold flat. apply (Forall2_map_total (tlookup tmm)); [|exact E6].
      intros k id Hk. unfold tid_of. now rewrite Hk.
  - exact (Forall2_defined _ _ _ E6).
  - rewrite (Forall2_map_total (nlookup smm) (nid_of smm) _ _ ltac:(intros k id Hk; unfold nid_of; now rewrite Hk) E7).
    now rewrite map_map.
  - apply Forall2_defined in E7. rewrite Forall_forall in *. intros r Hr. apply E7. now apply in_map.
  - rewrite (Forall2_map_total (nlookup pmm) (nid_of pmm) _ _ ltac:(intros k id Hk; unfold nid_of; now rewrite Hk) E8).
    now rewrite map_map.
  - apply Forall2_defined in E8. rewrite Forall_forall in *. intros r Hr. apply E8. now apply in_map.
Qed.
