(* C06: the model's holder_new / h_get_score / h_save / h_load (Model/Scores.v) equal the translations of
     batchie.scoring.main.ChunkedScoresHolder.__init__ / get_score / save_h5 / load_h5
   regenerated from /repo on every run (Generated/SrcHolderIO.v, by harness/py2gal.py with the configurations
   C06_HOLDER_* of harness/src_functions.py), for all inputs.
   The Python object is the record [pyholder] of its four attributes; a model holder h is represented by [holder_obj h].
   The translated save_h5 denotes the RAW file [shraw] it has written (datasets and attributes by name), the translated
   load_h5 reads a raw file; the representation map to the model's file (slots, current_index) is [shraw_close].
     __init__:  the fresh holder of the declared size (ValueError for a negative size)
     get_score: the score of the only slot with that plate id
     save:      what the translated save_h5 wrote, read back by name, is exactly the model's [h_save h]
     load:      on every raw file that represents a model file f, the translated load_h5 returns the object of [h_load f]
     load after save on the raw file itself = the object of h_load (h_save h): C06_save_load speaks about the translated
     source. *)
From Coq Require Import ZArith List Bool Lia.
From Coq Require String Ascii.
From Batchie Require Import Lib.Sexp Lib.PyRt Model.Scores Generated.SrcHolderIO Proofs.PyRtLemmas Proofs.C06Select.
Import ListNotations.
Open Scope Z_scope.

Ltac shraw_eval :=
  cbv [shraw_create shraw_set_attr sh_put shraw_empty sh_find sh_data sh_attrs app res_bind
       shraw_read_f1 shraw_read_i1 shraw_attr SK_scores SK_plate_ids SK_current_index
       String.eqb Ascii.eqb Bool.eqb andb].

(* ---------- __init__ ---------- *)
Lemma map_repeat_c {A B} (f : A -> B) (x : A) n : map f (repeat x n) = repeat (f x) n.
Proof. induction n as [|n IH]; cbn [repeat map]; [reflexivity | now rewrite IH]. Qed.

Theorem src_holder_init_is_model : forall (self : pyholder) (size : Z),
  src_holder_init self size = if size <? 0 then Err 1 else Ok (holder_obj (holder_new (Z.to_nat size))).
Proof.
  intros self size. unfold src_holder_init, np_zeros_keys. destruct (Z.ltb_spec size 0) as [H|H]; [reflexivity|].
  cbn [res_bind]. unfold holder_obj, holder_new, set_ph_size, set_ph_scores, set_ph_pids, set_ph_cur.
  cbn [ph_size ph_scores ph_pids ph_cur h_size h_slots h_cur].
  rewrite !map_repeat_c. cbn [fst snd Z.of_nat]. now rewrite Z2Nat.id by exact H.
Qed.

Corollary src_holder_init_of_nat : forall (self : pyholder) (n : nat),
  src_holder_init self (Z.of_nat n) = Ok (holder_obj (holder_new n)).
Proof.
  intros self n. rewrite src_holder_init_is_model. destruct (Z.ltb_spec (Z.of_nat n) 0) as [H|_]; [lia|]. now rewrite Nat2Z.id.
Qed.

(* ---------- get_score ---------- *)
Lemma mask_select_slots (p : slot -> bool) (l : list slot) :
  mask_select (map snd l) (map p l) = Ok (map snd (filter p l)).
Proof.
  unfold mask_select. rewrite !map_length, Nat.eqb_refl. f_equal.
  induction l as [|x l IH]; cbn [map combine filter snd]; [reflexivity|].
  destruct (p x); cbn [map fst]; now rewrite IH.
Qed.

Theorem src_holder_get_score_is_model : forall (h : holder) (pid : Z),
  src_holder_get_score (holder_obj h) pid = h_get_score h pid.
Proof.
  intros h pid. unfold src_holder_get_score, h_get_score, holder_obj, np_eq_scalar_z. cbn [ph_scores ph_pids].
  rewrite map_map. unfold skey. rewrite (mask_select_slots (fun sl => fst sl =? pid)). cbn [res_bind]. unfold slot.
  destruct (filter (fun sl : Z * Z => fst sl =? pid) (h_slots h)) as [|sl [|sl' r]]; reflexivity.
Qed.

(* ---------- save_h5 ---------- *)
(* the raw file the translated save_h5 writes *)
Definition shraw_of_file (f : list slot * nat) : shraw :=
  {| sh_data := [ (SK_scores, SH_F1 (map snd (fst f))); (SK_plate_ids, SH_I1 (map fst (fst f))) ];
     sh_attrs := [ (SK_current_index, Z.of_nat (snd f)) ] |}.

Lemma combine_fst_snd {A B} (l : list (A * B)) : combine (map fst l) (map snd l) = l.
Proof. induction l as [|[a b] l IH]; cbn [map combine fst snd]; [reflexivity | now rewrite IH]. Qed.

Lemma close_shraw_of_file f : shraw_close (shraw_of_file f) = Ok f.
Proof.
  destruct f as [slots cur]. unfold shraw_close, shraw_of_file. shraw_eval. cbn [fst snd].
  rewrite !map_length, Nat.eqb_refl. destruct (Z.leb_spec 0 (Z.of_nat cur)) as [_|H]; [|lia]. cbn [andb].
  now rewrite combine_fst_snd, Nat2Z.id.
Qed.

Theorem src_holder_save_h5_writes : forall h : holder, src_holder_save_h5 (holder_obj h) = Ok (shraw_of_file (h_save h)).
Proof. intros h. unfold src_holder_save_h5, shraw_of_file, holder_obj, h_save. shraw_eval. reflexivity. Qed.

Theorem src_holder_save_h5_is_model : forall h : holder,
  (dor w <- src_holder_save_h5 (holder_obj h); shraw_close w) = Ok (h_save h).
Proof. intros h. rewrite src_holder_save_h5_writes. cbn [res_bind]. apply close_shraw_of_file. Qed.

(* ---------- load_h5 ---------- *)
Ltac close_step H x E :=
  match type of H with
  | (dor _ <- ?r; _) = Ok _ => destruct r as [x|] eqn:E; cbn [res_bind] in H; [|discriminate H]
  end.

Lemma map_fst_combine {A B} : forall (a : list A) (b : list B), length a = length b -> map fst (combine a b) = a.
Proof. induction a as [|x a IH]; intros [|y b] L; cbn in *; try reflexivity; try discriminate. f_equal. apply IH. lia. Qed.
Lemma map_snd_combine {A B} : forall (a : list A) (b : list B), length a = length b -> map snd (combine a b) = b.
Proof. induction a as [|x a IH]; intros [|y b] L; cbn in *; try reflexivity; try discriminate. f_equal. apply IH. lia. Qed.

Theorem src_holder_load_h5_is_model : forall (w : shraw) (f : list slot * nat),
  shraw_close w = Ok f -> src_holder_load_h5 w = Ok (holder_obj (h_load f)).
Proof.
  intros w f H. unfold shraw_close in H.
  close_step H sc Esc. close_step H pi Epi. close_step H ci Eci.
  destruct ((length sc =? length pi)%nat && (0 <=? ci)) eqn:G; [|discriminate H].
  apply andb_true_iff in G. destruct G as [L P]. apply Nat.eqb_eq in L. apply Z.leb_le in P.
  injection H as <-.
  unfold src_holder_load_h5. cbv zeta. rewrite Esc, Epi, Eci. cbn [res_bind].
  rewrite src_holder_init_of_nat. cbn [res_bind].
  unfold holder_obj, h_load, holder_new, set_ph_scores, set_ph_pids, set_ph_cur.
  cbn [ph_size ph_scores ph_pids ph_cur h_size h_slots h_cur fst snd].
  rewrite map_snd_combine, map_fst_combine by (symmetry; exact L).
  unfold slot. rewrite combine_length, <- L, Nat.min_id, Z2Nat.id by exact P. reflexivity.
Qed.

Corollary src_holder_load_h5_of_file : forall f : list slot * nat,
  src_holder_load_h5 (shraw_of_file f) = Ok (holder_obj (h_load f)).
Proof. intros f. apply src_holder_load_h5_is_model, close_shraw_of_file. Qed.

(* ---------- the round trip through the two translated methods ---------- *)
Theorem src_holder_save_load_is_model : forall h : holder,
  (dor w <- src_holder_save_h5 (holder_obj h); src_holder_load_h5 w) = Ok (holder_obj (h_load (h_save h))).
Proof. intros h. rewrite src_holder_save_h5_writes. cbn [res_bind]. apply src_holder_load_h5_of_file. Qed.

(* C06_save_load as a statement about the translated source: the reloaded object has the saved arrays and index, and its
   size attribute is the length of the score array *)
Theorem src_holder_round_trip : forall h : holder,
  exists o, (dor w <- src_holder_save_h5 (holder_obj h); src_holder_load_h5 w) = Ok o
    /\ ph_scores o = ph_scores (holder_obj h) /\ ph_pids o = ph_pids (holder_obj h) /\ ph_cur o = ph_cur (holder_obj h)
    /\ ph_size o = Z.of_nat (length (ph_scores (holder_obj h))).
Proof.
  intros h. exists (holder_obj (h_load (h_save h))). split; [apply src_holder_save_load_is_model|].
  destruct (save_load h) as (Es & Ec & Ez). unfold holder_obj. cbn [ph_size ph_scores ph_pids ph_cur].
  rewrite Es, Ec, Ez, map_length. repeat split; reflexivity.
Qed.

(* get_score on a reloaded holder is get_score on the saved one *)
Corollary src_holder_get_score_after_reload : forall (h : holder) (pid : Z),
  (dor w <- src_holder_save_h5 (holder_obj h); dor o <- src_holder_load_h5 w; src_holder_get_score o pid) = h_get_score h pid.
Proof.
  intros h pid. rewrite src_holder_save_h5_writes. cbn [res_bind]. rewrite src_holder_load_h5_of_file. cbn [res_bind].
  rewrite src_holder_get_score_is_model. unfold h_get_score. now destruct (save_load h) as (-> & _ & _).
Qed.
