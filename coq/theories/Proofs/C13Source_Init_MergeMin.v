(* C13: MergeMinPlateSmoother.__init__ (Generated/SrcInits.v) stores its argument: the attribute the translated methods of the class read
   (`self.<attr>` = the model parameter of their links) is the value the object was constructed with - min_size *)
From Coq Require Import ZArith List Bool.
From Batchie Require Import Lib.Sexp Lib.PyRt Model.Encode Generated.SrcInits.
Import ListNotations.
Open Scope Z_scope.

Theorem src_merge_min_init_stores : forall min_size : Z, src_merge_min_init min_size = Ok min_size.
Proof. reflexivity. Qed.
