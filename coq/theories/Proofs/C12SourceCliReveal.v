(* reveal_plate.main over the C12 / C03 vocabulary (Model/Reveal.v): the translated wrapper, with the library call
   reveal_plates standing for the TRANSLATED library function (Generated/SrcReveal.v), is load, the model's
   reveal_plates (mappings carried), save. *)
From Coq Require Import ZArith List Bool.
From Batchie Require Import Lib.Sexp Lib.PyRt Model.Encode Model.Screen Model.Reveal Generated.SrcReveal Proofs.C12Source_Reveal.
From Batchie Require Import Proofs.PyRtLemmas.
From Batchie Require Model.Cli Generated.SrcCli Proofs.C12SourceCli.
Import ListNotations.
Open Scope Z_scope.

Theorem src_cli_reveal_plate_reveal : forall (load : Cli.path -> result screen) (a : Cli.rp_args),
  SrcCli.src_cli_reveal_plate screen (Cli.mk_rp_lib load src_reveal_plates) a
  = dor s <- load (Cli.rp_screen a);
    dor s' <- reveal_plates (carry_mappings true) s (Cli.rp_plate_id a);
    Ok [(Cli.rp_output a, s')].
Proof.
  intros. rewrite C12SourceCli.src_cli_reveal_plate_is_model. unfold Cli.cli_reveal_plate.
  cbn [Cli.rp_load_screen Cli.rp_reveal].
  destruct (load (Cli.rp_screen a)) as [s|t]; cbn [res_bind]; [|reflexivity].
  rewrite src_reveal_plates_is_model. reflexivity.
Qed.
