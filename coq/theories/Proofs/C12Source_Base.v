(* C12 / C03, one piece of the links of Proofs/C12Source.v (which see): auxiliary facts that mention no translated function *)
From Coq Require Import ZArith List Bool Lia Arith.
From Batchie Require Import Lib.Sexp Lib.PyRt Generated.Consts Generated.SrcArithC03 Model.Encode Model.Screen Model.Reveal
  Model.Holdout Generated.SrcReveal Proofs.PyRtLemmas Proofs.C03Base Proofs.C03Screen Proofs.C12Reveal Proofs.C03Frozen Proofs.C03Witness.
Import ListNotations.
Open Scope Z_scope.

(* ---------- lists ---------- *)
Lemma combine_fst_snd {A B} (l : list (A * B)) : combine (map fst l) (map snd l) = l.
Proof. induction l as [|[a b] l IH]; cbn [map combine fst snd]; [reflexivity | now rewrite IH]. Qed.

Lemma select_map {A B} (f : A -> B) sel : forall l, select sel (map f l) = map f (select sel l).
Proof.
  induction sel as [|b sel IH]; intros [|a l]; cbn [select map]; try reflexivity.
  destruct b; cbn [map]; now rewrite IH.
Qed.

Lemma forallb_id_map {A} (f : A -> bool) l : forallb (fun x => x) (map f l) = forallb f l.
Proof. induction l as [|a l IH]; cbn [map forallb]; [reflexivity | now rewrite IH]. Qed.

Lemma existsb_id_map {A} (f : A -> bool) l : existsb (fun x => x) (map f l) = existsb f l.
Proof. induction l as [|a l IH]; cbn [map existsb]; [reflexivity | now rewrite IH]. Qed.

Lemma res_bind_ok_r {A} (x : result A) : (dor r <- x; Ok r) = x.
Proof. destruct x; reflexivity. Qed.

(* ---------- Screen(...) on the columns of a screen ---------- *)
(* the rows of a screen with the mask column replaced *)
Definition remask (rows : list row) (mk : list bool) : list row :=
  map (fun rb => with_mask (snd rb) (fst rb)) (combine rows mk).

Lemma zip_rows_cols rows : forall mk,
  zip_rows (map (fun r => map fst (r_treats r)) rows) (map (fun r => map snd (r_treats r)) rows)
           (map r_sample rows) (map r_plate rows) (map r_obs rows) mk
  = remask rows mk.
Proof.
  unfold remask. induction rows as [|r rows IH]; intros [|b mk]; cbn [map zip_rows combine fst snd]; try reflexivity.
  rewrite IH, combine_fst_snd. reflexivity.
Qed.

Lemma remask_const b rows : remask rows (repeat b (length rows)) = map (with_mask b) rows.
Proof.
  unfold remask. induction rows as [|r rows IH]; cbn [length repeat combine map fst snd]; [reflexivity | now rewrite IH].
Qed.

Lemma remask_or rows : forall sel,
  remask rows (np_or (map r_mask rows) sel)
  = map (fun rb => with_mask (r_mask (fst rb) || snd rb) (fst rb)) (combine rows sel).
Proof.
  unfold remask, np_or. induction rows as [|r rows IH]; intros [|b sel]; cbn [map combine fst snd]; try reflexivity.
  now rewrite IH.
Qed.

(* the call Screen(<the five data columns of s>, observation_mask = mk, control name, both mappings of s) *)
Lemma py_screen_of_screen s mk :
  py_screen (col_tnames s) (col_tdoses s) (col_samples s) (col_plates s) (Some (col_obs s)) (Some mk)
            (Some (s_ctrl s)) (Some (attr_tmap s)) (Some (attr_smap s))
  = rebuild true s (remask (s_rows s) mk).
Proof.
  unfold py_screen, rebuild, col_tnames, col_tdoses, col_samples, col_plates, col_obs, attr_tmap, attr_smap, tmap_arg, smap_arg.
  cbn [fst snd]. now rewrite zip_rows_cols.
Qed.

Lemma with_cols_self r : with_cols (r_obs r) (r_mask r) r = r.
Proof. destruct r; reflexivity. Qed.

Lemma count_true_cons b sel : count_true (b :: sel) = if b then S (count_true sel) else count_true sel.
Proof. unfold count_true. cbn [filter]. destruct b; reflexivity. Qed.

(* writing the values into the observation column and True into the mask column at the selected positions
   = the model's row-wise [assign] *)
Lemma put_cols_assign : forall sel vs rows,
  length sel = length rows -> length vs = count_true sel ->
  put_cols rows (mask_put sel vs (map r_obs rows)) (mask_put sel (repeat true (count_true sel)) (map r_mask rows))
  = assign sel vs rows.
Proof.
  induction sel as [|b sel IH]; intros vs [|r rows] Hl Hv; cbn [length] in Hl; try discriminate; [reflexivity|].
  rewrite count_true_cons in *. cbn [map mask_put assign]. destruct b.
  - destruct vs as [|v vs]; cbn [length] in Hv; [discriminate|]. cbn [repeat put_cols]. rewrite IH by lia. reflexivity.
  - cbn [put_cols]. rewrite IH by lia. now rewrite with_cols_self.
Qed.

(* ---------- the arrays of one screen are aligned ---------- *)
Lemma source_arrays_aligned s ids :
  plates_encoded s ->
  length (np_isin (s_pids s) ids) = length (s_rows s) /\ length (col_obs s) = length (s_rows s) /\
  length (col_mask s) = length (s_rows s) /\ length (np_or (col_mask s) (np_isin (s_pids s) ids)) = length (s_rows s).
Proof.
  intros H. apply plates_encoded_length in H. unfold np_isin, col_obs, col_mask, np_or.
  rewrite !map_length, combine_length, !map_length, H. repeat split; try reflexivity. apply Nat.min_id.
Qed.
