(* C14, one piece of Proofs/C14Source.v (conventions and objects: see there): ScreenSubset.concat *)
From Coq Require Import ZArith List Bool Arith Lia ZifyBool.
From Batchie Require Import Lib.Sexp Lib.PyRt Model.Encode Model.Screen Model.Views Generated.SrcViews
  Proofs.PyRtLemmas Proofs.C14Lists Proofs.C14Source_Base Proofs.C14Source_ViewInit.
Import ListNotations.
Open Scope Z_scope.

(* the loop of concat: [vs0] is the whole argument list (whose first element the body re-reads) *)
Lemma concat_loop_src (vs0 : list view) (v0 : view)
      (f : option (list bool) -> view -> result (option (list bool))) :
  list_get vs0 0 = Ok v0 ->
  (forall acc v, f acc v =
     dor r <- list_get vs0 0;
     if negb (same_object (view_screen v) (view_screen r)) then Err 23
     else dor acc' <- (if is_none acc then Ok (Some (v_sel v))
                       else dor u <- unwrap acc; Ok (Some (bor_vec u (v_sel v))));
          Ok acc') ->
  forall vs acc, res_fold f vs acc = concat_loop (v_tag v0) acc vs.
Proof.
  intros Hget Hf. induction vs as [|v vs IH]; intros acc; cbn [res_fold concat_loop]; [reflexivity|].
  rewrite Hf, Hget. cbn [res_bind]. unfold same_object, view_screen. cbn [fst].
  destruct (negb (v_tag v =? v_tag v0)); [reflexivity|].
  destruct acc as [s|]; cbn [is_none unwrap res_bind]; apply IH.
Qed.

Lemma concat_loop_some tag : forall vs s, concat_loop tag (Some s) vs <> Ok None.
Proof.
  induction vs as [|v vs IH]; intros s; cbn [concat_loop]; [discriminate|].
  destruct (negb (v_tag v =? tag)); [discriminate | apply IH].
Qed.

Lemma concat_loop_cons tag v vs acc : concat_loop tag acc (v :: vs) <> Ok None.
Proof.
  cbn [concat_loop]. destruct (negb (v_tag v =? tag)); [discriminate | apply concat_loop_some].
Qed.

Theorem src_view_concat_is_model : forall vs : list view, src_view_concat vs = view_concat vs.
Proof.
  intros [|v0 [|v1 r]]; [reflexivity | reflexivity |].
  unfold src_view_concat, view_concat.
  replace (Z.of_nat (length (v0 :: v1 :: r)) =? 1) with false by (cbn [length]; lia).
  replace (Z.of_nat (length (v0 :: v1 :: r)) =? 0) with false by (cbn [length]; lia).
  rewrite (concat_loop_src (v0 :: v1 :: r) v0) by (reflexivity || (intros; reflexivity)).
  destruct (concat_loop (v_tag v0) None (v0 :: v1 :: r)) as [[s|]|e] eqn:E; cbn [res_bind].
  - change (list_get (v0 :: v1 :: r) 0) with (Ok v0). cbn [res_bind unwrap].
    rewrite src_view_init_is_model, res_bind_ok. reflexivity.
  - exfalso. exact (concat_loop_cons _ _ _ _ E).
  - reflexivity.
Qed.
