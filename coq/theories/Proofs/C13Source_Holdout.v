(* C11, the piece of Proofs/C13Source.v (which see) that only C11 states: create_random_holdout *)
From Coq Require Import ZArith List Bool Arith Lia ZifyBool Permutation.
From Batchie Require Import Lib.Sexp Lib.PyRt Model.Encode Model.Screen Model.Retro Model.Pairwise Model.RetroHoldout Model.RetroInit
  Generated.SrcRetro Generated.SrcRetroGen Proofs.PyRtLemmas Proofs.C11Lib Proofs.C11Select Proofs.C13SampleSeg Proofs.C13Optimal Proofs.C13NPlate Proofs.C13Filter Proofs.C11Init Proofs.C13SparseTerm Proofs.C11Source.
Import ListNotations.
Open Scope nat_scope.

(* ---------- create_random_holdout ---------- *)
Theorem src_random_holdout_is_model : forall num den count rows ds,
  src_random_holdout num den count rows ds = holdout_random num den count rows ds.
Proof.
  intros num den count rows ds. unfold src_random_holdout, holdout_random.
  destruct ((num <? 0)%Z || (Z.pos den <? num)%Z); [reflexivity|].
  unfold choose, ceil_size. destruct (take_ints ds) as [[idx ds']|t]; cbn [res_bind]; [|reflexivity].
  destruct (negb (Z.of_nat (length idx) =? match count with Some c => c | None => ceil_frac (length rows) num den end)%Z);
    cbn [res_bind]; [reflexivity|].
  unfold set_true. rewrite repeat_false_vof_idx, vor_vof_idx. cbn [app].
  unfold split_by, screen_without, screen_observed_of.
  destruct (construct (vselect (map negb (vof_idx (length rows) idx)) rows)) as [k|t]; cbn [res_bind]; [|reflexivity].
  destruct (construct (map (set_mask true) (vselect (vof_idx (length rows) idx) rows))) as [h|t]; reflexivity.
Qed.
