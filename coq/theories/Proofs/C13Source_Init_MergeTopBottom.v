(* C13: MergeTopBottomPlateSmoother.__init__ (Generated/SrcInits.v) stores its argument: the attribute the translated methods of the class read
   (`self.<attr>` = the model parameter of their links) is the value the object was constructed with - n_iterations *)
From Coq Require Import ZArith List Bool.
From Batchie Require Import Lib.Sexp Lib.PyRt Model.Encode Generated.SrcInits.
Import ListNotations.
Open Scope Z_scope.

Theorem src_merge_tb_init_stores : forall n_iterations : Z, src_merge_tb_init n_iterations = Ok n_iterations.
Proof. reflexivity. Qed.
