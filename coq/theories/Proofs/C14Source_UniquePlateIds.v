(* C14, one piece of Proofs/C14Source.v (conventions and objects: see there): ScreenBase.unique_plate_ids on a Screen object *)
From Coq Require Import ZArith List Bool Arith Lia ZifyBool.
From Batchie Require Import Lib.Sexp Lib.PyRt Model.Encode Model.Screen Model.Views Generated.SrcViews
  Proofs.PyRtLemmas Proofs.C14Lists.
Import ListNotations.
Open Scope Z_scope.

(* ScreenBase.unique_plate_ids on a Screen object *)
Theorem src_unique_plate_ids_is_model : forall s : pyscreen,
  src_unique_plate_ids s = Ok (sort_uniq Z.compare (s_pids (snd s))).
Proof. reflexivity. Qed.
