(* C13: Pairwise generator - where the single-agent experiments go: each one is put on a generated
   plate that holds a combination experiment of its own sample (never on a plate of its own, never
   on a plate of another sample); every output plate is a generated_plate_k holding a combination row. *)
From Coq Require Import ZArith List Bool Arith Lia Permutation.
From Batchie Require Import Lib.Sexp Model.Encode Model.Screen Model.Retro Model.Pairwise
  Proofs.C11Lib Proofs.C11Gen Proofs.C11Select Proofs.C13Wrap Proofs.C13SampleSeg Proofs.C13MergeLib
  Proofs.C13Pairwise.
Import ListNotations.
Open Scope nat_scope.

Lemma is_combo_relabel : forall ctrl b p r, is_combo ctrl (set_mask b (set_plate p r)) = is_combo ctrl r.
Proof. reflexivity. Qed.

Definition joins_combo (ctrl : name) (nu : list row) (r : row) : Prop :=
  exists c k, In c nu /\ is_combo ctrl c = true /\ r_plate c = r_plate r /\ r_sample c = r_sample r /\
              r_plate r = gen_name k.

Theorem pairwise_joins_combo : forall ctrl subset anchor u ds nu ds',
  pairwise ctrl subset anchor u ds = Ok (nu, ds') -> forall r, In r nu -> joins_combo ctrl nu r.
Proof.
  intros ctrl subset anchor u ds nu ds' H. unfold pairwise in H.
  set (crows := filter (is_combo ctrl) u) in *. set (srows := filter (fun r => negb (is_combo ctrl r)) u) in *.
  set (tm := build_tmapping ctrl (concat (map r_treats crows))) in *.
  destruct (pw_groupings _ _ _ _) as [[gs ds1]|t]; cbn [res_bind] in H; [|discriminate].
  destruct (take_ints ds1) as [[ctl ds2]|t]; cbn [res_bind] in H; [|discriminate].
  destruct (negb (is_nil ctl)); [discriminate|].
  match type of H with match ?x with _ => _ end = _ => destruct x as [tuples|] eqn:Et end; [|discriminate].
  set (uniq := sort_uniq name_cmp tuples) in *.
  match type of H with (dor c <- construct ?x; _) = _ => set (co0 := x) in * end.
  destruct (construct co0) as [co|t] eqn:Ec; cbn [res_bind] in H; [|discriminate].
  apply construct_ok in Ec. subst co.
  assert (Hco : forall c, In c co0 -> is_combo ctrl c = true /\ exists k, r_plate c = gen_name k).
  { intros c Hc. apply in_map_iff in Hc as ([t r] & <- & Hin). rewrite is_combo_relabel. split.
    - apply in_combine_r in Hin. apply filter_In in Hin as [_ Hf]. exact Hf.
    - cbn [fst snd set_mask set_plate r_plate]. eauto. }
  destruct (is_nil srows) eqn:En.
  - inversion H; subst. intros r Hr. destruct (Hco r Hr) as [Hc [k Hk]]. exists r, k. auto.
  - destruct (pw_singles _ _ _ _ _) as [[names ds3]|t] eqn:Es; cbn [res_bind] in H; [|discriminate].
    match type of H with (dor c <- construct ?x; _) = _ => set (so0 := x) in * end.
    destruct (construct so0) as [so|t] eqn:Ec2; cbn [res_bind] in H; [|discriminate].
    apply construct_ok in Ec2. subst so.
    destruct (construct (co0 ++ so0)) as [al|t] eqn:Ec3; cbn [res_bind] in H; [|discriminate].
    apply construct_ok in Ec3. inversion H; subst nu ds' al. clear H.
    apply (pw_singles_spec co0 _ srows (fun _ => False)) in Es.
    + intros r Hr. apply in_app_or in Hr as [Hr|Hr].
      * destruct (Hco r Hr) as [Hc [k Hk]]. exists r, k. split; [apply in_or_app; now left|auto].
      * apply in_map_iff in Hr as ([nm r0] & <- & Hin).
        pose proof (Forall2_combine_In _ _ _ _ _ Es Hin) as Hok. cbn in Hok.
        destruct Hok as (c0 & Hc0 & Hp & Hs).
        -- left. apply In_sample_names. exists r0. split; [eapply in_combine_r; exact Hin|reflexivity].
        -- destruct (Hco c0 Hc0) as [Hc [k Hk]]. exists c0, k.
           cbn [fst snd set_mask set_plate r_plate r_sample]. split; [apply in_or_app; now left|].
           split; [exact Hc|]. split; [exact Hp|]. split; [exact Hs|congruence].
    + clear. induction srows as [|r l IH]; cbn [map]; constructor; [intros []|exact IH].
Qed.

Theorem pairwise_joins_combo_w : forall ctrl subset anchor rows ds out ds',
  generate_plates (GPairwise ctrl subset anchor) rows ds = Ok (out, ds') ->
  forall r, In r (unobserved out) -> joins_combo ctrl (unobserved out) r.
Proof.
  intros ctrl subset anchor rows ds out ds' H. apply generate_wrap_unobs in H as [[_ E]|H].
  - rewrite E. intros r [].
  - cbn [generate_inner] in H. eapply pairwise_joins_combo; exact H.
Qed.
