(* C14, one piece of Proofs/C14Source.v (conventions and objects: see there): Screen.plates *)
From Coq Require Import ZArith List Bool Arith Lia ZifyBool.
From Batchie Require Import Lib.Sexp Lib.PyRt Model.Encode Model.Screen Model.Views Generated.SrcViews
  Proofs.PyRtLemmas Proofs.C14Lists Proofs.C14Source_Base Proofs.C14Source_GetPlate Proofs.C14Source_UniquePlateIds.
Import ListNotations.
Open Scope Z_scope.

Theorem src_plates_is_model : forall s : pyscreen, src_plates s = plates (fst s) (snd s).
Proof.
  intros s. unfold src_plates, plates. rewrite src_unique_plate_ids_is_model. cbn [res_bind].
  rewrite res_bind_ok. apply res_map_all_ext. intros x. rewrite res_bind_ok. apply src_get_plate_is_model.
Qed.
