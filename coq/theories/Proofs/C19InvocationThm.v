(* C19 — closed statements about invocations of main() and about the operator's screens. *)
From Coq Require Import ZArith List Bool Lia Arith.
From Batchie Require Import Model.Orchestrate Proofs.C19Base Proofs.C19Canon Proofs.C19Step Proofs.C19Main
  Proofs.C19Invocation.
Import ListNotations.
Open Scope Z_scope.

(* a session is nothing but the script_run of its schedule, cut at the points where main() returns or dies:
   every theorem about script_run (C19_resume_correct, C19_step_safe, ...) speaks about sessions *)
Theorem session_is_script_run md fixed bs n f sched :
  fst (script_session md fixed bs n f sched) = fst (script_run md fixed bs n f sched) /\
  concat (map i_calls (snd (script_session md fixed bs n f sched))) = snd (script_run md fixed bs n f sched).
Proof. unfold script_session. apply session_flat. lia. Qed.

Section Thm.
Variables (bs n : nat) (fixed : bool).
Hypothesis Hbs : (1 <= bs)%nat.
Hypothesis Hn : (1 <= n)%nat.
Hypothesis Hfix : fixed = true \/ bs = 1%nat.
Local Notation B := (Z.of_nat bs).

Lemma reach2 md sched : sched_ok sched ->
  exists c x, fst (script_run md fixed B n [] sched) = canon md bs n c x /\ Inv2 md n c x.
Proof.
  intros Hs. rewrite <- (canon_0 md bs n Hbs Hn).
  apply (inv2_run md bs n fixed Hbs Hn Hfix sched 0%nat XNone Hs). apply (inv2_init md bs n fixed Hbs Hn Hfix).
Qed.

(* (a) *)
Theorem invocation_stays_in_batch md sched : sched_ok sched ->
  let recs := snd (script_session md fixed B n [] sched) in
  (forall s r l, In (s, r, l) (launches_of recs) -> exists c, (s, r, l) = ideal_stamped md bs c) /\
  (md = Prosp ->
   Forall (fun rc => forall s l ps ok, In (GLaunch s l ps ok) (i_calls rc) -> fst s = i_screen rc) recs).
Proof.
  intros Hs. cbn zeta. unfold script_session. rewrite <- (canon_0 md bs n Hbs Hn).
  destruct (session_canon md bs n fixed Hbs Hn Hfix (length sched) sched 0%nat XNone Hs (inv2_init md bs n fixed Hbs Hn Hfix))
    as (c' & x' & _ & _ & Hrecs).
  set (recs := snd (session (length sched) md fixed B n (canon md bs n 0 XNone) sched)) in *. split.
  - intros s r l Hin. unfold launches_of in Hin. apply in_flat_map in Hin as (rc & Hrc & Hin).
    rewrite Forall_forall in Hrecs. exact (rec_ok_launches md bs fixed Hfix rc (Hrecs rc Hrc) s r l Hin).
  - intros Emd. eapply Forall_impl; [|exact Hrecs]. intros rc (c0 & Escr & Hl) s l ps ok Hin.
    rewrite Forall_forall in Hl. specialize (Hl _ Hin). cbn [launch_in] in Hl.
    destruct Hl as (k & _ & -> & _ & Hp). rewrite Escr. unfold ideal_screen, step_of. rewrite Emd. cbn [fst].
    now rewrite (Hp Emd).
Qed.

Theorem operator_screen_is_current_iteration md sched : sched_ok sched ->
  let f := fst (script_run md fixed B n [] sched) in
  match examine fixed B f with
  | XOk (i, _, _, _) => op_screen Prosp B f = i
  | XNamed _ s => op_screen Prosp B f = fst s
  end.
Proof.
  intros Hs. cbn zeta. destruct (reach2 md sched Hs) as (c & x & -> & Hx & _).
  exact (op_screen_examine md bs n fixed Hbs Hn Hfix c x Hx).
Qed.

(* the never-interrupted prospective execution: q invocations, invocation k is given screen k, makes exactly
   bs calls and returns; launch number c (step (c / bs, c mod bs)) reads screen c / bs *)
Theorem uninterrupted_session_prosp e q :
  entry_ok e = true -> full_entry e -> (bs <= n)%nat ->
  let sr := script_session Prosp fixed B n [] (repeat e (q * bs)) in
  completed (fst sr) = ideal Prosp bs n (q * bs)
  /\ launches_of (snd sr) = map (ideal_stamped Prosp bs) (seq 0 (q * bs))
  /\ map i_screen (snd sr) = map Z.of_nat (seq 0 q)
  /\ Forall (fun rc => length (i_calls rc) = bs /\ i_end rc = IReturned) (snd sr).
Proof.
  intros He Hf Hbn. cbn zeta. unfold script_session. rewrite repeat_length.
  pose proof (session_full_prosp Prosp bs n fixed Hbs Hn Hfix e eq_refl He Hf Hbn q (q * bs)%nat 0%nat ltac:(nia)) as H.
  cbn zeta in H. cbn [Nat.mul Nat.add] in H. rewrite (canon_0 Prosp bs n Hbs Hn) in H.
  destruct H as (H1 & H2 & H3 & H4). rewrite H1. split; [|auto].
  now rewrite (completed_canon Prosp bs n Hbs Hn) by exact I.
Qed.

(* (b) *)
Theorem invocation_finishes_batch sched0 e rest :
  sched_ok sched0 -> entry_ok e = true -> full_entry e -> (bs <= n)%nat ->
  let f := fst (script_run Prosp fixed B n [] sched0) in
  let c := length (completed f) in
  let m := (bs - c mod bs)%nat in
  (forall w s, plan_of Prosp fixed B f <> PNamed w s) ->
  let r := invocation Prosp fixed B n f (repeat e m ++ rest) in
  r_end r = IReturned /\ r_rest r = rest
  /\ map launch_key (r_calls r) = map (ideal_key Prosp bs) (seq c m)
  /\ completed (r_fs r) = ideal Prosp bs n (c + m).
Proof.
  intros Hs He Hf Hbn. cbn zeta. destruct (reach2 Prosp sched0 Hs) as (c & x & -> & Hx & _).
  rewrite (completed_canon Prosp bs n Hbs Hn c x Hx), (ideal_length Prosp bs n). intros Hplan.
  assert (Hi : is_inc x = false).
  { destruct x as [| |d]; try reflexivity. exfalso.
    rewrite (plan_canon Prosp bs n Hbs Hn fixed c _ Hx Hfix) in Hplan by discriminate. now eapply Hplan. }
  pose proof (Nat.mod_upper_bound c bs ltac:(lia)) as Hlt.
  pose proof (invocation_full_prosp Prosp bs n fixed Hbs Hn Hfix e eq_refl He Hf Hbn (bs - c mod bs)%nat c x rest
                Hx Hi ltac:(lia) ltac:(lia)) as H.
  cbn zeta in H. destruct H as (H1 & H2 & H3 & H4). rewrite H1, H2, H3, H4.
  repeat split. now rewrite (completed_canon Prosp bs n Hbs Hn) by exact I.
Qed.

(* (c) *)
Theorem retro_invocation_stops sched0 sched :
  sched_ok sched0 -> sched_ok sched ->
  let f := fst (script_run Retro fixed B n [] sched0) in
  let r := invocation Retro fixed B n f sched in
  (r_end r = IReturned ->
     completed (r_fs r) = crash_free Retro bs n /\
     exists pre, r_calls r = pre ++ [GDone] /\ Forall (fun g => exists s l ps, g = GLaunch s l ps true) pre) /\
  (completed f = crash_free Retro bs n -> sched <> [] ->
     r_calls r = [GDone] /\ r_end r = IReturned /\ r_fs r = f).
Proof.
  intros Hs0 Hs. cbn zeta. destruct (reach2 Retro sched0 Hs0) as (c & x & -> & Hi).
  split.
  - intros Hend.
    destruct (invocation_canon Retro bs n fixed Hbs Hn Hfix sched c x Hs Hi) as (c' & x' & E & [Hx' _] & _ & _ & _ & Hret).
    cbn zeta in *. rewrite E, (completed_canon Retro bs n Hbs Hn c' x' Hx'), (Hret eq_refl Hend). split; [reflexivity|].
    pose proof (invocation_calls Retro fixed B n sched (canon Retro bs n c x)) as Hc. cbn zeta in Hc. rewrite Hend in Hc.
    destruct Hc as (pre & g & Ec & Hpre & Hg). exists pre.
    rewrite (call_false_retro Retro bs g eq_refl Hg) in Ec. split; [exact Ec|].
    eapply Forall_impl; [|exact Hpre]. intros g' Hg'.
    destruct (call_true_inv Retro bs g' Hg') as (s & l & ps & -> & _). eauto.
  - destruct Hi as [Hx Hr]. rewrite (completed_canon Retro bs n Hbs Hn c x Hx). unfold crash_free. intros Ec Hne.
    apply (f_equal (@length _)) in Ec. rewrite !(ideal_length Retro bs n) in Ec.
    destruct (Hr eq_refl) as [_ Hni]. specialize (Hni Ec).
    destruct sched as [|e rest]; [congruence|]. cbn [invocation].
    rewrite (attempt_all_done Retro bs n fixed Hbs Hn Hfix c x e eq_refl Hx Hni Ec). cbn. auto.
Qed.

(* the never-interrupted retrospective invocation: n launches, then one call that returns False *)
Theorem uninterrupted_invocation_retro e e' rest :
  entry_ok e = true -> full_entry e ->
  let r := invocation Retro fixed B n [] (repeat e n ++ e' :: rest) in
  completed (r_fs r) = crash_free Retro bs n /\ r_end r = IReturned /\ r_rest r = rest
  /\ map launch_key (r_calls r) = map (ideal_key Retro bs) (seq 0 n) ++ [None].
Proof.
  intros He Hf. cbn zeta. rewrite <- (canon_0 Retro bs n Hbs Hn).
  exact (invocation_full_retro Retro bs n fixed Hbs Hn Hfix e e' eq_refl He Hf n 0%nat XNone rest I eq_refl eq_refl).
Qed.

End Thm.
