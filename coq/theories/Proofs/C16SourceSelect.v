(* C16: the hand-written model Policy.select_next (with Policy.select_args) equals the translation of
   batchie.scoring.main.select_next_plate regenerated from /repo on every run in the C16 vocabulary
   (Generated/SrcScoringPolicy.v, by harness/py2gal.py with configuration C16_SELECT), for all inputs. *)
From Coq Require Import ZArith List Bool Lia Permutation.
From Batchie Require Import Lib.Sexp Lib.PyRt Model.Policy Generated.SrcScoringPolicy Proofs.PyRtLemmas
  Proofs.C16Policy Proofs.C16Hist Proofs.C16Select.
Import ListNotations.
Open Scope Z_scope.

(* what select_next_plate hands the policy, for a screen whose Plate objects carry `obs` as is_observed *)
Lemma select_args_obs (obs : plate -> bool) ps batch :
  select_args (map (fun p => (p, obs p)) ps) batch
  = (filter (fun p => mem (plate_id p) batch) ps,
     sort_by_id (filter (fun p => negb (obs p) && negb (mem (plate_id p) batch)) ps)).
Proof.
  unfold select_args. f_equal; [|f_equal]; induction ps as [|p ps IH]; cbn [map filter fst snd]; try reflexivity.
  - destruct (mem (plate_id p) batch); cbn [map fst]; now rewrite IH.
  - destruct (negb (obs p) && negb (mem (plate_id p) batch)); cbn [map fst]; now rewrite IH.
Qed.

Theorem src_select_next_plate_k_is_model : forall (k : Z) (obs : plate -> bool) (scores : list (Z * Z))
    (ps : list plate) (batch : option (list Z)) (rng : option rng_t),
  src_select_next_plate_k obs scores ps (Some k) batch rng
  = dor r <- select_next k (map (fun p => (p, obs p)) ps) scores (match batch with Some b => b | None => [] end);
    match snd r with
    | None => Ok None
    | Some i => dor _ <- plate_name (get_plate ps i); Ok (Some (get_plate ps i))
    end.
Proof.
  intros k obs scores ps batch rng. unfold src_select_next_plate_k, select_next.
  rewrite select_args_obs. cbn [is_none unwrap res_bind].
  set (b := match batch with Some v => v | None => [] end).
  change (fun plate' : plate => zmem (plate_id plate') b) with (fun p : plate => mem (plate_id p) b).
  change (fun plate' : plate => negb (obs plate') && negb (zmem (plate_id plate') b))
    with (fun p : plate => negb (obs p) && negb (mem (plate_id p) b)).
  destruct (filter_eligible k _ _) as [el|t]; cbn [res_bind]; [|reflexivity].
  destruct el as [|p el]; cbn [is_nil negb res_bind snd]; [reflexivity|].
  fold (map plate_id (p :: el)).
  destruct (min_score_id scores (map plate_id (p :: el))) as [best|t]; cbn [res_bind snd]; [|reflexivity].
  destruct (plate_name (get_plate ps best)); reflexivity.
Qed.

(* ---- on a screen whose plate ids are distinct (screen.plates comes from np.unique) the name lookup of the
        chosen plate cannot fail ---- *)
Lemma find_id_NoDup ps p : NoDup (map plate_id ps) -> In p ps -> find_id (plate_id p) ps = Some p.
Proof.
  unfold find_id. induction ps as [|q ps IH]; intros Hnd Hin; [destruct Hin|].
  cbn [map] in Hnd. inversion Hnd as [|? ? Hn Hd]; subst. cbn [find].
  destruct Hin as [->|Hin]; [now rewrite Z.eqb_refl|].
  destruct (Z.eqb_spec (plate_id q) (plate_id p)) as [E|_]; [|now apply IH].
  exfalso. apply Hn. rewrite E. now apply in_map.
Qed.

Lemma single_rows p : single p = true -> rows p <> [].
Proof. unfold single. destruct (rows p); [discriminate | discriminate]. Qed.

Lemma chosen_plate_has_name k obs ps scores b ids i :
  NoDup (map plate_id ps) ->
  select_next k (map (fun p => (p, obs p)) ps) scores b = Ok (ids, Some i) ->
  exists p, In p ps /\ plate_id p = i /\ get_plate ps i = p /\ plate_name p = Ok i.
Proof.
  intros Hnd. unfold select_next. rewrite select_args_obs.
  destruct (filter_eligible k _ _) as [el|t] eqn:Efe; cbn [res_bind]; [|discriminate].
  destruct el as [|p0 el]; [discriminate|].
  destruct (min_score_id scores (map plate_id (p0 :: el))) as [best|t] eqn:Em; cbn [res_bind]; [|discriminate].
  intros H. injection H as _ <-.
  apply min_score_id_In in Em. apply in_map_iff in Em. destruct Em as (p & Hid & Hel).
  destruct (fe_cases _ _ _ _ Efe) as [Hs _].
  apply (proj2 (c16_eligible_subset _ _ _ _ Efe)) in Hel.
  assert (Hsp : single p = true).
  { rewrite forallb_forall in Hs. apply Hs. apply in_or_app. now right. }
  assert (Hps : In p ps).
  { apply (Permutation_in _ (sort_perm _)) in Hel. now apply filter_In in Hel. }
  exists p. repeat split; [exact Hps | exact Hid | |].
  - unfold get_plate. rewrite <- Hid. now rewrite find_id_NoDup.
  - unfold plate_name. pose proof (single_rows p Hsp). destruct (rows p); [congruence | now rewrite Hid].
Qed.

Corollary src_select_next_plate_k_distinct_ids : forall (k : Z) (obs : plate -> bool) (scores : list (Z * Z))
    (ps : list plate) (batch : option (list Z)) (rng : option rng_t),
  NoDup (map plate_id ps) ->
  src_select_next_plate_k obs scores ps (Some k) batch rng
  = dor r <- select_next k (map (fun p => (p, obs p)) ps) scores (match batch with Some b => b | None => [] end);
    Ok (option_map (get_plate ps) (snd r)).
Proof.
  intros k obs scores ps batch rng Hnd. rewrite src_select_next_plate_k_is_model.
  destruct (select_next k _ scores _) as [[ids [i|]]|t] eqn:E; cbn [res_bind snd option_map]; try reflexivity.
  destruct (chosen_plate_has_name _ _ _ _ _ _ _ Hnd E) as (p & _ & _ & -> & ->). reflexivity.
Qed.
