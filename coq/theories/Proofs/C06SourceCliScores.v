(* calculate_scores.main and select_next_plate.main over the C06 vocabulary (Model/Scores.v): the translated wrappers,
   with the library calls score_chunk / select_next_plate / ChunkedScoresHolder.concat standing for the TRANSLATED
   library functions (Generated/SrcScoring.v), equal the composition of the hand-written library models. *)
From Coq Require Import ZArith List Bool.
From Batchie Require Import Lib.Sexp Lib.PyRt Model.Scores Model.Cli Generated.SrcScoring Generated.SrcCli
  Proofs.PyRtLemmas Proofs.C06Source Proofs.C06SourceCli.
Import ListNotations.
Open Scope Z_scope.

(* the library record of calculate_scores.main over Scores: a scorer object is what its score method answers, given the
   posterior samples, the distance matrix and the generator it is handed (None = the library's own unseeded one), to
   the dict of plates; score_chunk is the translated library function *)
Definition cs_scores_lib (Th Dm : Type) (load_screen : path -> result screen)
    (mk_scorer : result (Th -> Dm -> option gen -> scorer_fn))
    (load_thetas : path -> result Th) (concat_thetas : list Th -> result Th)
    (load_dist : path -> result Dm) (concat_dist : list Dm -> result Dm)
  : cs_lib screen plate Th Dm (Th -> Dm -> option gen -> scorer_fn) holder :=
  mk_cs_lib load_screen plates is_observed p_id mk_scorer load_thetas concat_thetas load_dist concat_dist
    (fun sc th s dm rng _ n i b => src_score_chunk (sc th dm rng) s (option_map (fun _ => tt) rng) n i b).

Theorem src_cli_calculate_scores_scores : forall (Th Dm : Type) load_screen mk_scorer load_thetas concat_thetas load_dist concat_dist
    (mix : Z -> Z) (a : cs_args),
  src_cli_calculate_scores _ _ _ _ _ _
    (cs_scores_lib Th Dm load_screen mk_scorer load_thetas concat_thetas load_dist concat_dist) mix a
  = dor s <- load_screen (cs_data a);
    dor sc <- mk_scorer;
    dor ths <- res_map_all load_thetas (cs_thetas a);
    dor th <- concat_thetas ths;
    dor dms <- res_map_all load_dist (cs_distance_matrix a);
    dor dm <- concat_dist dms;
    dor rng <- prng_of_seed mix (cs_seed a);
    dor ps <- score_chunk s (cs_batch_plate_ids a) (cs_n_chunks a) (cs_chunk_index a);
    dor h <- chunk_holder_of_answer ps (sc th dm (Some rng) ps);
    Ok [(cs_output a, h)].
Proof.
  intros. rewrite src_cli_calculate_scores_is_model. unfold cli_calculate_scores, cs_scores_lib.
  cbn [cs_load_screen cs_mk_scorer cs_load_thetas cs_concat_thetas cs_load_dist cs_concat_dist cs_score_chunk].
  cbn [option_map].
  repeat (first [rewrite src_score_chunk_is_model | cli_step]). all: reflexivity.
Qed.

(* the library record of select_next_plate.main over Scores: a policy object is its filter given the generator;
   select_next_plate and ChunkedScoresHolder.concat are the translated library functions *)
Definition sn_scores_lib (load_screen : path -> result screen) (mk_policy : result (option gen -> policy_t))
    (load_scores : path -> result holder)
  : sn_lib screen plate (option gen -> policy_t) holder :=
  mk_sn_lib load_screen mk_policy load_scores src_concat
    (fun h s po b rng => src_select_next_plate h s (option_map (fun p => p rng) po) b (option_map (fun _ => tt) rng))
    p_id.

Theorem src_cli_select_next_plate_scores : forall load_screen mk_policy load_scores (mix : Z -> Z) (a : sn_args),
  src_cli_select_next_plate _ _ _ _ (sn_scores_lib load_screen mk_policy load_scores) mix a
  = dor s <- load_screen (sn_data a);
    dor policy <- match sn_policy a with Some _ => dor p <- mk_policy; Ok (Some p) | None => Ok None end;
    dor rng <- prng_of_seed mix (sn_seed a);
    dor hs <- res_map_all load_scores (sn_scores a);
    dor h <- h_concat hs;
    dor r <- select_next (option_map (fun p => p (Some rng)) policy) s (sn_batch_plate_id a) h;
    Ok [(sn_output a, match r with Some id => id | None => -1 end)].
Proof.
  intros. rewrite src_cli_select_next_plate_is_model. unfold cli_select_next_plate, sn_scores_lib.
  cbn [sn_load_screen sn_mk_policy sn_load_scores sn_concat_scores sn_select sn_plate_id].
  cli_step.
  assert (E : forall (po : option (option gen -> policy_t)) (rng : gen) (hs : list holder),
    (dor scores <- src_concat hs;
     dor next <- src_select_next_plate scores a0 (option_map (fun p => p (Some rng)) po) (Some (sn_batch_plate_id a))
                   (option_map (fun _ => tt) (Some rng));
     Ok [(sn_output a, match next with Some p => p_id p | None => -1 end)])
    = (dor h <- h_concat hs;
       dor r <- select_next (option_map (fun p => p (Some rng)) po) a0 (sn_batch_plate_id a) h;
       Ok [(sn_output a, match r with Some id => id | None => -1 end)])).
  { intros po rng hs. rewrite src_concat_is_model. destruct (h_concat hs) as [h|t]; cbn [res_bind]; [|reflexivity].
    rewrite src_select_next_plate_is_model.
    destruct (select_next (option_map (fun p => p (Some rng)) po) a0 (sn_batch_plate_id a) h) as [[id|]|t];
      cbn [res_bind option_map get_plate p_id]; reflexivity. }
  repeat (first [apply E | cli_step]).
Qed.
